#!/bin/sh
# Build the analyser offline from the module cache.
set -e
cd "$(dirname "$0")/engine"
export PATH=/opt/veriftools/go1.26.8/bin:$PATH GOTOOLCHAIN=local GOFLAGS=-mod=mod GOPROXY=off GOSUMDB=off
unset GOWORK
go build -o ../bin/rvcheck ./cmd/rvcheck
