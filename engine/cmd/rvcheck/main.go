// Command rvcheck decides the structural clauses of one property of redis/rueidis from source.
package main

import (
	"encoding/json"
	"flag"
	"fmt"
	"os"
	"path/filepath"
	"runtime/debug"
	"sort"
	"strconv"
	"time"

	"rvcheck/rv"
)

func main() {
	prop := flag.String("prop", "", "property id (Cnn)")
	tier := flag.String("tier", "quick", "quick|thorough")
	repo := flag.String("repo", "/repo", "repository root")
	verif := flag.String("verif", "/verif", "verification directory (evidence, known findings)")
	list := flag.Bool("list", false, "list registered properties")
	describe := flag.Bool("describe", false, "print the registry as JSON")
	flag.Parse()
	if *describe {
		out := map[string]map[string]string{}
		for id, d := range rv.Registry {
			out[id] = map[string]string{"explanation": d.Explanation, "not_decided": d.NotDecided, "technique": d.Technique, "module": d.Module}
		}
		b, _ := json.MarshalIndent(out, "", " ")
		fmt.Println(string(b))
		return
	}
	if *list {
		var ids []string
		for id := range rv.Registry {
			ids = append(ids, id)
		}
		sort.Strings(ids)
		for _, id := range ids {
			fmt.Println(id)
		}
		return
	}
	def, ok := rv.Registry[*prop]
	if !ok {
		fmt.Printf("unknown property %q\n", *prop)
		os.Exit(2)
	}
	seed, _ := strconv.ParseInt(os.Getenv("VERIF_SEED"), 10, 64)
	start := time.Now()
	configs := [][2]string{{"", ""}}
	if *tier == "thorough" {
		configs = [][2]string{{"", ""}, {"linux", "386"}, {"linux", "arm64"}, {"darwin", "arm64"}, {"windows", "amd64"}}
	}
	r := rv.NewReport(*prop, *tier)
	r.Explanation, r.NotDecided = def.Explanation, def.NotDecided
	code := 0
	for i, cfg := range configs {
		sub := r
		if i > 0 {
			sub = rv.NewReport(*prop, *tier)
		}
		func() {
			defer func() {
				if e := recover(); e != nil {
					fmt.Printf("analyser panic (%s/%s): %v\n%s\n", cfg[0], cfg[1], e, debug.Stack())
					fmt.Printf("VIOLATION property=%s replay=%s reason=checker-error\n", *prop, filepath.Join(*verif, "evidence", "replay", *prop+".json"))
					os.Exit(1)
				}
			}()
			p, err := rv.Load(filepath.Join(*repo, def.Module), cfg[0], cfg[1])
			if err != nil && i > 0 {
				// an additional build configuration in which the module itself does not type-check
				// (for instance rueidisprob on 32-bit targets: an untyped constant overflows uint)
				// has no behaviour to check; it is recorded, the host configuration decides
				skipped, _ := r.Extra["build_configs_not_building"].([]string)
				r.Extra["build_configs_not_building"] = append(skipped, cfg[0]+"/"+cfg[1]+": "+err.Error())
				return
			}
			if err != nil {
				fmt.Println(err)
				fmt.Printf("VIOLATION property=%s replay=%s reason=checker-error(load)\n", *prop, filepath.Join(*verif, "evidence", "replay", *prop+".json"))
				os.Exit(1)
			}
			sub.P = p
			rv.CurrentProg = p
			sub.Packages = len(p.Pkgs)
			def.Run(sub)
			r.Configs = append(r.Configs, p.Config)
			if i > 0 {
				// merge: obligations of additional build configurations count only when violated or
				// when they add constructs; they are appended with the configuration in the rule id
				for _, o := range sub.Obs {
					o.Retag(p.Config)
					r.Obs = append(r.Obs, o)
				}
				for f := range sub.Funcs {
					r.Funcs[f] = true
				}
			}
		}()
	}
	if *tier == "thorough" {
		rv.Sensitivity(r, *prop, *repo, *verif)
	}
	code = r.Finish(*verif, start, seed)
	os.Exit(code)
}
