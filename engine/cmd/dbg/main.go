package main

import (
	"fmt"
	"rvcheck/rv"
	"golang.org/x/tools/go/ssa"
)

func main() {
	p, err := rv.Load("/repo", "", "")
	if err != nil { panic(err) }
	fn := p.Fn("rueidis.(*singleClient).Do")
	for _, b := range fn.Blocks {
		for _, in := range b.Instrs {
			if c, ok := in.(*ssa.Call); ok {
				fmt.Println(rv.CalleeName(c), rv.Desc(c))
			}
		}
	}
}
