package main

import (
	"fmt"
	"os"
	"rvcheck/rv"
	"golang.org/x/tools/go/ssa"
)

func main() {
	p, err := rv.Load("/repo", "", "")
	if err != nil { panic(err) }
	fn := p.Fn(os.Args[1])
	fn.WriteTo(os.Stdout)
	_ = fmt.Sprint
	_ = ssa.Value(nil)
}
