package main

import (
	"os"
	"rvcheck/rv"
)

func main() {
	p, err := rv.Load(os.Args[1], "", "")
	if err != nil { panic(err) }
	fn := p.Fn(os.Args[2])
	fn.WriteTo(os.Stdout)
}
