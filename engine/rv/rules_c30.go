package rv

import (
	"fmt"
	"go/token"
	"strings"

	"golang.org/x/tools/go/ssa"
)

func init() {
	Registry["C30"] = RuleDef{Module: ".", Run: runC30,
		Technique:   "path-wise policy check over the loop-free control-flow graph of Lua.Exec (branch conditions resolved along each path), lock-set and guard rules for the SHA loading, emission and result-count rules for ExecMulti",
		Explanation: "Decides for Lua.Exec on every path (R30a) that at most one EVALSHA-family and at most one EVAL-family command is sent, that an EVAL(_RO) is sent only when the script is a NoSha script or when the value tested is RedisError.IsNoScript() of the reply to the EVALSHA sent on that same path, that EVALSHA(_RO) is never sent for a NoSha script or with an empty SHA, and that the _RO builders are used exactly under the read-only flag; (R30b) that SCRIPT LOAD is sent only with WithLoadSHA1 and an empty cached SHA, re-checked under the write lock, and the SHA is stored only when the load succeeded; (R30c) that ExecMulti appends exactly one command per LuaExec on every path of its loop, sends exactly that slice, and returns len(multi) results on its failure arm.",
		NotDecided:  "the server's script cache behaviour; whether an EVALSHA that failed with another error had side effects."}
}

func luaSendKind(c *ssa.Call) string {
	if c.Call.IsInvoke() && c.Call.Method.Name() == "Do" && strings.Contains(shortType(c.Call.Value.Type()), "Client") {
		d := DescDeep(c.Call.Args[1])
		switch {
		case strings.Contains(d, "(Builder).EvalshaRo("):
			return "EVALSHA_RO"
		case strings.Contains(d, "(Builder).Evalsha("):
			return "EVALSHA"
		case strings.Contains(d, "(Builder).EvalRo("):
			return "EVAL_RO"
		case strings.Contains(d, "(Builder).Eval("):
			return "EVAL"
		case strings.Contains(d, "(Builder).ScriptLoad("):
			return "SCRIPT LOAD"
		}
		return "other"
	}
	return ""
}

func runC30(r *Report) {
	p := r.P
	ex := r.FnAnchor("R30a", "rueidis.(*Lua).Exec")
	if ex != nil {
		nPaths := 0
		viol := map[string]string{}
		seenKinds := map[string]int{}
		complete := EnumBlockPaths(ex, 50000, func(path []*ssa.BasicBlock) {
			conds := PathConds(path)
			// prune paths whose branch conditions resolve, along the path, to the opposite constant
			for _, g := range conds {
				v := g.Cond
				for hop := 0; hop < 4; hop++ {
					nv := ResolveOnPath(v, path)
					if nv == v {
						break
					}
					v = nv
				}
				if c, isc := v.(*ssa.Const); isc && c.Value != nil && (c.Value.String() == "true") != g.Pol {
					return
				}
			}
			nPaths++
			has := func(field string, pol bool) bool {
				for _, g := range conds {
					if IsFieldLoad(g.Cond, "rueidis.Lua", field) && g.Pol == pol {
						return true
					}
				}
				return false
			}
			var sends []*ssa.Call
			var kinds []string
			for _, b := range path {
				for _, in := range b.Instrs {
					if c, ok := in.(*ssa.Call); ok {
						if k := luaSendKind(c); k != "" {
							sends = append(sends, c)
							kinds = append(kinds, k)
						}
					}
				}
			}
			nSha, nEval := 0, 0
			var shaSend *ssa.Call
			for i, k := range kinds {
				seenKinds[k]++
				switch k {
				case "EVALSHA", "EVALSHA_RO":
					nSha++
					shaSend = sends[i]
					if !has("noSha1", false) {
						viol["evalsha-for-nosha"] = "EVALSHA is sent on a path on which the script is (or may be) a NoSha script"
					}
					ro := k == "EVALSHA_RO"
					if !has("readonly", ro) {
						viol["ro-variant"] = "the _RO command variant must be chosen exactly by the script's read-only flag"
					}
					// non-empty sha
					okSha := false
					for _, g := range conds {
						x, op, y, cok := CmpGuard(g)
						if sv, iss := ConstString(y); cok && iss && sv == "" && op == token.NEQ && shortType(x.Type()) == "string" {
							okSha = true
						}
					}
					if !okSha {
						viol["evalsha-empty-sha"] = "EVALSHA is sent without a non-empty SHA"
					}
				case "EVAL", "EVAL_RO":
					nEval++
					ro := k == "EVAL_RO"
					if !has("readonly", ro) {
						viol["ro-variant"] = "the _RO command variant must be chosen exactly by the script's read-only flag"
					}
					if has("noSha1", true) {
						break
					}
					// otherwise: the fallback flag on this path must be IsNoScript() of this path's EVALSHA reply
					okFallback := false
					for _, g := range conds {
						if !g.Pol {
							continue
						}
						v := g.Cond
						for hop := 0; hop < 4; hop++ {
							nv := ResolveOnPath(v, path)
							if nv == v {
								break
							}
							v = nv
						}
						c, isc := v.(*ssa.Call)
						if !isc || CalleeName(c) != "rueidis.(*RedisError).IsNoScript" {
							continue
						}
						if shaSend != nil && DependsOn(c.Call.Args[0], func(x ssa.Value) bool { return x == ssa.Value(shaSend) }) {
							okFallback = true
						}
					}
					if !okFallback {
						viol["eval-without-noscript"] = "the script body is sent with EVAL on a path where neither the script is NoSha nor the EVALSHA sent on this path was answered with NOSCRIPT (RedisError.IsNoScript): a cached script that already ran would run twice"
					}
				}
			}
			if nSha > 1 || nEval > 1 {
				viol["more-than-once"] = fmt.Sprintf("a path sends %d EVALSHA-family and %d EVAL-family commands", nSha, nEval)
			}
		})
		if !complete {
			viol["paths"] = "too many paths: undecided"
		}
		for _, k := range []string{"evalsha-for-nosha", "ro-variant", "evalsha-empty-sha", "eval-without-noscript", "more-than-once", "paths"} {
			why, bad := viol[k]
			if !bad {
				why = fmt.Sprintf("holds on all %d paths", nPaths)
			}
			r.Ob("R30a", ex, "exec-policy:"+k, ex.Pos(), !bad, why)
		}
		r.Anchor("R30a", "Exec sends all four script commands", seenKinds["EVALSHA"] > 0 && seenKinds["EVALSHA_RO"] > 0 && seenKinds["EVAL"] > 0 && seenKinds["EVAL_RO"] > 0)
		r.Extra["exec_paths"] = nPaths
		// R30b SCRIPT LOAD
		ls := ComputeLockSets(ex, map[string]bool{})
		nLoad := 0
		for _, s := range Sites(ex, func(in ssa.Instruction) bool {
			c, ok := in.(*ssa.Call)
			return ok && luaSendKind(c) == "SCRIPT LOAD"
		}) {
			nLoad++
			load := Guarded(s.Block, func(g Guard) bool { return g.Pol && IsFieldLoad(g.Cond, "rueidis.Lua", "loadSha1") })
			recheck := Guarded(s.Block, func(g Guard) bool {
				x, op, y, ok := CmpGuard(g)
				sv, iss := ConstString(y)
				return ok && iss && sv == "" && op == token.EQL && IsFieldLoad(x, "rueidis.Lua", "sha1")
			})
			held := false
			for l := range ls.At(s) {
				if strings.HasSuffix(l, ".sha1Mu") {
					held = true
				}
			}
			r.ObSite("R30b", s, "script-load-once", load && recheck && held, "SCRIPT LOAD is sent only with WithLoadSHA1, when the cached SHA is empty as re-checked under the write lock")
		}
		r.Anchor("R30b", "SCRIPT LOAD in Exec", nLoad == 1)
		for _, a := range FieldAccessesIn(ex, "rueidis.Lua", "sha1") {
			if !a.Write {
				continue
			}
			ok := Guarded(a.Block, func(g Guard) bool {
				x, op, y, cok := CmpGuard(g)
				return cok && op == token.EQL && IsNilConst(y) && shortType(x.Type()) == "error"
			})
			r.ObSite("R30b", a.Site, "sha-stored-only-on-success", ok, "the SHA is cached only when SCRIPT LOAD succeeded (so the load is retried until it first succeeds)")
		}
	}
	// R30c ExecMulti
	if em := r.FnAnchor("R30c", "rueidis.(*Lua).ExecMulti"); em != nil {
		var multi *ssa.Parameter
		for _, prm := range em.Params {
			if strings.Contains(shortType(prm.Type()), "LuaExec") {
				multi = prm
			}
		}
		isLenMulti := func(v ssa.Value) bool {
			c, ok := v.(*ssa.Call)
			return ok && CalleeName(c) == "builtin.len" && c.Call.Args[0] == ssa.Value(multi)
		}
		for _, b := range em.Blocks {
			ret, ok := b.Instrs[len(b.Instrs)-1].(*ssa.Return)
			if !ok {
				continue
			}
			v := ret.Results[0]
			okr := false
			why := "returned value " + Desc(v)
			var check func(v ssa.Value, d int) bool
			check = func(v ssa.Value, d int) bool {
				if d > 4 {
					return false
				}
				switch x := v.(type) {
				case *ssa.Call:
					if x.Call.IsInvoke() && x.Call.Method.Name() == "DoMulti" {
						return true
					}
					if CalleeName(x) == "rueidis.fillErrs" {
						return isLenMulti(x.Call.Args[0])
					}
				case *ssa.MakeSlice:
					return isLenMulti(x.Len)
				case *ssa.Phi:
					for _, e := range x.Edges {
						if IsNilConst(e) {
							return false
						}
						if !check(e, d+1) {
							return false
						}
					}
					return true
				}
				return false
			}
			okr = check(v, 0)
			r.ObSite("R30c", Site{em, b, len(b.Instrs) - 1, ret}, "one-result-per-luaexec", okr, "ExecMulti returns the DoMulti results of its command slice, or len(multi) error results; "+why)
		}
		// one append per LuaExec on every path of the loop body
		var hdr *ssa.BasicBlock
		appends := Sites(em, func(in ssa.Instruction) bool {
			c, ok := in.(*ssa.Call)
			return ok && CalleeName(c) == "builtin.append" && (strings.Contains(shortType(c.Type()), "Completed") || strings.Contains(shortType(c.Type()), "rueidis.Commands"))
		})
		for _, a := range appends {
			for _, h := range em.Blocks {
				if IsLoopHeader(h) && h.Dominates(a.Block) {
					hdr = h
				}
			}
		}
		okOne := hdr != nil && len(appends) >= 1
		badN := -1
		if hdr != nil {
			var body *ssa.BasicBlock
			for _, sc := range hdr.Succs {
				if hdr.Dominates(sc) && reachesBlock(sc, hdr) && sc != hdr {
					body = sc
				}
			}
			if body != nil {
				// count appends on every path body -> header
				var walk func(b *ssa.BasicBlock, n int, seen map[*ssa.BasicBlock]bool)
				walk = func(b *ssa.BasicBlock, n int, seen map[*ssa.BasicBlock]bool) {
					for _, in := range b.Instrs {
						for _, a := range appends {
							if a.Instr == in {
								n++
							}
						}
					}
					for _, sc := range b.Succs {
						if sc == hdr {
							if n != 1 {
								okOne = false
								badN = n
							}
							continue
						}
						if seen[sc] {
							continue
						}
						seen[sc] = true
						walk(sc, n, seen)
						delete(seen, sc)
					}
				}
				walk(body, 0, map[*ssa.BasicBlock]bool{body: true})
			} else {
				okOne = false
			}
		}
		r.Ob("R30c", em, "one-command-per-luaexec", em.Pos(), okOne, fmt.Sprintf("every iteration over the LuaExec list appends exactly one command on every path (found a path with %d)", badN))
		// each appended command uses the _RO builder exactly under readonly, EVALSHA only for non-NoSha with a SHA
		for _, a := range appends {
			c := a.Instr.(*ssa.Call)
			els := variadicElems(c.Call.Args[1])
			if len(els) != 1 {
				continue
			}
			d := DescDeep(els[0])
			ro := strings.Contains(d, "EvalshaRo(") || strings.Contains(d, "EvalRo(")
			sha := strings.Contains(d, "Evalsha(") || strings.Contains(d, "EvalshaRo(")
			okRo := Guarded(a.Block, func(g Guard) bool { return IsFieldLoad(g.Cond, "rueidis.Lua", "readonly") && g.Pol == ro })
			okSha := true
			if sha {
				okSha = Guarded(a.Block, func(g Guard) bool { return IsFieldLoad(g.Cond, "rueidis.Lua", "noSha1") && !g.Pol })
			}
			r.ObSite("R30c", a, "multi-command-variant", okRo && okSha, "in ExecMulti the _RO variant follows the read-only flag and EVALSHA is never queued for a NoSha script")
		}
	}
	_ = p
}
