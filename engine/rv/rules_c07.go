package rv

import (
	"fmt"
	"go/token"
	"strings"

	"golang.org/x/tools/go/ssa"
)

func init() {
	Registry["C07"] = RuleDef{Module: ".", Run: runC07,
		Technique:   "guard and path rules on the hit tests, value-provenance rules on the expiry computations, decision-table check of the `earlier expiry` update, writer/reader agreement of the expiry bytes",
		Explanation: "Decides (R07a) that in both stores a completed value can be handed back as a hit only under `relativePTTL(now) > 0` (strictly positive, `now` being the caller's request time), on every path; (R07b) that the pending entry created for a miss carries now.Add(ttl).UnixMilli() built from the request time and the TTL of that very command (for batches: the TTL at the same index as the command's cache key); (R07c) that Update keeps the earlier expiry: the client's expiry replaces the server's exactly when the server's is 0 or later than the client's, the stored and returned expiry agree; (R07d) that the reader converts a server PTTL to an absolute expiry only under pttl >= 0, as time.Now() taken after the reply arrived plus pttl milliseconds, on the copy that is committed, and sets no server expiry on the static-TTL path; (R07e) that setExpireAt and getExpireAt use the same seven byte positions and shifts, that relativePTTL is expiry minus now, and CachePXAT/CachePTTL report -1 for no expiry and never a negative remaining time.",
		NotDecided:  "anything involving the wall clock between the calls; CacheTTL's rounding to seconds."}
}

func isPTTLPositive(g Guard, now ssa.Value) bool {
	x, op, y, ok := CmpGuard(g)
	if !ok || op != token.GTR {
		return false
	}
	k, isc := ConstInt(y)
	c, iscall := x.(*ssa.Call)
	if !isc || k != 0 || !iscall || CalleeName(c) != "rueidis.(*RedisMessage).relativePTTL" {
		return false
	}
	return now == nil || c.Call.Args[1] == now
}

func isTypZero(g Guard) (pending bool, ok bool) {
	x, op, y, cok := CmpGuard(g)
	if !cok {
		return false, false
	}
	k, isc := ConstInt(y)
	if !isc || k != 0 || !strings.HasSuffix(Desc(x), ".typ") {
		return false, false
	}
	switch op {
	case token.EQL:
		return true, true
	case token.NEQ:
		return false, true
	}
	return false, false
}

func nowParam(fn *ssa.Function) ssa.Value {
	for _, prm := range fn.Params {
		if shortType(prm.Type()) == "time.Time" {
			return prm
		}
	}
	return nil
}

func runC07(r *Report) {
	p := r.P
	// R07a
	nHit := 0
	var r07aScope []*ssa.Function
	for _, name := range []string{"rueidis.(*lru).Flight", "rueidis.(*lru).Flights", "rueidis.(*adapter).Flight"} {
		if fn := r.FnAnchor("R07a", name); fn != nil {
			// a lookup may be split into a fast path and a locked slow path: the parts are judged
			// separately, each against its own request-time parameter (which its caller passes on)
			for _, f := range WithHelpers(p, fn) {
				if f.Parent() == nil {
					r07aScope = append(r07aScope, f)
				}
			}
		}
	}
	for _, fn := range r07aScope {
		name := FuncName(fn)
		now := nowParam(fn)
		r.Anchor("R07a", name+": now parameter", now != nil)
		// a split-off part receives the caller's request time
		if !strings.HasSuffix(name, ").Flight") && !strings.HasSuffix(name, ").Flights") {
			passed := true
			for _, cs := range p.Callers(name) {
				okp := false
				for _, a := range CallArgs(cs.Call()) {
					if a == nowParam(cs.Fn) && a != nil {
						okp = true
					}
				}
				passed = passed && okp
			}
			r.Ob("R07a", fn, "request-time-passed-on", fn.Pos(), passed, "the split-off part of a lookup is handed the caller's request time")
		}
		// every use of relativePTTL is `> 0` against the request time
		for _, s := range CallSites(fn, "rueidis.(*RedisMessage).relativePTTL") {
			call := s.Instr.(*ssa.Call)
			okUse := len(*call.Referrers()) > 0
			for _, ref := range *call.Referrers() {
				bo, ok := ref.(*ssa.BinOp)
				k, isc := int64(1), false
				if ok {
					k, isc = ConstInt(bo.Y)
				}
				// `x > 0` or its exact complement `x <= 0` (which arm is the hit is decided by the path rules below)
				if !ok || (bo.Op != token.GTR && bo.Op != token.LEQ) || bo.X != ssa.Value(call) || !isc || k != 0 {
					okUse = false
				}
			}
			r.ObSite("R07a", s, "expiry-test-strict", okUse && call.Call.Args[1] == now, "the remaining life of a cached value is tested as relativePTTL(now) > 0 (strict: no hit at the expiry instant) against the caller's request time")
		}
		// results handed out
		for _, b := range fn.Blocks {
			for i, in := range b.Instrs {
				st, ok := in.(*ssa.Store)
				if !ok {
					continue
				}
				ia, isia := st.Addr.(*ssa.IndexAddr)
				if !isia || !strings.Contains(shortType(ia.X.Type()), "RedisResult") {
					continue
				}
				nHit++
				okG := Guarded(b, func(g Guard) bool { return isPTTLPositive(g, now) })
				r.ObSite("R07a", Site{fn, b, i, in}, "batch-hit-before-expiry", okG, "a batch slot is filled from the cache only under relativePTTL(now) > 0")
			}
		}
		// returns: path-wise
		bad := ""
		nPaths := 0
		EnumBlockPaths(fn, 20000, func(path []*ssa.BasicBlock) {
			nPaths++
			last := path[len(path)-1]
			ret := last.Instrs[len(last.Instrs)-1].(*ssa.Return)
			if len(ret.Results) < 1 || !strings.Contains(shortType(ret.Results[0].Type()), "RedisMessage") {
				return
			}
			v := ResolveOnPath(ret.Results[0], path)
			// the value last assigned on this path
			if u, ok := v.(*ssa.UnOp); ok && u.Op == token.MUL {
				if al, ok := u.X.(*ssa.Alloc); ok {
					var lastVal ssa.Value
					for _, b := range path {
						for _, in := range b.Instrs {
							if in == ssa.Instruction(u) {
								break
							}
							if s2, ok := in.(*ssa.Store); ok && s2.Addr == ssa.Value(al) {
								if ld, isld := s2.Val.(*ssa.UnOp); isld && ld.X == ssa.Value(al) {
									continue
								}
								lastVal = s2.Val
							}
						}
					}
					if lastVal != nil {
						v = lastVal
					}
				}
			}
			// a cached value: a load of cacheEntry.val or the result of SimpleCache.Get
			cached := DependsOn(v, func(x ssa.Value) bool {
				if IsFieldLoad(x, "rueidis.cacheEntry", "val") {
					return true
				}
				c, ok := x.(*ssa.Call)
				return ok && CalleeName(c) == "iface:rueidis.SimpleCache.Get"
			})
			if !cached {
				return
			}
			okp := false
			for _, g := range PathConds(path) {
				if isPTTLPositive(g, now) {
					okp = true
				}
				if pend, ok := isTypZero(g); ok && pend {
					okp = true // in-flight entry: the value is empty, the caller waits on the entry
				}
			}
			if !okp && bad == "" {
				bad = "a path returns a cached value without the expiry test"
			}
		})
		if strings.HasSuffix(name, "Flight") {
			nHit++
			r.Ob("R07a", fn, "hit-before-expiry-on-every-path", fn.Pos(), bad == "", fmt.Sprintf("%d paths; every path returning a stored value passes relativePTTL(now) > 0 (or returns the empty value of an in-flight entry); %s", nPaths, bad))
		}
	}
	r.Anchor("R07a", "hit sites", nHit >= 4)

	// R07b: client expiry of the pending entry
	isClientExpiry := func(v ssa.Value, fn *ssa.Function, ttlOK func(ssa.Value) bool) bool {
		um, ok := v.(*ssa.Call)
		if !ok || CalleeName(um) != "time.(Time).UnixMilli" {
			return false
		}
		add, ok := um.Call.Args[0].(*ssa.Call)
		if !ok || CalleeName(add) != "time.(Time).Add" {
			return false
		}
		return add.Call.Args[0] == nowParam(fn) && ttlOK(add.Call.Args[1])
	}
	for _, name := range []string{"rueidis.(*lru).Flight", "rueidis.(*lru).Flights"} {
		fn0 := p.Fn(name)
		if fn0 == nil {
			continue
		}
		n := 0
		for _, fn := range WithHelpers(p, fn0) {
			for _, s := range CallSites(fn, "rueidis.(*RedisMessage).setExpireAt") {
				n++
				arg := s.Call().Common().Args[1]
				var ok bool
				if name == "rueidis.(*lru).Flight" {
					ok = isClientExpiry(arg, fn, func(t ssa.Value) bool { _, isp := t.(*ssa.Parameter); return isp })
				} else {
					// TTL of multi[idx] where idx is the index whose cache key was computed in this iteration
					var ttlIdx ssa.Value
					ok = isClientExpiry(arg, fn, func(t ssa.Value) bool {
						u, isu := t.(*ssa.UnOp)
						if !isu {
							return false
						}
						fa, isf := u.X.(*ssa.FieldAddr)
						if !isf {
							return false
						}
						_, f, base, _ := FieldRef(fa)
						ia, isia := base.(*ssa.IndexAddr)
						if f != "TTL" || !isia {
							return false
						}
						ttlIdx = ia.Index
						return true
					})
					if ok {
						same := false
						for _, cs := range CallSites(fn, "rueidis/internal/cmds.CacheKey") {
							if cs.Block.Dominates(s.Block) || cs.Block == s.Block {
								if ki := indexOfDeep(cs.Call().Common().Args[0]); ki != nil && s.Block.Parent() == cs.Fn && reachesBlock(cs.Block, s.Block) {
									if Same(ki, ttlIdx) && sameLoop(fn, cs.Block, s.Block) {
										same = true
									}
								}
							}
						}
						ok = same
					}
				}
				r.ObSite("R07b", s, "client-expiry-from-request-time-and-own-ttl", ok, "the pending entry's expiry is now.Add(ttl).UnixMilli() with the request time and the TTL of the command the entry is created for")
			}
		}
		r.Anchor("R07b", name+": expiry of new flights", n >= 1)
	}
	if fn := p.Fn("rueidis.(*adapter).Flight"); fn != nil {
		n := 0
		for _, a := range FieldAccessesIn(fn, "rueidis.adapterEntry", "xat") {
			if st, ok := a.Instr.(*ssa.Store); ok {
				n++
				r.ObSite("R07b", a.Site, "client-expiry-from-request-time-and-own-ttl", isClientExpiry(st.Val, fn, func(t ssa.Value) bool { _, isp := t.(*ssa.Parameter); return isp }), "the adapter flight's expiry is now.Add(ttl).UnixMilli()")
			}
		}
		r.Anchor("R07b", "adapter.Flight: expiry of new flights", n >= 1)
	}

	// R07c: Update keeps the earlier expiry
	for _, name := range []string{"rueidis.(*lru).Update", "rueidis.(*adapter).Update"} {
		fn := r.FnAnchor("R07c", name)
		if fn == nil {
			continue
		}
		// the whole completion step (expiry capping and commit) may be a helper only Update calls
		var wholeHelper *ssa.Call
		if len(CallSites(fn, "rueidis.(*RedisMessage).getExpireAt")) == 0 {
			for _, cs := range Sites(fn, func(in ssa.Instruction) bool { _, ok := in.(*ssa.Call); return ok }) {
				h := cs.Call().Common().StaticCallee()
				if h != nil && h.Blocks != nil && h.Pkg == fn.Pkg && !isExportedName(h.Name()) && len(CallSites(h, "rueidis.(*RedisMessage).getExpireAt")) >= 2 && helperOnlyCalledFrom(p, h, map[string]bool{name: true}, 1) {
					wholeHelper = cs.Instr.(*ssa.Call)
				}
			}
		}
		outer := fn
		if wholeHelper != nil {
			fn = wholeHelper.Call.StaticCallee()
		}
		var valParam *ssa.Parameter
		for _, prm := range fn.Params {
			if shortType(prm.Type()) == "rueidis.RedisMessage" {
				valParam = prm
			}
		}
		// server expiry: getExpireAt on the incoming value; client: getExpireAt on the entry / load of xat
		var s, c ssa.Value
		for _, cs := range CallSites(fn, "rueidis.(*RedisMessage).getExpireAt") {
			if DependsOn(cs.Call().Common().Args[0], func(v ssa.Value) bool { return v == ssa.Value(valParam) }) && !strings.Contains(Desc(cs.Call().Common().Args[0]), ".val") {
				s = cs.Instr.(ssa.Value)
			} else {
				c = cs.Instr.(ssa.Value)
			}
		}
		for _, a := range FieldAccessesIn(fn, "rueidis.adapterEntry", "xat") {
			if !a.Write {
				if v, ok := a.Instr.(ssa.Value); ok && c == nil {
					c = v
				}
			}
		}
		// the comparison may live in an unexported helper that is handed the value and the client expiry
		var helper *ssa.Call
		cfn, isC := fn, func(v ssa.Value) bool { return c != nil && (v == c || Same(v, c)) }
		if s == nil && c != nil {
			for _, cs := range Sites(fn, func(in ssa.Instruction) bool { _, ok := in.(*ssa.Call); return ok }) {
				call := cs.Instr.(*ssa.Call)
				h := call.Call.StaticCallee()
				if h == nil || h.Blocks == nil || h.Pkg != fn.Pkg || isExportedName(h.Name()) || h.Signature.Recv() != nil {
					continue
				}
				ci := -1
				for k, a := range call.Call.Args {
					if isC(a) {
						ci = k
					}
				}
				if ci < 0 || ci >= len(h.Params) {
					continue
				}
				for _, gs := range CallSites(h, "rueidis.(*RedisMessage).getExpireAt") {
					if _, isp := gs.Call().Common().Args[0].(*ssa.Parameter); isp {
						s = gs.Instr.(ssa.Value)
					}
				}
				if s != nil {
					helper, cfn = call, h
					cp := h.Params[ci]
					isC = func(v ssa.Value) bool { return v == ssa.Value(cp) }
				}
			}
		}
		if !r.Anchor("R07c", name+": server and client expiry values", s != nil && c != nil) {
			continue
		}
		{
			fn := cfn
			sets := CallSites(fn, "rueidis.(*RedisMessage).setExpireAt")
			r.Anchor("R07c", name+": expiry override", len(sets) == 1)
			if len(sets) != 1 {
				continue
			}
			set := sets[0]
			argOK := isC(set.Call().Common().Args[1])
			if ph, ok := set.Call().Common().Args[1].(*ssa.Phi); ok {
				argOK = false
				for _, e := range ph.Edges {
					if isC(e) {
						argOK = true
					}
				}
			}
			condOK := AllDisjuncts(GuardDNF(set.Block, 3), func(g Guard) bool {
				x, op, y, ok := CmpGuard(g)
				if !ok {
					return false
				}
				if (op == token.LSS && isC(x) && y == s) || (op == token.GTR && x == s && isC(y)) {
					return true
				}
				k, isc := ConstInt(y)
				return op == token.EQL && x == s && isc && k == 0
			})
			r.ObSite("R07c", set, "client-expiry-wins-iff-server-zero-or-later", argOK && condOK, "the value's expiry is overwritten with the client's expiry exactly under (client < server) or (server == 0)")
			// the complementary arm: reaching the commit without the override requires server != 0 and client >= server
			var commit *Site
			for _, b := range fn.Blocks {
				for i, in := range b.Instrs {
					if _, isret := in.(*ssa.Return); isret && helper != nil && b.Comment != "recover" {
						s2 := Site{fn, b, i, in}
						commit = &s2 // the helper hands the decided expiry back
					}
					if st, ok := in.(*ssa.Store); ok && IsFieldAddr(st.Addr, "rueidis.cacheEntry", "val") {
						s2 := Site{fn, b, i, in}
						commit = &s2
					}
					if cl, ok := in.(*ssa.Call); ok && CalleeName(cl) == "iface:rueidis.SimpleCache.Set" {
						s2 := Site{fn, b, i, in}
						commit = &s2
					}
				}
			}
			if r.Anchor("R07c", name+": commit of the value", commit != nil) {
				okSkip := true
				start := SiteOf(s.(ssa.Instruction))
				PathEnum(start, func(x Site) bool { return x.Instr == commit.Instr }, nil, 5000, func(conds []Guard, at Site) {
					passedSet := false
					// did the path go through the override block?
					for _, g := range conds {
						_ = g
					}
					hasLess, hasZero, notLess, notZero := false, false, false, false
					for _, g := range conds {
						x, op, y, ok := CmpGuard(g)
						if !ok {
							continue
						}
						k, isc := ConstInt(y)
						switch {
						case op == token.LSS && isC(x) && y == s:
							hasLess = true
						case op == token.GEQ && isC(x) && y == s:
							notLess = true
						case op == token.EQL && x == s && isc && k == 0:
							hasZero = true
						case op == token.NEQ && x == s && isc && k == 0:
							notZero = true
						}
					}
					passedSet = hasLess || hasZero
					if !passedSet && !(notLess && notZero) {
						okSkip = false
					}
				})
				r.ObSite("R07c", *commit, "server-expiry-kept-only-when-earlier", okSkip, "the server's expiry is kept only when it is non-zero and not later than the client's")
			}
		}
		// returned expiry is the stored one
		okRet := true
		var leafOK func(v ssa.Value, seen map[ssa.Value]bool) bool
		leafOK = func(v ssa.Value, seen map[ssa.Value]bool) bool {
			if seen[v] {
				return true
			}
			seen[v] = true
			if k, isc := ConstInt(v); isc && k == 0 {
				return true
			}
			if v == s || isC(v) || (helper != nil && v == ssa.Value(helper)) {
				return true
			}
			if ph, isphi := v.(*ssa.Phi); isphi {
				for _, e := range ph.Edges {
					if !leafOK(e, seen) {
						return false
					}
				}
				return true
			}
			return false
		}
		for _, b := range fn.Blocks {
			if ret, ok := b.Instrs[len(b.Instrs)-1].(*ssa.Return); ok && len(ret.Results) == 1 {
				if !leafOK(ret.Results[0], map[ssa.Value]bool{}) {
					okRet = false
				}
			}
		}
		if wholeHelper != nil {
			// Update itself returns the helper's answer or 0
			var outerOK func(v ssa.Value, seen map[ssa.Value]bool) bool
			outerOK = func(v ssa.Value, seen map[ssa.Value]bool) bool {
				if seen[v] {
					return true
				}
				seen[v] = true
				if k, isc := ConstInt(v); isc && k == 0 {
					return true
				}
				if v == ssa.Value(wholeHelper) {
					return true
				}
				if ph, isphi := v.(*ssa.Phi); isphi {
					for _, e := range ph.Edges {
						if !outerOK(e, seen) {
							return false
						}
					}
					return true
				}
				return false
			}
			for _, b := range outer.Blocks {
				if ret, ok := b.Instrs[len(b.Instrs)-1].(*ssa.Return); ok && b.Comment != "recover" {
					for _, rv := range RetVals(ret) {
						if !outerOK(rv, map[ssa.Value]bool{}) {
							okRet = false
						}
					}
				}
			}
		}
		r.Ob("R07c", fn, "returned-expiry-is-stored-expiry", fn.Pos(), okRet, "Update returns the expiry it stored (server's or client's), or 0 when there was no flight")
	}

	// R07d: the reader
	if fn := r.FnAnchor("R07d", "rueidis.(*pipe)._backgroundRead"); fn != nil {
		// the reader and the unexported pipe helpers it calls directly (a commit step may be extracted)
		fns := []*ssa.Function{fn}
		for _, cs := range Sites(fn, func(in ssa.Instruction) bool { _, ok := in.(*ssa.Call); return ok }) {
			callee := cs.Call().Common().StaticCallee()
			if callee != nil && callee.Blocks != nil && strings.HasPrefix(FuncName(callee), "rueidis.(*pipe).") && !isExportedName(callee.Name()) && callee != fn && len(CallSites(callee, "iface:rueidis.CacheStore.Update")) > 0 {
				dup := false
				for _, g := range fns {
					dup = dup || g == callee
				}
				if !dup && helperOnlyCalledFrom(p, callee, map[string]bool{FuncName(fn): true}, 1) {
					fns = append(fns, callee)
				}
			}
		}
		var updates []Site
		nUpd := 0
		for _, g := range fns {
			us := CallSites(g, "iface:rueidis.CacheStore.Update")
			nUpd += len(us)
			if g == fn {
				updates = us
			} else {
				nUpd += len(p.Callers(FuncName(g))) - 1 // one helper commit serves each of its call sites
			}
		}
		r.Anchor("R07d", "commit sites in the reader", nUpd >= 3)
		nSet := 0
		var setSites []Site
		for _, g := range fns {
			setSites = append(setSites, CallSites(g, "rueidis.(*RedisMessage).setExpireAt")...)
		}
		for _, s := range setSites {
			arg := s.Call().Common().Args[1]
			if c, ok := arg.(*ssa.Call); ok && CalleeName(c) == "iface:rueidis.CacheStore.Update" {
				continue // writes the store's answer back into the reply handed to the caller
			} else if ok && c.Call.StaticCallee() != nil {
				// ... or the answer a commit helper hands back
				viaHelper := false
				for _, g := range fns[1:] {
					if g != c.Call.StaticCallee() {
						continue
					}
					viaHelper = true
					for _, b := range g.Blocks {
						if ret, isr := b.Instrs[len(b.Instrs)-1].(*ssa.Return); isr {
							for _, rv := range ret.Results {
								if uc, isc := rv.(*ssa.Call); !isc || CalleeName(uc) != "iface:rueidis.CacheStore.Update" {
									viaHelper = false
								}
							}
						}
					}
				}
				if viaHelper {
					continue
				}
			}
			nSet++
			// pttl >= 0
			var pttl ssa.Value
			isIntlen := func(x ssa.Value) bool { // the PTTL reply's integer, or a helper parameter that always receives one
				vals, _, ok := paramArgs(p, x)
				if !ok {
					return false
				}
				for _, v := range vals {
					if !strings.HasSuffix(Desc(v), ".intlen") {
						return false
					}
				}
				return true
			}
			okG := Guarded(s.Block, func(g Guard) bool {
				x, op, y, ok := CmpGuard(g)
				k, isc := ConstInt(y)
				if ok && isc && ((op == token.GEQ && k == 0) || (op == token.GTR && k == -1)) && isIntlen(x) {
					pttl = x
					return true
				}
				return false
			})
			// now.Add(Duration(pttl) * Millisecond).UnixMilli() with now := time.Now() in the commit region
			okV := false
			// the conversion may be a small pure helper `f(now, pttl)` of the package: use its body with
			// the call's arguments
			bind := map[ssa.Value]ssa.Value{}
			if hc, ok := arg.(*ssa.Call); ok {
				if h := hc.Call.StaticCallee(); h != nil && h.Blocks != nil && len(h.Blocks) == 1 && h.Pkg == fn.Pkg && !isExportedName(h.Name()) && h.Signature.Recv() == nil {
					if ret, isr := h.Blocks[0].Instrs[len(h.Blocks[0].Instrs)-1].(*ssa.Return); isr && len(ret.Results) == 1 {
						for k, prm := range h.Params {
							if k < len(hc.Call.Args) {
								bind[prm] = hc.Call.Args[k]
							}
						}
						arg = ret.Results[0]
					}
				}
			}
			sub := func(v ssa.Value) ssa.Value {
				if b, ok := bind[v]; ok {
					return b
				}
				return v
			}
			if um, ok := arg.(*ssa.Call); ok && CalleeName(um) == "time.(Time).UnixMilli" {
				if add, ok := um.Call.Args[0].(*ssa.Call); ok && CalleeName(add) == "time.(Time).Add" {
					nows, _, okN := paramArgs(p, sub(add.Call.Args[0]))
					d := Desc(add.Call.Args[1])
					okV = okN && len(nows) > 0 && pttl != nil && DependsOn(add.Call.Args[1], func(v ssa.Value) bool { v = sub(v); return v == pttl || Same(v, pttl) }) && strings.Contains(d, "* 1000000")
					for _, nv := range nows {
						nowc, isNow := nv.(*ssa.Call)
						if !isNow || CalleeName(nowc) != "time.Now" || nowc.Parent() != fn {
							okV = false
							continue
						}
						// time.Now() is taken after the reply was read
						if rd := CallSites(fn, "rueidis.readNextMessage"); len(rd) > 0 {
							okV = okV && reachesBlock(rd[0].Block, nowc.Block()) && !nowc.Block().Dominates(rd[0].Block)
						}
					}
				}
			}
			r.ObSite("R07d", s, "server-expiry-on-arrival", okG && okV, "the server expiry is set only for pttl >= 0, as time.Now() (taken after the reply arrived) plus pttl milliseconds")
		}
		r.Anchor("R07d", "server expiry computations in the reader", nSet >= 1)
		// static TTL path sets no server expiry before Update
		for _, u := range updates {
			static := Guarded(u.Block, func(g Guard) bool {
				c, ok := g.Cond.(*ssa.Call)
				return ok && g.Pol && CalleeName(c) == "rueidis/internal/cmds.IsStaticTTL"
			})
			if !static {
				continue
			}
			none := true
			for _, s := range CallSites(fn, "rueidis.(*RedisMessage).setExpireAt") {
				if s.Block == u.Block && s.Idx < u.Idx {
					none = false
				}
			}
			r.ObSite("R07d", u, "static-ttl-has-no-server-expiry", none, "on the static-TTL path the caller's TTL is authoritative: no server expiry is set before the commit")
		}
	}

	// R07e accessors
	setter, getter := p.Fn("rueidis.(*RedisMessage).setExpireAt"), p.Fn("rueidis.(*RedisMessage).getExpireAt")
	if r.Anchor("R07e", "setExpireAt/getExpireAt", setter != nil && getter != nil) {
		w := map[int64]int64{}
		for _, b := range setter.Blocks {
			for _, in := range b.Instrs {
				if st, ok := in.(*ssa.Store); ok {
					if ia, isia := st.Addr.(*ssa.IndexAddr); isia {
						k, _ := ConstInt(ia.Index)
						sh := int64(0)
						DependsOn(st.Val, func(v ssa.Value) bool {
							if bo, ok := v.(*ssa.BinOp); ok && bo.Op == token.SHR {
								sh, _ = ConstInt(bo.Y)
							}
							return false
						})
						w[k] = sh
					}
				}
			}
		}
		rd := map[int64]int64{}
		for _, b := range getter.Blocks {
			for _, in := range b.Instrs {
				if bo, ok := in.(*ssa.BinOp); ok && bo.Op == token.SHL {
					sh, _ := ConstInt(bo.Y)
					DependsOn(bo.X, func(v ssa.Value) bool {
						if ia, ok := v.(*ssa.IndexAddr); ok {
							k, _ := ConstInt(ia.Index)
							rd[k] = sh
						}
						return false
					})
				}
				if ia, ok := in.(*ssa.IndexAddr); ok {
					if k, isc := ConstInt(ia.Index); isc {
						if _, has := rd[k]; !has {
							rd[k] = 0
						}
					}
				}
			}
		}
		agree := len(w) == 7 && len(rd) == 7
		for k, sh := range w {
			if rd[k] != sh || sh != 8*k {
				agree = false
			}
		}
		r.Ob("R07e", setter, "expiry-bytes-agree", setter.Pos(), agree, fmt.Sprintf("setExpireAt writes byte k from bits 8k.. and getExpireAt reads it back with the same shift; writer %v reader %v", w, rd))
	}
	if fn := r.FnAnchor("R07e", "rueidis.(*RedisMessage).relativePTTL"); fn != nil {
		ok := false
		for _, b := range fn.Blocks {
			if ret, isret := b.Instrs[len(b.Instrs)-1].(*ssa.Return); isret {
				if bo, isb := ret.Results[0].(*ssa.BinOp); isb && bo.Op == token.SUB {
					ok = strings.Contains(Desc(bo.X), "getExpireAt") && strings.Contains(Desc(bo.Y), "UnixMilli(p1")
				}
			}
		}
		r.Ob("R07e", fn, "relative-pttl-is-expiry-minus-now", fn.Pos(), ok, "relativePTTL(now) = getExpireAt() - now.UnixMilli()")
	}
	for _, name := range []string{"CachePXAT", "CachePTTL"} {
		fn := r.FnAnchor("R07e", "rueidis.(*RedisMessage)."+name)
		if fn == nil {
			continue
		}
		okNone := false
		for _, b := range fn.Blocks {
			if ret, isret := b.Instrs[len(b.Instrs)-1].(*ssa.Return); isret {
				if k, isc := ConstInt(ret.Results[0]); isc && k == -1 {
					okNone = Guarded(b, func(g Guard) bool {
						x, op, y, ok := CmpGuard(g)
						kk, isk := ConstInt(y)
						return ok && op == token.EQL && isk && kk == 0 && strings.Contains(Desc(x), "getExpireAt")
					})
				}
			}
		}
		r.Ob("R07e", fn, "no-expiry-reported-as-minus-one", fn.Pos(), okNone, name+" reports -1 exactly when the stored expiry is 0")
	}
}

// sameLoop: both blocks are inside the same innermost loop.
func sameLoop(fn *ssa.Function, a, b *ssa.BasicBlock) bool {
	inner := func(x *ssa.BasicBlock) *ssa.BasicBlock {
		var h *ssa.BasicBlock
		for _, blk := range fn.Blocks {
			if IsLoopHeader(blk) && blk.Dominates(x) {
				inLoop := false
				for _, pr := range blk.Preds {
					if blk.Dominates(pr) && (pr == x || reachesBlock(x, pr)) {
						inLoop = true
					}
				}
				if inLoop {
					h = blk
				}
			}
		}
		return h
	}
	return inner(a) == inner(b) && inner(a) != nil
}
