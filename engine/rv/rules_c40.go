package rv

import (
	"fmt"
	"go/ast"
	"go/token"
	"go/types"
	"regexp"
	"strconv"
	"strings"

	"golang.org/x/tools/go/ssa"
)

func init() {
	Registry["C40"] = RuleDef{Module: "om", Run: runC40,
		Technique:   "def-use and guard rules on the four Save functions, layout agreement between the ARGV the Go side builds and the ARGV the embedded save scripts index, sibling agreement between the encoder/decoder halves of the converter tables and between ToHash and FromHash, lint over the save scripts' text",
		Explanation: "Decides client-side necessary conditions of optimistic, round-tripping saves: (R40a) in Save and SaveMulti of both repositories the script's nil reply - and only it - is reported as ErrVersionMismatch for that entity, every other error is handed back, and the entity's version field is overwritten only on success, with the number the script returned, on the version field of the entity that reply belongs to; (R40b) the hash repository builds ARGV as [version field name, current version, field/value pairs of every remaining field exactly once, expiry last and alone], the layout hashSaveScript decodes (first pair = version, odd length = trailing expiry), and the JSON repository as [version name, current version, document, optional expiry], with KEYS[1] derived from the entity's key field; (R40c, lint over the script text) each save script reads the stored version and compares it with ARGV[2] before its first write, increments by exactly one, answers the incremented value and ends with `return nil`, and indexes no ARGV position the Go side does not supply; (R40d) every entry of the converter tables has both halves or neither (neither = JSON on both sides), and the halves of an entry are a known inverse pair with agreeing parameters (FormatInt/ParseInt base and size, the same true-literal for booleans, 32/64-bit vector codecs); the factory picks the table by the field's kind (pointer, slice, value) and rejects unsupported kinds with a panic; (R40e) ToHash and FromHash walk the same field table, address the entity field by the same index, use the range key as hash field name, choose JSON exactly when their half of the converter is nil, FromHash returns every decode error, and every iteration of ToHash stores its field.",
		NotDecided:  "atomicity and semantics of the Lua scripts on the server (that at most one of several concurrent saves wins is decided by the server executing the script), reflection over user types, encoding/json round trips of user types, RediSearch behaviour.",
	}
}

const omPkg = "rueidis/om"

func runC40(r *Report) {
	A := omPkg + "."
	nScripts := scriptConstructorRule(r, "R40c", omPkg, "")
	r.Anchor("R40c", "om save scripts (>= 2)", nScripts >= 2)
	for _, k := range []struct{ repo, script string }{{"HashRepository", "hashSaveScript"}, {"JSONRepository", "jsonSaveScript"}} {
		saveResultRule(r, A+"(*"+k.repo+").Save", k.script, false)
		saveResultRule(r, A+"(*"+k.repo+").SaveMulti", k.script, true)
	}
	// who may run the save scripts
	for _, fn := range r.P.ModuleFuncs() {
		for _, s := range CallSites(fn, "rueidis.(*Lua).Exec", "rueidis.(*Lua).ExecMulti") {
			d := DescDeep(s.Call().Common().Args[0])
			if !strings.HasSuffix(d, "hashSaveScript") && !strings.HasSuffix(d, "jsonSaveScript") {
				continue
			}
			n := FuncName(TopFunc(fn))
			ok := strings.HasSuffix(n, ".Save") || strings.HasSuffix(n, ".SaveMulti")
			r.ObSite("R40a", s, "save-script-run-only-by-save", ok, "the versioned save scripts are executed only by Save/SaveMulti, whose result handling is checked")
		}
	}
	hashExecLayoutRule(r)
	jsonExecLayoutRule(r)
	saveScriptLint(r)
	converterTableRule(r)
	hashCodecAgreementRule(r)
	r.Min("R40a", 16)
	r.Min("R40b", 12)
	r.Min("R40d", 12)
	r.Min("R40e", 8)
}

// omSchemaField: v is r.schema.<which>.<sub> (a load through the schema's *field pointer).
func omSchemaField(v ssa.Value, which, sub string) bool {
	u, ok := Strip(v).(*ssa.UnOp)
	if !ok || u.Op != token.MUL {
		return false
	}
	t, f, base, ok := FieldRef(u.X)
	if !ok || t != omPkg+".field" || f != sub {
		return false
	}
	return IsFieldLoad(base, omPkg+".schema", which)
}

func isGlobalLoad(v ssa.Value, name string) bool {
	u, ok := v.(*ssa.UnOp)
	if !ok || u.Op != token.MUL {
		return false
	}
	g, ok := u.X.(*ssa.Global)
	return ok && g.Name() == name
}

func builtinCall(in ssa.Instruction, name string) (*ssa.Call, bool) {
	c, ok := in.(*ssa.Call)
	if !ok {
		return nil, false
	}
	b, ok := c.Call.Value.(*ssa.Builtin)
	return c, ok && b.Name() == name
}

// saveResultRule (R40a).
func saveResultRule(r *Report, name, script string, multi bool) {
	fn := r.FnAnchor("R40a", name)
	if fn == nil {
		return
	}
	var run *ssa.Call
	nRun := 0
	for _, s := range CallSites(fn, "rueidis.(*Lua).Exec", "rueidis.(*Lua).ExecMulti") {
		if strings.HasSuffix(DescDeep(s.Call().Common().Args[0]), script) {
			run = s.Instr.(*ssa.Call)
			nRun++
		}
	}
	if !r.Anchor("R40a", name+": one execution of "+script, nRun == 1) {
		return
	}
	// the reply of one entity: ToString on the result (of Exec) or on an element of the results (of ExecMulti)
	var ts *ssa.Call
	var respIdx ssa.Value
	for _, s := range CallSites(fn, "rueidis.(RedisResult).ToString") {
		a := s.Call().Common().Args[0]
		if a == ssa.Value(run) {
			ts = s.Instr.(*ssa.Call)
		}
		if u, ok := a.(*ssa.UnOp); ok && u.Op == token.MUL {
			if ia, ok := u.X.(*ssa.IndexAddr); ok && ia.X == ssa.Value(run) {
				ts = s.Instr.(*ssa.Call)
				respIdx = ia.Index
			}
		}
	}
	if !r.Anchor("R40a", name+": reply converted with ToString", ts != nil && (respIdx != nil) == multi) {
		return
	}
	str, err := extractOf(ts, 0), extractOf(ts, 1)
	if !r.Anchor("R40a", name+": reply value and error used", str != nil && err != nil) {
		return
	}
	isErrNil := func(g Guard) bool {
		x, op, y, ok := CmpGuard(g)
		return ok && op == token.EQL && x == err && IsNilConst(y)
	}
	var retSlice ssa.Value // SaveMulti: the []error it returns
	if multi {
		for _, b := range fn.Blocks {
			if ret, ok := b.Instrs[len(b.Instrs)-1].(*ssa.Return); ok && len(ret.Results) == 1 {
				retSlice = ret.Results[0]
			}
		}
	}
	publishes := func(in ssa.Instruction, isVal func(ssa.Value) bool) bool {
		switch x := in.(type) {
		case *ssa.Return:
			return !multi && len(x.Results) == 1 && isVal(x.Results[0])
		case *ssa.Store:
			if !multi || !isVal(x.Val) {
				return false
			}
			ia, ok := x.Addr.(*ssa.IndexAddr)
			return ok && ia.X == retSlice && Same(ia.Index, respIdx)
		}
		return false
	}
	// nil reply -> ErrVersionMismatch
	nNil := 0
	var nilTest *ssa.Call
	for _, s := range CallSites(fn, "rueidis.IsRedisNil") {
		c := s.Instr.(*ssa.Call)
		if c.Call.Args[0] != err {
			continue
		}
		nNil++
		nilTest = c
		var T *ssa.BasicBlock
		for _, u := range *c.Referrers() {
			if iff, ok := u.(*ssa.If); ok {
				T = iff.Block().Succs[0]
			}
		}
		ok := false
		if T != nil {
			for _, in := range T.Instrs {
				if publishes(in, func(v ssa.Value) bool { return isGlobalLoad(v, "ErrVersionMismatch") }) {
					ok = true
				}
			}
		}
		r.ObSite("R40a", s, "nil-reply-reported-as-version-mismatch", ok, "when the save script answers nil (stored version differs) the caller gets ErrVersionMismatch for that entity")
	}
	if r.Anchor("R40a", name+": nil-reply test on the script's error", nNil == 1) {
		mp := MustPassOrEdge(SiteOf(ts), func(in ssa.Instruction) bool { return in == ssa.Instruction(nilTest) }, func(from *ssa.BasicBlock, succ int) bool {
			iff, ok := from.Instrs[len(from.Instrs)-1].(*ssa.If)
			return ok && isErrNil(normGuard(Guard{iff.Cond, succ == 0, from}))
		})
		r.ObSite("R40a", SiteOf(ts), "nil-reply-tested-on-every-path", mp, "every path from the reply on which there is an error goes through the nil-reply test")
	}
	// ErrVersionMismatch only for the nil reply
	for _, b := range fn.Blocks {
		for i, in := range b.Instrs {
			if publishes(in, func(v ssa.Value) bool { return isGlobalLoad(v, "ErrVersionMismatch") }) {
				g := Guarded(b, func(g Guard) bool { return g.Pol && g.Cond == ssa.Value(nilTest) })
				r.ObSite("R40a", Site{fn, b, i, in}, "mismatch-only-for-nil-reply", g, "ErrVersionMismatch is reported only when the script answered nil")
			}
		}
	}
	// version write-back
	var toExec []*ssa.Call
	for _, s := range CallSites(fn) {
		_ = s
	}
	for _, b := range fn.Blocks {
		for _, in := range b.Instrs {
			if c, ok := in.(*ssa.Call); ok && strings.HasSuffix(CalleeName(c), ").toExec") {
				toExec = append(toExec, c)
			}
		}
	}
	if !r.Anchor("R40a", name+": one toExec call", len(toExec) == 1) {
		return
	}
	verf, exec := extractOf(toExec[0], 0), extractOf(toExec[0], 1)
	nSet := 0
	for _, s := range CallSites(fn, "reflect.(Value).SetInt") {
		nSet++
		c := s.Instr.(*ssa.Call)
		// value: ParseInt(str, 10, 64)
		okVal := false
		if ex, isx := c.Call.Args[1].(*ssa.Extract); isx && ex.Index == 0 {
			if pc, isc := ex.Tuple.(*ssa.Call); isc && CalleeName(pc) == "strconv.ParseInt" && pc.Call.Args[0] == str {
				base, _ := ConstInt(pc.Call.Args[1])
				okVal = base == 10
			}
		}
		r.ObSite("R40a", s, "version-from-script-reply", okVal, "the entity's version becomes the number the script returned (parsed from this reply, base 10), not a locally computed one")
		// guards
		okG := Guarded(s.Block, isErrNil)
		extra := ""
		for _, g := range DomGuards(s.Block) {
			switch {
			case isErrNil(g):
			case g.Cond == ssa.Value(nilTest) && !g.Pol:
			case !g.Pol && IsFieldLoad(g.Cond, omPkg+".schema", "verless"):
			case IsLoopHeader(g.Block):
			default:
				extra = g.String()
			}
		}
		r.ObSite("R40a", s, "version-written-only-on-success", okG, "the version field is overwritten only when the reply carries no error")
		r.ObSite("R40a", s, "version-written-on-every-success", extra == "", "no condition other than success and the entity being versioned decides the write-back; extra: "+extra)
		// target
		okT := false
		recv := c.Call.Args[0]
		if !multi {
			okT = recv == verf && verf != nil
		} else if u, isu := recv.(*ssa.UnOp); isu && u.Op == token.MUL {
			if ia, isia := u.X.(*ssa.IndexAddr); isia && Same(ia.Index, respIdx) {
				okT = pairedSlices(fn, ia.X, verf, exec, run)
			}
		}
		r.ObSite("R40a", s, "version-written-to-the-replying-entity", okT, "the version field written is the one toExec returned for the entity this reply belongs to (same index as its script arguments)")
	}
	r.Anchor("R40a", name+": version write-back", nSet == 1)
	// the arguments executed are the ones toExec built
	okArgs := false
	if !multi {
		keys, args := run.Call.Args[3], run.Call.Args[4]
		okArgs = execFieldOf(keys, exec, "Keys") && execFieldOf(args, exec, "Args")
	} else {
		okArgs = true // checked by pairedSlices
	}
	r.ObSite("R40a", SiteOf(run), "executes-what-toExec-built", okArgs, "the script runs with the keys and arguments toExec returned for this entity")
	// errors are handed back
	if !multi {
		for _, b := range fn.Blocks {
			ret, ok := b.Instrs[len(b.Instrs)-1].(*ssa.Return)
			if !ok || b.Comment == "recover" {
				continue
			}
			rv := RetVals(ret)
			okR := false
			if len(rv) == 1 {
				v := rv[0]
				okR = v == err || isGlobalLoad(v, "ErrVersionMismatch") || (IsNilConst(v) && Guarded(b, isErrNil))
			}
			r.ObSite("R40a", SiteOf(ret), "error-handed-back", okR, "Save returns the script's error, ErrVersionMismatch, or nil only when there was no error")
		}
	} else {
		var F *ssa.BasicBlock
		for _, u := range *nilTest.Referrers() {
			if iff, ok := u.(*ssa.If); ok {
				F = iff.Block().Succs[1]
			}
		}
		bad := F == nil
		if F != nil {
			seen := map[*ssa.BasicBlock]bool{}
			var dfs func(b *ssa.BasicBlock) bool
			dfs = func(b *ssa.BasicBlock) bool { // true: an iteration can end with the error dropped
				for _, in := range b.Instrs {
					if publishes(in, func(v ssa.Value) bool { return v == err }) {
						return false
					}
					if isReturn(in) {
						return true
					}
				}
				for k, sc := range b.Succs {
					if iff, ok := b.Instrs[len(b.Instrs)-1].(*ssa.If); ok {
						if isErrNil(normGuard(Guard{iff.Cond, k == 0, b})) {
							continue
						}
					}
					if sc.Dominates(b) { // back edge: the iteration is over
						return true
					}
					if !seen[sc] {
						seen[sc] = true
						if dfs(sc) {
							return true
						}
					}
				}
				return false
			}
			bad = dfs(F)
		}
		r.ObSite("R40a", SiteOf(nilTest), "error-handed-back", !bad, "every iteration whose reply carries another error stores it at the entity's index of the returned slice")
	}
}

// execFieldOf: v is <exec>.<field>, exec being the LuaExec returned by toExec (directly or through
// the local it was copied to).
func execFieldOf(v ssa.Value, exec ssa.Value, field string) bool {
	u, ok := v.(*ssa.UnOp)
	if !ok || u.Op != token.MUL {
		if f, isf := v.(*ssa.Field); isf {
			t, n, base, ok := FieldRef(f)
			return ok && t == "rueidis.LuaExec" && n == field && base == exec
		}
		return false
	}
	t, n, base, ok := FieldRef(u.X)
	if !ok || t != "rueidis.LuaExec" || n != field {
		return false
	}
	al, ok := base.(*ssa.Alloc)
	if !ok {
		return false
	}
	nst := 0
	good := false
	for _, ref := range *al.Referrers() {
		if st, ok := ref.(*ssa.Store); ok && st.Addr == ssa.Value(al) {
			nst++
			good = st.Val == exec
		}
	}
	return nst == 1 && good
}

// pairedSlices: V is filled only by `V[i] = verf` and the slice passed to ExecMulti only by
// `E[i] = exec` with the same i, verf/exec being the two results of one toExec call.
func pairedSlices(fn *ssa.Function, V ssa.Value, verf, exec ssa.Value, run *ssa.Call) bool {
	if verf == nil || exec == nil || len(run.Call.Args) < 4 {
		return false
	}
	E := run.Call.Args[3]
	idxOf := func(sl ssa.Value, val ssa.Value) (ssa.Value, bool) {
		var idx ssa.Value
		n := 0
		for _, b := range fn.Blocks {
			for _, in := range b.Instrs {
				st, ok := in.(*ssa.Store)
				if !ok {
					continue
				}
				ia, ok := st.Addr.(*ssa.IndexAddr)
				if !ok || ia.X != sl {
					continue
				}
				n++
				if st.Val != val {
					return nil, false
				}
				idx = ia.Index
			}
		}
		return idx, n == 1
	}
	iv, ok1 := idxOf(V, verf)
	ie, ok2 := idxOf(E, exec)
	return ok1 && ok2 && iv == ie
}

type argsWrite struct {
	site  Site
	kind  string // make | append | literal
	elems []ssa.Value
	val   ssa.Value
}

// execArgsWrites lists the stores to <exec>.Args / .Keys of a toExec function.
func execWrites(fn *ssa.Function, field string) []argsWrite {
	var out []argsWrite
	for _, s := range Sites(fn, func(in ssa.Instruction) bool {
		st, ok := in.(*ssa.Store)
		if !ok {
			return false
		}
		t, f, _, ok := FieldRef(st.Addr)
		return ok && t == "rueidis.LuaExec" && f == field
	}) {
		v := s.Instr.(*ssa.Store).Val
		w := argsWrite{site: s, val: v}
		switch x := v.(type) {
		case *ssa.MakeSlice:
			w.kind = "make"
		case *ssa.Slice:
			w.kind = "literal"
			w.elems = variadicElemsOrdered(x)
		case *ssa.Call:
			if _, ok := builtinCall(x, "append"); ok && len(x.Call.Args) == 2 {
				w.kind = "append"
				w.elems = variadicElemsOrdered(x.Call.Args[1])
			}
		}
		out = append(out, w)
	}
	return out
}

func isFormatInt10(v ssa.Value) (ssa.Value, bool) {
	c, ok := v.(*ssa.Call)
	if !ok || CalleeName(c) != "strconv.FormatInt" {
		return nil, false
	}
	b, isc := ConstInt(c.Call.Args[1])
	return c.Call.Args[0], isc && b == 10
}

// hashExecLayoutRule (R40b, hash repository).
func hashExecLayoutRule(r *Report) {
	fn := r.FnAnchor("R40b", omPkg+".(*HashRepository).toExec")
	if fn == nil {
		return
	}
	var fields *ssa.Call
	for _, s := range CallSites(fn, omPkg+".(hashConv).ToHash") {
		fields = s.Instr.(*ssa.Call)
	}
	if !r.Anchor("R40b", "hash toExec: fields from ToHash", fields != nil) {
		return
	}
	lookupOf := func(v ssa.Value, which string) bool {
		l, ok := v.(*ssa.Lookup)
		return ok && l.X == ssa.Value(fields) && omSchemaField(l.Index, which, "name")
	}
	writes := execWrites(fn, "Args")
	var appends []argsWrite
	nMake := 0
	for _, w := range writes {
		switch w.kind {
		case "make":
			nMake++
			n, isc := ConstInt(w.val.(*ssa.MakeSlice).Len)
			r.ObSite("R40b", w.site, "args-start-empty", isc && n == 0, "ARGV starts empty: a non-zero initial length would shift the version pair away from ARGV[1..2]")
		case "append":
			appends = append(appends, w)
		default:
			r.ObSite("R40b", w.site, "args-write-recognised", false, "a write to exec.Args that is neither an empty make nor an append: layout undecided")
		}
	}
	r.Anchor("R40b", "hash toExec: ARGV initialised", nMake >= 1)
	// classify the appends
	var verApp, loopApp, extApp *argsWrite
	for i := range appends {
		w := &appends[i]
		switch {
		case len(w.elems) == 2 && omSchemaField(w.elems[0], "ver", "name"):
			okV := lookupOf(w.elems[1], "ver")
			if ph, isphi := w.elems[1].(*ssa.Phi); isphi {
				okV = true
				for k, e := range ph.Edges {
					if sv, iss := ConstString(e); iss && sv == "" {
						// the empty version is sent only for schemas without a version field
						pred := ph.Block().Preds[k]
						gs := append(DomGuards(pred), edgeGuards(pred, ph.Block())...)
						g := false
						for _, x := range gs {
							if x.Pol && IsFieldLoad(x.Cond, omPkg+".schema", "verless") {
								g = true
							}
						}
						okV = okV && g
					} else if !lookupOf(e, "ver") {
						okV = false
					}
				}
			}
			r.ObSite("R40b", w.site, "version-pair-carries-current-version", okV, "the version pair is (version field name, the entity's current version as ToHash rendered it), empty only for a schema without version")
			if verApp != nil {
				r.ObSite("R40b", w.site, "version-pair-once", false, "the version pair is appended twice")
			}
			verApp = w
		case len(w.elems) == 2:
			loopApp = w
		case len(w.elems) == 1:
			if extApp != nil {
				r.ObSite("R40b", w.site, "single-trailing-argument", false, "more than one unpaired argument: the script takes only the last ARGV of an odd-length list as expiry")
			}
			extApp = w
		default:
			r.ObSite("R40b", w.site, "args-write-recognised", false, fmt.Sprintf("an append of %d values to exec.Args fits no part of the layout", len(w.elems)))
		}
	}
	if r.Anchor("R40b", "hash toExec: version pair append", verApp != nil) {
		first := true
		for i := range appends {
			if w := &appends[i]; w != verApp && !Dominates(verApp.site, w.site) {
				first = false
			}
		}
		r.ObSite("R40b", verApp.site, "version-pair-first", first, "the version pair is appended before every other argument (the script reads the version field name from ARGV[1] and the version from ARGV[2])")
	}
	// the remaining fields, each exactly once
	var rng *ssa.Range
	for _, s := range Sites(fn, func(in ssa.Instruction) bool { x, ok := in.(*ssa.Range); return ok && x.X == ssa.Value(fields) }) {
		rng = s.Instr.(*ssa.Range)
	}
	if r.Anchor("R40b", "hash toExec: range over the rendered fields", rng != nil) && r.Anchor("R40b", "hash toExec: field pair append", loopApp != nil) {
		var next *ssa.Next
		for _, u := range *rng.Referrers() {
			if n, ok := u.(*ssa.Next); ok {
				next = n
			}
		}
		okKV := false
		if next != nil {
			k, isk := loopApp.elems[0].(*ssa.Extract)
			v, isv := loopApp.elems[1].(*ssa.Extract)
			okKV = isk && isv && k.Tuple == ssa.Value(next) && v.Tuple == ssa.Value(next) && k.Index == 1 && v.Index == 2
		}
		r.ObSite("R40b", loopApp.site, "pair-is-name-then-value", okKV, "each pair is (field name, rendered value) of the same map entry, in that order")
		always := next != nil && loopBodyAlways(fn, next.Block(), func(in ssa.Instruction) bool { return in == loopApp.site.Instr })
		r.ObSite("R40b", loopApp.site, "every-field-appended", always, "every entry of the rendered field map is appended (no iteration skips its pair)")
		// the version field is removed from the map before the loop, after its value was read
		nDel := 0
		for _, s := range Sites(fn, func(in ssa.Instruction) bool { _, ok := builtinCall(in, "delete"); return ok }) {
			c := s.Instr.(*ssa.Call)
			if c.Call.Args[0] != ssa.Value(fields) || !omSchemaField(c.Call.Args[1], "ver", "name") {
				continue
			}
			nDel++
			okOrder := Dominates(s, SiteOf(rng))
			if reach, _ := Reaches(s, func(t Site) bool { l, isl := t.Instr.(*ssa.Lookup); return isl && lookupOf(l, "ver") }, nil); reach {
				okOrder = false // the version would be read after it was deleted
			}
			r.ObSite("R40b", s, "version-field-removed-before-the-pairs", okOrder, "the version field is deleted from the rendered map after its value was read and before the pairs are appended, so HSET receives it once - with the incremented value the script puts into ARGV[2]")
		}
		r.Anchor("R40b", "hash toExec: delete(fields, version name)", nDel == 1)
	}
	if extApp != nil {
		x, okF := isFormatInt10(extApp.elems[0])
		g := okF && Guarded(extApp.site.Block, func(g Guard) bool {
			a, op, b, ok := CmpGuard(g)
			k, isc := ConstInt(b)
			return ok && op == token.NEQ && a == x && isc && k == 0
		})
		r.ObSite("R40b", extApp.site, "expiry-only-when-set", g, "the expiry is appended (decimal milliseconds) only when it is non-zero")
		last := true
		for i := range appends {
			if w := &appends[i]; w != extApp {
				if reach, _ := Reaches(extApp.site, func(s Site) bool { return s.Instr == w.site.Instr }, nil); reach {
					last = false
				}
			}
		}
		r.ObSite("R40b", extApp.site, "expiry-last", last, "nothing is appended after the expiry: the script pops the last ARGV of an odd-length list")
	}
	keysRule(r, fn, func(v ssa.Value) bool { return lookupOf(v, "key") }, "the key field's rendered value")
}

func keysRule(r *Report, fn *ssa.Function, isKeyVal func(ssa.Value) bool, what string) {
	n := 0
	for _, w := range execWrites(fn, "Keys") {
		n++
		ok := false
		if w.kind == "literal" && len(w.elems) == 1 {
			if c, isc := w.elems[0].(*ssa.Call); isc && CalleeName(c) == omPkg+".key" {
				pfx := c.Call.Args[0]
				u, isu := pfx.(*ssa.UnOp)
				okP := false
				if isu {
					_, f, _, okf := FieldRef(u.X)
					okP = okf && f == "prefix"
				}
				ok = okP && isKeyVal(c.Call.Args[1])
			}
		}
		r.ObSite("R40b", w.site, "keys-is-the-entity-key", ok, "KEYS[1] is key(prefix, "+what+")")
	}
	r.Anchor("R40b", FuncName(fn)+": exec.Keys written", n >= 1)
}

// jsonExecLayoutRule (R40b, JSON repository).
func jsonExecLayoutRule(r *Report) {
	fn := r.FnAnchor("R40b", omPkg+".(*JSONRepository).toExec")
	if fn == nil {
		return
	}
	fieldOf := func(v ssa.Value, which string) bool { // val.Field(r.schema.<which>.idx), possibly merged with the dummy
		check := func(v ssa.Value) bool {
			c, ok := v.(*ssa.Call)
			return ok && CalleeName(c) == "reflect.(Value).Field" && omSchemaField(c.Call.Args[1], which, "idx")
		}
		if ph, ok := v.(*ssa.Phi); ok {
			n := 0
			for _, e := range ph.Edges {
				if check(e) {
					n++
				}
			}
			return n >= 1
		}
		return check(v)
	}
	n3, n4 := 0, 0
	for _, w := range execWrites(fn, "Args") {
		if w.kind != "literal" || (len(w.elems) != 3 && len(w.elems) != 4) {
			r.ObSite("R40b", w.site, "args-write-recognised", false, "exec.Args of the JSON repository is a literal of 3 or 4 values")
			continue
		}
		ok0 := omSchemaField(w.elems[0], "ver", "name")
		x, ok1 := isFormatInt10(w.elems[1])
		if ok1 {
			c, isc := x.(*ssa.Call)
			ok1 = isc && CalleeName(c) == "reflect.(Value).Int" && fieldOf(c.Call.Args[0], "ver")
		}
		ok2 := false
		if c, isc := w.elems[2].(*ssa.Call); isc && CalleeName(c) == "rueidis.JSON" {
			a := c.Call.Args[0]
			if mi, ismi := a.(*ssa.MakeInterface); ismi {
				a = mi.X
			}
			ok2 = len(fn.Params) >= 2 && a == ssa.Value(fn.Params[1])
		}
		r.ObSite("R40b", w.site, "json-args-layout", ok0 && ok1 && ok2, fmt.Sprintf("ARGV is (version field name %v, the entity's current version in decimal %v, the whole entity as JSON %v)", ok0, ok1, ok2))
		var ext ssa.Value
		for _, g := range DomGuards(w.site.Block) {
			if a, op, b, ok := CmpGuard(g); ok {
				if k, isc := ConstInt(b); isc && k == 0 {
					if op == token.NEQ && len(w.elems) == 4 {
						if y, okF := isFormatInt10(w.elems[3]); okF && y == a {
							ext = a
						}
					}
					if op == token.EQL && len(w.elems) == 3 {
						ext = a
					}
				}
			}
		}
		if len(w.elems) == 4 {
			n4++
			r.ObSite("R40b", w.site, "expiry-only-when-set", ext != nil, "the 4-value form carries the non-zero expiry (decimal milliseconds) as ARGV[4]")
		} else {
			n3++
			r.ObSite("R40b", w.site, "no-expiry-form", ext != nil, "the 3-value form is used exactly when the expiry is zero")
		}
	}
	r.Anchor("R40b", "json toExec: 3- and 4-value ARGV forms", n3 == 1 && n4 == 1)
	keysRule(r, fn, func(v ssa.Value) bool {
		c, ok := v.(*ssa.Call)
		return ok && CalleeName(c) == "reflect.(Value).String" && fieldOf(c.Call.Args[0], "key")
	}, "the entity's key field")
}

// saveScriptLint (R40c): a lint over the text of the two save scripts; it does not interpret Lua.
func saveScriptLint(r *Report) {
	squash := func(s string) string { return strings.Join(strings.Fields(s), "") }
	argvRe := regexp.MustCompile(`ARGV\[(\d+)\]`)
	for _, sc := range []struct {
		name, read, inc string
		writes          []string
		maxArgv         int // 0: open-ended (unpack)
	}{
		{"hashSaveScript", `redis.call('HGET',KEYS[1],ARGV[1])`, `ARGV[2]=tostring(tonumber(ARGV[2])+1)`, []string{"'HSET'", "'PEXPIREAT'", "'HDEL'", "'DEL'"}, 0},
		{"jsonSaveScript", `redis.call('JSON.GET',KEYS[1],ARGV[1])`, `redis.call('JSON.NUMINCRBY',KEYS[1],ARGV[1],1)`, []string{"'JSON.SET'", "'JSON.NUMINCRBY'", "'PEXPIREAT'", "'DEL'"}, 4},
	} {
		src := pkgVarCallStringArg(r.P, omPkg, sc.name)
		if !r.Anchor("R40c", "script text of "+sc.name, src != "") {
			continue
		}
		ctor := pkgVarCallFuncName(r.P, omPkg, sc.name)
		r.Ob("R40c", nil, sc.name+":not-resent-automatically", token.NoPos, ctor == "NewLuaScript" || ctor == "NewLuaScriptNoSha",
			"a compare-and-set script must not be built retryable: re-sent after a lost reply it meets the version it wrote itself and answers nil, so a save that was applied is reported as ErrVersionMismatch (constructor: "+ctor+")")
		pos := token.NoPos
		if pk := r.P.Pkg(omPkg); pk != nil {
			if o := pk.Types.Scope().Lookup(sc.name); o != nil {
				pos = o.Pos()
			}
		}
		t := strings.ReplaceAll(squash(src), `"`, `'`)
		// the versioned part: after the branch for schemas without a version
		head := strings.Index(t, "ifARGV[1]==''then")
		if head < 0 {
			head = strings.Index(t, "if(ARGV[1]=='')then")
		}
		body := t
		if head >= 0 {
			if e := strings.Index(t[head:], "returnARGV[2]end"); e >= 0 {
				body = t[head+e+len("returnARGV[2]end"):]
			}
		}
		rd := strings.Index(body, sc.read)
		cmp := -1
		if rd >= 0 {
			for _, c := range []string{"==ARGV[2]", "ARGV[2]=="} {
				if i := strings.Index(body[rd:], c); i >= 0 && (cmp < 0 || rd+i < cmp) {
					cmp = rd + i
				}
			}
		}
		firstWrite := -1
		for _, w := range sc.writes {
			if i := strings.Index(body, w); i >= 0 && (firstWrite < 0 || i < firstWrite) {
				firstWrite = i
			}
		}
		r.Ob("R40c", nil, sc.name+":version-compared-before-first-write", pos, rd >= 0 && cmp > rd && firstWrite > cmp,
			"in the versioned part the stored version is read and compared with ARGV[2] before the first write command")
		inc := strings.Index(body, sc.inc)
		r.Ob("R40c", nil, sc.name+":increment-by-one", pos, inc > cmp && cmp >= 0, "after the comparison the version is advanced by exactly one ("+sc.inc+")")
		r.Ob("R40c", nil, sc.name+":mismatch-answers-nil", pos, strings.HasSuffix(t, "endreturnnil"), "the script's last statement, reached when the versions differ, is `return nil` (the reply Save turns into ErrVersionMismatch)")
		mx := 0
		for _, m := range argvRe.FindAllStringSubmatch(t, -1) {
			if k, _ := strconv.Atoi(m[1]); k > mx {
				mx = k
			}
		}
		if sc.maxArgv > 0 {
			okN := mx == sc.maxArgv && strings.Contains(t, "#ARGV=="+strconv.Itoa(sc.maxArgv))
			r.Ob("R40c", nil, sc.name+":argv-arity-agrees-with-toExec", pos, okN, fmt.Sprintf("the script indexes ARGV[1..%d] and tests #ARGV == %d for the optional expiry, the two lengths toExec produces (3 and 4)", mx, sc.maxArgv))
		} else {
			okN := mx == 2 && strings.Contains(t, "#ARGV%2==1") && strings.Contains(t, "unpack(ARGV)")
			r.Ob("R40c", nil, sc.name+":argv-arity-agrees-with-toExec", pos, okN, "the script indexes only ARGV[1..2] (the version pair), pops a trailing expiry from an odd-length ARGV and passes the rest to HSET as pairs")
		}
	}
}

// converterTableRule (R40d).
func converterTableRule(r *Report) {
	pk := r.P.Pkg(omPkg)
	if pk == nil {
		return
	}
	var lit *ast.CompositeLit
	for _, f := range pk.Syntax {
		for _, d := range f.Decls {
			gd, ok := d.(*ast.GenDecl)
			if !ok || gd.Tok != token.VAR {
				continue
			}
			for _, sp := range gd.Specs {
				vs := sp.(*ast.ValueSpec)
				for i, n := range vs.Names {
					if n.Name == "converters" && i < len(vs.Values) {
						lit, _ = vs.Values[i].(*ast.CompositeLit)
					}
				}
			}
		}
	}
	if !r.Anchor("R40d", "var converters = struct{...}{...}", lit != nil) {
		return
	}
	byPos := map[token.Pos]*ssa.Function{}
	for fn := range r.P.all { // the literals of a package-level initialiser are closures of the synthetic init
		if fl, ok := fn.Syntax().(*ast.FuncLit); ok && fn.Blocks != nil && r.P.InModule(fn) {
			byPos[fl.Pos()] = fn
		}
	}
	nEntries := 0
	for _, te := range lit.Elts {
		kv, ok := te.(*ast.KeyValueExpr)
		if !ok {
			continue
		}
		table := types.ExprString(kv.Key)
		ml, ok := kv.Value.(*ast.CompositeLit)
		if !ok {
			continue
		}
		for _, ee := range ml.Elts {
			ekv, ok := ee.(*ast.KeyValueExpr)
			if !ok {
				continue
			}
			kind := types.ExprString(ekv.Key)
			cl, ok := ekv.Value.(*ast.CompositeLit)
			if !ok {
				continue
			}
			nEntries++
			var enc, dec ast.Expr
			for j, fe := range cl.Elts {
				if fkv, ok := fe.(*ast.KeyValueExpr); ok {
					switch types.ExprString(fkv.Key) {
					case "ValueToString":
						enc = fkv.Value
					case "StringToValue":
						dec = fkv.Value
					}
				} else if j == 0 {
					enc = fe
				} else if j == 1 {
					dec = fe
				}
			}
			isNil := func(e ast.Expr) bool {
				if e == nil {
					return true
				}
				id, ok := e.(*ast.Ident)
				return ok && id.Name == "nil"
			}
			desc := table + "[" + kind + "]"
			r.Ob("R40d", nil, desc+":both-halves-or-neither", cl.Pos(), isNil(enc) == isNil(dec), "an entry has an encoder and a decoder, or neither (then both ToHash and FromHash use JSON); one half alone would encode one way and decode the other")
			if isNil(enc) || isNil(dec) {
				continue
			}
			ef, df := funcOfExpr(byPos, enc), funcOfExpr(byPos, dec)
			if ef == nil || df == nil {
				r.Ob("R40d", nil, desc+":inverse-pair", cl.Pos(), false, "the halves are not function literals: pairing undecided")
				continue
			}
			ok2, why := codecPair(ef, df, table == "ptr")
			r.Ob("R40d", ef, desc+":inverse-pair", cl.Pos(), ok2, why)
		}
	}
	r.Anchor("R40d", "converter table entries (>= 9)", nEntries >= 9)

	// the factory picks the table by the field's kind and refuses unsupported kinds
	fn := r.FnAnchor("R40d", omPkg+".newHashConvFactory")
	if fn == nil {
		return
	}
	nLook := 0
	for _, b := range fn.Blocks {
		for i, in := range b.Instrs {
			l, ok := in.(*ssa.Lookup)
			if !ok || !l.CommaOk {
				continue
			}
			u, ok := l.X.(*ssa.UnOp)
			if !ok {
				continue
			}
			fa, ok := u.X.(*ssa.FieldAddr)
			if !ok {
				continue
			}
			g, ok := fa.X.(*ssa.Global)
			if !ok || g.Name() != "converters" {
				continue
			}
			_, table, _, _ := FieldRef(fa)
			nLook++
			idx := DescDeep(l.Index)
			elemKind := strings.Contains(idx, "reflect.Type.Elem(")
			wantElem := table != "val"
			okIdx := strings.HasPrefix(idx, "iface:reflect.Type.Kind(") && elemKind == wantElem && strings.Contains(idx, ".typ")
			// the switch arm: ptr under Kind()==reflect.Ptr, slice under ==reflect.Slice
			okArm := true
			if table != "val" {
				want := int64(22) // reflect.Ptr
				if table == "slice" {
					want = 23
				}
				okArm = Guarded(b, func(g Guard) bool {
					x, op, y, ok := CmpGuard(g)
					k, isc := ConstInt(y)
					d := DescDeep(x)
					return ok && op == token.EQL && isc && k == want && strings.HasPrefix(d, "iface:reflect.Type.Kind(") && !strings.Contains(d, "Type.Elem(") && strings.Contains(d, ".typ")
				})
			}
			r.ObSite("R40d", Site{fn, b, i, in}, "table-chosen-by-kind:"+table, okIdx && okArm, "converters."+table+" is indexed by the kind of the field's type ("+map[bool]string{true: "element kind, under the matching pointer/slice arm", false: "own kind"}[wantElem]+"): "+idx)
		}
	}
	r.Anchor("R40d", "newHashConvFactory: lookups in val, ptr and slice", nLook == 3)
	nPanic := 0
	for _, s := range Sites(fn, func(in ssa.Instruction) bool { _, ok := in.(*ssa.Panic); return ok }) {
		nPanic++
		g := Guarded(s.Block, func(g Guard) bool {
			if g.Pol {
				return false
			}
			if ph, ok := g.Cond.(*ssa.Phi); ok {
				for _, e := range ph.Edges {
					if ex, ok := e.(*ssa.Extract); !ok || ex.Index != 1 {
						return false
					}
				}
				return true
			}
			ex, ok := g.Cond.(*ssa.Extract)
			return ok && ex.Index == 1
		})
		r.ObSite("R40d", s, "unsupported-kind-refused", g, "a field whose kind has no converter makes the repository constructor panic (it is not silently left out of saves)")
	}
	r.Anchor("R40d", "newHashConvFactory: panic for unsupported kinds", nPanic == 1)
	// the table entry stored for a field carries that field's own index
	for _, s := range Sites(fn, func(in ssa.Instruction) bool { _, ok := in.(*ssa.MapUpdate); return ok }) {
		mu := s.Instr.(*ssa.MapUpdate)
		if !IsFieldLoad(mu.Map, omPkg+".hashConvFactory", "fields") {
			continue
		}
		kx, isk := mu.Key.(*ssa.Extract)
		okK := isk && kx.Index == 1
		okI := false
		if u, ok := mu.Value.(*ssa.UnOp); ok {
			for _, v := range AllocFieldStoresNamed(u.X, "idx") {
				if lu, ok := v.(*ssa.UnOp); ok {
					if t, f, base, ok := FieldRef(lu.X); ok && t == omPkg+".field" && f == "idx" {
						if bx, ok := base.(*ssa.Extract); ok && isk && bx.Tuple == kx.Tuple && bx.Index == 2 {
							okI = true
						}
					}
				}
			}
		}
		r.ObSite("R40d", s, "entry-keyed-by-name-with-own-index", okK && okI, "factory.fields[name] = {converter, index} of the same schema field")
	}
}

// AllocFieldStoresNamed returns the values stored into field `name` of the local struct at addr.
func AllocFieldStoresNamed(addr ssa.Value, name string) []ssa.Value {
	al, ok := addr.(*ssa.Alloc)
	if !ok {
		return nil
	}
	var out []ssa.Value
	for _, ref := range *al.Referrers() {
		fa, ok := ref.(*ssa.FieldAddr)
		if !ok {
			continue
		}
		if _, f, _, ok := FieldRef(fa); !ok || f != name {
			continue
		}
		for _, rr := range *fa.Referrers() {
			if st, ok := rr.(*ssa.Store); ok && st.Addr == ssa.Value(fa) {
				out = append(out, st.Val)
			}
		}
	}
	return out
}

func funcOfExpr(byPos map[token.Pos]*ssa.Function, e ast.Expr) *ssa.Function {
	if fl, ok := e.(*ast.FuncLit); ok {
		return byPos[fl.Pos()]
	}
	return nil
}

// codecPair decides whether enc/dec are a known inverse pair.
func codecPair(enc, dec *ssa.Function, ptr bool) (bool, string) {
	calls := func(fn *ssa.Function) map[string]*ssa.Call {
		m := map[string]*ssa.Call{}
		for _, b := range fn.Blocks {
			for _, in := range b.Instrs {
				if c, ok := in.(*ssa.Call); ok {
					n := CalleeName(c)
					if bi, isb := c.Call.Value.(*ssa.Builtin); isb {
						n = "builtin:" + bi.Name()
					}
					m[n] = c
				}
			}
		}
		return m
	}
	ec, dc := calls(enc), calls(dec)
	codecs := []string{}
	for n := range ec {
		if !strings.HasPrefix(n, "reflect.") && !strings.HasPrefix(n, "builtin:") {
			codecs = append(codecs, n)
		}
	}
	// pointers: "absent" only for nil
	if ptr {
		for _, b := range enc.Blocks {
			ret, ok := b.Instrs[len(b.Instrs)-1].(*ssa.Return)
			if !ok {
				continue
			}
			if c, isc := ret.Results[1].(*ssa.Const); isc && !constBool(c) {
				g := Guarded(b, func(g Guard) bool {
					c, ok := g.Cond.(*ssa.Call)
					return ok && g.Pol && CalleeName(c) == "reflect.(Value).IsNil"
				})
				if !g {
					return false, "a pointer encoder declines (ok=false) a value that is not nil"
				}
			}
		}
		isPtr := false
		for _, b := range dec.Blocks {
			if ret, ok := b.Instrs[len(b.Instrs)-1].(*ssa.Return); ok {
				if c, isc := ret.Results[0].(*ssa.Call); isc && CalleeName(c) == "reflect.ValueOf" {
					if mi, ismi := c.Call.Args[0].(*ssa.MakeInterface); ismi {
						if _, isp := mi.X.Type().Underlying().(*types.Pointer); isp {
							isPtr = true
						}
					}
				}
			}
		}
		if !isPtr {
			return false, "a pointer decoder must produce a pointer"
		}
	}
	if !ptr {
		// a value or slice encoder always produces text (it may only pass on a failed type assertion of
		// the value's own interface); declining would make Save leave the field untouched
		for _, b := range enc.Blocks {
			ret, ok := b.Instrs[len(b.Instrs)-1].(*ssa.Return)
			if !ok || len(ret.Results) != 2 {
				continue
			}
			switch x := ret.Results[1].(type) {
			case *ssa.Const:
				if !constBool(x) {
					return false, "a value/slice encoder declines (ok=false)"
				}
			case *ssa.Extract:
				if _, isTA := x.Tuple.(*ssa.TypeAssert); !isTA || x.Index != 1 {
					return false, "a value/slice encoder's ok result is not the constant true"
				}
			default:
				return false, "a value/slice encoder can decline a value (" + DescDeep(ret.Results[1]) + "): Save would succeed without writing the field"
			}
		}
	}
	switch {
	case len(codecs) == 1 && codecs[0] == "strconv.FormatInt":
		p := dc["strconv.ParseInt"]
		if p == nil {
			return false, "FormatInt is decoded by something other than ParseInt"
		}
		eb, _ := ConstInt(ec["strconv.FormatInt"].Call.Args[1])
		db, _ := ConstInt(p.Call.Args[1])
		sz, _ := ConstInt(p.Call.Args[2])
		if eb != db || sz != 64 {
			return false, fmt.Sprintf("FormatInt base %d is decoded with ParseInt base %d size %d", eb, db, sz)
		}
		return true, "FormatInt/ParseInt with the same base, 64 bit"
	case len(codecs) == 1 && codecs[0] == "rueidis.BinaryString":
		if dc["builtin:StringData"] != nil && dc["builtin:Slice"] != nil || dc["builtin:append"] != nil {
			return true, "BinaryString / bytes of the string"
		}
		for _, b := range dec.Blocks {
			for _, in := range b.Instrs {
				if cv, ok := in.(*ssa.Convert); ok && cv.X == ssa.Value(dec.Params[0]) {
					return true, "BinaryString / []byte(string)"
				}
			}
		}
		return false, "BinaryString is not decoded as the string's bytes"
	case len(codecs) == 1 && strings.HasPrefix(codecs[0], "rueidis.VectorString"):
		w := strings.TrimPrefix(codecs[0], "rueidis.VectorString")
		if dc["rueidis.ToVector"+w] == nil {
			return false, "VectorString" + w + " is not decoded by ToVector" + w
		}
		return true, "VectorString" + w + "/ToVector" + w
	case len(codecs) == 0 && ec["reflect.(Value).Bool"] != nil:
		// the literal returned for true is the literal the decoder compares with
		trueLit, falseLit := "", ""
		for _, b := range enc.Blocks {
			ret, ok := b.Instrs[len(b.Instrs)-1].(*ssa.Return)
			if !ok {
				continue
			}
			s, iss := ConstString(ret.Results[0])
			if !iss {
				continue
			}
			pos, neg := false, false
			for _, g := range DomGuards(b) {
				if c, ok := g.Cond.(*ssa.Call); ok && CalleeName(c) == "reflect.(Value).Bool" {
					pos, neg = g.Pol, !g.Pol
				}
			}
			if pos {
				trueLit = s
			} else if neg || (!ptr && trueLit != "") || true {
				if !pos && s != "" {
					falseLit = s
				}
			}
		}
		cmpLit := ""
		for _, b := range dec.Blocks {
			for _, in := range b.Instrs {
				if bo, ok := in.(*ssa.BinOp); ok && bo.Op == token.EQL {
					if s, iss := ConstString(bo.Y); iss && bo.X == ssa.Value(dec.Params[0]) {
						cmpLit = s
					}
				}
			}
		}
		if trueLit == "" || cmpLit != trueLit || falseLit == trueLit {
			return false, fmt.Sprintf("bool is written as %q/%q but read as `value == %q`", trueLit, falseLit, cmpLit)
		}
		return true, fmt.Sprintf("bool written as %q/%q, read as value == %q", trueLit, falseLit, cmpLit)
	case len(codecs) == 0 && ec["reflect.(Value).String"] != nil:
		for n := range dc {
			if n != "reflect.ValueOf" {
				return false, "a string is stored as is but decoded through " + n
			}
		}
		return true, "string stored and read as is"
	case len(codecs) == 1 && codecs[0] == "strconv.FormatUint":
		return dc["strconv.ParseUint"] != nil, "FormatUint/ParseUint"
	case len(codecs) == 1 && codecs[0] == "strconv.FormatFloat":
		return dc["strconv.ParseFloat"] != nil, "FormatFloat/ParseFloat"
	case len(codecs) == 1 && codecs[0] == "strconv.Itoa":
		return dc["strconv.Atoi"] != nil, "Itoa/Atoi"
	}
	return false, "encoder " + strings.Join(codecs, ",") + " is not a codec pair this rule knows: undecided"
}

func constBool(c *ssa.Const) bool {
	return c.Value != nil && c.Value.String() == "true"
}

// hashCodecAgreementRule (R40e).
func hashCodecAgreementRule(r *Report) {
	to := r.FnAnchor("R40e", omPkg+".(hashConv).ToHash")
	from := r.FnAnchor("R40e", omPkg+".(hashConv).FromHash")
	if to == nil || from == nil {
		return
	}
	type walk struct {
		next *ssa.Next
		key  ssa.Value
	}
	tableWalk := func(fn *ssa.Function) *walk {
		for _, b := range fn.Blocks {
			for _, in := range b.Instrs {
				rg, ok := in.(*ssa.Range)
				if !ok || !IsFieldLoad(rg.X, omPkg+".hashConvFactory", "fields") {
					continue
				}
				for _, u := range *rg.Referrers() {
					if n, ok := u.(*ssa.Next); ok {
						w := &walk{next: n}
						w.key = extractOf2(n, 1)
						return w
					}
				}
			}
		}
		return nil
	}
	tw, fw := tableWalk(to), tableWalk(from)
	if !r.Anchor("R40e", "ToHash and FromHash range over factory.fields", tw != nil && fw != nil) {
		return
	}
	entityField := func(v ssa.Value) bool { // r.entity.Field(f.idx)
		c, ok := v.(*ssa.Call)
		return ok && CalleeName(c) == "reflect.(Value).Field" && IsFieldLoad(c.Call.Args[0], omPkg+".hashConv", "entity") && IsFieldLoad(c.Call.Args[1], omPkg+".fieldConv", "idx")
	}
	halfNil := func(half string, pol bool) func(Guard) bool {
		return func(g Guard) bool {
			x, op, y, ok := CmpGuard(g)
			if !ok || !IsNilConst(y) || !IsFieldLoad(x, omPkg+".converter", half) {
				return false
			}
			return (op == token.EQL) == pol
		}
	}
	// ToHash
	var updates []Site
	for _, s := range Sites(to, func(in ssa.Instruction) bool { _, ok := in.(*ssa.MapUpdate); return ok }) {
		mu := s.Instr.(*ssa.MapUpdate)
		updates = append(updates, s)
		r.ObSite("R40e", s, "hash-field-named-by-table-key", mu.Key == tw.key, "ToHash stores a field under the table's key for it, the name FromHash looks up")
		okV, what := false, ""
		switch v := mu.Value.(type) {
		case *ssa.Extract:
			if c, ok := v.Tuple.(*ssa.Call); ok && v.Index == 0 && IsFieldLoad(c.Call.Value, omPkg+".converter", "ValueToString") && len(c.Call.Args) == 1 && entityField(c.Call.Args[0]) {
				okV = Guarded(s.Block, halfNil("ValueToString", false))
				what = "converter"
			}
		case *ssa.Call:
			n := CalleeName(v)
			if n == "rueidis.JSON" || n == "rueidis.BinaryString" {
				okV = Guarded(s.Block, halfNil("ValueToString", true)) && strings.Contains(DescDeep(v), ".Field(") && strings.Contains(DescDeep(v), ".idx")
				what = "JSON"
			}
		}
		r.ObSite("R40e", s, "encodes-own-field:"+what, okV, "the stored text is this table entry's encoding of entity.Field(entry.idx): the converter's when it has one, JSON when it has none")
	}
	r.Anchor("R40e", "ToHash: field stores (>= 2)", len(updates) >= 2)
	// every iteration stores its field: enumerate the edges that end an iteration without a store
	hdr := tw.next.Block()
	isUpd := func(b *ssa.BasicBlock) bool {
		for _, in := range b.Instrs {
			if _, ok := in.(*ssa.MapUpdate); ok {
				return true
			}
		}
		return false
	}
	var body *ssa.BasicBlock
	for _, sc := range hdr.Succs {
		if hdr.Dominates(sc) && sc != hdr && reachesBlock(sc, hdr) {
			body = sc
		}
	}
	nSkip := 0
	if r.Anchor("R40e", "ToHash: loop body", body != nil) {
		seen := map[*ssa.BasicBlock]bool{}
		var dfs func(b *ssa.BasicBlock)
		dfs = func(b *ssa.BasicBlock) {
			if seen[b] || isUpd(b) {
				return
			}
			seen[b] = true
			for k, sc := range b.Succs {
				if sc == hdr {
					nSkip++
					why := "unconditional"
					if iff, ok := b.Instrs[len(b.Instrs)-1].(*ssa.If); ok {
						g := normGuard(Guard{iff.Cond, k == 0, b})
						why = g.String()
						if strings.Contains(DescDeep(g.Cond), "encoding/json.Marshal") {
							why = "json-encoding-fails"
						}
						if ex, isx := g.Cond.(*ssa.Extract); isx && ex.Index == 1 && !g.Pol {
							if c, isc := ex.Tuple.(*ssa.Call); isc && IsFieldLoad(c.Call.Value, omPkg+".converter", "ValueToString") {
								why = "converter-declines"
							}
						}
					}
					r.ObSite("R40e", Site{to, b, len(b.Instrs) - 1, b.Instrs[len(b.Instrs)-1]}, "field-skipped:"+why, false,
						"an iteration of ToHash can end without storing its field: Save then succeeds without writing (or clearing) that field and Fetch returns the previously stored value")
				} else {
					dfs(sc)
				}
			}
		}
		dfs(body)
	}
	r.Extra["tohash_skip_edges"] = nSkip
	// FromHash
	nLook := 0
	for _, b := range from.Blocks {
		for i, in := range b.Instrs {
			l, ok := in.(*ssa.Lookup)
			if !ok || l.X != ssa.Value(from.Params[1]) {
				continue
			}
			nLook++
			r.ObSite("R40e", Site{from, b, i, in}, "hash-field-read-by-table-key", l.Index == fw.key, "FromHash reads the field under the table's key, the name ToHash stored it under")
		}
	}
	r.Anchor("R40e", "FromHash: field lookup", nLook == 1)
	nDec := 0
	// FromHash itself and an unexported decoding helper it delegates to; the helper's error must be
	// returned by FromHash
	decodeFns := []*ssa.Function{from}
	for _, cs := range Sites(from, func(in ssa.Instruction) bool { _, ok := in.(*ssa.Call); return ok }) {
		c := cs.Instr.(*ssa.Call)
		h := c.Call.StaticCallee()
		if h == nil || h.Blocks == nil || h.Pkg != from.Pkg || isExportedName(h.Name()) || h == from {
			continue
		}
		if len(CallSites(h, "reflect.(Value).Set"))+len(CallSites(h, "encoding/json.Unmarshal")) == 0 {
			continue
		}
		decodeFns = append(decodeFns, h)
		handedBack := false
		for _, b := range from.Blocks {
			if ret, ok := b.Instrs[len(b.Instrs)-1].(*ssa.Return); ok && len(ret.Results) == 1 && ret.Results[0] == ssa.Value(c) {
				handedBack = Guarded(b, func(g Guard) bool {
					x, op, y, ok := CmpGuard(g)
					return ok && x == ssa.Value(c) && op == token.NEQ && IsNilConst(y)
				})
			}
		}
		r.ObSite("R40e", cs, "decode-error-returned", handedBack, "the error of the decoding helper is returned to the caller of Fetch")
	}
	for _, from := range decodeFns {
		for _, s := range CallSites(from, "reflect.(Value).Set") {
			nDec++
			c := s.Instr.(*ssa.Call)
			okT := entityField(c.Call.Args[0])
			okV := false
			var derr ssa.Value
			if ex, ok := c.Call.Args[1].(*ssa.Extract); ok && ex.Index == 0 {
				if dc, ok := ex.Tuple.(*ssa.Call); ok && IsFieldLoad(dc.Call.Value, omPkg+".converter", "StringToValue") {
					okV = Guarded(s.Block, halfNil("StringToValue", false))
					derr = extractOf(dc, 1)
				}
			}
			okE := derr != nil && Guarded(s.Block, func(g Guard) bool {
				x, op, y, ok := CmpGuard(g)
				return ok && x == derr && op == token.EQL && IsNilConst(y)
			})
			r.ObSite("R40e", s, "decodes-into-own-field", okT && okV && okE, "the converter's decoding of the looked-up text is set into entity.Field(entry.idx), only when decoding succeeded")
			if derr != nil {
				returned := false
				for _, b := range from.Blocks {
					if ret, ok := b.Instrs[len(b.Instrs)-1].(*ssa.Return); ok && len(ret.Results) == 1 && ret.Results[0] == derr {
						returned = true
					}
				}
				r.ObSite("R40e", s, "decode-error-returned", returned, "a decoding error is returned to the caller of Fetch")
			}
		}
		for _, s := range CallSites(from, "encoding/json.Unmarshal") {
			nDec++
			c := s.Instr.(*ssa.Call)
			d := DescDeep(c.Call.Args[1])
			okT := strings.Contains(d, ".Field(") && strings.Contains(d, ".idx") && strings.Contains(d, ".Addr(")
			okG := Guarded(s.Block, halfNil("StringToValue", true))
			returned := false
			for _, b := range from.Blocks {
				if ret, ok := b.Instrs[len(b.Instrs)-1].(*ssa.Return); ok && len(ret.Results) == 1 && ret.Results[0] == ssa.Value(c) {
					returned = true
				}
			}
			r.ObSite("R40e", s, "json-decodes-into-own-field", okT && okG && returned, "entries without a converter are JSON-decoded into the address of entity.Field(entry.idx) and the error is returned")
		}
	}
	r.Anchor("R40e", "FromHash: converter and JSON decoding", nDec == 2)
}

func extractOf2(n *ssa.Next, idx int) ssa.Value {
	for _, u := range *n.Referrers() {
		if ex, ok := u.(*ssa.Extract); ok && ex.Index == idx {
			return ex
		}
	}
	return nil
}

// pkgVarCallFuncName returns the selector name of the call that initialises `var <name> = pkg.F(...)`.
func pkgVarCallFuncName(p *Prog, pkgShort, name string) string {
	pkg := p.Pkg(pkgShort)
	if pkg == nil {
		return ""
	}
	for _, f := range pkg.Syntax {
		for _, d := range f.Decls {
			gd, ok := d.(*ast.GenDecl)
			if !ok {
				continue
			}
			for _, sp := range gd.Specs {
				vs, ok := sp.(*ast.ValueSpec)
				if !ok {
					continue
				}
				for i, n := range vs.Names {
					if n.Name != name || i >= len(vs.Values) {
						continue
					}
					if ce, ok := vs.Values[i].(*ast.CallExpr); ok {
						switch fn := ce.Fun.(type) {
						case *ast.SelectorExpr:
							return fn.Sel.Name
						case *ast.Ident:
							return fn.Name
						}
					}
				}
			}
		}
	}
	return ""
}
