package rv

import (
	"go/constant"
	"go/token"
	"strings"

	"golang.org/x/tools/go/ssa"
)

func init() {
	Registry["C21"] = RuleDef{Module: ".", Run: runC21,
		Technique:   "guard rules (dominating / edge-wise conditions on go/ssa) on every replica hand-out, provenance of consent flags through parameters, clamp rule on selector results",
		Explanation: "Decides (R21a) that in the sentinel client every routing use of the replica connection (returned from a picker, acquired, or used to send a caller's command) is under `c.replica` (ReplicaOnly) or under a true SendToReplicas answer, that the batch pickers get their flag from sendAllToReplica[Cache], and that those answer true only when the predicate is set and no call of it answered false; (R21b) that the standalone client reaches a replica (pick / replicas slice) only under a true toReplicas answer, and cache reads and dedicated clients only use the primary; (R21c) that the cluster client consults the replica slot table only under a true toReplica/SendToReplicas answer (or a bitmap bit set under one), that the toReplica flag passed to pick/_pick always derives from the predicate, and that replicas enter the primary slot table only in the ReplicaOnly arm; (R21d) that every node-selector result used as an index is replaced by 0 (the primary) when it is negative or not below the candidate count. (R21e) in the cluster batch pickers the connection of command i comes from the slot tables or from its own destination slot, never from another command of the batch.",
		NotDecided:  "that the loop-accumulated batch flag really covers every command for all batch shapes (only the accumulator shape is checked); which replica is chosen."}
}

type consentCtx struct {
	p        *Prog
	paramOK  map[*ssa.Parameter]int // 0 unknown, 1 ok, 2 bad, 3 in progress
	bitmapOK map[*ssa.Function]int
}

func (c *consentCtx) isConsentCall(call *ssa.Call) bool {
	n := CalleeName(call)
	switch n {
	case "rueidis.(*clusterClient).toReplica", "rueidis.(*sentinelClient).sendAllToReplica", "rueidis.(*sentinelClient).sendAllToReplicaCache":
		return true
	}
	if n == "" && !call.Call.IsInvoke() {
		// call of a function value stored in a field named SendToReplicas / toReplicas
		if u, ok := call.Call.Value.(*ssa.UnOp); ok && u.Op == token.MUL {
			if _, f, _, isf := FieldRef(u.X); isf && (f == "SendToReplicas" || f == "toReplicas") {
				return true
			}
		}
	}
	if n == "rueidis.(*bitmap).Get" {
		fn := call.Parent()
		if c.bitmapOK[fn] == 0 {
			c.bitmapOK[fn] = 1
			for _, s := range CallSites(fn, "rueidis.(*bitmap).Set") {
				if !Guarded(s.Block, func(g Guard) bool { return c.isConsentGuard(g) }) {
					c.bitmapOK[fn] = 2
				}
			}
		}
		return c.bitmapOK[fn] == 1
	}
	return false
}

func (c *consentCtx) isConsentValue(v ssa.Value, depth int) bool {
	if depth > 6 && depth < 100 {
		return false
	}
	v = Strip(v)
	switch x := v.(type) {
	case *ssa.Const:
		return x.Value != nil && x.Value.Kind() == constant.Bool && !constant.BoolVal(x.Value)
	case *ssa.Call:
		return c.isConsentCall(x)
	case *ssa.UnOp:
		if x.Op == token.MUL && IsFieldAddr(x.X, "rueidis.sentinelClient", "replica") {
			return true
		}
	case *ssa.BinOp:
		if x.Op == token.NEQ && IsNilConst(x.Y) && depth >= 100 {
			// `pred != nil`: the initial value of an and-accumulator
			if u, ok := x.X.(*ssa.UnOp); ok && u.Op == token.MUL {
				if _, f, _, isf := FieldRef(u.X); isf && (f == "SendToReplicas" || f == "toReplicas") {
					return true
				}
			}
		}
		if x.Op == token.AND || x.Op == token.LAND {
			return c.isConsentValue(x.X, depth+1) || c.isConsentValue(x.Y, depth+1)
		}
	case *ssa.Phi:
		for _, e := range x.Edges {
			if e == v {
				continue
			}
			if c.isConsentValue(e, depth+1) {
				continue
			}
			// `pred != nil` is accepted only as the initial value of an and-accumulator, i.e. when
			// another edge of the same phi is an actual predicate answer
			if b, ok := Strip(e).(*ssa.BinOp); ok && b.Op == token.NEQ && IsNilConst(b.Y) {
				if u, ok := b.X.(*ssa.UnOp); ok && u.Op == token.MUL {
					if _, f, _, isf := FieldRef(u.X); isf && (f == "SendToReplicas" || f == "toReplicas") {
						hasAnswer := false
						for k2, e2 := range x.Edges {
							if c2, isc := Strip(e2).(*ssa.Call); isc && c.isConsentCall(c2) {
								hasAnswer = true
							}
							// or the accumulator is cleared where a predicate answered false
							// (`if !pred(cmd) { ok = false; break }`)
							if k, isk := Strip(e2).(*ssa.Const); isk && k.Value != nil && k.Value.Kind() == constant.Bool && !constant.BoolVal(k.Value) {
								pr := x.Block().Preds[k2]
								for _, g := range append(DomGuards(pr), edgeGuards(pr, x.Block())...) {
									if gc, isc := g.Cond.(*ssa.Call); isc && !g.Pol && c.isConsentCall(gc) {
										hasAnswer = true
									}
								}
							}
						}
						if hasAnswer {
							continue
						}
					}
				}
			}
			return false
		}
		return true
	case *ssa.Parameter:
		switch c.paramOK[x] {
		case 1, 3:
			return true
		case 2:
			return false
		}
		c.paramOK[x] = 3
		idx := -1
		for i, prm := range x.Parent().Params {
			if prm == x {
				idx = i
			}
		}
		callers := c.p.Callers(FuncName(x.Parent()))
		ok := len(callers) > 0 && x.Parent().Parent() == nil && !isExportedName(x.Parent().Name())
		for _, cs := range callers {
			args := CallArgs(cs.Call())
			if idx >= len(args) || !c.isConsentValue(args[idx], depth+1) {
				ok = false
			}
		}
		if ok {
			c.paramOK[x] = 1
		} else {
			c.paramOK[x] = 2
		}
		return ok
	}
	return false
}

func isExportedName(n string) bool { return n != "" && n[0] >= 'A' && n[0] <= 'Z' }

func (c *consentCtx) isConsentGuard(g Guard) bool {
	return g.Pol && c.isConsentValue(g.Cond, 0)
}

// flowsTo follows a value forward through type assertions, interface conversions, phis and
// extracts and reports the instructions that consume it otherwise.
func flowsTo(v ssa.Value) []ssa.Instruction {
	var out []ssa.Instruction
	seen := map[ssa.Value]bool{}
	var rec func(v ssa.Value)
	rec = func(v ssa.Value) {
		if seen[v] || v.Referrers() == nil {
			return
		}
		seen[v] = true
		for _, ref := range *v.Referrers() {
			switch x := ref.(type) {
			case *ssa.TypeAssert:
				rec(x)
			case *ssa.ChangeInterface:
				rec(x)
			case *ssa.MakeInterface:
				rec(x)
			case *ssa.Phi:
				rec(x)
			case *ssa.Extract:
				rec(x)
			default:
				out = append(out, ref)
			}
		}
	}
	rec(v)
	return out
}

func isRoutingUse(in ssa.Instruction, v ssa.Value) bool {
	switch x := in.(type) {
	case *ssa.Return:
		return true
	case *ssa.Call:
		n := CalleeName(x)
		if strings.HasPrefix(n, "iface:rueidis.conn.") {
			m := n[len("iface:rueidis.conn."):]
			switch m {
			case "Acquire", "DoStream", "DoMultiStream":
				return true
			case "Do", "DoMulti", "DoCache", "DoMultiCache", "Receive":
				// a caller's command (derived from a parameter), not a predefined probe such as ROLE
				for _, a := range x.Call.Args {
					if isCmdType(a.Type()) {
						for k := range cmdValueRoots(a) {
							if strings.HasPrefix(k, "param:") {
								return true
							}
						}
					}
				}
			}
		}
	case *ssa.Store:
		// parked in a dedicated client
		if t, f, _, ok := FieldRef(x.Addr); ok && t == "rueidis.dedicatedSingleClient" && f == "conn" {
			return true
		}
	}
	return false
}

func runC21(r *Report) {
	destinationProvenanceRule(r)
	p := r.P
	cc := &consentCtx{p: p, paramOK: map[*ssa.Parameter]int{}, bitmapOK: map[*ssa.Function]int{}}

	// R21a sentinel
	nR := 0
	for _, fn := range p.Funcs("rueidis.(*sentinelClient).") {
		for _, s := range CallSites(fn, "sync/atomic.(*Value).Load") {
			if !IsFieldAddr(s.Call().Common().Args[0], "rueidis.sentinelClient", "rConn") {
				continue
			}
			routing := false
			for _, u := range flowsTo(s.Instr.(ssa.Value)) {
				if isRoutingUse(u, nil) {
					routing = true
				}
			}
			if !routing {
				continue
			}
			nR++
			ok := Guarded(s.Block, cc.isConsentGuard)
			r.ObSite("R21a", s, "replica-conn-routing-use", ok, "the replica connection is handed out for a caller's command only under ReplicaOnly (c.replica) or a true SendToReplicas answer; guards: "+GuardStrings(GuardDNF(s.Block, 4)))
		}
	}
	r.Anchor("R21a", "routing uses of sentinelClient.rConn", nR >= 4)
	for _, name := range []string{"rueidis.(*sentinelClient).sendAllToReplica", "rueidis.(*sentinelClient).sendAllToReplicaCache"} {
		fn := r.FnAnchor("R21a", name)
		if fn == nil {
			continue
		}
		checkAllPredicate(r, "R21a", fn)
	}

	// R21b standalone
	if pick := r.FnAnchor("R21b", "rueidis.(*standalone).pick"); pick != nil {
		n := 0
		for _, s := range p.Callers("rueidis.(*standalone).pick") {
			n++
			ok := Guarded(s.Block, cc.isConsentGuard)
			r.ObSite("R21b", s, "replica-pick", ok, "a standalone replica is picked only under a true toReplicas answer (for a batch: the and-accumulated answer); guards: "+GuardStrings(GuardDNF(s.Block, 4)))
		}
		r.Anchor("R21b", "callers of standalone.pick", n >= 4)
		for _, a := range p.FieldAccesses("rueidis.standalone", "replicas") {
			tn := FuncName(TopFunc(a.Fn))
			switch tn {
			case "rueidis.(*standalone).pick", "rueidis.newStandaloneClient", "rueidis.(*standalone).Close", "rueidis.(*standalone).Nodes":
				continue
			}
			r.ObSite("R21b", a.Site, "replicas-outside-pick", false, "the replica list is used for routing outside standalone.pick")
		}
	}

	// R21c cluster
	nRS := 0
	for _, fn := range p.Funcs("rueidis.(*clusterClient).") {
		if strings.HasPrefix(FuncName(fn), "rueidis.(*clusterClient)._refresh") {
			continue
		}
		for _, s := range Sites(fn, func(in ssa.Instruction) bool {
			switch x := in.(type) {
			case *ssa.IndexAddr:
				return IsFieldLoad(x.X, "rueidis.clusterClient", "rslots")
			case *ssa.Index:
				return IsFieldLoad(x.X, "rueidis.clusterClient", "rslots")
			}
			return false
		}) {
			nRS++
			ok := Guarded(s.Block, cc.isConsentGuard)
			r.ObSite("R21c", s, "replica-table-consulted", ok, "the replica slot table is consulted only under a true toReplica / SendToReplicas answer; guards: "+GuardStrings(GuardDNF(s.Block, 4)))
		}
	}
	r.Anchor("R21c", "uses of clusterClient.rslots", nRS >= 3)
	if fn := r.FnAnchor("R21c", "rueidis.(*clusterClient).toReplica"); fn != nil {
		ok := true
		for _, b := range fn.Blocks {
			if ret, isret := b.Instrs[len(b.Instrs)-1].(*ssa.Return); isret {
				if !cc.isConsentValue(ret.Results[0], 0) {
					ok = false
				}
			}
		}
		r.Ob("R21c", fn, "toReplica-returns-predicate", fn.Pos(), ok, "clusterClient.toReplica returns the SendToReplicas answer, or false when the predicate is not set")
	}
	for _, s := range p.Callers("rueidis.(*clusterClient).pick", "rueidis.(*clusterClient)._pick") {
		args := CallArgs(s.Call())
		ok := cc.isConsentValue(args[len(args)-1], 0)
		r.ObSite("R21c", s, "toReplica-flag-provenance", ok, "the toReplica flag passed to the picker derives from the SendToReplicas predicate (or is false); got "+Desc(args[len(args)-1]))
	}
	// replicas enter wslots only in the ReplicaOnly arm; otherwise the primary g.nodes[0]
	if rf := r.FnAnchor("R21c", "rueidis.(*clusterClient)._refresh"); rf != nil {
		n := 0
		for _, s := range Sites(rf, func(in ssa.Instruction) bool {
			st, ok := in.(*ssa.Store)
			if !ok {
				return false
			}
			ia, ok := st.Addr.(*ssa.IndexAddr)
			return ok && strings.Contains(shortType(ia.X.Type()), "[16384]rueidis.conn")
		}) {
			n++
			st := s.Instr.(*ssa.Store)
			primary := false
			d := DescDeep(st.Val)
			if strings.Contains(d, ".nodes[0].conn") || strings.Contains(d, ".nodes[0]") {
				primary = true
			}
			if !primary {
				// node := g.nodes[0] copied into a local
				primary = DependsOn(st.Val, func(v ssa.Value) bool {
					ia, ok := v.(*ssa.IndexAddr)
					if !ok {
						return false
					}
					k, isc := ConstInt(ia.Index)
					return isc && k == 0 && strings.HasSuffix(DescDeep(ia.X), ".nodes")
				}) && !DependsOn(st.Val, func(v ssa.Value) bool {
					ia, ok := v.(*ssa.IndexAddr)
					if !ok || !strings.HasSuffix(DescDeep(ia.X), ".nodes") {
						return false
					}
					k, isc := ConstInt(ia.Index)
					return !(isc && k == 0)
				})
			}
			replicaOnly := Guarded(s.Block, func(g Guard) bool {
				return g.Pol && strings.HasSuffix(DescDeep(g.Cond), ".opt.ReplicaOnly")
			})
			r.ObSite("R21c", s, "primary-table-entry", primary || replicaOnly, "the primary slot table receives the group's primary (g.nodes[0]) except in the ReplicaOnly arm; stored value: "+Desc(st.Val))
		}
		r.Anchor("R21c", "stores into wslots in _refresh", n >= 3)
	}

	// the group's primary really is a primary, and the sentinel re-verifies roles
	shardPrimaryRules(r, "R21c")
	roleVerifiedOnSuccess(r, "R21a")

	// R21d clamps
	nSel := 0
	for _, fn := range p.ModuleFuncs() {
		if !strings.HasPrefix(FuncName(fn), "rueidis.") {
			continue
		}
		for _, s := range Sites(fn, func(in ssa.Instruction) bool {
			c, ok := in.(*ssa.Call)
			if !ok || c.Call.IsInvoke() || c.Call.StaticCallee() != nil {
				return false
			}
			u, ok := c.Call.Value.(*ssa.UnOp)
			if !ok || u.Op != token.MUL {
				return false
			}
			_, f, _, isf := FieldRef(u.X)
			return isf && (f == "ReadNodeSelector" || f == "nodeSelector" || f == "ReplicaSelector")
		}) {
			nSel++
			sel := s.Instr.(*ssa.Call)
			// every IndexAddr whose index derives from sel
			used := 0
			for _, b := range fn.Blocks {
				for i, in := range b.Instrs {
					ia, ok := in.(*ssa.IndexAddr)
					if !ok {
						continue
					}
					if !DependsOn(ia.Index, func(v ssa.Value) bool { return v == ssa.Value(sel) }) {
						continue
					}
					used++
					okc := selectorClamped(ia, sel)
					r.ObSite("R21d", Site{fn, b, i, in}, "selector-index-clamped", okc, "a node-selector result used as an index must fall back to 0 (the primary) when it is negative or not below the number of candidates")
				}
			}
			// map-style uses (itor[i] = rIndex) are guarded the same way
			for _, b := range fn.Blocks {
				for i, in := range b.Instrs {
					mu, ok := in.(*ssa.MapUpdate)
					if !ok || Strip(mu.Value) != ssa.Value(sel) {
						continue
					}
					used++
					lo, hi := selectorGuards(GuardDNF(b, 4), sel)
					r.ObSite("R21d", Site{fn, b, i, in}, "selector-index-recorded-in-range", lo && hi, "a selector result recorded for later indexing must be within range; guards: "+GuardStrings(GuardDNF(b, 4)))
				}
			}
			// an unexported helper may hand the clamped index back to its caller, which indexes the same candidates
			if !isExportedName(fn.Name()) {
				for _, b := range fn.Blocks {
					ret, ok := b.Instrs[len(b.Instrs)-1].(*ssa.Return)
					if !ok || len(ret.Results) != 1 || !isIntType(ret.Results[0].Type()) || !DependsOn(ret.Results[0], func(v ssa.Value) bool { return v == ssa.Value(sel) }) {
						continue
					}
					used++
					r.ObSite("R21d", SiteOf(ret), "selector-index-clamped", selectorClampedAt(ret.Results[0], b, sel), "a node-selector result handed back as an index must fall back to 0 (the primary) when it is negative or not below the number of candidates")
					// the callers index the candidates they passed
					cand := -1
					if len(sel.Call.Args) == 2 {
						for k, prm := range fn.Params {
							if ssa.Value(prm) == sel.Call.Args[1] {
								cand = k
							}
						}
					}
					for _, caller := range p.ModuleFuncs() {
						for _, cs := range Sites(caller, func(in ssa.Instruction) bool {
							c, ok := in.(*ssa.Call)
							return ok && c.Call.StaticCallee() == fn
						}) {
							call := cs.Instr.(*ssa.Call)
							okUse := cand >= 0
							nUse := 0
							for _, u := range *call.Referrers() {
								ia, isia := u.(*ssa.IndexAddr)
								if !isia || ia.Index != ssa.Value(call) {
									continue
								}
								nUse++
								if cand < 0 || !Same(ia.X, call.Call.Args[cand]) {
									okUse = false
								}
							}
							r.ObSite("R21d", cs, "helper-index-used-on-its-candidates", okUse && nUse > 0, "the index a selector helper returns is applied to the very candidate list the helper was given")
						}
					}
				}
			}
			r.ObSite("R21d", s, "selector-result-used", used > 0, "selector result is used as an index")
		}
	}
	r.Anchor("R21d", "node selector calls", nSel >= 4)
}

// selectorGuards: every disjunct contains sel >= 0 and sel < len(...) (possibly len-1).
func selectorGuards(dnf [][]Guard, sel ssa.Value) (lo, hi bool) {
	lo, hi = true, true
	for _, conj := range dnf {
		l, h := false, false
		for _, g := range conj {
			x, op, y, ok := CmpGuard(g)
			if !ok || Strip(x) != sel {
				continue
			}
			if k, isc := ConstInt(y); isc && ((op == token.GEQ && k >= 0) || (op == token.GTR && k >= -1)) {
				l = true // sel >= 0, or the stronger sel > 0 (`if sel <= 0 || ... { primary }`)
			}
			if op == token.LSS && strings.Contains(Desc(y), "builtin.len(") {
				h = true
			}
		}
		lo = lo && l
		hi = hi && h
	}
	return
}

func selectorClamped(ia *ssa.IndexAddr, sel ssa.Value) bool {
	return selectorClampedAt(ia.Index, ia.Block(), sel)
}

// selectorClampedAt: the value idx, used in block use, is 0 or the selector result within range.
func selectorClampedAt(idx ssa.Value, use *ssa.BasicBlock, sel ssa.Value) bool {
	// the index is a phi of the constant 0 and the selector result (possibly +/- a constant); the
	// edge carrying the selector result is guarded by 0 <= sel < len
	var check func(v ssa.Value, at *ssa.BasicBlock, depth int) bool
	check = func(v ssa.Value, at *ssa.BasicBlock, depth int) bool {
		if depth > 4 {
			return false
		}
		v = Strip(v)
		if k, isc := ConstInt(v); isc && k >= 0 {
			return true
		}
		switch x := v.(type) {
		case *ssa.Phi:
			for i, e := range x.Edges {
				pred := x.Block().Preds[i]
				if e == ssa.Value(x) {
					continue
				}
				if Strip(e) == sel || DependsOn(e, func(y ssa.Value) bool { return y == sel }) {
					if _, isphi := Strip(e).(*ssa.Phi); isphi {
						if !check(e, pred, depth+1) {
							return false
						}
						continue
					}
					var dnf [][]Guard
					for _, conj := range GuardDNF(pred, 4) {
						gs := append([]Guard{}, conj...)
						if iff, isif := pred.Instrs[len(pred.Instrs)-1].(*ssa.If); isif && pred.Succs[0] != pred.Succs[1] {
							gs = append(gs, normGuard(Guard{iff.Cond, pred.Succs[0] == x.Block(), pred}))
						}
						dnf = append(dnf, gs)
					}
					lo, hi := selectorGuards(dnf, sel)
					if !lo || !hi {
						return false
					}
				} else if !check(e, pred, depth+1) {
					return false
				}
			}
			return true
		case *ssa.BinOp:
			// 1+rIndex or rIndex-1 under guards at the use site
			lo, hi := selectorGuards(GuardDNF(use, 4), sel)
			if lo && hi {
				return true
			}
			return check(x.X, at, depth+1) && check(x.Y, at, depth+1)
		case *ssa.Call:
			if v == sel {
				lo, hi := selectorGuards(GuardDNF(use, 4), sel)
				return lo && hi
			}
		}
		return false
	}
	return check(idx, use, 0)
}

// checkAllPredicate: the function answers true only if the predicate is set and no call of it
// answered false.
func checkAllPredicate(r *Report, rule string, fn *ssa.Function) {
	nCalls := 0
	for _, b := range fn.Blocks {
		for i, in := range b.Instrs {
			c, ok := in.(*ssa.Call)
			if !ok || c.Call.IsInvoke() || c.Call.StaticCallee() != nil {
				continue
			}
			u, ok := c.Call.Value.(*ssa.UnOp)
			if !ok {
				continue
			}
			if _, f, _, isf := FieldRef(u.X); !isf || f != "SendToReplicas" {
				continue
			}
			nCalls++
			// false answer => return false
			okf := false
			for _, ref := range *c.Referrers() {
				iff, isif := ref.(*ssa.If)
				if !isif {
					continue
				}
				fb := iff.Block().Succs[1]
				if ret, isret := fb.Instrs[len(fb.Instrs)-1].(*ssa.Return); isret && len(fb.Instrs) == 1 {
					if k, isc := ret.Results[0].(*ssa.Const); isc && k.Value != nil && !constant.BoolVal(k.Value) {
						okf = true
					}
				}
			}
			r.ObSite(rule, Site{fn, b, i, in}, "false-answer-ends-with-false", okf, "as soon as the predicate answers false for one command the batch answer is false")
		}
		if ret, isret := b.Instrs[len(b.Instrs)-1].(*ssa.Return); isret {
			if k, isc := ret.Results[0].(*ssa.Const); isc && k.Value != nil && constant.BoolVal(k.Value) {
				set := false
				for _, g := range DomGuards(b) {
					x, op, y, ok := CmpGuard(g)
					if ok && op == token.NEQ && IsNilConst(y) && strings.HasSuffix(Desc(x), ".SendToReplicas") {
						set = true
					}
				}
				r.ObSite(rule, Site{fn, b, len(b.Instrs) - 1, ret}, "true-needs-predicate", set, "the batch answer can be true only when the predicate is set")
			} else if !isc {
				r.ObSite(rule, Site{fn, b, len(b.Instrs) - 1, ret}, "non-constant-answer", false, "cannot decide a non-constant answer")
			}
		}
	}
	r.Anchor(rule, FuncName(fn)+": predicate calls", nCalls >= 1)
}

// destinationProvenanceRule (R21e): in the cluster batch pickers the connection chosen for command
// i comes from the primary slot table, from the replica slot table (whose consultation R21c puts
// under this command's own consent) or - when read back - from the command's own slot of the
// destination table. It is never taken over from another command of the batch, whose consent says
// nothing about this one.
func destinationProvenanceRule(r *Report) {
	n := 0
	for _, name := range []string{"rueidis.(*clusterClient)._pickMulti", "rueidis.(*clusterClient)._pickMultiCache"} {
		fn := r.FnAnchor("R21e", name)
		if fn == nil {
			continue
		}
		// the loop index of each per-command loop
		okLeaf := func(v ssa.Value, idxOK func(ssa.Value) bool) (bool, string) {
			if IsNilConst(v) {
				return true, ""
			}
			d := DescDeep(v)
			switch {
			case strings.Contains(d, ".wslots["):
				return true, ""
			case strings.Contains(d, ".rslots[") && strings.HasSuffix(d, ".conn"):
				return true, ""
			}
			if sl, idx, isel := elemOf(v); isel && strings.Contains(shortType(sl.Type()), "[]rueidis.conn") {
				if idxOK(idx) {
					return true, ""
				}
				return false, "taken from another command's destination: " + d
			}
			// a node list element's conn (nodes := c.rslots[slot]; nodes[rIndex].conn)
			if strings.HasSuffix(d, ".conn") && strings.Contains(shortType(v.Type()), "conn") {
				if DependsOn(v, func(x ssa.Value) bool { return strings.Contains(Desc(x), ".rslots") }) {
					return true, ""
				}
			}
			return false, "unexpected origin: " + d
		}
		check := func(site Site, v ssa.Value, idxOK func(ssa.Value) bool, what string) {
			n++
			seen := map[ssa.Value]bool{}
			good := true
			why := ""
			var walk func(x ssa.Value)
			walk = func(x ssa.Value) {
				if seen[x] {
					return
				}
				seen[x] = true
				if ph, ok := x.(*ssa.Phi); ok {
					for _, e := range ph.Edges {
						walk(e)
					}
					return
				}
				if ok, w := okLeaf(x, idxOK); !ok {
					good, why = false, w
				}
			}
			walk(v)
			r.ObSite("R21e", site, what, good, "the connection chosen for a command comes from the slot tables or from the command's own destination slot; "+why)
		}
		for _, s := range Sites(fn, func(in ssa.Instruction) bool { return true }) {
			switch x := s.Instr.(type) {
			case *ssa.Store:
				if ia, ok := x.Addr.(*ssa.IndexAddr); ok && strings.Contains(shortType(ia.X.Type()), "[]rueidis.conn") {
					own := ia.Index
					check(s, x.Val, func(i ssa.Value) bool { return i == own }, "destination-slot")
				}
			case *ssa.Lookup:
				// retries.m[cc] / count.m[cc]: the key
				if strings.HasPrefix(shortType(x.X.Type()), "map[rueidis.conn]") {
					var loopIdx ssa.Value
					for _, h := range fn.Blocks {
						if IsLoopHeader(h) && h.Dominates(s.Block) {
							for _, in := range h.Instrs {
								if bo, ok := in.(*ssa.BinOp); ok && isRangeIndex(h, bo) {
									loopIdx = bo
								}
							}
						}
					}
					check(s, x.Index, func(i ssa.Value) bool { return loopIdx != nil && i == loopIdx }, "batch-key")
				}
			}
		}
	}
	r.Anchor("R21e", "per-command destinations (>= 4)", n >= 4)
}
