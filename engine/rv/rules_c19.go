package rv

import (
	"fmt"
	"go/token"
	"strings"

	"golang.org/x/tools/go/ssa"
)

func init() {
	Registry["C19"] = RuleDef{Module: ".", Run: runC19,
		Technique:   "bounds prover on the topology parsers, guard and must-pass rules on the slot-table writers and redirect paths, emission-order rule for ASKING",
		Explanation: "Decides (R19a) that every index/slice expression in parseSlots, parseShards and parseEndpoint is in bounds on every path (one reviewed exception: g.nodes[m] after m recorded the length before an append); (R19b) that in parseShards a node is added only when healthy and with a usable endpoint, that the index recorded for the primary is the index of a node that is appended on every path (so an unhealthy or endpoint-less primary can never make a replica the group's primary), that parseSlots skips groups whose primary has no endpoint, and that _refresh puts the group's primary g.nodes[0] into the slot table except in the ReplicaOnly arm; (R19c) that every MOVED/ASK re-send in do, doCache, DoMulti and DoMultiCache is behind the redirect counter and the MaxMovedRedirections exit; (R19d) that an ASK redirect sends ASKING immediately before the redirected command or MULTI; (R19e) that redirectOrNew writes the slot table only for MOVED with a real slot. (R19f) in the topology parsers a master's entry that was modified in a local copy is stored back into the map before the next element is examined; (R19h) in the batch paths a command whose reply was an ASK redirect is queued into the batch's ASKING lists (sent as ASKING+command by the next round) and every other re-queued command into the plain lists; (R19g) every answer of shouldRefreshRetry that makes the caller redirect or retry - transport errors included - has scheduled a topology refresh.",
		NotDecided:  "destination correctness under concurrent topology change; the table-building arithmetic of _refresh beyond its explicit range guards; the final reply returned after redirects."}
}

func runC19(r *Report) {
	topologyParseRules(r)
	askQueueRule(r)
	p := r.P
	// R19a
	reviewed := map[string]string{}
	for _, n := range []string{"rueidis.parseSlots", "rueidis.parseShards", "rueidis.parseEndpoint"} {
		fn := r.FnAnchor("R19a", n)
		if fn == nil {
			continue
		}
		if n == "rueidis.parseShards" {
			// m is either -1 or len(g.nodes) taken just before an append, and the slice only grows;
			// the swap is under m >= 0
			c := NewBCtx(fn)
			for _, s := range c.IndexSites() {
				if s.Proved {
					continue
				}
				ia, ok := s.Site.Instr.(*ssa.IndexAddr)
				if !ok || !strings.HasSuffix(DescDeep(ia.X), ".nodes") {
					continue
				}
				nonNeg := Guarded(s.Site.Block, func(g Guard) bool {
					x, op, y, cok := CmpGuard(g)
					k, isc := ConstInt(y)
					return cok && op == token.GEQ && isc && k == 0 && Strip(x) == Strip(ia.Index)
				})
				k0, isc0 := ConstInt(ia.Index)
				anyM := Guarded(s.Site.Block, func(g Guard) bool {
					_, op, y, cok := CmpGuard(g)
					k, isc := ConstInt(y)
					return cok && op == token.GEQ && isc && k == 0
				})
				if nonNeg || (isc0 && k0 == 0 && anyM) {
					reviewed[n+"|"+s.Kind+":"+s.Desc] = "index is the recorded primary position m (len(g.nodes) just before an append; the slice only grows) or 0, under m >= 0"
				}
			}
		}
		boundsObligations(r, "R19a", fn, nil, reviewed)
	}
	r.Min("R19a", 12)

	// R19b parseShards
	shardPrimaryRules(r, "R19b")
	if fn := p.Fn("rueidis.parseSlots"); fn != nil {
		n := 0
		for _, s := range Sites(fn, func(in ssa.Instruction) bool { _, ok := in.(*ssa.MapUpdate); return ok }) {
			n++
			ok := Guarded(s.Block, func(g Guard) bool {
				x, op, y, cok := CmpGuard(g)
				sv, iss := ConstString(y)
				c, isc := x.(*ssa.Call)
				return cok && iss && sv == "" && op == token.NEQ && isc && CalleeName(c) == "rueidis.parseEndpoint"
			})
			r.ObSite("R19b", s, "group-needs-primary-endpoint", ok, "a slot group is registered only when its primary has a usable endpoint")
		}
		r.Anchor("R19b", "group registration in parseSlots", n >= 1)
	}
	primaryTableEntries(r, "R19b")

	// R19c redirect budget
	budgetGuard := func(g Guard) bool {
		return !g.Pol && DependsOn(g.Cond, func(v ssa.Value) bool {
			u, ok := v.(*ssa.UnOp)
			if !ok || u.Op != token.MUL {
				return false
			}
			_, f, _, isf := FieldRef(u.X)
			return isf && f == "MaxMovedRedirections"
		})
	}
	// the site is behind the `MaxMovedRedirections > 0 && redirects > Max` exit, and the compared
	// counter is the incremented one
	withinBudget := func(s Site) bool {
		if !Guarded(s.Block, budgetGuard) {
			return false
		}
		for _, b := range s.Fn.Blocks {
			if !reachesBlock(b, s.Block) {
				continue
			}
			for _, in := range b.Instrs {
				cmp, ok := in.(*ssa.BinOp)
				if !ok || cmp.Op != token.GTR {
					continue
				}
				inc, ok := cmp.X.(*ssa.BinOp)
				if !ok || inc.Op != token.ADD {
					continue
				}
				k, isc := ConstInt(inc.Y)
				_, isphi := inc.X.(*ssa.Phi)
				if isc && k == 1 && isphi && strings.HasSuffix(DescDeep(cmp.Y), ".MaxMovedRedirections") {
					return true
				}
			}
		}
		return false
	}
	nB := 0
	for _, n := range []string{"rueidis.(*clusterClient).do", "rueidis.(*clusterClient).doCache"} {
		fn := r.FnAnchor("R19c", n)
		if fn == nil {
			continue
		}
		for _, s := range CallSites(fn, "rueidis.(*clusterClient).redirectOrNew") {
			nB++
			r.ObSite("R19c", s, "redirect-within-budget", withinBudget(s), "a MOVED/ASK redirect is followed only after the redirect counter was incremented and compared with MaxMovedRedirections")
		}
	}
	for _, n := range []string{"rueidis.(*clusterClient).DoMulti", "rueidis.(*clusterClient).DoMultiCache"} {
		fn := r.FnAnchor("R19c", n)
		if fn == nil {
			continue
		}
		for _, a := range FieldAccessesIn(fn, "rueidis.connretry", "Redirects") {
			st, ok := a.Instr.(*ssa.Store)
			if !ok {
				continue
			}
			if k, isc := ConstInt(st.Val); !isc || k != 0 {
				continue
			}
			nB++
			r.ObSite("R19c", a.Site, "batch-redirect-within-budget", withinBudget(a.Site), "a redirected batch round is started only after the redirect counter was incremented and compared with MaxMovedRedirections")
		}
		for _, a := range FieldAccessesIn(fn, "rueidis.connretrycache", "Redirects") {
			st, ok := a.Instr.(*ssa.Store)
			if !ok {
				continue
			}
			if k, isc := ConstInt(st.Val); !isc || k != 0 {
				continue
			}
			nB++
			r.ObSite("R19c", a.Site, "batch-redirect-within-budget", withinBudget(a.Site), "a redirected batch round is started only after the redirect counter was incremented and compared with MaxMovedRedirections")
		}
	}
	r.Anchor("R19c", "redirect sites", nB >= 5)

	// R19d ASKING
	isAsking := func(v ssa.Value) bool { return strings.HasSuffix(Desc(v), "cmds.AskingCmd") }
	for _, n := range []string{"rueidis.(*clusterClient).askingMulti", "rueidis.(*clusterClient).askingMultiCache"} {
		fn := r.FnAnchor("R19d", n)
		if fn == nil {
			continue
		}
		nA := 0
		for _, s := range CallSites(fn, "builtin.append") {
			c := s.Instr.(*ssa.Call)
			if len(c.Call.Args) != 2 || !strings.Contains(shortType(c.Type()), "Completed") {
				continue
			}
			els := variadicElemsOrdered(c.Call.Args[1])
			userIdx, askIdx, multiIdx := -1, -1, -1
			for i, e := range els {
				if isAsking(e) && askIdx < 0 {
					askIdx = i
				}
				if strings.HasSuffix(Desc(e), "cmds.MultiCmd") && multiIdx < 0 {
					multiIdx = i
				}
				for k := range cmdValueRoots(e) {
					if (strings.HasPrefix(k, "param:") || strings.HasPrefix(k, "field:rueidis.CacheableTTL")) && userIdx < 0 && !isAsking(e) {
						if !strings.Contains(Desc(e), "NewCompleted") {
							userIdx = i
						}
					}
				}
			}
			if userIdx < 0 {
				continue
			}
			nA++
			first := userIdx
			if multiIdx >= 0 && multiIdx < first {
				first = multiIdx
			}
			ok := askIdx >= 0 && askIdx < first
			if !ok && askIdx < 0 {
				// inside an already opened transaction: allowed only under the in-transaction flag
				ok = Guarded(s.Block, func(g Guard) bool { _, isphi := g.Cond.(*ssa.Phi); return g.Pol && isphi })
			}
			r.ObSite("R19d", s, "asking-precedes-command", ok, "on an ASK redirect ASKING must be emitted immediately before the redirected command (or before MULTI for a transaction)")
		}
		r.Anchor("R19d", n+": command emissions", nA >= 1)
	}
	if fn := p.Fn("rueidis.(*clusterClient).do"); fn != nil {
		j, _ := redirectConsts(p)
		n := 0
		for _, s := range Sites(fn, func(in ssa.Instruction) bool { _, ok := sendKind(in); return ok }) {
			ask := Guarded(s.Block, func(g Guard) bool { k, eq, ok := modeGuard(g); return ok && eq && k == j.redirectAsk })
			if !ask {
				continue
			}
			n++
			els := variadicElemsOrdered(s.Call().Common().Args[len(s.Call().Common().Args)-1])
			ok := CalleeName(s.Call()) == "iface:rueidis.conn.DoMulti" && len(els) == 2 && isAsking(els[0])
			r.ObSite("R19d", s, "ask-arm-sends-asking-first", ok, "the ASK arm re-sends [ASKING, cmd] as one batch")
		}
		// the re-send may live in an unexported helper called from the ASK arm
		for _, cs := range Sites(fn, func(in ssa.Instruction) bool { _, ok := in.(*ssa.Call); return ok }) {
			callee := cs.Call().Common().StaticCallee()
			if callee == nil || callee.Blocks == nil || callee.Pkg != fn.Pkg || isExportedName(callee.Name()) || callee.Signature.Recv() != nil {
				continue
			}
			if !Guarded(cs.Block, func(g Guard) bool { k, eq, ok := modeGuard(g); return ok && eq && k == j.redirectAsk }) {
				continue
			}
			for _, s := range Sites(callee, func(in ssa.Instruction) bool { _, ok := sendKind(in); return ok }) {
				n++
				els := variadicElemsOrdered(s.Call().Common().Args[len(s.Call().Common().Args)-1])
				ok := CalleeName(s.Call()) == "iface:rueidis.conn.DoMulti" && len(els) == 2 && isAsking(els[0])
				if ok {
					_, isParam := Strip(els[1]).(*ssa.Parameter)
					ok = isParam
				}
				r.ObSite("R19d", s, "ask-arm-sends-asking-first", ok, "the helper the ASK arm calls re-sends [ASKING, cmd] as one batch")
			}
		}
		r.Anchor("R19d", "ASK arm of clusterClient.do", n >= 1)
	}
	if fn := p.Fn("rueidis.(*clusterClient).doCache"); fn != nil {
		j, _ := redirectConsts(p)
		n := 0
		for _, s := range Sites(fn, func(in ssa.Instruction) bool { _, ok := sendKind(in); return ok }) {
			ask := Guarded(s.Block, func(g Guard) bool { k, eq, ok := modeGuard(g); return ok && eq && k == j.redirectAsk })
			if !ask {
				continue
			}
			n++
			r.ObSite("R19d", s, "ask-arm-uses-asking-helper", CalleeName(s.Call()) == "rueidis.(*clusterClient).askingMultiCache", "the ASK arm of the cached path goes through askingMultiCache")
		}
		r.Anchor("R19d", "ASK arm of clusterClient.doCache", n >= 1)
	}

	// R19e MOVED teaches the table
	if fn := r.FnAnchor("R19e", "rueidis.(*clusterClient).redirectOrNew"); fn != nil {
		j, _ := redirectConsts(p)
		n := 0
		var wsStores []Site
		for _, f := range WithHelpers(p, fn) { // the registration of the new connection may be a helper
			if f != fn && f.Parent() == nil {
				// the helper's mode and slot are redirectOrNew's own parameters, passed through
				for _, cs := range p.Callers(FuncName(f)) {
					for k, a := range CallArgs(cs.Call()) {
						if k == 0 || k >= len(f.Params) {
							continue
						}
						t := shortType(f.Params[k].Type())
						if t == "rueidis.RedirectMode" || t == "uint16" {
							_, isprm := Strip(a).(*ssa.Parameter)
							r.ObSite("R19e", cs, "redirect-kind-and-slot-passed-through", isprm, "a helper of redirectOrNew is handed redirectOrNew's own mode and slot")
						}
					}
				}
			}
			wsStores = append(wsStores, Sites(f, func(in ssa.Instruction) bool {
				st, ok := in.(*ssa.Store)
				if !ok {
					return false
				}
				ia, ok := st.Addr.(*ssa.IndexAddr)
				return ok && strings.HasSuffix(DescDeep(ia.X), ".wslots")
			})...)
		}
		for _, s := range wsStores {
			n++
			moved := Guarded(s.Block, func(g Guard) bool {
				x, op, y, cok := CmpGuard(g)
				k, isc := ConstInt(y)
				_, isprm := Strip(x).(*ssa.Parameter)
				return cok && op == token.EQL && isc && k == j.redirectMove && isprm
			})
			realSlot := Guarded(s.Block, func(g Guard) bool {
				x, op, _, cok := CmpGuard(g)
				_, isprm := Strip(x).(*ssa.Parameter)
				return cok && op == token.NEQ && isprm && strings.Contains(shortType(x.Type()), "uint16")
			})
			r.ObSite("R19e", s, "table-learned-only-from-moved", moved && realSlot, "the slot table is updated by a redirect only for MOVED (an ASK is a one-shot redirect: the slot still belongs to the answering node) and only for a real slot")
		}
		r.Anchor("R19e", "slot-table stores in redirectOrNew", n >= 1)
	}
}

func isReturn(in ssa.Instruction) bool { _, ok := in.(*ssa.Return); return ok }

// variadicElemsOrdered returns the values stored into a variadic backing array in index order.
func variadicElemsOrdered(v ssa.Value) []ssa.Value {
	sl, ok := v.(*ssa.Slice)
	if !ok {
		return nil
	}
	al, ok := sl.X.(*ssa.Alloc)
	if !ok {
		return nil
	}
	m := map[int64]ssa.Value{}
	max := int64(-1)
	for _, r := range *al.Referrers() {
		if ia, ok := r.(*ssa.IndexAddr); ok {
			k, isc := ConstInt(ia.Index)
			if !isc {
				continue
			}
			for _, rr := range *ia.Referrers() {
				if st, ok := rr.(*ssa.Store); ok && st.Addr == ia {
					m[k] = st.Val
					if k > max {
						max = k
					}
				}
			}
		}
	}
	var out []ssa.Value
	for i := int64(0); i <= max; i++ {
		out = append(out, m[i])
	}
	return out
}

// primaryTableEntries: _refresh stores the group's primary into the slot table except in the
// ReplicaOnly arm (shared by C19 and C21).
func primaryTableEntries(r *Report, rule string) {
	rf := r.FnAnchor(rule, "rueidis.(*clusterClient)._refresh")
	if rf == nil {
		return
	}
	n := 0
	for _, s := range Sites(rf, func(in ssa.Instruction) bool {
		st, ok := in.(*ssa.Store)
		if !ok {
			return false
		}
		ia, ok := st.Addr.(*ssa.IndexAddr)
		return ok && strings.Contains(shortType(ia.X.Type()), "[16384]rueidis.conn")
	}) {
		n++
		st := s.Instr.(*ssa.Store)
		isNodes := func(v ssa.Value, wantZero bool) bool {
			ia, ok := v.(*ssa.IndexAddr)
			if !ok || !strings.HasSuffix(DescDeep(ia.X), ".nodes") {
				return false
			}
			k, isc := ConstInt(ia.Index)
			if wantZero {
				return isc && k == 0
			}
			return !(isc && k == 0)
		}
		primary := DependsOn(st.Val, func(v ssa.Value) bool { return isNodes(v, true) }) && !DependsOn(st.Val, func(v ssa.Value) bool { return isNodes(v, false) })
		replicaOnly := Guarded(s.Block, func(g Guard) bool {
			return g.Pol && strings.HasSuffix(DescDeep(g.Cond), ".opt.ReplicaOnly")
		})
		r.ObSite(rule, s, "primary-table-entry", primary || replicaOnly, "the primary slot table receives the group's primary (g.nodes[0]) except in the ReplicaOnly arm; stored value: "+Desc(st.Val))
	}
	r.Anchor(rule, "stores into wslots in _refresh", n >= 3)
}

// shardPrimaryRules: parseShards adds only healthy nodes with endpoints and records as primary only
// a node that is appended (shared by C19 and C21).
func shardPrimaryRules(r *Report, rule string) {
	p := r.P
	if fn := p.Fn("rueidis.parseShards"); fn != nil {
		var appends []Site
		for _, s := range Sites(fn, func(in ssa.Instruction) bool {
			st, ok := in.(*ssa.Store)
			if !ok {
				return false
			}
			_, f, _, isf := FieldRef(st.Addr)
			c, isc := st.Val.(*ssa.Call)
			return isf && f == "nodes" && isc && CalleeName(c) == "builtin.append"
		}) {
			appends = append(appends, s)
			online := Guarded(s.Block, func(g Guard) bool {
				_, op, y, cok := CmpGuard(g)
				sv, iss := ConstString(y)
				return cok && iss && sv == "online" && op == token.EQL
			})
			hasDst := Guarded(s.Block, func(g Guard) bool {
				x, op, y, cok := CmpGuard(g)
				sv, iss := ConstString(y)
				if !cok || !iss || sv != "" || op != token.NEQ {
					return false
				}
				c, isc := x.(*ssa.Call)
				return isc && CalleeName(c) == "rueidis.parseEndpoint"
			})
			r.ObSite(rule, s, "node-added-only-if-online-with-endpoint", online && hasDst, "a shard node is added to the group only when its health is online and its endpoint is usable")
		}
		r.Anchor(rule, "append to g.nodes in parseShards", len(appends) == 1)
		// the recorded primary index is the index of an appended node
		nRec := 0
		for _, s := range Sites(fn, func(in ssa.Instruction) bool {
			c, ok := in.(*ssa.Call)
			if !ok || CalleeName(c) != "builtin.len" || !strings.HasSuffix(DescDeep(c.Call.Args[0]), ".nodes") {
				return false
			}
			// feeds the phi used as the swap index
			for _, ref := range *c.Referrers() {
				if _, isphi := ref.(*ssa.Phi); isphi {
					return true
				}
			}
			return false
		}) {
			nRec++
			skipped := false
			var hdr *ssa.BasicBlock
			for _, b := range fn.Blocks {
				if IsLoopHeader(b) && b.Dominates(s.Block) {
					hdr = b // innermost dominating loop header is the last one found in block order
				}
			}
			WalkFrom(s, func(x Site) bool {
				for _, a := range appends {
					if x.Instr == a.Instr {
						return false
					}
				}
				if x.Block == hdr || isReturn(x.Instr) {
					skipped = true
					return false
				}
				return true
			})
			master := Guarded(s.Block, func(g Guard) bool {
				_, op, y, cok := CmpGuard(g)
				sv, iss := ConstString(y)
				return cok && iss && sv == "master" && op == token.EQL
			})
			r.ObSite(rule, s, "primary-index-is-an-appended-node", !skipped && master, "the position recorded for the primary (len(g.nodes)) must belong to a node that is appended on every path from here and be recorded only for role == master; otherwise a skipped (unhealthy / endpoint-less) primary makes the next appended replica the group's primary")
		}
		r.Anchor(rule, "recorded primary index in parseShards", nRec >= 1)
	}
}

// roleVerifiedOnSuccess: every successful return of _switchTarget has passed the ROLE probe
// (shared by C21 and C23); only the client-stopped early exit is exempt.
func roleVerifiedOnSuccess(r *Report, rule string) {
	fn := r.FnAnchor(rule, "rueidis.(*sentinelClient)._switchTarget")
	if fn == nil {
		return
	}
	isProbe := func(in ssa.Instruction) bool {
		c, ok := in.(*ssa.Call)
		if !ok || CalleeName(c) != "iface:rueidis.conn.Do" {
			return false
		}
		for _, a := range c.Call.Args {
			if strings.HasSuffix(Desc(a), "cmds.RoleCmd") {
				return true
			}
		}
		return false
	}
	unprobed := ReturnsAvoiding(fn, isProbe)
	n := 0
	for _, b := range fn.Blocks {
		ret, ok := b.Instrs[len(b.Instrs)-1].(*ssa.Return)
		if !ok {
			continue
		}
		n++
		skip := false
		for _, u := range unprobed {
			if u == ret {
				skip = true
			}
		}
		if !skip {
			r.ObSite(rule, Site{fn, b, len(b.Instrs) - 1, ret}, "return-after-role-probe", true, "reached only through the ROLE probe")
			continue
		}
		success := IsNilConst(ret.Results[0])
		if ph, isphi := ret.Results[0].(*ssa.Phi); isphi {
			for _, e := range ph.Edges {
				if IsNilConst(e) {
					success = true
				}
			}
		}
		stopped := Guarded(b, func(g Guard) bool {
			return g.Pol && strings.Contains(Desc(g.Cond), ".stop")
		})
		r.ObSite(rule, Site{fn, b, len(b.Instrs) - 1, ret}, "success-without-role-probe", !success || stopped, "a switch may report success without asking the target for its ROLE only when the client is stopped; otherwise a demoted master (or promoted replica) that a stale sentinel still names keeps receiving traffic")
	}
	r.Anchor(rule, "returns of _switchTarget", n >= 3)
}

// topologyParseRules (R19f): the topology parsers build each master's entry in a local copy of the
// map value; every modification of the copy is written back to the map before the next reply
// element is looked at (a copy that is only modified loses the slot range). (R19g) whenever
// shouldRefreshRetry tells its caller to redirect or retry it has scheduled a topology refresh -
// for transport errors too: a dead primary never sends MOVED.
func topologyParseRules(r *Report) {
	n := 0
	for _, name := range []string{"rueidis.parseSlots", "rueidis.parseShards"} {
		fn := r.FnAnchor("R19f", name)
		if fn == nil {
			continue
		}
		for _, s := range Sites(fn, func(in ssa.Instruction) bool { _, ok := in.(*ssa.Store); return ok }) {
			st := s.Instr.(*ssa.Store)
			t, _, base, isf := FieldRef(st.Addr)
			if !isf || !strings.HasSuffix(t, "rueidis.group") {
				continue
			}
			al, isal := Strip(base).(*ssa.Alloc)
			if !isal {
				continue
			}
			// only copies of a map entry (the slot filled from a lookup of the groups map); a fresh
			// value that is conditionally inserted (parseShards: shards without a master are
			// skipped) is not a copy
			isCopy := false
			for _, u := range Uses(al) {
				if st2, ok := u.(*ssa.Store); ok && st2.Addr == ssa.Value(al) {
					if ex, isex := st2.Val.(*ssa.Extract); isex {
						if lk, islk := ex.Tuple.(*ssa.Lookup); islk && strings.Contains(shortType(lk.X.Type()), "rueidis.group") {
							isCopy = true
						}
					}
					if lk, islk := st2.Val.(*ssa.Lookup); islk && strings.Contains(shortType(lk.X.Type()), "rueidis.group") {
						isCopy = true
					}
				}
			}
			if !isCopy {
				continue
			}
			n++
			written := func(w Site) bool {
				mu, ok := w.Instr.(*ssa.MapUpdate)
				if !ok || !strings.Contains(shortType(mu.Map.Type()), "rueidis.group") {
					return false
				}
				u, isu := mu.Value.(*ssa.UnOp)
				return isu && u.Op == token.MUL && u.X == ssa.Value(al)
			}
			// the element loop: the innermost loop containing the lookup of the entry
			var elemLoop *ssa.BasicBlock
			for _, ls := range Sites(fn, func(in ssa.Instruction) bool {
				lk, ok := in.(*ssa.Lookup)
				return ok && strings.Contains(shortType(lk.X.Type()), "rueidis.group")
			}) {
				elemLoop = outerLoopOf(fn, ls.Block)
			}
			lost, _ := Reaches(s, func(w Site) bool {
				return isReturn(w.Instr) || (elemLoop != nil && w.Block == elemLoop && w.Idx == 0)
			}, written)
			r.ObSite("R19f", s, "modified-entry-written-back", !lost, "a master's entry modified in a local copy is stored back into the groups map before the next element / the return")
		}
	}
	r.Anchor("R19f", "modifications of copied map entries in the topology parsers (>= 3)", n >= 3)

	if fn := r.FnAnchor("R19g", "rueidis.(*clusterClient).shouldRefreshRetry"); fn != nil {
		isRefresh := func(in ssa.Instruction) bool { _, ok := CallTo(in, "rueidis.(*clusterClient).lazyRefresh"); return ok }
		ok := true
		why := ""
		nPaths, nActive := 0, 0
		complete := EnumBlockPaths(fn, 5000, func(path []*ssa.BasicBlock) {
			// skip paths that contradict themselves: a branch on `phi <op> const` whose phi resolves,
			// on this very path, to a constant that decides the branch the other way
			for i := 0; i+1 < len(path); i++ {
				iff, isif := path[i].Instrs[len(path[i].Instrs)-1].(*ssa.If)
				if !isif || len(path[i].Succs) != 2 {
					continue
				}
				cmp, iscmp := iff.Cond.(*ssa.BinOp)
				if !iscmp || (cmp.Op != token.NEQ && cmp.Op != token.EQL) {
					continue
				}
				a, oka := ConstInt(ResolveOnPath(cmp.X, path[:i+1]))
				b, okb := ConstInt(ResolveOnPath(cmp.Y, path[:i+1]))
				if !oka || !okb {
					continue
				}
				truth := (a == b) == (cmp.Op == token.EQL)
				if (path[i+1] == path[i].Succs[0]) != truth {
					return
				}
			}
			nPaths++
			ret := path[len(path)-1].Instrs[len(path[len(path)-1].Instrs)-1].(*ssa.Return)
			rv := RetVals(ret)
			mode := ResolveOnPath(rv[len(rv)-1], path)
			if k, isc := ConstInt(mode); isc && k == 0 {
				return
			}
			nActive++
			has := false
			for _, b := range path {
				for _, in := range b.Instrs {
					if isRefresh(in) {
						has = true
					}
				}
			}
			if !has {
				ok, why = false, "a path answers "+Desc(mode)+" without scheduling a refresh"
			}
		})
		r.Ob("R19g", fn, "redirect-or-retry-schedules-refresh", fn.Pos(), ok && complete && nActive >= 3, fmt.Sprintf("every path that tells the caller to redirect or retry (%d of %d paths) has called lazyRefresh; %s", nActive, nPaths, why))
	}
}

// outerLoopOf returns the innermost loop header whose natural loop contains b.
func outerLoopOf(fn *ssa.Function, b *ssa.BasicBlock) *ssa.BasicBlock {
	var best *ssa.BasicBlock
	for _, h := range fn.Blocks {
		if !IsLoopHeader(h) || !h.Dominates(b) || !reachesBlock(b, h) {
			continue
		}
		if best == nil || best.Dominates(h) {
			best = h
		}
	}
	return best
}

// askQueueRule (R19h): the cluster batch paths re-queue a redirected command into the next round's
// work list of its new node; an ASK redirect must go into the lists that are sent with ASKING
// (cAskings/aIndexes), anything else into the plain lists - the list decides whether ASKING is sent.
func askQueueRule(r *Report) {
	p := r.P
	j, okj := redirectConsts(p)
	if !r.Anchor("R19h", "redirect mode constants", okj) {
		return
	}
	isMode := func(v ssa.Value) bool {
		vals, _, ok := paramArgs(p, Strip(v))
		if !ok || len(vals) == 0 {
			return false
		}
		for _, x := range vals {
			ex, isx := Strip(x).(*ssa.Extract)
			if !isx || ex.Index != 1 {
				return false
			}
			c, isc := ex.Tuple.(*ssa.Call)
			if !isc || CalleeName(c) != "rueidis.(*clusterClient).shouldRefreshRetry" {
				return false
			}
		}
		return true
	}
	askGuard := func(g Guard) (isAsk bool, ok bool) {
		x, op, y, cok := CmpGuard(g)
		if !cok || (op != token.EQL && op != token.NEQ) {
			return false, false
		}
		k, isc := ConstInt(y)
		if !isc {
			k, isc = ConstInt(x)
			x = y
		}
		if !isc || k != j.redirectAsk || !isMode(x) {
			return false, false
		}
		return op == token.EQL, true
	}
	n := 0
	seen := map[*ssa.Function]bool{}
	var scan func(fn *ssa.Function, depth int)
	scan = func(fn *ssa.Function, depth int) {
		if fn == nil || seen[fn] {
			return
		}
		seen[fn] = true
		for _, b := range fn.Blocks {
			for i, in := range b.Instrs {
				if c, isc := in.(*ssa.Call); isc && depth > 0 {
					if h := c.Call.StaticCallee(); h != nil && h.Blocks != nil && h.Pkg == fn.Pkg && !isExportedName(h.Name()) && len(tableAppendsDirect(h)) > 0 {
						scan(h, depth-1)
					}
				}
				st, ok := in.(*ssa.Store)
				if !ok {
					continue
				}
				t, f, _, isf := FieldRef(st.Addr)
				if !isf || (t != "rueidis.retry" && t != "rueidis.retrycache") {
					continue
				}
				if c, isc := st.Val.(*ssa.Call); !isc || CalleeName(c) != "builtin.append" {
					continue
				}
				var want bool
				switch f {
				case "cAskings", "aIndexes":
					want = true
				case "commands", "cIndexes":
					want = false
				default:
					continue
				}
				n++
				okG := Guarded(b, func(g Guard) bool { isAsk, ok := askGuard(g); return ok && isAsk == want })
				r.ObSite("R19h", Site{fn, b, i, in}, "queued-list-matches-redirect-kind:"+f, okG, "a re-queued command goes into the ASKING lists exactly when the redirect was ASK (mode == RedirectAsk), into the plain lists otherwise")
			}
		}
	}
	for _, name := range []string{"rueidis.(*clusterClient).doresultfn", "rueidis.(*clusterClient).resultcachefn"} {
		scan(r.FnAnchor("R19h", name), 1)
	}
	r.Anchor("R19h", "re-queue appends in the batch result functions (>= 8)", n >= 8)
}
