package rv

import (
	"fmt"
	"go/token"
	"strings"

	"golang.org/x/tools/go/ssa"
)

func init() {
	Registry["C24"] = RuleDef{Module: ".", Run: runC24,
		Technique:   "path-wise counting of hand-outs against the size counter, pairing of departures, ownership typestate of acquired wires, monitor rule for condition variables (lock sets on go/ssa)",
		Explanation: "Decides for the blocking pool (R24a) that on every acyclic path of pool.Acquire a freshly made wire (dial or dead pipe) is returned with the size counter incremented exactly once on that path, and a popped idle wire with no net change; (R24b) that every wire that leaves the pool (Close of a wire in Store/Acquire/removeIdleConns) is paired with exactly one size decrement in the same block, and size/list/down are only touched under the pool's lock; (R24c) that every caller of Acquire gives the wire back on all paths (Store), hands it to DoStream/DoMultiStream, whose every return either owns (pool, wire) in the stream or has stored the wire, or parks it in a dedicated client whose release stores it; (R24d) the monitor rule: every Signal/Broadcast on the pool's condition happens with its lock held or after a critical section on it in the same function; (R24e) Close marks the pool down under the lock, closes idle wires and broadcasts, and Acquire under down returns only the dead wire; (R24f) Store always ends with a wake-up after its critical section. (R24h) a stream whose read breaks uncleanly gives its wire back in the same call, whatever number of replies was outstanding (constants are propagated through the stream's own counter field).",
		NotDecided:  "interleavings (the bound under concurrency follows from R24a+R24b only together with the lock discipline, which is checked, but the argument is not mechanised); behaviour of the dial function; fairness of wake-ups."}
}

const poolT = "rueidis.pool"

func isSizeStore(in ssa.Instruction, op token.Token) bool {
	st, ok := in.(*ssa.Store)
	if !ok || !IsFieldAddr(st.Addr, poolT, "size") {
		return false
	}
	b, ok := st.Val.(*ssa.BinOp)
	if !ok || b.Op != op || !IsFieldLoad(b.X, poolT, "size") {
		return false
	}
	k, isc := ConstInt(b.Y)
	return isc && k == 1
}

func runC24(r *Report) {
	streamBreakRule(r)
	p := r.P
	acq := r.FnAnchor("R24a", "rueidis.(*pool).Acquire")
	store := r.FnAnchor("R24f", "rueidis.(*pool).Store")
	cls := r.FnAnchor("R24e", "rueidis.(*pool).Close")

	// R24a: path-wise counting in Acquire
	if acq != nil {
		nPaths := 0
		type res struct{ origin string; net int }
		agg := map[string][2]int{} // origin -> [paths, bad]
		firstBad := map[string]string{}
		complete := EnumBlockPaths(acq, 5000, func(path []*ssa.BasicBlock) {
			nPaths++
			net := 0
			for _, b := range path {
				for _, in := range b.Instrs {
					if isSizeStore(in, token.ADD) {
						net++
					}
					if isSizeStore(in, token.SUB) {
						net--
					}
				}
			}
			last := path[len(path)-1]
			ret := last.Instrs[len(last.Instrs)-1].(*ssa.Return)
			if len(ret.Results) != 1 {
				return
			}
			v := Strip(ResolveOnPath(ret.Results[0], path))
			for k := 0; k < 6; k++ { // through named-result variables, phis and interface boxing
				v = Strip(ResolveOnPath(Strip(v), path))
				if u, ok := v.(*ssa.UnOp); ok && u.Op == token.MUL {
					if al, ok := u.X.(*ssa.Alloc); ok {
						// last store to the local variable on this path
						var last ssa.Value
						for _, b := range path {
							for _, in := range b.Instrs {
								if in == ssa.Instruction(u) && b == u.Block() {
									break
								}
								if st, ok := in.(*ssa.Store); ok && st.Addr == ssa.Value(al) {
									if ld, isld := st.Val.(*ssa.UnOp); isld && ld.X == ssa.Value(al) {
										continue
									}
									last = st.Val
								}
							}
						}
						if last != nil {
							v = last
						}
					}
				}
			}
			origin := "other:" + Desc(v)
			want := -99
			switch x := v.(type) {
			case *ssa.Call:
				if x.Call.StaticCallee() == nil && !x.Call.IsInvoke() {
					origin, want = "fresh:"+Desc(x.Call.Value), 1 // p.make(ctx) or deadFn()
				} else {
					origin, want = "fresh:"+CalleeName(x), 1
				}
			case *ssa.UnOp:
				if IsFieldLoad(x, poolT, "dead") {
					origin, want = "dead-wire-of-closed-pool", 0
					// allowed uncounted only when the pool is down
				} else if ia, ok := x.X.(*ssa.IndexAddr); ok && IsFieldLoad(ia.X, poolT, "list") {
					origin, want = "popped-idle-wire", 0
				}
			}
			a := agg[origin]
			a[0]++
			ok := want != -99 && net == want
			if !ok {
				a[1]++
				if firstBad[origin] == "" {
					firstBad[origin] = fmt.Sprintf("net change of pool.size on the path is %+d, expected %+d", net, want)
					if want == -99 {
						firstBad[origin] = "cannot classify the returned wire"
					}
				}
			}
			agg[origin] = a
		})
		if !complete {
			r.Ob("R24a", acq, "paths", acq.Pos(), false, "too many paths: undecided")
		}
		for origin, a := range agg {
			r.Ob("R24a", acq, "handout:"+origin, acq.Pos(), a[1] == 0, fmt.Sprintf("%d path(s) return this kind of wire, %d with a wrong count: %s (every wire handed out must be counted exactly once, because every holder passes it to Store, which uncounts an errored wire)", a[0], a[1], firstBad[origin]))
		}
		r.Extra["acquire_paths"] = nPaths
		r.Min("R24a", 3)
		// the dead wire of a closed pool is returned only under p.down
		for _, b := range acq.Blocks {
			for i, in := range b.Instrs {
				if u, ok := in.(*ssa.UnOp); ok && u.Op == token.MUL && IsFieldAddr(u.X, poolT, "dead") {
					ok2 := Guarded(b, func(g Guard) bool { return g.Pol && IsFieldLoad(g.Cond, poolT, "down") })
					r.ObSite("R24e", Site{acq, b, i, in}, "dead-wire-only-when-down", ok2, "the shared dead wire may be handed out only when the pool is closed (p.down)")
				}
			}
		}
		// wait loop re-checks its predicate and waits only while no wire is available and size has reached cap
		for _, s := range CallSites(acq, "sync.(*Cond).Wait") {
			inLoop := false
			for _, b := range acq.Blocks {
				if IsLoopHeader(b) && b.Dominates(s.Block) {
					for _, pr := range b.Preds {
						if b.Dominates(pr) && (pr == s.Block || reachesBlock(s.Block, pr)) {
							inLoop = true
						}
					}
				}
			}
			r.ObSite("R24d", s, "wait-in-loop", inLoop, "Cond.Wait must sit in a loop that re-evaluates the predicate after every wake-up")
			full := Guarded(s.Block, func(g Guard) bool {
				x, op, y, ok := CmpGuard(g)
				return ok && (op == token.GEQ || op == token.EQL) && IsFieldLoad(x, poolT, "size") && IsFieldLoad(y, poolT, "cap")
			})
			r.ObSite("R24a", s, "wait-only-when-full", full, "a caller may only be parked while size has reached cap (otherwise the pool would refuse connections below its bound, or admit above it)")
		}
		// a new wire is dialled only when no wait condition holds: the increment is preceded by the wait loop exit
	}

	// R24b: departures
	for _, fn := range p.Funcs("rueidis.(*pool).") {
		if fn == cls {
			continue
		}
		for _, s := range CallSites(fn, "iface:rueidis.wire.Close") {
			n := 0
			for _, in := range s.Block.Instrs {
				if isSizeStore(in, token.SUB) {
					n++
				}
			}
			r.ObSite("R24b", s, "departure-uncounted-once", n == 1, fmt.Sprintf("a wire closed by the pool leaves it: exactly one size decrement must accompany the Close in the same block; found %d", n))
		}
		for _, b := range fn.Blocks {
			for i, in := range b.Instrs {
				if isSizeStore(in, token.SUB) {
					hasClose := false
					for _, in2 := range b.Instrs {
						if _, ok := CallTo(in2, "iface:rueidis.wire.Close"); ok {
							hasClose = true
						}
					}
					r.ObSite("R24b", Site{fn, b, i, in}, "decrement-has-departure", hasClose, "size is decremented only together with closing the wire that leaves the pool")
				}
			}
		}
	}
	r.Min("R24b", 6)
	for _, f := range []string{"size", "list", "down"} {
		r.FieldLockCheck("R24b-lock", poolT, f, "cond.L", p.ModuleFuncs())
	}

	// R24d: monitor rule for every Signal/Broadcast in the module's pool code
	monitorRule(r, "R24d", func(fn *ssa.Function) bool { return strings.HasPrefix(FuncName(fn), "rueidis.(*pool).") })
	r.Min("R24d", 4)

	// R24e: Close
	if cls != nil {
		var downStore *Site
		for _, a := range FieldAccessesIn(cls, poolT, "down") {
			if st, ok := a.Instr.(*ssa.Store); ok && a.Write {
				if c, isc := st.Val.(*ssa.Const); isc && c.Value != nil && c.Value.String() == "true" {
					s := a.Site
					downStore = &s
				}
			}
		}
		r.Anchor("R24e", "pool.Close sets down = true", downStore != nil)
		if downStore != nil {
			ok, _ := MustPassFromEntry(cls, func(in ssa.Instruction) bool { return in == downStore.Instr })
			r.ObSite("R24e", *downStore, "down-on-every-path", ok, "Close marks the pool down on every path")
		}
		okB, _ := MustPassFromEntry(cls, func(in ssa.Instruction) bool {
			_, ok := CallTo(in, "sync.(*Cond).Broadcast")
			return ok
		})
		r.Ob("R24e", cls, "close-broadcasts", cls.Pos(), okB, "Close wakes all waiters (Broadcast) on every path")
		nClose := len(CallSites(cls, "iface:rueidis.wire.Close"))
		r.Ob("R24e", cls, "close-closes-idle", cls.Pos(), nClose >= 1, "Close closes the idle wires")
	}
	// R24f
	if store != nil {
		ok, _ := MustPassFromEntry(store, func(in ssa.Instruction) bool {
			_, ok := CallTo(in, "sync.(*Cond).Signal", "sync.(*Cond).Broadcast")
			return ok
		})
		r.Ob("R24f", store, "store-wakes", store.Pos(), ok, "every path of Store ends with a wake-up: a returned or vacated slot must wake a waiter")
		// both arms: keep (append to list) under !down && no error, else uncount+close
		for _, s := range Sites(store, func(in ssa.Instruction) bool {
			st, ok := in.(*ssa.Store)
			if !ok || !IsFieldAddr(st.Addr, poolT, "list") {
				return false
			}
			c, isc := st.Val.(*ssa.Call)
			return isc && CalleeName(c) == "builtin.append"
		}) {
			healthy := Guarded(s.Block, func(g Guard) bool {
				x, op, y, ok := CmpGuard(g)
				return ok && op == token.EQL && IsNilConst(y) && strings.HasPrefix(Desc(x), "iface:rueidis.wire.Error(")
			}) && Guarded(s.Block, func(g Guard) bool { return !g.Pol && IsFieldLoad(g.Cond, poolT, "down") })
			r.ObSite("R24f", s, "keep-only-healthy", healthy, "a wire is put back on the idle list only when the pool is open and the wire has no error")
		}
	}

	// R24c: ownership of acquired wires
	acquireNames := []string{"rueidis.(*pool).Acquire", "iface:rueidis.conn.Acquire", "rueidis.(*mux).Acquire"}
	storeNames := []string{"rueidis.(*pool).Store", "iface:rueidis.conn.Store", "rueidis.(*mux).Store"}
	nAcq := 0
	for _, fn := range p.ModuleFuncs() {
		if !strings.HasPrefix(FuncName(fn), "rueidis.") {
			continue
		}
		for _, s := range CallSites(fn, acquireNames...) {
			w, ok := s.Instr.(*ssa.Call)
			if !ok {
				continue
			}
			nAcq++
			discharge := func(in ssa.Instruction) bool {
				switch x := in.(type) {
				case *ssa.Call:
					n := CalleeName(x)
					for _, sn := range storeNames {
						if n == sn {
							for _, a := range x.Call.Args {
								if Strip(a) == ssa.Value(w) {
									return true
								}
							}
						}
					}
					if n == "iface:rueidis.wire.DoStream" || n == "iface:rueidis.wire.DoMultiStream" {
						return x.Call.Value == ssa.Value(w)
					}
				case *ssa.Store: // parked in a dedicated client
					if Strip(x.Val) == ssa.Value(w) {
						t, f, _, isf := FieldRef(x.Addr)
						return isf && f == "wire" && (t == "rueidis.dedicatedSingleClient" || t == "rueidis.dedicatedClusterClient")
					}
				case *ssa.Return:
					for _, res := range x.Results {
						if Strip(res) == ssa.Value(w) {
							return true // wrapper: the caller carries the obligation
						}
					}
				}
				return false
			}
			ok2, bad := MustPass(s, discharge)
			why := "the acquired wire is stored back, handed to a stream, parked in a dedicated client or returned on every path"
			if !ok2 {
				why = "a path from this Acquire reaches the return at " + p.Pos(InstrPos(bad)) + " without Store / stream hand-over / parking: the connection and its count leak"
			}
			r.ObSite("R24c", s, "acquire-released", ok2, why)
		}
	}
	r.Anchor("R24c", "Acquire call sites", nAcq >= 6)
	// R24g: parking a wire in the cluster dedicated client is atomic with the recycled-check:
	// release() stores the wire only if it sees it, so the `mark` test and the store of the
	// acquired wire must lie in one critical section on c.mu.
	const dccT = "rueidis.dedicatedClusterClient"
	nPark := 0
	for _, fn := range p.Funcs("rueidis.(*dedicatedClusterClient).") {
		for _, a := range FieldAccessesIn(fn, dccT, "wire") {
			st, ok := a.Instr.(*ssa.Store)
			if !ok || IsNilConst(st.Val) {
				continue
			}
			nPark++
			var guardSite *Site
			for _, g := range DomGuards(a.Block) {
				if !g.Pol && IsFieldLoad(g.Cond, dccT, "mark") {
					gs := Site{fn, g.Block, len(g.Block.Instrs) - 1, g.Block.Instrs[len(g.Block.Instrs)-1]}
					guardSite = &gs
				}
			}
			if guardSite == nil {
				r.ObSite("R24g", a.Site, "park-after-mark-check", false, "the wire is parked without a dominating `!c.mark` check")
				continue
			}
			between := false
			var upos string
			isUnlock := func(x Site) bool { op, l, ok := LockOp(x.Instr); return ok && op == "unlock" && strings.HasSuffix(l, ".mu") }
			WalkFrom(*guardSite, func(x Site) bool {
				if x.Instr == a.Instr {
					return false
				}
				if isUnlock(x) {
					if ok, _ := Reaches(x, func(y Site) bool { return y.Instr == a.Instr }, nil); ok {
						between = true
						upos = p.Pos(InstrPos(x.Instr))
					}
				}
				return true
			})
			r.ObSite("R24g", a.Site, "park-atomic-with-mark-check", !between, "c.mu is released (at "+upos+") between the `mark` test and parking the acquired wire: a concurrent release() sees no wire, marks the client recycled, and the wire is never stored back")
		}
	}
	r.Anchor("R24g", "wire parking in dedicatedClusterClient", nPark >= 1)
	for _, f := range []string{"wire", "mark"} {
		r.FieldLockCheck("R24g-lock", dccT, f, "mu", p.Funcs("rueidis.(*dedicatedClusterClient)."))
	}
	// streams: every return of DoStream/DoMultiStream owns (pool, wire) or has stored the wire
	for _, name := range []string{"rueidis.(*pipe).DoStream", "rueidis.(*pipe).DoMultiStream"} {
		fn := r.FnAnchor("R24c", name)
		if fn == nil {
			continue
		}
		var poolParam *ssa.Parameter
		for _, prm := range fn.Params {
			if shortType(prm.Type()) == "*rueidis.pool" {
				poolParam = prm
			}
		}
		if !r.Anchor("R24c", name+" pool parameter", poolParam != nil) {
			continue
		}
		isStore := func(in ssa.Instruction) bool {
			c, ok := CallTo(in, "rueidis.(*pool).Store")
			return ok && c.Common().Args[0] == ssa.Value(poolParam) && c.Common().Args[1] != nil && Strip(c.Common().Args[1]) == ssa.Value(fn.Params[0])
		}
		bad := ReturnsAvoiding(fn, isStore)
		nRet := 0
		for _, b := range fn.Blocks {
			ret, ok := b.Instrs[len(b.Instrs)-1].(*ssa.Return)
			if !ok {
				continue
			}
			nRet++
			unstored := false
			for _, x := range bad {
				if x == ret {
					unstored = true
				}
			}
			owns := streamOwns(ret.Results[0], poolParam, fn.Params[0])
			okr := (owns && unstored) || (!owns && !unstored)
			why := "a return must either own (pool, wire) in the stream and not have stored the wire, or have stored the wire on every path to it"
			if owns && !unstored {
				why = "the stream owns the wire although it was already stored back on some path (double release)"
			} else if !owns && unstored {
				why = "this return hands back a stream that does not own the wire, and a path reaches it without pool.Store(p): the connection and its count leak"
			}
			r.ObSite("R24c", Site{fn, b, len(b.Instrs) - 1, ret}, "stream-return", okr, why)
		}
		r.Anchor("R24c", name+" returns", nRet >= 3)
	}
}

// streamOwns: the returned stream value is a struct whose p and w fields are the pool parameter
// and the receiver.
func streamOwns(v ssa.Value, pool, recv ssa.Value) bool {
	u, ok := v.(*ssa.UnOp)
	if !ok || u.Op != token.MUL {
		return false
	}
	al, ok := u.X.(*ssa.Alloc)
	if !ok {
		return false
	}
	pOK, wOK := false, false
	for _, ref := range *al.Referrers() {
		fa, ok := ref.(*ssa.FieldAddr)
		if !ok {
			continue
		}
		_, f, _, _ := FieldRef(fa)
		for _, rr := range *fa.Referrers() {
			if st, ok := rr.(*ssa.Store); ok && st.Addr == fa {
				if f == "p" && st.Val == pool {
					pOK = true
				}
				if f == "w" && st.Val == recv {
					wOK = true
				}
			}
		}
	}
	return pOK && wOK
}

// monitorRule: every Signal/Broadcast on a sync.Cond is executed with the cond's L held, or
// after an Unlock of L that dominates it (a critical section precedes it on all paths).
func monitorRule(r *Report, rule string, scope func(*ssa.Function) bool) {
	monitorRuleAlias(r, rule, scope, nil)
}

// monitorRuleAlias is monitorRule with a lock-name normalisation (two conds sharing one mutex).
func monitorRuleAlias(r *Report, rule string, scope func(*ssa.Function) bool, alias func(string) string) {
	for _, fn := range r.P.ModuleFuncs() {
		if !scope(TopFunc(fn)) {
			continue
		}
		sites := CallSites(fn, "sync.(*Cond).Signal", "sync.(*Cond).Broadcast")
		if len(sites) == 0 {
			continue
		}
		ls := ComputeLockSets(fn, map[string]bool{})
		for _, s := range sites {
			cond := DescDeep(s.Call().Common().Args[0])
			if _, isAddr := s.Call().Common().Args[0].(*ssa.FieldAddr); isAddr {
				cond = strings.TrimPrefix(cond, "&") // a sync.Cond value field: &x.cond
			}
			lock := cond + ".L"
			held := ls.At(s)
			if alias != nil {
				lock = alias(lock)
				h2 := map[string]bool{}
				for l := range held {
					h2[alias(l)] = true
				}
				held = h2
			}
			ok := held[lock]
			if !ok {
				// a dominating unlock of the same lock
				for _, b := range fn.Blocks {
					for i, in := range b.Instrs {
						if op, l, isl := LockOp(in); isl && op == "unlock" && (l == lock || (alias != nil && alias(l) == lock)) {
							if Dominates(Site{fn, b, i, in}, s) {
								ok = true
							}
						}
					}
				}
			}
			n := CalleeName(s.Call())
			r.ObSite(rule, s, "monitor:"+n[strings.LastIndex(n, ".")+1:], ok, "a wake-up on "+cond+" must happen with "+lock+" held or after a critical section on it in this function; otherwise a waiter that has tested its predicate but not yet parked misses it (lost wake-up)")
		}
	}
}

// fieldConstMustPass walks the feasible paths from the start of block `from`, propagating constants
// through stores and loads of struct fields (keyed by the address descriptor) and through integer
// +,- and comparisons, pruning branch edges whose condition is thereby decided. It reports whether
// every feasible path passes an instruction satisfying hit before it returns. Calls clear what is
// known about fields (sound: a callee may write them).
func fieldConstMustPass(fn *ssa.Function, from *ssa.BasicBlock, hit func(ssa.Instruction) bool) bool {
	type env struct {
		fields map[string]int64
		vals   map[ssa.Value]int64
		bools  map[ssa.Value]bool
	}
	clone := func(e env) env {
		n := env{map[string]int64{}, map[ssa.Value]int64{}, map[ssa.Value]bool{}}
		for k, v := range e.fields {
			n.fields[k] = v
		}
		for k, v := range e.vals {
			n.vals[k] = v
		}
		for k, v := range e.bools {
			n.bools[k] = v
		}
		return n
	}
	num := func(e env, v ssa.Value) (int64, bool) {
		if k, ok := ConstInt(v); ok {
			return k, true
		}
		k, ok := e.vals[v]
		return k, ok
	}
	steps := 0
	on := map[*ssa.BasicBlock]bool{}
	var walk func(b *ssa.BasicBlock, e env) bool // true = a return is reachable without hit
	walk = func(b *ssa.BasicBlock, e env) bool {
		steps++
		if steps > 20000 {
			return true
		}
		for _, in := range b.Instrs {
			if hit(in) {
				return false
			}
			switch x := in.(type) {
			case *ssa.Return:
				return true
			case *ssa.Store:
				d := DescDeep(x.Addr)
				if k, ok := num(e, x.Val); ok {
					e.fields[d] = k
				} else {
					delete(e.fields, d)
				}
			case *ssa.UnOp:
				if x.Op == token.MUL {
					if k, ok := e.fields[DescDeep(x.X)]; ok {
						e.vals[x] = k
					}
				}
			case *ssa.BinOp:
				a, oka := num(e, x.X)
				c, okc := num(e, x.Y)
				if oka && okc {
					switch x.Op {
					case token.ADD:
						e.vals[x] = a + c
					case token.SUB:
						e.vals[x] = a - c
					case token.EQL:
						e.bools[x] = a == c
					case token.NEQ:
						e.bools[x] = a != c
					case token.GTR:
						e.bools[x] = a > c
					case token.LSS:
						e.bools[x] = a < c
					case token.GEQ:
						e.bools[x] = a >= c
					case token.LEQ:
						e.bools[x] = a <= c
					}
				}
			case ssa.CallInstruction:
				e.fields = map[string]int64{}
			}
		}
		iff, isif := b.Instrs[len(b.Instrs)-1].(*ssa.If)
		for k, sc := range b.Succs {
			if isif {
				if v, known := e.bools[iff.Cond]; known && v != (k == 0) {
					continue
				}
			}
			if on[sc] {
				continue
			}
			on[sc] = true
			bad := walk(sc, clone(e))
			on[sc] = false
			if bad {
				return true
			}
		}
		return false
	}
	on[from] = true
	return !walk(from, env{map[string]int64{}, map[ssa.Value]int64{}, map[ssa.Value]bool{}})
}

// streamBreakRule (R24h): when reading a streamed reply fails uncleanly the stream becomes
// unusable (its error is latched), so the same call must give the wire back to the pool, however
// many replies were still outstanding.
func streamBreakRule(r *Report) {
	for _, name := range []string{"rueidis.(*RedisResultStream).WriteTo"} {
		fn := r.FnAnchor("R24h", name)
		if fn == nil {
			continue
		}
		n := 0
		for _, s := range Sites(fn, func(in ssa.Instruction) bool {
			st, ok := in.(*ssa.Store)
			if !ok {
				return false
			}
			_, f, _, isf := FieldRef(st.Addr)
			if !isf || f != "e" {
				return false
			}
			ex, isex := st.Val.(*ssa.Extract)
			if !isex {
				return false
			}
			c, isc := ex.Tuple.(*ssa.Call)
			return isc && CalleeName(c) == "rueidis.streamTo"
		}) {
			n++
			ok := fieldConstMustPass(fn, s.Block, func(in ssa.Instruction) bool {
				_, is := CallTo(in, "rueidis.(*pool).Store")
				return is
			})
			r.ObSite("R24h", s, "broken-stream-returns-its-wire", ok, "on the path where the stream's error is latched after an unclean read, every feasible continuation (constants propagated through the stream's own counter) stores the wire back to the pool in the same call")
		}
		r.Anchor("R24h", name+": unclean-read arm", n == 1)
	}
}
