package rv

import (
	"fmt"
	"go/ast"
	"go/constant"
	"regexp"
	"go/token"
	"strings"

	"golang.org/x/tools/go/ssa"
)

func init() {
	Registry["C38"] = RuleDef{Module: "rueidislimiter", Run: runC38,
		Technique:   "guard/def-use rules over the SSA of AllowN: what the admission flag, the remaining count and the reset time are computed from; delegation constants of Check/Allow; single atomic server round trip",
		Explanation: "Decides the client-side arithmetic only: (R38a) Result.Allowed can be true only on the path where the counter value returned by the script (first reply element) is <= the limit of the option in effect, and for n = 0 only when it is < the limit; Remaining is max(limit - counter, 0) and ResetAtMs the second reply element; (R38b) Check delegates with n = 0 and Allow with n = 1 to AllowN, which rejects negative n before any request; (R38c) each AllowN performs exactly one script execution (the counter read-modify-write is a single atomic server-side step), its first argument being the decimal n and its keys the identifier's counter key and that key + \":ex\"; (R38d) the constructor rejects non-positive limits and windows; (R38e) in the embedded script text the counter key and the window marker are created with the same absolute expiry the counter is advanced exactly once per run of the script by an INCRBY of ARGV[1] (no advancing call in a loop, no two that can execute in the same run - occurrences in different arms of one `if` or separated by a `return` count once), and no `return` of the script precedes the window roll-over (the creation of the two keys) unless an enclosing `if` tests the value read from the window marker (a block-structure lint over the script source, not an analysis of Lua semantics) and the counting script is not built retryable (an automatic re-send would count a request twice).",
		NotDecided:  "the Lua script itself and Redis' atomic execution of it (the heart of 'never more than the limit'), window arithmetic against the server clock, concurrent callers."}
}

func runC38(r *Report) {
	L := "rueidis/rueidislimiter."
	r.Anchor("R38e", "limiter script constructor", scriptConstructorRule(r, "R38e", "rueidis/rueidislimiter", "") >= 1)
	fn := r.FnAnchor("R38a", L+"(*rateLimiter).AllowN")
	if fn == nil {
		return
	}
	// the script call and the reply elements
	var exec *ssa.Call
	nExec := 0
	for _, s := range Sites(fn, func(in ssa.Instruction) bool {
		c, ok := in.(*ssa.Call)
		return ok && (CalleeName(c) == "rueidis.(*Lua).Exec" || strings.HasSuffix(CalleeName(c), ".Do") || strings.HasSuffix(CalleeName(c), ".DoMulti") || CalleeName(c) == "rueidis.(*Lua).ExecMulti")
	}) {
		nExec++
		if CalleeName(s.Call()) == "rueidis.(*Lua).Exec" {
			exec = s.Instr.(*ssa.Call)
		}
	}
	r.Ob("R38c", fn, "one-atomic-round-trip", fn.Pos(), nExec == 1 && exec != nil, fmt.Sprintf("AllowN performs exactly one script execution and no other request (%d requests found)", nExec))
	elemInt := func(idx int64) ssa.Value {
		for _, s := range CallSites(fn, "rueidis.(*RedisMessage).ToInt64") {
			if ia, ok := s.Call().Common().Args[0].(*ssa.IndexAddr); ok {
				if k, isc := ConstInt(ia.Index); isc && k == idx {
					if DependsOn(ia.X, func(v ssa.Value) bool { return exec != nil && v == ssa.Value(exec) }) {
						return extractOf(s.Instr.(*ssa.Call), 0)
					}
				}
			}
		}
		return nil
	}
	current, reset := elemInt(0), elemInt(1)
	if current == nil || reset == nil {
		// the reply may be decoded by an unexported helper that is handed the script's result and
		// returns the two integers
		for _, cs := range Sites(fn, func(in ssa.Instruction) bool { _, ok := in.(*ssa.Call); return ok }) {
			c := cs.Instr.(*ssa.Call)
			h := c.Call.StaticCallee()
			if h == nil || h.Blocks == nil || h.Pkg != fn.Pkg || isExportedName(h.Name()) || exec == nil {
				continue
			}
			pi := -1
			for k, a := range c.Call.Args {
				if a == ssa.Value(exec) && k < len(h.Params) {
					pi = k
				}
			}
			if pi < 0 {
				continue
			}
			inHelper := func(idx int64) ssa.Value {
				for _, s := range CallSites(h, "rueidis.(*RedisMessage).ToInt64") {
					if ia, ok := s.Call().Common().Args[0].(*ssa.IndexAddr); ok {
						if k, isc := ConstInt(ia.Index); isc && k == idx {
							if DependsOn(ia.X, func(v ssa.Value) bool { return v == ssa.Value(h.Params[pi]) }) {
								return extractOf(s.Instr.(*ssa.Call), 0)
							}
						}
					}
				}
				return nil
			}
			// result position of each element on the success return (error result nil)
			pos := func(v ssa.Value) int {
				if v == nil {
					return -1
				}
				for _, b := range h.Blocks {
					ret, isr := b.Instrs[len(b.Instrs)-1].(*ssa.Return)
					if !isr || b.Comment == "recover" {
						continue
					}
					rv := RetVals(ret)
					if len(rv) == 0 || !IsNilConst(rv[len(rv)-1]) {
						continue
					}
					for k, x := range rv {
						if x == v {
							return k
						}
					}
				}
				return -1
			}
			if p0, p1 := pos(inHelper(0)), pos(inHelper(1)); p0 >= 0 && p1 >= 0 {
				current, reset = extractOf(c, p0), extractOf(c, p1)
			}
		}
	}
	if !r.Anchor("R38a", "AllowN: counter and reset time from the script reply", current != nil && reset != nil) {
		return
	}
	isLimit := func(v ssa.Value) bool { return strings.HasSuffix(Desc(v), ".limit") }
	// the Result literal of the success return
	var allowedV, remainingV, resetV ssa.Value
	for _, s := range Sites(fn, func(in ssa.Instruction) bool { _, ok := in.(*ssa.Store); return ok }) {
		st := s.Instr.(*ssa.Store)
		if t, f, _, ok := FieldRef(st.Addr); ok && strings.HasSuffix(t, "Result") {
			switch f {
			case "Allowed":
				allowedV = st.Val
			case "Remaining":
				remainingV = st.Val
			case "ResetAtMs":
				resetV = st.Val
			}
		}
	}
	if !r.Anchor("R38a", "AllowN: Result literal", allowedV != nil && remainingV != nil && resetV != nil) {
		return
	}
	// Allowed: every non-false contribution is under `current <= limit`; for the n == 0 path under `current < limit`
	var leaves func(v ssa.Value, via []*ssa.BasicBlock, visit func(leaf ssa.Value, from *ssa.BasicBlock, to *ssa.BasicBlock))
	seen := map[ssa.Value]bool{}
	leaves = func(v ssa.Value, via []*ssa.BasicBlock, visit func(ssa.Value, *ssa.BasicBlock, *ssa.BasicBlock)) {
		ph, ok := v.(*ssa.Phi)
		if !ok || seen[v] {
			return
		}
		seen[v] = true
		for i, e := range ph.Edges {
			if _, isphi := e.(*ssa.Phi); isphi {
				leaves(e, via, visit)
				continue
			}
			visit(e, ph.Block().Preds[i], ph.Block())
		}
	}
	okAllowed := true
	why := ""
	nLeaf := 0
	checkLeaf := func(leaf ssa.Value, from, to *ssa.BasicBlock) {
		nLeaf++
		if c, isc := leaf.(*ssa.Const); isc && c.Value != nil && c.Value.String() == "false" {
			return
		}
		gs := append(DomGuards(from), edgeGuards(from, to)...)
		le, nPos, lt := false, false, false
		for _, g := range gs {
			x, op, y, ok := CmpGuard(g)
			if !ok {
				continue
			}
			if x == current && isLimit(y) && (op == token.LEQ || op == token.LSS) {
				le = true
				if op == token.LSS {
					lt = true
				}
			}
			if Desc(x) == "p3" && op == token.GTR {
				if k, isc := ConstInt(y); isc && k == 0 {
					nPos = true
				}
			}
		}
		// the leaf itself may be the comparison current < limit
		if bo, isb := leaf.(*ssa.BinOp); isb && bo.X == current && isLimit(bo.Y) && bo.Op == token.LSS {
			lt = true
		}
		if !le {
			okAllowed, why = false, "Allowed can be true without the counter being <= the limit"
		} else if !nPos && !lt {
			okAllowed, why = false, "a request for 0 units (Check) can be reported allowed when the limit is already reached"
		}
	}
	if _, isphi := allowedV.(*ssa.Phi); isphi {
		leaves(allowedV, nil, checkLeaf)
	} else {
		okAllowed, why = false, "Allowed is not computed from the counter/limit comparison: "+DescDeep(allowedV)
	}
	r.Ob("R38a", fn, "allowed-implies-counter-within-limit", fn.Pos(), okAllowed && nLeaf >= 2, "Allowed is true only if the post-increment counter is <= the limit (and < the limit for a 0-unit check); "+why)
	// Remaining = max(limit - current, 0)
	okRem := false
	if c, isc := remainingV.(*ssa.Call); isc && CalleeName(c) == "builtin.max" && len(c.Call.Args) == 2 {
		for i, a := range c.Call.Args {
			if bo, isb := a.(*ssa.BinOp); isb && bo.Op == token.SUB && isLimit(bo.X) && bo.Y == current {
				if k, isk := ConstInt(c.Call.Args[1-i]); isk && k == 0 {
					okRem = true
				}
			}
		}
	}
	// or the same clamp written out: r := limit - counter; if r < 0 { r = 0 }
	if ph, isphi := remainingV.(*ssa.Phi); isphi && !okRem && len(ph.Edges) == 2 {
		for i, e := range ph.Edges {
			bo, isb := e.(*ssa.BinOp)
			k, isk := ConstInt(ph.Edges[1-i])
			if !isb || bo.Op != token.SUB || !isLimit(bo.X) || bo.Y != current || !isk || k != 0 {
				continue
			}
			// the zero arrives over an edge on which the difference is negative
			zp := ph.Block().Preds[1-i]
			for _, g := range append(DomGuards(zp), edgeGuards(zp, ph.Block())...) {
				if x, op, y, ok := CmpGuard(g); ok && x == ssa.Value(bo) && op == token.LSS {
					if z, isz := ConstInt(y); isz && z == 0 {
						okRem = true
					}
				}
			}
		}
	}
	r.Ob("R38a", fn, "remaining-is-limit-minus-counter-floored", fn.Pos(), okRem, "Remaining = max(limit - counter, 0)")
	r.Ob("R38a", fn, "reset-is-second-reply-element", fn.Pos(), resetV == reset, "ResetAtMs is the window end returned by the script")
	// the same limit is used everywhere: the option in effect
	// R38b negative n rejected before the request
	if exec != nil {
		rej := false
		for _, b := range fn.Blocks {
			if ret, isr := b.Instrs[len(b.Instrs)-1].(*ssa.Return); isr {
				for _, g := range DomGuards(b) {
					if x, op, y, ok := CmpGuard(g); ok && op == token.LSS && Desc(x) == "p3" {
						if k, isc := ConstInt(y); isc && k == 0 {
							_ = ret
							rej = !b.Dominates(exec.Block()) && !reachesBlock(b, exec.Block())
						}
					}
				}
			}
		}
		r.Ob("R38b", fn, "negative-n-rejected-before-request", fn.Pos(), rej, "a negative n is refused without touching the counter")
		// args: ARGV[1] = decimal n; KEYS = key, key+":ex"
		argv := variadicElemsOrdered(exec.Call.Args[4])
		keys := variadicElemsOrdered(exec.Call.Args[3])
		// the arguments are cut out of a shared byte buffer: the argument string is the buffer tail
		// taken right after the most recent append, which must be the decimal rendering of n
		okN := false
		if len(argv) == 3 {
			if bs, isc := argv[0].(*ssa.Call); isc && CalleeName(bs) == "rueidis.BinaryString" {
				blk := bs.Block()
				for i := len(blk.Instrs) - 1; i >= 0; i-- {
					if blk.Instrs[i] != ssa.Instruction(bs) {
						continue
					}
					for j := i - 1; j >= 0; j-- {
						c, isc := blk.Instrs[j].(*ssa.Call)
						if !isc {
							continue
						}
						n := CalleeName(c)
						if n == "strconv.AppendInt" {
							k, isk := ConstInt(c.Call.Args[2])
							okN = Desc(c.Call.Args[1]) == "p3" && isk && k == 10
							break
						}
						if n == "builtin.append" || strings.HasPrefix(n, "strconv.Append") {
							break
						}
					}
				}
			}
		}
		r.Ob("R38c", fn, "increment-argument-is-n", fn.Pos(), okN, "the script's increment argument is the decimal rendering of n")
		okK := len(keys) == 2 && keys[0] != keys[1]
		r.Ob("R38c", fn, "two-distinct-keys", fn.Pos(), okK, "the script gets the counter key and the distinct expiry key")
	}
	// R38e the embedded script: the counter and the window marker are created together with the same
	// expiry (a counter that expires before its marker restarts from 0 inside a window that is still
	// reported as current), and the counter is advanced by one INCRBY of the requested amount
	{
		src := pkgVarCallStringArg(r.P, "rueidis/rueidislimiter", "rateLimitScript")
		if r.Anchor("R38e", "rate limit script source", src != "") {
			re := regexp.MustCompile(`redis\.call\(\s*"set"\s*,\s*([A-Za-z_\[\]0-9]+)\s*,\s*[^,]+,\s*"pxat"\s*,\s*([^)]+)\)`)
			ms := re.FindAllStringSubmatch(src, -1)
			exp := map[string]string{}
			for _, m := range ms {
				exp[m[1]] = strings.Join(strings.Fields(m[2]), "")
			}
			same := len(exp) == 2
			var first string
			for _, e := range exp {
				if first == "" {
					first = e
				} else if e != first {
					same = false
				}
			}
			r.Ob("R38e", nil, "counter-and-window-marker-expire-together", token.NoPos, same, fmt.Sprintf("the script creates the counter key and the window marker with the same absolute expiry: %v", exp))
			incr := regexp.MustCompile(`redis\.call\(\s*"incrby"\s*,\s*rate_limit_key\s*,\s*increment_amount\s*\)`).FindAllString(src, -1)
			// exactly one increment per run: every counter-advancing call of the script is the INCRBY of the
			// requested amount, none sits in a loop, and no two of them can execute in the same run (two
			// textual occurrences in different arms of one `if`, or separated by a return, are one per run)
			scan := luaReturns(src)
			var adv []luaReturn
			for _, s := range scan {
				switch s.Kind {
				case "call:incrby", "call:incr", "call:incrbyfloat", "call:decr", "call:decrby":
					adv = append(adv, s)
				}
			}
			once := len(adv) >= 1 && len(adv) == len(incr)
			for i, a := range adv {
				if a.Loop {
					once = false
				}
				for _, b := range adv[i+1:] {
					if luaCoExecutable(a, b, scan) {
						once = false
					}
				}
			}
			r.Ob("R38e", nil, "single-increment-by-requested-amount", token.NoPos, once && strings.Contains(src, "tonumber(ARGV[1])"), fmt.Sprintf("the script advances the counter exactly once per run, by ARGV[1] (%d advancing calls, %d of them INCRBY of the requested amount)", len(adv), len(incr)))
			// a reply produced before the window roll-over (the creation of the two keys) reports the
			// counter and the end of a window that may already be over: such a `return` is accepted only
			// under a condition on the value read from the window marker (the "window still running" arm)
			if sets := regexp.MustCompile(`redis\.call\(\s*["']set["']`).FindAllStringIndex(src, -1); len(sets) > 0 {
				lastSet := sets[len(sets)-1][0]
				var marker []string
				for _, m := range luaGetAssign.FindAllStringSubmatch(src, -1) {
					marker = append(marker, m[1])
				}
				rets := luaReturnsOnly(scan)
				early := []string{}
				for _, lr := range rets {
					if lr.Off > lastSet {
						continue
					}
					ok := false
					for _, c := range lr.Conds {
						if luaMentions(c, marker) || strings.Contains(c, `"get"`) {
							ok = true
						}
					}
					if !ok {
						early = append(early, fmt.Sprintf("return at script offset %d under %q", lr.Off, lr.Conds))
					}
				}
				r.Ob("R38e", nil, "no-reply-before-window-roll-over", token.NoPos, len(rets) >= 1 && len(early) == 0, fmt.Sprintf("every reply of the script is produced after the window roll-over test or under a condition on the window marker %v (%d return statements; unconditioned early replies: %v)", marker, len(rets), early))
			}
		}
	}
	for _, d := range []struct {
		name string
		n    int64
	}{{"Check", 0}, {"Allow", 1}} {
		f := r.FnAnchor("R38b", L+"(*rateLimiter)."+d.name)
		if f == nil {
			continue
		}
		ok := false
		for _, s := range CallSites(f, L+"(*rateLimiter).AllowN") {
			a := s.Call().Common().Args
			k, isc := ConstInt(a[3])
			ok = isc && k == d.n && Desc(a[0]) == "p0" && Desc(a[2]) == "p2"
		}
		r.Ob("R38b", f, "delegates-with-constant-n", f.Pos(), ok, fmt.Sprintf("%s is AllowN with n = %d for the same identifier", d.name, d.n))
	}
	if f := r.FnAnchor("R38d", L+"NewRateLimiter"); f != nil {
		lim, win := false, false
		for _, b := range f.Blocks {
			if ret, isr := b.Instrs[len(b.Instrs)-1].(*ssa.Return); isr && len(ret.Results) == 2 && !IsNilConst(ret.Results[1]) {
				for _, g := range DomGuards(b) {
					if x, op, y, ok := CmpGuard(g); ok && op == token.LEQ {
						if k, isc := ConstInt(y); isc && k == 0 {
							if strings.HasSuffix(Desc(x), ".Limit") {
								lim = true
							}
							if strings.HasSuffix(Desc(x), ".Window") {
								win = true
							}
						}
					}
				}
			}
		}
		r.Ob("R38d", f, "non-positive-limit-and-window-rejected", f.Pos(), lim && win, "the constructor refuses a limit or window <= 0")
	}
}

// pkgVarCallStringArg returns the constant string passed as first argument in the initialiser
// `var <name> = f("...")` of a package-level variable.
func pkgVarCallStringArg(p *Prog, pkgShort, name string) string {
	pkg := p.Pkg(pkgShort)
	if pkg == nil {
		return ""
	}
	for _, f := range pkg.Syntax {
		for _, d := range f.Decls {
			gd, ok := d.(*ast.GenDecl)
			if !ok {
				continue
			}
			for _, sp := range gd.Specs {
				vs, ok := sp.(*ast.ValueSpec)
				if !ok {
					continue
				}
				for i, n := range vs.Names {
					if n.Name != name || i >= len(vs.Values) {
						continue
					}
					if ce, ok := vs.Values[i].(*ast.CallExpr); ok && len(ce.Args) > 0 {
						if tv, ok := pkg.TypesInfo.Types[ce.Args[0]]; ok && tv.Value != nil && tv.Value.Kind() == constant.String {
							return constant.StringVal(tv.Value)
						}
					}
				}
			}
		}
	}
	return ""
}
