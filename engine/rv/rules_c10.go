package rv

import (
	"go/token"
	"strings"

	"golang.org/x/tools/go/ssa"
)

func init() {
	Registry["C10"] = RuleDef{Module: ".", Run: runC10,
		Technique:   "typestate (use-after-Remove), pairing and who-may-write rules on go/ssa over lru.go",
		Explanation: "Decides structural necessary conditions of the cache size bound in lru.go: (R10a) no list element is advanced with Next/Prev after it was removed; (R10b) every list removal of a completed entry is paired with the size decrement by that entry's size and with the index-map removal/overwrite; (R10c) the accounted size is only changed by +e.size of the value just stored in e.size / -e.size of a removed entry, under the lru mutex; (R10d) after the size increase in Update every path to return leaves the eviction loop only when size<=max or the list is exhausted, the loop starts at the list front, removes only completed entries, and the LRU list is only ever appended at / moved to the back.",
		NotDecided:  "that approximateSize reflects real memory; the arithmetic relation over arbitrary update sequences (sum of sizes equals size) beyond the pairing shape."}
}

const (
	listRemove = "container/list.(*List).Remove"
	lruT       = "rueidis.lru"
	entryT     = "rueidis.cacheEntry"
)

// entryOfElem returns the *cacheEntry values derived from list element v in fn: TypeAssert of a
// load of v.Value.
func isEntryOfElem(e ssa.Value, elem ssa.Value) bool {
	ta, ok := Strip(e).(*ssa.TypeAssert)
	if !ok {
		if ex, ok2 := e.(*ssa.Extract); ok2 {
			ta, ok = ex.Tuple.(*ssa.TypeAssert)
		}
		if !ok {
			return false
		}
	}
	u, ok := ta.X.(*ssa.UnOp)
	if !ok || u.Op != token.MUL {
		return false
	}
	fa, ok := u.X.(*ssa.FieldAddr)
	if !ok {
		return false
	}
	_, f, base, _ := FieldRef(fa)
	return f == "Value" && (base == elem || Same(base, elem))
}

// pendingGuardOn reports the polarity of a guard "e.val.typ == 0" where e is the entry of elem.
func pendingGuard(g Guard, elem ssa.Value) (isPending bool, ok bool) {
	x, op, y, cok := CmpGuard(g)
	if !cok {
		return false, false
	}
	if c, isc := ConstInt(y); !isc || c != 0 {
		return false, false
	}
	// x must be load of (&(&e.val).typ)
	u, isu := Strip(x).(*ssa.UnOp)
	if !isu || u.Op != token.MUL {
		return false, false
	}
	fa, isf := u.X.(*ssa.FieldAddr)
	if !isf {
		return false, false
	}
	_, f, base, _ := FieldRef(fa)
	if f != "typ" {
		return false, false
	}
	if al, isal := base.(*ssa.Alloc); isal {
		// a local copy `v := e.val`: the alloc has exactly one store, of a load of &e.val
		var src ssa.Value
		n := 0
		for _, ref := range *al.Referrers() {
			if st, isst := ref.(*ssa.Store); isst && st.Addr == al {
				n++
				src = st.Val
			}
		}
		if u2, isu2 := src.(*ssa.UnOp); n == 1 && isu2 && u2.Op == token.MUL {
			base = u2.X
		}
	}
	fa2, isf2 := base.(*ssa.FieldAddr)
	if !isf2 {
		return false, false
	}
	_, f2, ebase, _ := FieldRef(fa2)
	if f2 != "val" || !isEntryOfElem(ebase, elem) {
		return false, false
	}
	switch op {
	case token.EQL:
		return true, true
	case token.NEQ:
		return false, true
	}
	return false, false
}

func runC10(r *Report) {
	p := r.P
	fns := p.Funcs("rueidis.(*lru).")
	r.Anchor("R10", "methods of rueidis.lru", len(fns) > 0)
	upd := r.FnAnchor("R10d", "rueidis.(*lru).Update")

	// R10a: typestate – no Next/Prev on an element after Remove of the same value.
	nRemove := 0
	for _, fn := range p.ModuleFuncs() {
		for _, rm := range removalSites(fn) {
			s := rm.Site
			nRemove++
			elem := rm.elem
			def, _ := elem.(ssa.Instruction)
			found, at := Reaches(s, func(x Site) bool {
				c, ok := CallTo(x.Instr, "container/list.(*Element).Next", "container/list.(*Element).Prev")
				return ok && c.Common().Args[0] == elem
			}, func(x Site) bool { return def != nil && x.Instr == def })
			reason := "no Next/Prev on the removed element on any path before it is redefined"
			if found {
				reason = "element removed here is advanced with " + CalleeName(at.Call()) + " at " + p.Pos(InstrPos(at.Instr)) + "; list.Remove clears the links, so the traversal silently ends and the loop evicts at most one entry"
			}
			r.ObSite("R10a", s, "remove-then-advance", !found, reason)
		}
	}
	r.Min("R10a", 4)

	// R10b/R10d-state: every removal knows the entry state; completed removals are paired with the
	// size decrement and the index map update.
	for _, fn := range fns {
		for _, rm := range removalSites(fn) {
			s := rm.Site
			elem := rm.elem
			dnf := GuardDNF(s.Block, 4)
			pending := AllDisjuncts(dnf, func(g Guard) bool { ip, ok := pendingGuard(g, elem); return ok && ip })
			completed := AllDisjuncts(dnf, func(g Guard) bool { ip, ok := pendingGuard(g, elem); return ok && !ip })
			isCancel := FuncName(fn) == "rueidis.(*lru).Cancel" || helperOnlyCalledFrom(p, fn, map[string]bool{"rueidis.(*lru).Cancel": true}, 2)
			if isCancel {
				r.ObSite("R10b", s, "remove-state", pending, "Cancel may only remove an entry known to be in flight (e.val.typ == 0); guards: "+GuardStrings(dnf))
			} else {
				r.ObSite("R10b", s, "remove-state", completed, "eviction/expiry/invalidate removal must be under e.val.typ != 0 (in-flight entries are never evicted); guards: "+GuardStrings(dnf))
			}
			// index map pairing
			mapUpd := func(in ssa.Instruction) bool {
				switch x := in.(type) {
				case *ssa.MapUpdate:
					return IsFieldLoad(x.Map, "rueidis.keyCache", "cache")
				case *ssa.Call:
					if CalleeName(x) == "builtin.delete" {
						return IsFieldLoad(x.Call.Args[0], "rueidis.keyCache", "cache")
					}
				}
				return false
			}
			r.ObSite("R10b", s, "remove-index-paired", pairedWith(s, mapUpd), "a list removal must be paired on all paths with delete/overwrite of the keyCache.cache slot, otherwise the index points at a detached element")
			if !pending {
				dec := func(in ssa.Instruction) bool {
					st, ok := in.(*ssa.Store)
					if !ok || !IsFieldAddr(st.Addr, lruT, "size") {
						return false
					}
					b, ok := st.Val.(*ssa.BinOp)
					if !ok || b.Op != token.SUB || !IsFieldLoad(b.X, lruT, "size") || !IsFieldLoad(b.Y, entryT, "size") {
						return false
					}
					_, _, eb, _ := FieldRef(Strip(b.Y).(*ssa.UnOp).X)
					return isEntryOfElem(eb, elem)
				}
				sizeOK := pairedWith(s, dec)
				if rm.viaHelper {
					sizeOK = rm.entry != nil && isEntryOfElem(rm.entry, elem) // the helper subtracts the size of the entry it is handed
				}
				r.ObSite("R10b", s, "remove-size-paired", sizeOK, "removal of a completed entry must be paired on all paths with c.size -= e.size of that same entry")
			}
		}
	}
	r.Min("R10b", 8)
	// entries leave the list only through list.Remove: nobody overwrites an element's Value
	for _, fn := range p.ModuleFuncs() {
		for _, st := range Sites(fn, func(in ssa.Instruction) bool {
			x, ok := in.(*ssa.Store)
			return ok && IsFieldAddr(x.Addr, "container/list.Element", "Value")
		}) {
			r.ObSite("R10b", st, "element-value-overwritten", false, "a list element's Value is overwritten: the entry it held leaves the cache without list.Remove and without its size being subtracted")
		}
	}

	// R10c: accounting shape of every store to lru.size / cacheEntry.size; lock discipline.
	for _, a := range p.FieldAccesses(lruT, "size") {
		if !a.Write {
			continue
		}
		st, ok := a.Instr.(*ssa.Store)
		good := false
		why := "lru.size may only be changed by size+e.size (of the value just stored in e.size) or size-e.size"
		if ok {
			if b, isb := st.Val.(*ssa.BinOp); isb && IsFieldLoad(b.X, lruT, "size") && IsFieldLoad(b.Y, entryT, "size") {
				if b.Op == token.SUB {
					good = true
				} else if b.Op == token.ADD {
					// the added e.size must be the field just written in this block from a fresh computation
					_, _, eb, _ := FieldRef(Strip(b.Y).(*ssa.UnOp).X)
					for i := a.Idx - 1; i >= 0; i-- {
						if s2, ok2 := a.Block.Instrs[i].(*ssa.Store); ok2 && IsFieldAddr(s2.Addr, entryT, "size") {
							_, _, eb2, _ := FieldRef(s2.Addr)
							good = Same(eb, eb2)
							break
						}
					}
					if !good {
						why = "size increase must add the e.size stored immediately before for the same entry"
					}
				}
			}
		}
		r.ObSite("R10c", a.Site, "size-update", good, why+": "+DescInstr(a.Instr))
	}
	for _, a := range p.FieldAccesses(entryT, "size") {
		if a.Write {
			ok := FuncName(TopFunc(a.Fn)) == "rueidis.(*lru).Update" || helperOnlyCalledFrom(p, TopFunc(a.Fn), map[string]bool{"rueidis.(*lru).Update": true}, 1)
			r.ObSite("R10c", a.Site, "entry-size-writer", ok, "cacheEntry.size is written only by lru.Update when the entry completes")
		}
	}
	r.FieldLockCheck("R10c-lock", lruT, "size", "mu", p.ModuleFuncs())
	r.Min("R10c", 3)

	// R10d: eviction policy in Update.
	if upd != nil {
		var incs []Site
		for _, a := range FieldAccessesIn(upd, lruT, "size") {
			if st, ok := a.Instr.(*ssa.Store); ok {
				if b, isb := st.Val.(*ssa.BinOp); isb && b.Op == token.ADD {
					incs = append(incs, a.Site)
				}
			}
		}
		// the completion of the entry (with the size increase) may be a helper only Update calls: the
		// call is then the point after which the eviction must run
		for _, cs := range Sites(upd, func(in ssa.Instruction) bool { _, ok := in.(*ssa.Call); return ok }) {
			h := cs.Call().Common().StaticCallee()
			if h == nil || h.Blocks == nil || isExportedName(h.Name()) || !strings.HasPrefix(FuncName(h), "rueidis.(*lru).") || !helperOnlyCalledFrom(p, h, map[string]bool{"rueidis.(*lru).Update": true}, 1) {
				continue
			}
			for _, a := range FieldAccessesIn(h, lruT, "size") {
				if st, ok := a.Instr.(*ssa.Store); ok {
					if b, isb := st.Val.(*ssa.BinOp); isb && b.Op == token.ADD {
						incs = append(incs, cs)
					}
				}
			}
		}
		r.Anchor("R10d", "size increase in lru.Update", len(incs) > 0)
		overMax := func(g Guard) (over bool, ok bool) { // size > max (over) or size <= max (!over)
			x, op, y, cok := CmpGuard(g)
			if !cok {
				return false, false
			}
			if IsFieldLoad(x, lruT, "max") && IsFieldLoad(y, lruT, "size") {
				x, y = y, x
				switch op {
				case token.LSS:
					op = token.GTR
				case token.GTR:
					op = token.LSS
				case token.LEQ:
					op = token.GEQ
				case token.GEQ:
					op = token.LEQ
				}
			}
			if !IsFieldLoad(x, lruT, "size") || !IsFieldLoad(y, lruT, "max") {
				return false, false
			}
			switch op {
			case token.GTR, token.GEQ:
				return true, true
			case token.LEQ, token.LSS:
				return false, true
			}
			return false, false
		}
		// the eviction loop may live in Update itself or in an unexported lru helper that Update calls
		// after the increase (still under the lock)
		loopFn := upd
		var helperCall func(ssa.Instruction) bool
		hasLoop := func(f *ssa.Function) bool {
			for _, rm := range removalSites(f) {
				if _, isphi := rm.elem.(*ssa.Phi); isphi {
					return true
				}
			}
			return false
		}
		if !hasLoop(upd) {
			for _, cs := range Sites(upd, func(in ssa.Instruction) bool { _, ok := in.(*ssa.Call); return ok }) {
				callee := cs.Call().Common().StaticCallee()
				if callee != nil && callee.Blocks != nil && strings.HasPrefix(FuncName(callee), "rueidis.(*lru).") && !isExportedName(callee.Name()) && hasLoop(callee) {
					loopFn = callee
					name := FuncName(callee)
					helperCall = func(in ssa.Instruction) bool { _, ok := CallTo(in, name); return ok }
				}
			}
		}
		exitEdge := func(from *ssa.BasicBlock, succ int) bool {
				iff, ok := from.Instrs[len(from.Instrs)-1].(*ssa.If)
				if !ok {
					return false
				}
				g := normGuard(Guard{iff.Cond, succ == 0, from})
				if over, ok := overMax(g); ok && !over {
					return true
				}
				if x, op, y, ok := CmpGuard(g); ok && op == token.EQL && IsNilConst(y) {
					if ph, isphi := x.(*ssa.Phi); isphi {
						for _, e := range ph.Edges {
							if c, isc := e.(*ssa.Call); isc && CalleeName(c) == "container/list.(*List).Front" {
								return true
							}
						}
					}
				}
				return false
		}
		for _, inc := range incs {
			// every path from the increase to a return crosses an exit edge of the eviction loop:
			// the edge on which size>max is false, or on which the cursor is nil.
			bad := false
			if helperCall == nil {
				bad = returnAvoiding(inc, exitEdge)
			} else {
				mp, _ := MustPass(inc, helperCall)
				bad = !mp || returnAvoiding(Site{loopFn, loopFn.Blocks[0], -1, nil}, exitEdge)
			}
			r.ObSite("R10d", inc, "evict-after-increase", !bad, "after c.size grows, every path to return must leave the eviction loop through `size > max` being false or the cursor (started at list.Front) being nil")
		}
		upd := loopFn // the loop rules below apply to the function that holds the loop
		// the removal inside the loop: guarded by size>max and acts on a cursor that starts at Front and advances by Next
		nLoop := 0
		for _, rm := range removalSites(upd) {
			s := rm.Site
			elem := rm.elem
			ph, isphi := elem.(*ssa.Phi)
			if !isphi {
				continue
			}
			nLoop++
			front, next := false, false
			for _, e := range ph.Edges {
				for root := range rootsOfCalls(e) {
					if root == "container/list.(*List).Front" {
						front = true
					}
					if root == "container/list.(*Element).Next" {
						next = true
					}
				}
			}
			r.ObSite("R10d", s, "evict-cursor", front && next, "eviction cursor must start at list.Front() (least recently used first) and advance with Next()")
			g := Guarded(s.Block, func(g Guard) bool { over, ok := overMax(g); return ok && over })
			r.ObSite("R10d", s, "evict-only-over-max", g, "eviction happens only while size > max")
		}
		r.Anchor("R10d", "eviction loop removal in lru.Update", nLoop > 0)
		// every completed entry met by the eviction cursor is evicted: from the completed arm of the
		// pending test inside the loop, every path back to the loop head passes the removal.
		for _, rm := range removalSites(upd) {
			s := rm.Site
			elem := rm.elem
			if _, isphi := elem.(*ssa.Phi); !isphi {
				continue
			}
			hdr := elem.(*ssa.Phi).Block()
			found := false
			for _, b := range upd.Blocks {
				if !hdr.Dominates(b) || len(b.Instrs) == 0 {
					continue
				}
				iff, ok := b.Instrs[len(b.Instrs)-1].(*ssa.If)
				if !ok {
					continue
				}
				ip, isPend := pendingGuard(normGuard(Guard{iff.Cond, true, b}), elem)
				if !isPend {
					continue
				}
				found = true
				completedArm := b.Succs[0]
				if ip {
					completedArm = b.Succs[1]
				}
				skipped := false
				WalkFrom(Site{upd, completedArm, -1, nil}, func(x Site) bool {
					if x.Instr == s.Instr {
						return false
					}
					if x.Block == hdr {
						skipped = true
						return false
					}
					if _, isret := x.Instr.(*ssa.Return); isret {
						return false
					}
					return true
				})
				r.ObSite("R10d", Site{upd, b, len(b.Instrs) - 1, iff}, "evict-every-completed", !skipped, "a completed entry met by the eviction cursor while size > max must be evicted; a path skips the removal for a completed entry (only in-flight entries may be spared), so size can stay above max")
			}
			r.Anchor("R10d", "pending test inside the eviction loop", found)
		}
	}
	// LRU order: only PushBack/MoveToBack/Remove/Front/Back/Len/Init on the lru list
	for _, fn := range fns {
		for _, s := range Sites(fn, func(in ssa.Instruction) bool {
			c, ok := in.(ssa.CallInstruction)
			return ok && len(CalleeName(c)) > 22 && CalleeName(c)[:22] == "container/list.(*List)"
		}) {
			n := CalleeName(s.Call())
			okc := map[string]bool{"PushBack": true, "MoveToBack": true, "Remove": true, "Front": true, "Back": true, "Len": true, "Init": true}[n[23:]]
			r.ObSite("R10d", s, "list-op:"+n[23:], okc, "the LRU list is ordered by recency: entries may only be appended at / moved to the back")
		}
	}
	r.Min("R10d", 6)
}

// rootsOfCalls returns the callee names of calls that v derives from through phis.
func rootsOfCalls(v ssa.Value) map[string]bool {
	out := map[string]bool{}
	seen := map[ssa.Value]bool{}
	var rec func(v ssa.Value)
	rec = func(v ssa.Value) {
		if seen[v] {
			return
		}
		seen[v] = true
		switch x := v.(type) {
		case *ssa.Call:
			out[CalleeName(x)] = true
		case *ssa.Phi:
			for _, e := range x.Edges {
				rec(e)
			}
		}
	}
	rec(v)
	return out
}

// pairedWith: an instruction satisfying pred accompanies site s on all paths: it is in the same
// block, or every path from s to return passes one, or one dominates s and every path from it
// reaches s's block... (the latter is approximated by: it dominates s and lies in a block that s's
// block post-dominates is not computed; we require same guards instead).
func pairedWith(s Site, pred func(ssa.Instruction) bool) bool {
	for _, in := range s.Block.Instrs {
		if pred(in) {
			return true
		}
	}
	if ok, _ := MustPass(s, pred); ok {
		return true
	}
	// a dominating partner from which every path to return passes s
	for _, b := range s.Fn.Blocks {
		if !b.Dominates(s.Block) {
			continue
		}
		for i, in := range b.Instrs {
			if pred(in) {
				if ok, _ := MustPass(Site{s.Fn, b, i, in}, func(x ssa.Instruction) bool { return x == s.Instr }); ok {
					return true
				}
			}
		}
	}
	return false
}

// returnAvoiding reports whether a return is reachable from just after s without crossing an
// edge accepted by good.
func returnAvoiding(s Site, good func(from *ssa.BasicBlock, succ int) bool) bool {
	seen := map[*ssa.BasicBlock]bool{}
	var dfs func(b *ssa.BasicBlock, from int) bool
	dfs = func(b *ssa.BasicBlock, from int) bool {
		for i := from; i < len(b.Instrs); i++ {
			if _, ok := b.Instrs[i].(*ssa.Return); ok {
				return true
			}
		}
		for k, succ := range b.Succs {
			if good(b, k) {
				continue
			}
			if seen[succ] {
				continue
			}
			seen[succ] = true
			if dfs(succ, 0) {
				return true
			}
		}
		return false
	}
	return dfs(s.Block, s.Idx+1)
}

// removal is one place where an element leaves the LRU list: a direct list.Remove call, or a call of
// an unexported lru helper that does exactly `c.list.Remove(ele); c.size -= e.size` for the element
// and entry it is handed (`c.unlist(ele, e)`).
type removal struct {
	Site
	elem      ssa.Value
	entry     ssa.Value // helper form: the entry whose size the helper subtracts
	viaHelper bool
}

// unlistHelper: fn is straight-line, removes its element parameter from the list and subtracts the
// size of its entry parameter from c.size - nothing else. Returns the two parameters.
func unlistHelper(fn *ssa.Function) (elem, entry *ssa.Parameter, ok bool) {
	if fn == nil || len(fn.Blocks) != 1 || isExportedName(fn.Name()) || !strings.HasPrefix(FuncName(fn), "rueidis.(*lru).") {
		return nil, nil, false
	}
	nRem, nDec := 0, 0
	for _, in := range fn.Blocks[0].Instrs {
		switch x := in.(type) {
		case *ssa.Call:
			if CalleeName(x) != listRemove {
				return nil, nil, false
			}
			prm, isp := x.Call.Args[1].(*ssa.Parameter)
			if !isp {
				return nil, nil, false
			}
			elem = prm
			nRem++
		case *ssa.Store:
			b, isb := x.Val.(*ssa.BinOp)
			if !IsFieldAddr(x.Addr, lruT, "size") || !isb || b.Op != token.SUB || !IsFieldLoad(b.X, lruT, "size") || !IsFieldLoad(b.Y, entryT, "size") {
				return nil, nil, false
			}
			_, _, eb, _ := FieldRef(Strip(b.Y).(*ssa.UnOp).X)
			prm, isp := eb.(*ssa.Parameter)
			if !isp {
				return nil, nil, false
			}
			entry = prm
			nDec++
		case *ssa.MapUpdate, *ssa.Send, *ssa.Go, *ssa.Defer, *ssa.If:
			return nil, nil, false
		}
	}
	return elem, entry, nRem == 1 && nDec == 1
}

func removalSites(fn *ssa.Function) []removal {
	var out []removal
	if _, _, isH := unlistHelper(fn); isH {
		return nil // accounted for at its call sites
	}
	for _, s := range CallSites(fn, listRemove) {
		out = append(out, removal{Site: s, elem: s.Call().Common().Args[1]})
	}
	for _, s := range Sites(fn, func(in ssa.Instruction) bool {
		c, ok := in.(*ssa.Call)
		if !ok {
			return false
		}
		_, _, isH := unlistHelper(c.Call.StaticCallee())
		return isH
	}) {
		c := s.Instr.(*ssa.Call)
		h := c.Call.StaticCallee()
		ep, np, _ := unlistHelper(h)
		rm := removal{Site: s, viaHelper: true}
		for k, prm := range h.Params {
			if k < len(c.Call.Args) {
				if prm == ep {
					rm.elem = c.Call.Args[k]
				}
				if prm == np {
					rm.entry = c.Call.Args[k]
				}
			}
		}
		if rm.elem != nil {
			out = append(out, rm)
		}
	}
	return out
}
