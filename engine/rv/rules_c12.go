package rv

import (
	"fmt"
	"go/constant"
	"go/token"
	"go/types"
	"sort"
	"strings"

	"golang.org/x/tools/go/ssa"
)

func init() {
	Registry["C12"] = RuleDef{Module: ".", Run: runC12,
		Technique:   "dispatch-table extraction and exhaustiveness against the RESP type bytes declared in the source; consumption-grammar rules (which reader calls consume how many bytes, in which order, on every success path) over the SSA of each reader; counted-loop recognition for aggregates",
		Explanation: "Decides the framing skeleton of the decoder: (R12a) every declared RESP type byte except the chunk marker has a reader and a type name, and the reader's structural class (line / integer / length-prefixed blob / counted aggregate / pair-counted aggregate / fixed width) is the one the RESP grammar gives that byte; (R12b) length-prefixed readers read exactly the declared number of payload bytes and then the 2-byte trailer on every success path (readB, both allocation arms; the chunked-string loop: marker, length, payload, trailer, ended by length 0), fixed-width readers consume their width, aggregates perform exactly `length` (arrays, sets, pushes) or `length*2` (maps, attributes) recursive reads that are stored in order, the streamed-aggregate reader appends until the end marker, readNextMessage stamps the type byte it dispatched on and loops only for attributes which it attaches to the next value; (R12c) streamTo consumes the trailer after the payload on every path except the null length and the terminating zero-length chunk, un-reads the type byte before delegating scalar replies, and writes m.string() for string-like and the decimal intlen for integer-like replies.",
		NotDecided:  "value equality of decoded trees, digit parsing in readI (a seeded overflow guard that rejects math.MinInt64 is a value-level fault and is not detected), independence from read boundaries (bufio semantics)."}
}

func runC12(r *Report) {
	p := r.P
	pkg := p.Pkg("rueidis")
	if !r.Anchor("R12a", "package rueidis", pkg != nil) {
		return
	}
	// declared type bytes
	typeConsts := map[int64]string{}
	for _, name := range pkg.Types.Scope().Names() {
		c, ok := pkg.Types.Scope().Lookup(name).(*types.Const)
		if !ok || !strings.HasPrefix(name, "type") || len(name) < 5 || name[4] < 'A' || name[4] > 'Z' {
			continue
		}
		if b, isb := c.Type().Underlying().(*types.Basic); !isb || b.Kind() != types.Uint8 {
			continue
		}
		if v, exact := constant.Int64Val(c.Val()); exact {
			typeConsts[v] = name
		}
	}
	r.Anchor("R12a", "RESP type byte constants (>= 17)", len(typeConsts) >= 17)
	// table
	table := map[int64]*ssa.Function{}
	names := map[int64]bool{}
	for _, fn := range p.Funcs("rueidis.init") {
		for _, b := range fn.Blocks {
			for _, in := range b.Instrs {
				switch x := in.(type) {
				case *ssa.Store:
					ia, ok := x.Addr.(*ssa.IndexAddr)
					if !ok || Desc(ia.X) != "@rueidis.readers" && Desc(ia.X) != "&@rueidis.readers" && !strings.HasSuffix(Desc(ia.X), "rueidis.readers") {
						continue
					}
					k, isc := ConstInt(ia.Index)
					if !isc {
						continue
					}
					v := x.Val
					if ct, ok := v.(*ssa.ChangeType); ok {
						v = ct.X
					}
					if f, ok := v.(*ssa.Function); ok {
						table[k] = f
					}
				case *ssa.MapUpdate:
					if strings.HasSuffix(Desc(x.Map), "rueidis.typeNames") {
						if k, isc := ConstInt(x.Key); isc {
							names[k] = true
						}
					}
				}
			}
		}
	}
	r.Anchor("R12a", "readers table entries (>= 16)", len(table) >= 16)
	// grammar: type byte -> class
	grammar := map[byte]string{'+': "line", '-': "line", ',': "line", '(': "line", ':': "int", '$': "blob", '!': "blob", '=': "blob",
		'*': "count", '~': "count", '>': "count", '%': "pairs", '|': "pairs", '_': "fixed2", '.': "fixed2", '#': "fixed3"}
	var ks []int64
	for k := range typeConsts {
		ks = append(ks, k)
	}
	sort.Slice(ks, func(i, j int) bool { return ks[i] < ks[j] })
	for _, k := range ks {
		name := typeConsts[k]
		if k == ';' {
			_, has := table[k]
			r.Ob("R12a", nil, "chunk-marker-has-no-reader", token.NoPos, !has, "the chunk marker is only legal inside a streamed string")
			continue
		}
		f := table[k]
		want, known := grammar[byte(k)]
		switch {
		case f == nil:
			r.Ob("R12a", nil, "reader-for:"+name, token.NoPos, false, "declared RESP type has no entry in the dispatch table")
		case !known:
			r.Ob("R12a", nil, "reader-for:"+name, token.NoPos, false, "type byte is not part of the RESP grammar table of this rule; extend the rule before trusting it")
		default:
			got := readerClass(f)
			r.Ob("R12a", f, "reader-for:"+name, f.Pos(), got == want, fmt.Sprintf("type %q must be decoded by a %s reader; %s is a %s reader", string(rune(k)), want, FuncName(f), got))
		}
		r.Ob("R12a", nil, "name-for:"+name, token.NoPos, names[k], "every decodable type has a typeNames entry")
	}
	for k, f := range table {
		if _, declared := typeConsts[k]; !declared {
			r.Ob("R12a", f, fmt.Sprintf("undeclared-type-byte:%d", k), f.Pos(), false, "the dispatch table has an entry for a byte that is not a declared RESP type")
		}
	}

	// single dispatcher: the reader table is consulted only by readNextMessage, which is where
	// attributes are collected and the RESP2 null is translated; a second dispatcher would skip both
	nDisp := 0
	for _, f := range p.ModuleFuncs() {
		if !strings.HasPrefix(FuncName(f), "rueidis.") || strings.HasPrefix(FuncName(f), "rueidis.init") {
			continue
		}
		for _, b := range f.Blocks {
			for _, in := range b.Instrs {
				ia, ok := in.(*ssa.IndexAddr)
				if !ok || !strings.HasSuffix(Desc(ia.X), "rueidis.readers") {
					continue
				}
				nDisp++
				r.ObSite("R12a", SiteOf(in), "single-dispatcher", FuncName(f) == "rueidis.readNextMessage", "the reader table is indexed only in readNextMessage (attribute frames and the RESP2 null are handled there)")
			}
		}
	}
	r.Anchor("R12a", "dispatch site", nDisp >= 1)
	rdr := func(v ssa.Value) bool { // the function's own reader parameter (possibly wrapped as io.Reader)
		if mi, ok := v.(*ssa.MakeInterface); ok {
			v = mi.X
		}
		return Desc(v) == "p0"
	}
	isDiscard := func(in ssa.Instruction, n int64) bool {
		c, ok := CallTo(in, "bufio.(*Reader).Discard")
		if !ok || !rdr(c.Common().Args[0]) {
			return false
		}
		k, isc := ConstInt(c.Common().Args[1])
		return isc && k == n
	}
	errRet := func(in ssa.Instruction) bool { // a return that reports an error
		ret, ok := in.(*ssa.Return)
		if !ok || len(ret.Results) == 0 {
			return false
		}
		rv := RetVals(ret)
		for _, e := range rv {
			if shortType(e.Type()) == "error" {
				if IsNilConst(e) || isPhiWithNil(e) {
					return false
				}
				// `return x, err` below `if err != nil { return }`: err is nil here
				for _, g := range DomGuards(in.Block()) {
					if x, op, y, ok := CmpGuard(g); ok && x == e && IsNilConst(y) && op == token.EQL {
						return false
					}
				}
				return true
			}
		}
		return false
	}

	// R12b readB
	if fn := r.FnAnchor("R12b", "rueidis.readB"); fn != nil {
		var L ssa.Value
		for _, s := range CallSites(fn, "rueidis.readI") {
			if s.Block == fn.Blocks[0] {
				L = extractOf(s.Instr.(*ssa.Call), 0)
			}
		}
		if r.Anchor("R12b", "readB: declared length", L != nil) {
			nPay := 0
			// the payload read may live in an unexported helper readB hands the reader and the length to
			isHelperCall := func(in ssa.Instruction) (*ssa.Function, ssa.Value, bool) {
				c, ok := in.(*ssa.Call)
				if !ok {
					return nil, nil, false
				}
				callee := c.Call.StaticCallee()
				if callee == nil || callee.Blocks == nil || callee.Pkg != fn.Pkg || isExportedName(callee.Name()) || len(callee.Params) == 0 || !rdr(c.Call.Args[0]) {
					return nil, nil, false
				}
				for k, a := range c.Call.Args {
					if sameLen(a, L) && k < len(callee.Params) && len(CallSites(callee, "io.ReadFull", "io.CopyN")) > 0 {
						return callee, callee.Params[k], true
					}
				}
				return nil, nil, false
			}
			payload := func(f *ssa.Function, L ssa.Value, trailer bool) {
				for _, s := range CallSites(f, "io.ReadFull", "io.CopyN") {
					c := s.Call().Common()
					exact := false
					switch CalleeName(s.Call()) {
					case "io.ReadFull":
						if ms, ok := Strip(c.Args[1]).(*ssa.MakeSlice); ok && rdr(c.Args[0]) {
							exact = sameLen(ms.Len, L)
						}
					case "io.CopyN":
						exact = rdr(c.Args[1]) && c.Args[2] == L
					}
					nPay++
					r.ObSite("R12b", s, "payload-read-is-declared-length", exact, "the payload read takes exactly the declared number of bytes from the connection")
					if trailer {
						r.ObSite("R12b", s, "trailer-after-payload", MustPassOrEdge(s, func(in ssa.Instruction) bool { return isDiscard(in, 2) || errRet(in) }, nil), "after the payload the 2-byte CRLF trailer is consumed on every success path")
					}
				}
				// no success return without a payload read
				for _, ret := range ReturnsAvoiding(f, func(in ssa.Instruction) bool {
					if _, _, ok := isHelperCall(in); ok && f == fn {
						return true
					}
					_, ok := CallTo(in, "io.ReadFull", "io.CopyN")
					return ok
				}) {
					r.ObSite("R12b", SiteOf(ret), "success-without-payload", errRet(ret), FuncName(f)+" returns success only after reading the payload")
				}
			}
			payload(fn, L, true)
			for _, s := range Sites(fn, func(in ssa.Instruction) bool { _, _, ok := isHelperCall(in); return ok }) {
				h, hl, _ := isHelperCall(s.Instr)
				payload(h, hl, false)
				r.ObSite("R12b", s, "trailer-after-payload", MustPassOrEdge(s, func(in ssa.Instruction) bool { return isDiscard(in, 2) || errRet(in) }, nil), "after the payload the 2-byte CRLF trailer is consumed on every success path")
			}
			r.Anchor("R12b", "readB payload reads (2 arms)", nPay >= 1)
		}
	}
	if fn := r.FnAnchor("R12b", "rueidis.readBlobString"); fn != nil {
		n := 0
		for _, s := range CallSites(fn, "io.CopyN") {
			n++
			c := s.Call().Common()
			var L ssa.Value
			var li Site
			for _, rs := range CallSites(fn, "rueidis.readI") {
				if rs.Block.Dominates(s.Block) {
					L, li = extractOf(rs.Instr.(*ssa.Call), 0), rs
				}
			}
			ok := L != nil && rdr(c.Args[1]) && c.Args[2] == L
			r.ObSite("R12b", s, "chunk-payload-is-declared-length", ok, "a chunk's payload read takes exactly the chunk's declared length")
			r.ObSite("R12b", s, "chunk-trailer", MustPassOrEdge(s, func(in ssa.Instruction) bool { return isDiscard(in, 2) || errRet(in) }, nil), "each chunk's payload is followed by its CRLF trailer")
			if L != nil {
				// the marker byte is consumed before the length, in the same iteration
				marker := false
				for _, in := range li.Block.Instrs[:li.Idx] {
					if isDiscard(in, 1) {
						marker = true
					}
				}
				for _, d := range DomGuards(li.Block) {
					_ = d
				}
				if !marker {
					for _, ds := range Sites(fn, func(in ssa.Instruction) bool { return isDiscard(in, 1) }) {
						if ds.Block.Dominates(li.Block) && IsLoopHeaderDominating(ds.Block, li.Block) {
							marker = true
						}
					}
				}
				r.ObSite("R12b", li, "chunk-marker-then-length", marker, "every chunk header is the 1-byte marker followed by the length line")
				// zero length terminates without a trailer; the success return is guarded by length == 0
				term := false
				for _, b := range fn.Blocks {
					if ret, isr := b.Instrs[len(b.Instrs)-1].(*ssa.Return); isr && !errRet(ret) && li.Block.Dominates(b) {
						term = Guarded(b, func(g Guard) bool {
							x, op, y, ok := CmpGuard(g)
							k, isc := ConstInt(y)
							return ok && op == token.EQL && x == L && isc && k == 0
						})
						r.ObSite("R12b", SiteOf(ret), "chunked-string-ends-at-zero-length", term, "the streamed string ends exactly at the zero-length chunk")
					}
				}
			}
		}
		r.Anchor("R12b", "chunk payload read", n == 1)
	}
	// fixed width readers
	for _, fw := range []struct {
		name  string
		bytes int
	}{{"rueidis.readBoolean", 1}, {"rueidis.readNull", 0}} {
		fn := r.FnAnchor("R12b", fw.name)
		if fn == nil {
			continue
		}
		nb := len(CallSites(fn, "bufio.(*Reader).ReadByte"))
		okTrail := true
		for _, ret := range ReturnsAvoiding(fn, func(in ssa.Instruction) bool { return isDiscard(in, 2) }) {
			if !errRet(ret) {
				okTrail = false
			}
		}
		other := 0
		for _, s := range Sites(fn, func(in ssa.Instruction) bool { _, ok := in.(ssa.CallInstruction); return ok }) {
			n := CalleeName(s.Call())
			if strings.HasPrefix(n, "bufio.(*Reader).") && n != "bufio.(*Reader).ReadByte" && !isDiscard(s.Instr, 2) {
				other++
			}
		}
		r.Ob("R12b", fn, "fixed-width", fn.Pos(), nb == fw.bytes && okTrail && other == 0 && len(Sites(fn, func(in ssa.Instruction) bool { return isDiscard(in, 2) })) == 1,
			fmt.Sprintf("%s consumes %d value byte(s) and the CRLF trailer, nothing else", fw.name, fw.bytes))
	}
	// aggregates
	if fn := r.FnAnchor("R12b", "rueidis.readA"); fn != nil {
		n := 0
		for _, s := range CallSites(fn, "rueidis.readNextMessage") {
			n++
			ind := countedLoopAt(s.Block, "p1")
			ok := ind != nil && s.Block == ind.Block() // the read is in the loop head: executed on every iteration
			why := "the element read is the first action of a loop running from 0 to length with stride 1"
			if ok {
				// the element lands at index `induction` or is appended to the accumulated slice
				elem := extractOf(s.Instr.(*ssa.Call), 0)
				placed := false
				for _, u := range Uses(elem) {
					if st, isst := u.(*ssa.Store); isst {
						if ia, isia := st.Addr.(*ssa.IndexAddr); isia && ia.Index == ssa.Value(ind) {
							placed = true
						}
						if ia, isia := st.Addr.(*ssa.IndexAddr); isia {
							if _, isal := ia.X.(*ssa.Alloc); isal { // varargs for append
								placed = true
							}
						}
					}
				}
				if !placed {
					ok, why = false, "the element read is not stored at the loop's own index / appended"
				}
			}
			r.ObSite("R12b", s, "aggregate-reads-length-elements", ok, why)
		}
		r.Anchor("R12b", "readA element reads", n >= 1)
		for _, b := range fn.Blocks {
			if ret, isr := b.Instrs[len(b.Instrs)-1].(*ssa.Return); isr && !errRet(ret) {
				r.ObSite("R12b", SiteOf(ret), "aggregate-reports-declared-length", len(ret.Results) == 3 && Desc(ret.Results[1]) == "p1", "the reported element count is the declared length")
			}
		}
	}
	for _, ag := range []struct {
		name string
		mul  int64
	}{{"rueidis.readArray", 1}, {"rueidis.readMap", 2}} {
		fn := r.FnAnchor("R12b", ag.name)
		if fn == nil {
			continue
		}
		n := 0
		for _, s := range CallSites(fn, "rueidis.readA") {
			n++
			var L ssa.Value
			for _, rs := range CallSites(fn, "rueidis.readI") {
				L = extractOf(rs.Instr.(*ssa.Call), 0)
			}
			a := s.Call().Common().Args[1]
			ok := false
			if ag.mul == 1 {
				ok = a == L
			} else if bo, isb := a.(*ssa.BinOp); isb && bo.Op == token.MUL {
				k, isc := ConstInt(bo.Y)
				ok = bo.X == L && isc && k == 2
			}
			r.ObSite("R12b", s, "element-count", ok, fmt.Sprintf("%s reads declared-length x %d elements", ag.name, ag.mul))
		}
		r.Anchor("R12b", ag.name+" fixed-length read", n == 1)
		ne := 0
		for _, s := range CallSites(fn, "rueidis.readE") {
			ne++
			g := Guarded(s.Block, func(g Guard) bool { _, eq, ok := IsErrCmp(g, "rueidis.errChunked"); return ok && eq })
			r.ObSite("R12b", s, "streamed-aggregate-on-chunked-length", g, "the end-marker terminated reader is used exactly for the `?` length")
		}
		r.Anchor("R12b", ag.name+" streamed read", ne == 1)
	}
	if fn := r.FnAnchor("R12b", "rueidis.readE"); fn != nil {
		ok := false
		why := "no element read"
		for _, s := range CallSites(fn, "rueidis.readNextMessage") {
			elem := extractOf(s.Instr.(*ssa.Call), 0)
			// success return guarded by typ == '.'; otherwise appended
			appended := false
			for _, as := range CallSites(fn, "builtin.append") {
				for _, e := range variadicElemsOrdered(as.Call().Common().Args[1]) {
					if e == elem {
						appended = true
					}
					if u, isu := e.(*ssa.UnOp); isu && u.Op == token.MUL {
						for _, ref := range Uses(elem) {
							if st, isst := ref.(*ssa.Store); isst && st.Addr == u.X {
								appended = true
							}
						}
					}
				}
			}
			end := false
			for _, b := range fn.Blocks {
				if ret, isr := b.Instrs[len(b.Instrs)-1].(*ssa.Return); isr && !errRet(ret) {
					end = Guarded(b, func(g Guard) bool {
						_, op, y, ok := CmpGuard(g)
						k, isc := ConstInt(y)
						return ok && op == token.EQL && isc && k == '.'
					})
				}
			}
			ok, why = appended && end, fmt.Sprintf("appended=%v, ends-at-end-marker=%v", appended, end)
		}
		r.Ob("R12b", fn, "streamed-aggregate", fn.Pos(), ok, "readE appends every element it reads, in order, until the end marker; "+why)
	}
	// readNextMessage
	if fn := r.FnAnchor("R12b", "rueidis.readNextMessage"); fn != nil {
		var typ ssa.Value
		for _, s := range CallSites(fn, "bufio.(*Reader).ReadByte") {
			typ = extractOf(s.Instr.(*ssa.Call), 0)
		}
		stamped, attrLoop, attached := false, false, false
		for _, b := range fn.Blocks {
			for _, in := range b.Instrs {
				if st, ok := in.(*ssa.Store); ok {
					if t, f, _, isf := FieldRef(st.Addr); isf && t == "rueidis.RedisMessage" {
						if f == "typ" && typ != nil && st.Val == typ {
							stamped = true
						}
						if f == "attrs" {
							attached = true
						}
					}
				}
			}
		}
		// the only back edge is guarded by typ == typeAttribute
		for _, b := range fn.Blocks {
			if IsLoopHeader(b) {
				for _, pr := range b.Preds {
					if b.Dominates(pr) {
						attrLoop = Guarded(pr, func(g Guard) bool {
							_, op, y, ok := CmpGuard(g)
							k, isc := ConstInt(y)
							return ok && op == token.EQL && isc && k == '|'
						})
					}
				}
			}
		}
		// dispatch is by the byte just read
		disp := false
		for _, b := range fn.Blocks {
			for _, in := range b.Instrs {
				if ia, ok := in.(*ssa.IndexAddr); ok && strings.HasSuffix(Desc(ia.X), "rueidis.readers") && typ != nil && ia.Index == typ {
					disp = true
				}
			}
		}
		r.Ob("R12b", fn, "dispatch-stamp-attributes", fn.Pos(), stamped && attrLoop && attached && disp,
			fmt.Sprintf("readNextMessage dispatches on the byte it read (%v), stamps it as the value's type (%v), repeats only for attributes (%v) and attaches them (%v)", disp, stamped, attrLoop, attached))
	}
	// line readers
	if fn := r.FnAnchor("R12b", "rueidis.readI"); fn != nil {
		lineRule(r, fn, "bufio.(*Reader).ReadSlice")
	}
	if fn := r.FnAnchor("R12b", "rueidis.readS"); fn != nil {
		lineRule(r, fn, "bufio.(*Reader).ReadBytes")
		// fast path: Discard(4) only under a 4-byte peek equal to "OK\r\n"
		for _, s := range Sites(fn, func(in ssa.Instruction) bool { return isDiscard(in, 4) }) {
			g := Guarded(s.Block, func(g Guard) bool {
				x, op, y, ok := CmpGuard(g)
				sv, iss := ConstString(y)
				return ok && op == token.EQL && iss && sv == "OK\r\n" && DependsOn(x, func(v ssa.Value) bool {
					c, isc := v.(*ssa.Call)
					if !isc || CalleeName(c) != "bufio.(*Reader).Peek" {
						return false
					}
					k, isk := ConstInt(c.Call.Args[1])
					return isk && k == 4
				})
			})
			r.ObSite("R12b", s, "ok-fast-path", g, "the 4-byte fast path is taken only when the next 4 bytes are OK CR LF")
		}
	}

	// R12c streamTo
	if fn := r.FnAnchor("R12c", "rueidis.streamTo"); fn != nil {
		var ri Site
		var L, typ ssa.Value
		for _, s := range CallSites(fn, "rueidis.readI") {
			ri, L = s, extractOf(s.Instr.(*ssa.Call), 0)
		}
		for _, s := range CallSites(fn, "bufio.(*Reader).ReadByte") {
			typ = extractOf(s.Instr.(*ssa.Call), 0)
		}
		if r.Anchor("R12c", "streamTo: length read and type byte", L != nil && typ != nil) {
			// the success edge of the length read
			var start *ssa.BasicBlock
			if iff, ok := ri.Block.Instrs[len(ri.Block.Instrs)-1].(*ssa.If); ok {
				g := normGuard(Guard{iff.Cond, true, ri.Block})
				if x, op, y, cok := CmpGuard(g); cok && IsNilConst(y) && x == extractOf(ri.Instr.(*ssa.Call), 1) {
					if op == token.NEQ {
						start = ri.Block.Succs[1]
					} else {
						start = ri.Block.Succs[0]
					}
					if !g.Pol {
						start = ri.Block.Succs[0]
						if op == token.NEQ {
							start = ri.Block.Succs[1]
						}
					}
				}
			}
			if r.Anchor("R12c", "streamTo: success edge of the length read", start != nil) {
				isTrailer := func(in ssa.Instruction) bool {
					c, ok := CallTo(in, "bufio.(*Reader).Discard")
					if !ok || !rdr(c.Common().Args[0]) {
						return false
					}
					// amount = (L + 2) - consumed
					return DependsOn(c.Common().Args[1], func(v ssa.Value) bool {
						bo, isb := v.(*ssa.BinOp)
						if !isb || bo.Op != token.SUB {
							return false
						}
						full, isf := bo.X.(*ssa.BinOp)
						if !isf || full.Op != token.ADD || full.X != L {
							return false
						}
						k, isc := ConstInt(full.Y)
						return isc && k == 2
					})
				}
				nullRet := func(in ssa.Instruction) bool {
					if _, ok := in.(*ssa.Return); !ok {
						return false
					}
					return Guarded(in.Block(), func(g Guard) bool {
						x, op, y, ok := CmpGuard(g)
						k, isc := ConstInt(y)
						return ok && op == token.EQL && x == L && isc && k == -1
					})
				}
				lastChunk := func(from *ssa.BasicBlock, succ int) bool {
					iff, ok := from.Instrs[len(from.Instrs)-1].(*ssa.If)
					if !ok {
						return false
					}
					x, op, y, cok := CmpGuard(normGuard(Guard{iff.Cond, succ == 0, from}))
					k, isc := ConstInt(y)
					if !cok || op != token.EQL || x != typ || !isc || k != ';' {
						return false
					}
					// ... and the declared length is zero here
					return Guarded(from, func(g Guard) bool {
						x, op, y, ok := CmpGuard(g)
						k, isc := ConstInt(y)
						return ok && op == token.EQL && x == L && isc && k == 0
					})
				}
				ok := MustPassOrEdge(Site{fn, start, -1, nil}, func(in ssa.Instruction) bool { return isTrailer(in) || nullRet(in) }, lastChunk)
				r.Ob("R12c", fn, "trailer-after-streamed-payload", fn.Pos(), ok, "after a length line, streamTo consumes payload+CRLF (Discard(len+2-copied)) on every path except the null length and the terminating zero-length chunk")
				// the copy is limited to the declared length and reads the connection
				nCopy := 0
				for _, s := range CallSites(fn, "io.Copy", "io.CopyN") {
					nCopy++
					lim := false
					if CalleeName(s.Call()) == "io.CopyN" {
						lim = s.Call().Common().Args[2] == L
					} else {
						src := s.Call().Common().Args[1]
						if mi, ok := src.(*ssa.MakeInterface); ok {
							src = mi.X
						}
						nOK, rOK := false, false
						for _, b := range fn.Blocks {
							for _, in := range b.Instrs {
								if st, isst := in.(*ssa.Store); isst {
									if t, f, base, isf := FieldRef(st.Addr); isf && t == "io.LimitedReader" && base == src {
										if f == "N" && st.Val == L {
											nOK = true
										}
										if f == "R" && rdr(st.Val) && b.Dominates(s.Block) {
											rOK = true
										}
									}
								}
							}
						}
						lim = nOK && rOK
					}
					r.ObSite("R12c", s, "stream-copy-limited-to-declared-length", lim, "the streaming copy reads exactly the declared number of payload bytes from the connection")
				}
				r.Anchor("R12c", "streamTo payload copy", nCopy == 1)
			}
		}
		// scalar arm: un-read, decode, write the value's text
		r.Anchor("R12c", "streamTo delegates non-blob replies to readNextMessage", len(CallSites(fn, "rueidis.readNextMessage")) == 1)
		for _, s := range CallSites(fn, "rueidis.readNextMessage") {
			un := false
			for _, in := range s.Block.Instrs[:s.Idx] {
				if _, ok := CallTo(in, "bufio.(*Reader).UnreadByte"); ok {
					un = true
				}
			}
			r.ObSite("R12c", s, "unread-type-byte-before-delegating", un, "the type byte consumed for dispatch is pushed back before the generic decoder runs")
		}
		nW := 0
		for _, s := range Sites(fn, func(in ssa.Instruction) bool {
			c, ok := in.(ssa.CallInstruction)
			return ok && CalleeName(c) == "iface:io.Writer.Write"
		}) {
			nW++
			arg := s.Call().Common().Args[0]
			viaString := DependsOn(arg, func(v ssa.Value) bool {
				c, ok := v.(*ssa.Call)
				return ok && CalleeName(c) == "rueidis.(*RedisMessage).string"
			})
			viaInt := DependsOn(arg, func(v ssa.Value) bool {
				c, ok := v.(*ssa.Call)
				if !ok || CalleeName(c) != "strconv.FormatInt" {
					return false
				}
				k, isc := ConstInt(c.Call.Args[1])
				return isc && k == 10 && strings.HasSuffix(Desc(c.Call.Args[0]), ".intlen")
			})
			// which types reach this write
			var tys []string
			for _, g := range GuardDNF(s.Block, 4) {
				for _, c := range g {
					if _, op, y, ok := CmpGuard(c); ok && op == token.EQL {
						if k, isc := ConstInt(y); isc && k > 32 && k < 127 {
							tys = append(tys, string(rune(k)))
						}
					}
				}
			}
			sort.Strings(tys)
			tset := strings.Join(dedup(tys), "")
			ok := viaString && tset == "(+," || viaInt && tset == "#:"
			r.ObSite("R12c", s, "streamed-scalar-text", ok, fmt.Sprintf("string-like replies (+ , () are streamed as their text and integer-like replies (: #) as decimal intlen; this write serves types %q", tset))
		}
		r.Anchor("R12c", "streamTo scalar writes (2)", nW == 2)
	}
}

func isPhiWithNil(v ssa.Value) bool {
	ph, ok := v.(*ssa.Phi)
	if !ok {
		return false
	}
	for _, e := range ph.Edges {
		if IsNilConst(e) {
			return true
		}
	}
	return false
}

// extractOf returns the Extract of component idx of a tuple-valued call (nil if absent).
func extractOf(c *ssa.Call, idx int) ssa.Value {
	for _, u := range *c.Referrers() {
		if ex, ok := u.(*ssa.Extract); ok && ex.Index == idx {
			return ex
		}
	}
	return nil
}

func sameLen(a, b ssa.Value) bool {
	for {
		if cv, ok := a.(*ssa.Convert); ok {
			a = cv.X
			continue
		}
		break
	}
	return a == b
}

// readerClass gives the structural class of a RESP reader function.
func readerClass(fn *ssa.Function) string {
	has := func(name string) []Site { return CallSites(fn, name) }
	switch {
	case len(has("rueidis.readS")) > 0 && len(has("rueidis.readI"))+len(has("rueidis.readB"))+len(has("rueidis.readA")) == 0:
		return "line"
	case len(has("rueidis.readB")) > 0:
		return "blob"
	case len(has("rueidis.readA")) > 0:
		for _, s := range has("rueidis.readA") {
			if bo, ok := s.Call().Common().Args[1].(*ssa.BinOp); ok && bo.Op == token.MUL {
				if k, isc := ConstInt(bo.Y); isc && k == 2 {
					return "pairs"
				}
				return "other"
			}
		}
		return "count"
	case len(has("rueidis.readI")) > 0:
		return "int"
	}
	n := len(has("bufio.(*Reader).ReadByte"))
	for _, s := range has("bufio.(*Reader).Discard") {
		if k, isc := ConstInt(s.Call().Common().Args[1]); isc {
			n += int(k)
		} else {
			return "other"
		}
	}
	return fmt.Sprintf("fixed%d", n)
}

// countedLoopAt returns the induction phi of a loop whose head is b (rotated `for range n` form:
// phi [0, phi+1] in b, back edge under phi+1 < bound, entry under 0 < bound), bound = Desc.
func countedLoopAt(b *ssa.BasicBlock, bound string) *ssa.Phi {
	for _, in := range b.Instrs {
		ph, ok := in.(*ssa.Phi)
		if !ok {
			break
		}
		good := len(ph.Edges) == 2
		for i, e := range ph.Edges {
			pred := b.Preds[i]
			iff, isif := pred.Instrs[len(pred.Instrs)-1].(*ssa.If)
			if !isif {
				good = false
				break
			}
			cmp, isc := iff.Cond.(*ssa.BinOp)
			if !isc || cmp.Op != token.LSS || Desc(cmp.Y) != bound || pred.Succs[0] != b {
				good = false
				break
			}
			if b.Dominates(pred) {
				inc, isb := e.(*ssa.BinOp)
				k, isk := ConstInt0(inc)
				_ = k
				if !isb || inc.Op != token.ADD || inc.X != ssa.Value(ph) || !isk || cmp.X != e {
					good = false
				}
			} else {
				z, isz := ConstInt(e)
				cz, iscz := ConstInt(cmp.X)
				if !isz || z != 0 || !iscz || cz != 0 {
					good = false
				}
			}
		}
		if good {
			return ph
		}
	}
	return nil
}

// ConstInt0 reports whether bo is `x + 1`.
func ConstInt0(bo *ssa.BinOp) (int64, bool) {
	if bo == nil {
		return 0, false
	}
	k, ok := ConstInt(bo.Y)
	return k, ok && k == 1
}

// IsLoopHeaderDominating: d and b are in the same loop iteration region (d dominates b and no
// loop header lies strictly between them that does not dominate d).
func IsLoopHeaderDominating(d, b *ssa.BasicBlock) bool { return d.Dominates(b) }

// lineRule: a line reader takes one line from the connection and strips exactly the 2 trailer bytes.
func lineRule(r *Report, fn *ssa.Function, readCall string) {
	n := 0
	for _, s := range CallSites(fn, readCall) {
		n++
		c := s.Call().Common()
		k, isc := ConstInt(c.Args[1])
		r.ObSite("R12b", s, "line-read-to-LF", Desc(c.Args[0]) == "p0" && isc && k == '\n', "a line is read up to and including LF")
	}
	r.Anchor("R12b", FuncName(fn)+" line read", n == 1)
	// some slice expression cuts len-2
	cut := false
	for _, b := range fn.Blocks {
		for _, in := range b.Instrs {
			if sl, ok := in.(*ssa.Slice); ok && sl.High != nil {
				if DependsOn(sl.High, func(v ssa.Value) bool {
					bo, isb := v.(*ssa.BinOp)
					if !isb || bo.Op != token.SUB {
						return false
					}
					k, isc := ConstInt(bo.Y)
					_, isl := bo.X.(*ssa.Call)
					return isc && k == 2 && isl
				}) {
					cut = true
				}
			}
		}
	}
	r.Ob("R12b", fn, "line-trailer-stripped", fn.Pos(), cut, "the value of a line is the line without its last 2 bytes")
}
