package rv

import (
	"fmt"
	"go/token"
	"strings"

	"golang.org/x/tools/go/ssa"
)

func init() {
	Registry["C14"] = RuleDef{Module: ".", Run: runC14,
		Technique:   "emission-grammar rule over the SSA of the command writers (ordered writer calls, operands identified by value), who-may-call rule for the raw writers and the connection's bufio.Writer, immutability of built argv",
		Explanation: "Decides the framing part of the property: (R14a) writeCmd emits `*`+len(argv) once and then, for every element of argv in slice order, exactly one bulk string; writeB emits `$`+len(s), the very same s, CRLF; writeN emits the id byte, then only digit bytes ('0'+x), then CRLF on every path; flushCmd is writeCmd followed by Flush; (R14b) bytes reach a connection's writer only through these functions, every writeCmd/flushCmd call passes the complete Commands() of one command, and the low-level writers are called by nobody else; (R33b-R33f, shared with C33) a command or the batch buffer holding it is recycled only when the pipe can no longer write it; (R14c) nothing in package rueidis stores into a built command's argv and Commands() returns the argv itself.",
		NotDecided:  "the decimal rendering inside writeN (which digits are produced is arithmetic on the runtime length: float Log10/Pow10; a seeded off-by-one in an integer re-implementation is a value-level fault no rule here decides); the content of argv (C33)."}
}

var bufWriteMethods = map[string]bool{
	"bufio.(*Writer).Write": true, "bufio.(*Writer).WriteString": true, "bufio.(*Writer).WriteByte": true,
	"bufio.(*Writer).WriteRune": true, "bufio.(*Writer).ReadFrom": true,
}

func runC14(r *Report) {
	// what is queued is what gets written: a command (or the batch slice holding it) is not given
	// back to its pool while the pipe may still have to write it (rules shared with C33)
	recycleRules(r)
	p := r.P
	// writer calls of a function in block order (blocks in dominance pre-order are not needed:
	// the rules below check order with Dominates on sites)
	type wcall struct {
		s    Site
		name string
	}
	// an unexported helper of the package whose only effect is o.WriteString("\r\n") on its first parameter
	isCRLFHelper := func(c ssa.CallInstruction) bool {
		callee := c.Common().StaticCallee()
		if callee == nil || callee.Blocks == nil || isExportedName(callee.Name()) || !strings.HasPrefix(FuncName(callee), "rueidis.") || len(callee.Params) == 0 {
			return false
		}
		n := 0
		for _, b := range callee.Blocks {
			for _, in := range b.Instrs {
				cc, ok := in.(ssa.CallInstruction)
				if !ok {
					continue
				}
				a := cc.Common().Args
				s, iss := "", false
				if len(a) == 2 {
					s, iss = ConstString(a[1])
				}
				if CalleeName(cc) != "bufio.(*Writer).WriteString" || a[0] != ssa.Value(callee.Params[0]) || !iss || s != "\r\n" {
					return false
				}
				n++
			}
		}
		return n == 1
	}
	writerCalls := func(fn *ssa.Function) []wcall {
		var out []wcall
		for _, s := range Sites(fn, func(in ssa.Instruction) bool { _, ok := in.(ssa.CallInstruction); return ok }) {
			n := CalleeName(s.Call())
			if isCRLFHelper(s.Call()) {
				out = append(out, wcall{s, "crlf-helper"})
				continue
			}
			if bufWriteMethods[n] || n == "rueidis.writeN" || n == "rueidis.writeB" || n == "rueidis.writeS" || n == "rueidis.writeCmd" || n == "bufio.(*Writer).Flush" {
				out = append(out, wcall{s, n})
			} else if n == "" || !strings.HasPrefix(n, "builtin.") && !strings.HasPrefix(n, "math.") {
				out = append(out, wcall{s, "other:" + n})
			}
		}
		return out
	}
	isByteConst := func(v ssa.Value, b byte) bool { k, ok := ConstInt(v); return ok && k == int64(b) }
	isLenOf := func(v ssa.Value, of string) bool {
		c, ok := v.(*ssa.Call)
		return ok && CalleeName(c) == "builtin.len" && Desc(c.Call.Args[0]) == of
	}
	isCRLF := func(v ssa.Value) bool { s, ok := ConstString(v); return ok && s == "\r\n" }

	// writeCmd
	if fn := r.FnAnchor("R14a", "rueidis.writeCmd"); fn != nil {
		wc := writerCalls(fn)
		var hdr, elem []wcall
		other := 0
		for _, w := range wc {
			switch w.name {
			case "rueidis.writeN":
				hdr = append(hdr, w)
			case "rueidis.writeB":
				elem = append(elem, w)
			default:
				other++
			}
		}
		ok := len(hdr) == 1 && len(elem) == 1 && other == 0
		why := fmt.Sprintf("%d header writes, %d element writes, %d other calls", len(hdr), len(elem), other)
		if ok {
			h, e := hdr[0], elem[0]
			ha, ea := h.s.Call().Common().Args, e.s.Call().Common().Args
			switch {
			case !(h.s.Block == fn.Blocks[0] && Desc(ha[0]) == "p0" && isByteConst(ha[1], '*') && isLenOf(ha[2], "p1")):
				ok, why = false, "the header is not writeN(o, '*', len(cmd)) executed unconditionally first"
			case Desc(ea[0]) != "p0" || !isByteConst(ea[1], '$'):
				ok, why = false, "an element is not written as writeB(o, '$', element)"
			default:
				// the element operand is cmd[i] for the induction variable of a full range loop over cmd
				lh := rangeLoopOver(fn, "p1")
				idx := indexOf(ea[2])
				if lh == nil {
					ok, why = false, "no loop visiting every element of cmd from index 0 with stride 1"
				} else if idx == nil || !isRangeIndex(lh, idx) || !strings.HasPrefix(Desc(ea[2]), "p1[") && !strings.HasPrefix(Desc(ea[2]), "*&p1[") {
					ok, why = false, "the written element is not cmd[i] of the loop's own index: "+Desc(ea[2])
				} else if !loopBodyAlways(fn, lh, func(in ssa.Instruction) bool { return in == e.s.Instr }) {
					ok, why = false, "an iteration can skip writing its element"
				}
			}
		}
		r.Ob("R14a", fn, "array-header-then-each-element-once", fn.Pos(), ok, "writeCmd writes '*'+len(argv) then one bulk string per element in slice order; "+why)
	}
	// writeB
	if fn := r.FnAnchor("R14a", "rueidis.writeB"); fn != nil {
		wc := writerCalls(fn)
		ok := len(fn.Blocks) == 1 && len(wc) == 3
		why := fmt.Sprintf("%d blocks, %d calls", len(fn.Blocks), len(wc))
		if ok {
			a0, a1, a2 := wc[0].s.Call().Common().Args, wc[1].s.Call().Common().Args, wc[2].s.Call().Common().Args
			ok = wc[0].name == "rueidis.writeN" && Desc(a0[0]) == "p0" && Desc(a0[1]) == "p1" && isLenOf(a0[2], "p2") &&
				wc[1].name == "bufio.(*Writer).WriteString" && Desc(a1[0]) == "p0" && Desc(a1[1]) == "p2" &&
				(wc[2].name == "bufio.(*Writer).WriteString" && Desc(a2[0]) == "p0" && isCRLF(a2[1]) || wc[2].name == "crlf-helper" && Desc(a2[0]) == "p0")
			why = "sequence: " + wc[0].name + ", " + wc[1].name + ", " + wc[2].name
		}
		r.Ob("R14a", fn, "bulk-string:length-of-the-same-string,payload,CRLF", fn.Pos(), ok, "writeB writes id+len(str), str itself, CRLF, in this order and nothing else; "+why)
	}
	// writeN
	if fn := r.FnAnchor("R14a", "rueidis.writeN"); fn != nil {
		wc := writerCalls(fn)
		ok, why := true, ""
		nDigits, nTrail := 0, 0
		var first *wcall
		for i := range wc {
			w := wc[i]
			args := w.s.Call().Common().Args
			switch {
			case w.name == "bufio.(*Writer).WriteByte" && Desc(args[0]) == "p0" && Desc(args[1]) == "p1":
				if first != nil || w.s.Block != fn.Blocks[0] {
					ok, why = false, "the id byte is written more than once or conditionally"
				}
				first = &wc[i]
			case w.name == "bufio.(*Writer).WriteByte" && Desc(args[0]) == "p0":
				// digit: byte('0' + x)
				v := args[1]
				if cv, isc := v.(*ssa.Convert); isc {
					v = cv.X
				}
				bo, isb := v.(*ssa.BinOp)
				if !isb || bo.Op != token.ADD || !(isByteConst(bo.X, '0') || isByteConst(bo.Y, '0')) {
					ok, why = false, "a byte other than '0'+digit is written between id and CRLF: "+Desc(args[1])
				}
				nDigits++
			case w.name == "bufio.(*Writer).WriteString" && Desc(args[0]) == "p0" && isCRLF(args[1]), w.name == "crlf-helper" && Desc(args[0]) == "p0":
				nTrail++
				// nothing is written after the trailer
				bad, _ := Reaches(w.s, func(s Site) bool {
					c, isc := s.Instr.(ssa.CallInstruction)
					return isc && (bufWriteMethods[CalleeName(c)])
				}, nil)
				if bad {
					ok, why = false, "bytes are written after the CRLF trailer"
				}
			default:
				ok, why = false, "unexpected call "+w.name
			}
		}
		if first == nil {
			ok, why = false, "the id byte is not written first"
		}
		// every return passes a trailer; every path passes at least the id
		if ok {
			for _, ret := range ReturnsAvoiding(fn, func(in ssa.Instruction) bool {
				c, isc := in.(ssa.CallInstruction)
				return isc && (CalleeName(c) == "bufio.(*Writer).WriteString" && isCRLF(c.Common().Args[1]) || isCRLFHelper(c))
			}) {
				_ = ret
				ok, why = false, "a path returns without writing the CRLF trailer"
			}
			// the small-number arm writes exactly the digit of n under n < 10
			if nDigits < 1 {
				ok, why = false, "no digit is written"
			}
		}
		r.Ob("R14a", fn, "number:id,digits,CRLF", fn.Pos(), ok, fmt.Sprintf("writeN writes the id byte, then only '0'+x bytes (%d sites), then CRLF (%d sites) on every path; %s", nDigits, nTrail, why))
		// lengths are never negative at the call sites: the operand is a len()
		for _, s := range p.Callers("rueidis.writeN") {
			a := s.Call().Common().Args[2]
			c, isl := a.(*ssa.Call)
			r.ObSite("R14a", s, "number-operand-is-a-length", isl && CalleeName(c) == "builtin.len", "writeN is only given len(x) (non-negative); the rendering is not defined for negative numbers")
		}
	}
	// flushCmd
	if fn := r.FnAnchor("R14a", "rueidis.flushCmd"); fn != nil {
		wc := writerCalls(fn)
		ok := len(fn.Blocks) == 1 && len(wc) == 2 && wc[0].name == "rueidis.writeCmd" && wc[1].name == "bufio.(*Writer).Flush"
		if ok {
			a := wc[0].s.Call().Common().Args
			ok = Desc(a[0]) == "p0" && Desc(a[1]) == "p1" && Desc(wc[1].s.Call().Common().Args[0]) == "p0"
		}
		r.Ob("R14a", fn, "write-then-flush", fn.Pos(), ok, "flushCmd is writeCmd(o, cmd) followed by o.Flush()")
	}

	// R14b who may write
	P := "rueidis.(*pipe)."
	whoMayCall(r, "R14b", "rueidis.writeN", "rueidis.writeCmd", "rueidis.writeB")
	whoMayCall(r, "R14b", "rueidis.writeB", "rueidis.writeCmd")
	whoMayCall(r, "R14b", "rueidis.writeCmd", P+"_backgroundWrite", P+"DoStream", P+"DoMultiStream", P+"syncDoMulti", "rueidis.flushCmd")
	whoMayCall(r, "R14b", "rueidis.flushCmd", P+"syncDo", P+"syncDoMulti")
	nW := 0
	for _, fn := range p.ModuleFuncs() {
		if !strings.HasPrefix(FuncName(fn), "rueidis.") {
			continue
		}
		for _, s := range Sites(fn, func(in ssa.Instruction) bool { _, ok := in.(ssa.CallInstruction); return ok }) {
			n := CalleeName(s.Call())
			args := CallArgs(s.Call())
			if n == "rueidis.writeCmd" || n == "rueidis.flushCmd" {
				nW++
				c, isc := Strip(args[1]).(*ssa.Call)
				whole := isc && strings.HasSuffix(CalleeName(c), ").Commands")
				if FuncName(fn) == "rueidis.flushCmd" {
					whole = Desc(args[1]) == "p1"
				}
				r.ObSite("R14b", s, "whole-command", whole, "the writer is given the complete Commands() of one command (no sub-slice, concatenation or rebuilt argv)")
				continue
			}
			if bufWriteMethods[n] && len(args) > 0 {
				d := DescDeep(args[0])
				if strings.HasSuffix(d, ".w") && strings.Contains(shortType(args[0].Type()), "bufio.Writer") && !strings.HasPrefix(d, "alloc") {
					r.ObSite("R14b", s, "raw-write-to-connection-writer", false, "bytes are written to a connection's writer outside writeCmd/writeB/writeN: "+n)
				}
			}
		}
	}
	r.Anchor("R14b", "writeCmd/flushCmd call sites (>= 6)", nW >= 6)
	// the connection writer field is only handed to the writers / Flush / Buffered
	for _, a := range p.FieldAccesses("rueidis.pipe", "w") {
		if a.Write {
			fresh := false
			if st, ok := a.Instr.(*ssa.Store); ok {
				_, _, base, _ := FieldRef(st.Addr)
				_, fresh = Strip(base).(*ssa.Alloc)
			}
			r.ObSite("R14b", a.Site, "writer-field-set-at-construction", fresh, "pipe.w is assigned only while the pipe is being constructed")
			continue
		}
		v, isv := a.Instr.(ssa.Value)
		if !isv {
			continue
		}
		for _, u := range Uses(v) {
			c, isc := u.(ssa.CallInstruction)
			if !isc {
				r.ObSite("R14b", SiteOf(u), "writer-escapes", false, "pipe.w flows somewhere other than a writer call")
				continue
			}
			switch CalleeName(c) {
			case "rueidis.writeCmd", "rueidis.flushCmd", "bufio.(*Writer).Flush", "bufio.(*Writer).Buffered":
			default:
				r.ObSite("R14b", SiteOf(u), "writer-use:"+CalleeName(c), false, "pipe.w is used by something other than writeCmd/flushCmd/Flush/Buffered")
			}
		}
	}

	// R14c immutability of argv
	nStores := 0
	for _, fn := range p.ModuleFuncs() {
		if !strings.HasPrefix(FuncName(fn), "rueidis.") {
			continue
		}
		for _, s := range Sites(fn, func(in ssa.Instruction) bool { _, ok := in.(*ssa.Store); return ok }) {
			st := s.Instr.(*ssa.Store)
			ia, ok := st.Addr.(*ssa.IndexAddr)
			if !ok {
				continue
			}
			for _, o := range sliceOrigins(ia.X) {
				if c, ok := o.(*ssa.Call); ok && strings.HasSuffix(CalleeName(c), ").Commands") {
					nStores++
					r.ObSite("R14c", s, "store-into-argv", false, "a built command's argv is modified after it was built (a later write of the same command no longer decodes to its arguments)")
					break
				}
			}
		}
	}
	r.Ob("R14c", nil, "argv-writers-outside-builder", token.NoPos, true, fmt.Sprintf("%d stores into Commands() slices in package rueidis", nStores))
	if fn := r.FnAnchor("R14c", "rueidis/internal/cmds.(*Completed).Commands"); fn != nil {
		ok := len(fn.Blocks) == 1
		if ok {
			ret, isr := fn.Blocks[0].Instrs[len(fn.Blocks[0].Instrs)-1].(*ssa.Return)
			ok = isr && len(ret.Results) == 1 && Desc(ret.Results[0]) == "p0.cs.s"
		}
		r.Ob("R14c", fn, "accessor-returns-argv", fn.Pos(), ok, "Commands() returns the argv slice itself")
	}
}

// rangeLoopOver returns the header of a loop whose induction variable starts at 0 (SSA: -1 then
// +1 before the test), advances by 1 and is bounded by len(<sliceDesc>).
func rangeLoopOver(fn *ssa.Function, sliceDesc string) *ssa.BasicBlock {
	for _, b := range fn.Blocks {
		if !IsLoopHeader(b) {
			continue
		}
		iff, ok := b.Instrs[len(b.Instrs)-1].(*ssa.If)
		if !ok {
			continue
		}
		cmp, ok := iff.Cond.(*ssa.BinOp)
		if !ok || cmp.Op != token.LSS {
			continue
		}
		lc, isl := cmp.Y.(*ssa.Call)
		if !isl || CalleeName(lc) != "builtin.len" || Desc(lc.Call.Args[0]) != sliceDesc {
			continue
		}
		if isRangeIndex(b, cmp.X) {
			return b
		}
	}
	return nil
}

// isRangeIndex: v is `phi + 1` with phi = [-1 from outside, v from the back edge] in header h, or
// a phi [0, phi+1] itself.
func isRangeIndex(h *ssa.BasicBlock, v ssa.Value) bool {
	if bo, ok := v.(*ssa.BinOp); ok && bo.Op == token.ADD {
		ph, isphi := bo.X.(*ssa.Phi)
		k, isc := ConstInt(bo.Y)
		if !isphi || !isc || k != 1 || ph.Block() != h {
			return false
		}
		for i, e := range ph.Edges {
			if h.Dominates(h.Preds[i]) {
				if e != v {
					return false
				}
			} else if c, ok := ConstInt(e); !ok || c != -1 {
				return false
			}
		}
		return true
	}
	if ph, ok := v.(*ssa.Phi); ok && ph.Block() == h {
		for i, e := range ph.Edges {
			if h.Dominates(h.Preds[i]) {
				bo, isb := e.(*ssa.BinOp)
				if !isb || bo.Op != token.ADD || bo.X != v {
					return false
				}
				if k, isc := ConstInt(bo.Y); !isc || k != 1 {
					return false
				}
			} else if c, ok := ConstInt(e); !ok || c != 0 {
				return false
			}
		}
		return true
	}
	return false
}
