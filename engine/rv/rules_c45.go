package rv

import (
	"fmt"
	"go/token"
	"go/types"
	"strings"

	"golang.org/x/tools/go/ssa"
)

func init() {
	Registry["C45"] = RuleDef{Module: ".", Run: runC45,
		Technique:   "sibling-codec agreement: the encoder and decoder of each vector width are summarised from SSA (element width, stride, slice bounds, byte-order object, bit-cast pair, buffer size) and the summaries must be inverse; no floating-point arithmetic may touch an element",
		Explanation: "Decides that VectorStringN and ToVectorN are structural inverses: the encoder writes element i with the N-bit put function of one byte-order object into b[i*W : i*W+W] of a buffer of len(v)*W bytes, W = N/8, for every i (full range loop), the value being the bit pattern (math.FloatNbits) of v[i] with no arithmetic in between, and returns exactly that buffer; the decoder walks the string's own bytes with stride W from 0 while i < len, reads [i : i+W] with the matching get function of the same byte-order object, bit-casts with math.FloatNfrombits and appends in order; BinaryString is unsafe.String over the slice's own data pointer and length; JSON returns BinaryString of json.Marshal's bytes and panics on a marshal error. Bit-for-bit round trip (NaN payloads, signed zeros) follows from the absence of float arithmetic.",
		NotDecided:  "behaviour of ToVectorN on strings whose length is not a multiple of W (outside the round-trip clause); encoding/json's output."}
}

type vecCodec struct {
	width    int64
	order    string
	fn       string // PutUint32 / Uint32 ...
	cast     string
	ok       bool
	why      string
	floatOps int
}

func runC45(r *Report) {
	floatArith := func(fn *ssa.Function) int {
		n := 0
		for _, b := range fn.Blocks {
			for _, in := range b.Instrs {
				switch x := in.(type) {
				case *ssa.BinOp:
					if bt, ok := x.X.Type().Underlying().(*types.Basic); ok && bt.Info()&types.IsFloat != 0 {
						n++
					}
				case *ssa.Convert:
					bt, ok1 := x.X.Type().Underlying().(*types.Basic)
					rt, ok2 := x.Type().Underlying().(*types.Basic)
					if ok1 && ok2 && (bt.Info()&types.IsFloat != 0 || rt.Info()&types.IsFloat != 0) {
						n++
					}
				}
			}
		}
		return n
	}
	mulConst := func(v ssa.Value, of ssa.Value) (int64, bool) {
		bo, ok := v.(*ssa.BinOp)
		if !ok || bo.Op != token.MUL {
			return 0, false
		}
		k, isc := ConstInt(bo.Y)
		if !isc || (of != nil && bo.X != of) {
			return 0, false
		}
		return k, true
	}
	enc := func(fn *ssa.Function) vecCodec {
		c := vecCodec{floatOps: floatArith(fn)}
		lh := rangeLoopOver(fn, "p0")
		if lh == nil {
			c.why = "no full range loop over the input"
			return c
		}
		var put *ssa.Call
		for _, s := range Sites(fn, func(in ssa.Instruction) bool {
			cl, ok := in.(*ssa.Call)
			return ok && strings.HasPrefix(CalleeName(cl), "encoding/binary.(littleEndian).Put") || ok && strings.HasPrefix(CalleeName(cl), "encoding/binary.(bigEndian).Put")
		}) {
			put = s.Instr.(*ssa.Call)
		}
		if put == nil {
			c.why = "no byte-order put call"
			return c
		}
		if !loopBodyAlways(fn, lh, func(in ssa.Instruction) bool { return in == ssa.Instruction(put) }) {
			c.why = "an element can be skipped"
			return c
		}
		c.order = DescDeep(put.Call.Args[0])
		c.fn = CalleeName(put)[strings.LastIndex(CalleeName(put), ".")+1:]
		// destination slice b[i*W : i*W+W]
		sl, ok := put.Call.Args[1].(*ssa.Slice)
		if !ok {
			c.why = "destination is not a sub-slice"
			return c
		}
		var idx ssa.Value
		if bo, isb := sl.Low.(*ssa.BinOp); isb {
			idx = bo.X
		}
		w, okw := mulConst(sl.Low, nil)
		hi, okh := sl.High.(*ssa.BinOp)
		if !okw || !okh || hi.Op != token.ADD || hi.X != sl.Low {
			c.why = "slice bounds are not [i*W : i*W+W]"
			return c
		}
		if k, isc := ConstInt(hi.Y); !isc || k != w {
			c.why = "slice width differs from the stride"
			return c
		}
		if !isRangeIndex(lh, idx) {
			c.why = "the offset is not derived from the loop index"
			return c
		}
		c.width = w
		// buffer: make([]byte, len(v)*W)
		ms, isms := Strip(sl.X).(*ssa.MakeSlice)
		if !isms {
			c.why = "destination buffer is not a fresh slice"
			return c
		}
		bw, okb := mulConst(ms.Len, nil)
		lc, isl := ms.Len.(*ssa.BinOp)
		if !okb || bw != w || !isl {
			c.why = "buffer size is not len(v)*W"
			return c
		}
		if cl, iscl := lc.X.(*ssa.Call); !iscl || CalleeName(cl) != "builtin.len" || Desc(cl.Call.Args[0]) != "p0" {
			c.why = "buffer size is not len(v)*W"
			return c
		}
		// value: FloatNbits(v[i]) for the same i
		bits, isb := put.Call.Args[2].(*ssa.Call)
		if !isb || !strings.HasPrefix(CalleeName(bits), "math.Float") || !strings.HasSuffix(CalleeName(bits), "bits") || strings.Contains(CalleeName(bits), "from") {
			c.why = "the written value is not the bit pattern of the element"
			return c
		}
		c.cast = CalleeName(bits)
		esl, eidx, isel := elemOf(bits.Call.Args[0])
		if !isel || Desc(esl) != "p0" || eidx != idx {
			c.why = "the encoded element is not v[i] for the slot's own i"
			return c
		}
		// returned string is BinaryString(buffer)
		for _, b := range fn.Blocks {
			if ret, isr := b.Instrs[len(b.Instrs)-1].(*ssa.Return); isr {
				rc, isc := ret.Results[0].(*ssa.Call)
				if !isc || CalleeName(rc) != "rueidis.BinaryString" || Strip(rc.Call.Args[0]) != ssa.Value(ms) {
					c.why = "the result is not BinaryString of the filled buffer"
					return c
				}
			}
		}
		c.ok = true
		return c
	}
	dec := func(fn *ssa.Function) vecCodec {
		c := vecCodec{floatOps: floatArith(fn)}
		var get *ssa.Call
		for _, s := range Sites(fn, func(in ssa.Instruction) bool {
			cl, ok := in.(*ssa.Call)
			return ok && (strings.HasPrefix(CalleeName(cl), "encoding/binary.(littleEndian).Uint") || strings.HasPrefix(CalleeName(cl), "encoding/binary.(bigEndian).Uint"))
		}) {
			get = s.Instr.(*ssa.Call)
		}
		if get == nil {
			c.why = "no byte-order get call"
			return c
		}
		c.order = DescDeep(get.Call.Args[0])
		c.fn = CalleeName(get)[strings.LastIndex(CalleeName(get), ".")+1:]
		sl, ok := get.Call.Args[1].(*ssa.Slice)
		if !ok {
			c.why = "source is not a sub-slice"
			return c
		}
		ph, isphi := sl.Low.(*ssa.Phi)
		hi, ishi := sl.High.(*ssa.BinOp)
		if !isphi || !ishi || hi.Op != token.ADD || hi.X != sl.Low {
			c.why = "slice bounds are not [i : i+W]"
			return c
		}
		w, _ := ConstInt(hi.Y)
		// induction: 0, +W, while i < len(bytes)
		good := len(ph.Edges) == 2
		for i, e := range ph.Edges {
			if ph.Block().Dominates(ph.Block().Preds[i]) {
				bo, isb := e.(*ssa.BinOp)
				k, isc := ConstInt0W(bo)
				if !isb || bo.Op != token.ADD || bo.X != ssa.Value(ph) || !isc || k != w {
					good = false
				}
			} else if z, isz := ConstInt(e); !isz || z != 0 {
				good = false
			}
		}
		iff, isif := ph.Block().Instrs[len(ph.Block().Instrs)-1].(*ssa.If)
		if good && isif {
			cmp, isc := iff.Cond.(*ssa.BinOp)
			form1 := isc && cmp.Op == token.LSS && cmp.X == ssa.Value(ph)
			form2 := false
			if isc && cmp.Op == token.LEQ {
				if bo, isb := cmp.X.(*ssa.BinOp); isb && bo.Op == token.ADD && bo.X == ssa.Value(ph) {
					k, isk := ConstInt(bo.Y)
					form2 = isk && k == w
				}
			}
			// the same test written as the exit condition: `if i >= len(bs) { break }` / `if i+W > len(bs) { break }`
			form3 := isc && cmp.Op == token.GEQ && cmp.X == ssa.Value(ph)
			form4 := false
			if isc && cmp.Op == token.GTR {
				if bo, isb := cmp.X.(*ssa.BinOp); isb && bo.Op == token.ADD && bo.X == ssa.Value(ph) {
					k, isk := ConstInt(bo.Y)
					form4 = isk && k == w
				}
			}
			if (form3 || form4) && isc {
				// the slice must be on the arm where the exit test failed
				if !ph.Block().Succs[1].Dominates(get.Block()) {
					form3, form4 = false, false
				}
			}
			if (form1 || form2) && isc && !ph.Block().Succs[0].Dominates(get.Block()) {
				form1, form2 = false, false
			}
			if !form1 && !form2 && !form3 && !form4 {
				good = false
			} else if lc, isl := cmp.Y.(*ssa.Call); !isl || CalleeName(lc) != "builtin.len" || !Same(lc.Call.Args[0], sl.X) {
				good = false
			}
		} else {
			good = false
		}
		if !good {
			c.why = "the walk is not i = 0; i < len(bytes); i += W"
			return c
		}
		c.width = w
		// bytes = unsafe.Slice(unsafe.StringData(s), len(s))
		d := DescDeep(sl.X)
		if !(strings.Contains(d, "Slice(") && strings.Contains(d, "StringData(p0)") && strings.Contains(d, "len(p0)")) {
			c.why = "the bytes walked are not the string's own bytes: " + d
			return c
		}
		// cast and append in order
		var cast *ssa.Call
		for _, u := range Uses(get) {
			if cl, ok := u.(*ssa.Call); ok && strings.HasPrefix(CalleeName(cl), "math.Float") && strings.HasSuffix(CalleeName(cl), "frombits") {
				cast = cl
			}
		}
		if cast == nil {
			c.why = "the word read is not bit-cast to a float"
			return c
		}
		c.cast = CalleeName(cast)
		appended := false
		for _, s := range CallSites(fn, "builtin.append") {
			es := variadicElemsOrdered(s.Call().Common().Args[1])
			if len(es) == 1 && es[0] == ssa.Value(cast) {
				if acc, isacc := s.Call().Common().Args[0].(*ssa.Phi); isacc && acc.Block() == ph.Block() {
					appended = true
					for _, b := range fn.Blocks {
						if ret, isr := b.Instrs[len(b.Instrs)-1].(*ssa.Return); isr && ret.Results[0] != ssa.Value(acc) {
							appended = false
						}
					}
				}
			}
		}
		if !appended {
			c.why = "the decoded element is not appended to the returned slice"
			return c
		}
		c.ok = true
		return c
	}
	for _, n := range []string{"32", "64"} {
		ef := r.FnAnchor("R45", "rueidis.VectorString"+n)
		df := r.FnAnchor("R45", "rueidis.ToVector"+n)
		if ef == nil || df == nil {
			continue
		}
		e, d := enc(ef), dec(df)
		want := int64(4)
		if n == "64" {
			want = 8
		}
		r.Ob("R45", ef, "encoder-shape", ef.Pos(), e.ok, "VectorString"+n+" writes every element's bit pattern into its own W-byte slot; "+e.why)
		r.Ob("R45", df, "decoder-shape", df.Pos(), d.ok, "ToVector"+n+" reads consecutive W-byte words of the string's own bytes; "+d.why)
		if e.ok && d.ok {
			inv := e.width == want && d.width == want && e.order == d.order &&
				e.fn == "PutUint"+n && d.fn == "Uint"+n && e.cast == "math.Float"+n+"bits" && d.cast == "math.Float"+n+"frombits"
			r.Ob("R45", ef, "codec-pair-is-inverse", ef.Pos(), inv, fmt.Sprintf("encoder (W=%d, %s.%s, %s) and decoder (W=%d, %s.%s, %s) must be inverse with W=%d", e.width, e.order, e.fn, e.cast, d.width, d.order, d.fn, d.cast, want))
		}
		r.Ob("R45", ef, "no-float-arithmetic", ef.Pos(), e.floatOps == 0 && d.floatOps == 0, fmt.Sprintf("no floating-point operation or conversion touches an element (encoder %d, decoder %d)", e.floatOps, d.floatOps))
	}
	if fn := r.FnAnchor("R45", "rueidis.BinaryString"); fn != nil {
		ok := len(fn.Blocks) == 1
		if ok {
			ret, isr := fn.Blocks[0].Instrs[len(fn.Blocks[0].Instrs)-1].(*ssa.Return)
			ok = isr && DescDeep(ret.Results[0]) == "builtin.String(builtin.SliceData(p0),builtin.len(p0))"
			if isr && !ok {
				r.Extra["binarystring_desc"] = DescDeep(ret.Results[0])
			}
		}
		r.Ob("R45", fn, "binary-string-is-the-slice", fn.Pos(), ok, "BinaryString is unsafe.String over the slice's own data pointer and length")
	}
	if fn := r.FnAnchor("R45", "rueidis.JSON"); fn != nil {
		ok := true
		nRet := 0
		for _, b := range fn.Blocks {
			if ret, isr := b.Instrs[len(b.Instrs)-1].(*ssa.Return); isr {
				nRet++
				good := false
				rc, isc := ret.Results[0].(*ssa.Call)
				if isc && CalleeName(rc) == "rueidis.BinaryString" {
					if ex, isex := rc.Call.Args[0].(*ssa.Extract); isex && ex.Index == 0 {
						if mc, ism := ex.Tuple.(*ssa.Call); ism && CalleeName(mc) == "encoding/json.Marshal" && Desc(mc.Call.Args[0]) == "p0" {
							good = true
						}
					}
				}
				if !good {
					ok = false
				}
			}
		}
		pan := len(Sites(fn, func(in ssa.Instruction) bool { _, ok := in.(*ssa.Panic); return ok })) == 1
		r.Ob("R45", fn, "json-is-marshal", fn.Pos(), ok && nRet >= 1 && pan, "every result of JSON is the bytes of json.Marshal(in); it panics when marshalling fails")
	}
}

// ConstInt0W returns the constant right operand of an addition.
func ConstInt0W(bo *ssa.BinOp) (int64, bool) {
	if bo == nil {
		return 0, false
	}
	return ConstInt(bo.Y)
}
