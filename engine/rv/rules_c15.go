package rv

import (
	"os"
	"fmt"
	"go/ast"
	"go/token"
	"sort"
	"strings"

	"golang.org/x/tools/go/ssa"
)

func init() {
	Registry["C15"] = RuleDef{Module: ".", Run: runC15,
		Technique:   "bounds prover (guards, induction, parity/half-range lemmas, pure-accessor congruence) over every index/slice expression; panic-source and delegator-sibling rules on go/ssa",
		Explanation: "Decides for every exported accessor of RedisMessage, RedisResult and RedisError, DecodeSliceOfJSON and every module function they reach (R15a) that each index and slice expression is within bounds on every path, proved from the guards that dominate it (length tests on the reply, loop bounds, parity and half-range idioms, make lengths); (R15b) that no panic call, no unchecked type assertion on a non-pool value, and no division by a non-constant is reachable; (R15c) that every RedisResult delegator has the sibling shape `r.err != nil => return it, else delegate to the same-named RedisMessage method`, and that the verified-pure accessors values()/string() really have no side effects. (R15d) ToString, the conversion underneath the whole string family, succeeds only after a positive string-type test or when the message has no child array, so no aggregate kind (array, set, map, push, attribute) is silently converted to an empty string.",
		NotDecided:  "panics inside encoding/json, strconv and other standard-library callees; that a wrong-shape reply yields specifically a parse error (only index safety and the delegation shape are decided); unsafe.Slice/String lengths (they come from intlen, which only the decoder and the setters write)."}
}

// accessorScope returns the accessor entry points and the closure of module functions they call.
func accessorScope(p *Prog) (entries []*ssa.Function, closure []*ssa.Function) {
	seen := map[*ssa.Function]bool{}
	var work []*ssa.Function
	for _, fn := range p.ModuleFuncs() {
		n := FuncName(fn)
		if fn.Parent() != nil {
			continue
		}
		isEntry := false
		for _, pre := range []string{"rueidis.(*RedisMessage).", "rueidis.(RedisResult).", "rueidis.(*RedisError).", "rueidis.(*RedisResult)."} {
			if strings.HasPrefix(n, pre) && ast.IsExported(n[len(pre):]) {
				isEntry = true
			}
		}
		if n == "rueidis.(*RedisMessage).CacheUnmarshalView" || n == "rueidis.(*RedisMessage).CacheMarshal" || n == "rueidis.(*RedisMessage).CacheSize" {
			isEntry = false // cache serialization is decided by C17 (needs the writer/reader agreement as an assumption)
		}
		if n == "rueidis.DecodeSliceOfJSON" {
			isEntry = true
		}
		if isEntry {
			entries = append(entries, fn)
			work = append(work, fn)
		}
	}
	for len(work) > 0 {
		fn := work[len(work)-1]
		work = work[:len(work)-1]
		if seen[fn] {
			continue
		}
		seen[fn] = true
		for _, f := range WithAnons(fn) {
			for _, b := range f.Blocks {
				for _, in := range b.Instrs {
					if c, ok := in.(ssa.CallInstruction); ok {
						if callee := c.Common().StaticCallee(); callee != nil && callee.Blocks != nil && p.InModule(callee) {
							if o := callee.Origin(); o != nil && o.Blocks != nil {
								callee = o
							}
							if !seen[callee] {
								work = append(work, callee)
							}
						}
					}
				}
			}
		}
	}
	for fn := range seen {
		for _, f := range WithAnons(fn) {
			closure = append(closure, f)
		}
	}
	sort.Slice(closure, func(i, j int) bool { return FuncName(closure[i]) < FuncName(closure[j]) })
	return
}

// boundsObligations emits one obligation per index/slice site of fn.
func boundsObligations(r *Report, rule string, fn *ssa.Function, assume func(*BCtx), reviewed map[string]string) (total, proved int) {
	c := NewBCtx(fn)
	// integer parameters of unexported helpers: at least the smallest constant any call site passes
	// (`r.redirectAddr("MOVED", 2)`), a one-level summary of the call sites
	nLow := len(c.Lower)
	if !isExportedName(fn.Name()) && fn.Parent() == nil {
		paramLowerFromCallers(r.P, fn, c)
	}
	if len(c.Lower) != nLow || assume != nil {
		if assume != nil {
			assume(c)
		}
		c.induction() // lower bounds of loop variables may depend on the assumed bounds
	}
	for _, s := range c.IndexSites() {
		if os.Getenv("RV_BDEBUG") != "" && strings.Contains(FuncName(fn), os.Getenv("RV_BDEBUG")) {
			fmt.Println("BSITE", FuncName(fn), s.Kind, s.Desc, s.Proved, s.Need)
			for _, cj := range c.factDNF(s.Site.Block, 3) {
				var fs []string
				for _, f := range c.strengthen(cj) {
					fs = append(fs, f.String())
				}
				fmt.Println("   FACTS", strings.Join(fs, " ; "))
			}
		}
		total++
		key := s.Kind + ":" + s.Desc
		if s.Proved {
			proved++
			r.ObSite(rule, s.Site, key, true, "in bounds on every path")
			continue
		}
		if why, ok := reviewed[FuncName(fn)+"|"+key]; ok {
			o := r.ObSite(rule, s.Site, key, true, "assumed (reviewed): "+why)
			o.Status = "assumed-reviewed"
			proved++
			continue
		}
		r.ObSite(rule, s.Site, key, false, "not provably in bounds: "+s.Need+"a reply (or input) of unexpected shape can make this expression panic with index out of range")
	}
	return
}

func runC15(r *Report) {
	p := r.P
	entries, closure := accessorScope(p)
	r.Anchor("R15a", "exported accessors of RedisMessage/RedisResult/RedisError", len(entries) >= 100)
	r.Extra["accessor_entries"] = len(entries)
	r.Extra["functions_in_closure"] = len(closure)
	total, proved := 0, 0
	for _, fn := range closure {
		t, pr := boundsObligations(r, "R15a", fn, nil, nil)
		total += t
		proved += pr
	}
	r.Extra["index_sites"] = total
	r.Extra["index_sites_proved"] = proved
	r.Min("R15a", 150)

	scalarRejectsAggregates(r)
	// R15b other panic sources
	for _, fn := range closure {
		for _, b := range fn.Blocks {
			for i, in := range b.Instrs {
				s := Site{fn, b, i, in}
				switch x := in.(type) {
				case *ssa.Panic:
					r.ObSite("R15b", s, "panic", false, "an explicit panic is reachable from a reply accessor")
				case *ssa.TypeAssert:
					if !x.CommaOk {
						ok := false
						if c, isc := x.X.(*ssa.Call); isc && strings.Contains(CalleeName(c), "sync.(*Pool).Get") {
							ok = true
						}
						r.ObSite("R15b", s, "type-assert:"+shortType(x.AssertedType), ok, "a single-value type assertion panics on a mismatch; only pool values with a known type are accepted")
					}
				case *ssa.BinOp:
					if (x.Op == token.QUO || x.Op == token.REM) && isIntType(x.Type()) {
						if _, isc := ConstInt(x.Y); !isc {
							c := NewBCtx(fn)
							ok := c.ProveAtIdx(b, s.Idx, c.Lin(x.Y).Add(konst(1), -1))
							r.ObSite("R15b", s, "divisor", ok, "integer division by a value not proved >= 1")
						}
					}
				}
			}
		}
	}
	// R15c delegators
	nDel := 0
	for _, fn := range entries {
		n := FuncName(fn)
		if !strings.HasPrefix(n, "rueidis.(RedisResult).") {
			continue
		}
		m := n[len("rueidis.(RedisResult)."):]
		target := p.Fn("rueidis.(*RedisMessage)." + m)
		if target == nil {
			continue // RedisResult-only helpers (Error, NonRedisError, IsCacheHit, ...)
		}
		calls := CallSites(fn, "rueidis.(*RedisMessage)."+m)
		if len(calls) == 0 {
			continue
		}
		hasErr := false
		res := fn.Signature.Results()
		for i := 0; i < res.Len(); i++ {
			if shortType(res.At(i).Type()) == "error" {
				hasErr = true
			}
		}
		if !hasErr {
			continue // value-only helpers (IsCacheHit, CacheTTL, ...) have no error to propagate
		}
		nDel++
		okShape := true
		why := ""
		for _, cs := range calls {
			g := Guarded(cs.Block, func(g Guard) bool {
				x, op, y, ok := CmpGuard(g)
				return ok && op == token.EQL && IsNilConst(y) && strings.HasSuffix(Desc(x), ".err")
			})
			if !g {
				okShape = false
				why = "the RedisMessage accessor is consulted although the result carries an error"
			}
		}
		// the error arm returns r.err
		errReturned := false
		for _, b := range fn.Blocks {
			if ret, ok := b.Instrs[len(b.Instrs)-1].(*ssa.Return); ok {
				for _, res := range ret.Results {
					if shortType(res.Type()) == "error" && DependsOn(res, func(v ssa.Value) bool { return strings.HasSuffix(Desc(v), ".err") }) {
						errReturned = true
					}
				}
			}
		}
		if !errReturned {
			okShape = false
			why += " the stored error is never returned"
		}
		r.Ob("R15c", fn, "delegator:"+m, fn.Pos(), okShape, "RedisResult."+m+" must return r.err when set and otherwise delegate to RedisMessage."+m+";"+why)
	}
	r.Extra["delegators"] = nDel
	r.Anchor("R15c", "RedisResult delegators", nDel >= 20)
	// purity of the accessors the prover treats as congruent
	var names []string
	for n := range PureAccessors {
		names = append(names, n)
	}
	sort.Strings(names)
	for _, n := range names {
		fn := r.FnAnchor("R15c", n)
		if fn == nil {
			continue
		}
		pure := true
		for _, b := range fn.Blocks {
			for _, in := range b.Instrs {
				switch x := in.(type) {
				case *ssa.Store, *ssa.MapUpdate, *ssa.Send, *ssa.Go, *ssa.Defer:
					pure = false
				case *ssa.Call:
					cn := CalleeName(x)
					if !(strings.HasPrefix(cn, "unsafe.") || strings.HasPrefix(cn, "builtin.") || PureAccessors[cn]) {
						pure = false
					}
				}
			}
		}
		r.Ob("R15c", fn, "pure-accessor", fn.Pos(), pure, "the prover treats two calls of this accessor on the same receiver as the same slice; it must not write memory or call impure functions")
	}
	_ = fmt.Sprint
}

// scalarRejectsAggregates (R15d): a conversion that hands out the message's byte payload must not
// succeed on an aggregate. Aggregate replies are exactly those with a child array, whatever their
// type byte (array, set, map, push, attribute), so every success return of ToString must either
// follow a positive test for a string type or the representation test `m.array == nil`; a test
// that enumerates type bytes has to exclude all five aggregate bytes.
func scalarRejectsAggregates(r *Report) {
	fn := r.FnAnchor("R15d", "rueidis.(*RedisMessage).ToString")
	if fn == nil {
		return
	}
	predSet := func(c *ssa.Call) map[int64]bool {
		callee := c.Call.StaticCallee()
		if callee == nil || callee.Blocks == nil || len(callee.Params) != 1 {
			return nil
		}
		set := map[int64]bool{}
		for _, b := range callee.Blocks {
			for _, in := range b.Instrs {
				switch x := in.(type) {
				case *ssa.BinOp:
					if x.Op == token.EQL && strings.HasSuffix(Desc(x.X), ".typ") {
						if k, isc := ConstInt(x.Y); isc {
							set[k] = true
							continue
						}
					}
					if x.Op != token.EQL {
						return nil
					}
				case ssa.CallInstruction:
					return nil
				}
			}
		}
		return set
	}
	aggregates := []int64{'*', '~', '%', '>', '|'}
	n := 0
	for _, b := range fn.Blocks {
		ret, ok := b.Instrs[len(b.Instrs)-1].(*ssa.Return)
		if !ok {
			continue
		}
		rv := RetVals(ret)
		if len(rv) != 2 {
			continue
		}
		// success-capable: error is nil or the message's own Error()
		if !IsNilConst(rv[1]) {
			c, isc := rv[1].(*ssa.Call)
			if !isc || CalleeName(c) != "rueidis.(*RedisMessage).Error" {
				continue
			}
		}
		n++
		positive, noArray := false, false
		excluded := map[int64]bool{}
		for _, g := range DomGuards(b) {
			if c, isc := g.Cond.(*ssa.Call); isc {
				set := predSet(c)
				if set == nil {
					continue
				}
				if g.Pol {
					positive = true
					for _, a := range aggregates {
						if set[a] {
							positive = false
						}
					}
				} else {
					for k := range set {
						excluded[k] = true
					}
				}
				continue
			}
			if x, op, y, cok := CmpGuard(g); cok && IsNilConst(y) && strings.HasSuffix(Desc(x), ".array") && op == token.EQL {
				noArray = true
			}
		}
		all := true
		for _, a := range aggregates {
			if !excluded[a] {
				all = false
			}
		}
		r.ObSite("R15d", SiteOf(ret), "payload-conversion-rejects-aggregates", positive || noArray || all, "a string conversion succeeds only for a string type, or when the message has no child array (all five aggregate kinds excluded)")
	}
	r.Anchor("R15d", "ToString: success-capable returns (2)", n == 2)
}
