package rv

import (
	"fmt"
	"go/token"
	"strings"

	"golang.org/x/tools/go/ssa"
)

func init() {
	Registry["C46"] = RuleDef{Module: ".", Run: runC46,
		Technique:   "guard and def-use rules over the SSA of the Scanner closures, including the compiler-synthesised range-over-func bodies: cursor threading, continuation guards, no yield after a false yield, loop shape of the element walks",
		Explanation: "Decides: (R46a) the first page is requested with cursor 0 and every later page with the Cursor field of the entry returned by the previous request, each request's error being stored in the scanner; (R46b) another page is requested only when the stored error is nil, the consumer's yield of the current page returned true and the page's cursor is not 0, and the page handed to yield is the Elements field of the entry just received; (R46c) in every iterator body no yield call is reachable after a yield returned false, and a false yield makes the page callback return false (which by R46b stops the scan) while a completed page returns true; (R46e) the page loop is left only under a failed request, a false yield or cursor 0 (for instance an empty page with a non-zero cursor does not end the scan); (R46d) Iter yields page[i] for every i in order, Iter2 yields (page[i], page[i+1]) for i = 0, 2, 4, ... while i+1 < len(page).",
		NotDecided:  "the server's cursor semantics; Err() visibility across goroutines."}
}

func runC46(r *Report) {
	fn := r.FnAnchor("R46a", "rueidis.(*Scanner).scan$1")
	if fn != nil {
		isNext := func(in ssa.Instruction) bool {
			c, ok := in.(*ssa.Call)
			return ok && !c.Call.IsInvoke() && strings.HasSuffix(Desc(c.Call.Value), ".next")
		}
		errStoredOf := func(c *ssa.Call) bool {
			e1 := extractOf(c, 1)
			if e1 == nil {
				return false
			}
			for _, u := range Uses(e1) {
				if x, ok := u.(*ssa.Store); ok {
					if _, f, _, isf := FieldRef(x.Addr); isf && f == "err" {
						return true
					}
				}
			}
			return false
		}
		// a page request: s.next(cursor), or an unexported Scanner method that performs exactly that
		// request with the cursor it is given, records the error and hands the entry back
		isFetchHelper := func(h *ssa.Function) bool {
			if h == nil || h.Blocks == nil || isExportedName(h.Name()) || !strings.HasPrefix(FuncName(h), "rueidis.(*Scanner).") || len(h.Params) != 2 {
				return false
			}
			reqs := Sites(h, isNext)
			if len(reqs) != 1 {
				return false
			}
			c := reqs[0].Instr.(*ssa.Call)
			if c.Call.Args[0] != ssa.Value(h.Params[1]) || !errStoredOf(c) {
				return false
			}
			if mp, _ := MustPassFromEntry(h, func(in ssa.Instruction) bool { return in == ssa.Instruction(c) }); !mp {
				return false
			}
			e0 := extractOf(c, 0)
			for _, b := range h.Blocks {
				if ret, isr := b.Instrs[len(b.Instrs)-1].(*ssa.Return); isr && b.Comment != "recover" {
					rv := RetVals(ret)
					if len(rv) != 1 || rv[0] != e0 {
						return false
					}
				}
			}
			return e0 != nil
		}
		var calls []Site
		viaHelper := map[ssa.Instruction]bool{}
		for _, s := range Sites(fn, func(in ssa.Instruction) bool {
			if isNext(in) {
				return true
			}
			c, ok := in.(*ssa.Call)
			return ok && isFetchHelper(c.Call.StaticCallee())
		}) {
			calls = append(calls, s)
			viaHelper[s.Instr] = !isNext(s.Instr)
		}
		r.Anchor("R46a", "scan: page requests (2)", len(calls) == 2)
		var yieldCall *ssa.Call
		for _, s := range Sites(fn, func(in ssa.Instruction) bool {
			c, ok := in.(*ssa.Call)
			return ok && Desc(c.Call.Value) == "p0"
		}) {
			yieldCall = s.Instr.(*ssa.Call)
		}
		r.Anchor("R46b", "scan: yield call", yieldCall != nil)
		// the current entry: every request's entry is stored to one local slot, or (value form) all
		// requests' entries merge into one variable
		var slot ssa.Value
		var cur *ssa.Phi
		slotOK := true
		for _, s := range calls {
			if viaHelper[s.Instr] {
				// the entry is the helper's result; it must flow into the one merged variable
				var ph *ssa.Phi
				var st *ssa.Store
				for _, u := range Uses(s.Instr.(*ssa.Call)) {
					if x, ok := u.(*ssa.Phi); ok {
						ph = x
					}
					if x, ok := u.(*ssa.Store); ok && x.Val == ssa.Value(s.Instr.(*ssa.Call)) {
						st = x
					}
				}
				switch {
				case st != nil && (slot == nil || st.Addr == slot):
					slot = st.Addr // the entry variable keeps its storage (its fields are addressed)
				case ph != nil && (cur == nil || ph == cur):
					cur = ph
				default:
					slotOK = false
					continue
				}
				r.ObSite("R46a", s, "request-error-recorded", true, "the fetch helper stores the request's error in the scanner (checked in the helper)")
				continue
			}
			e0 := extractOf(s.Instr.(*ssa.Call), 0)
			var st *ssa.Store
			if e0 != nil {
				for _, u := range Uses(e0) {
					if x, ok := u.(*ssa.Store); ok {
						st = x
					}
				}
			}
			if st == nil || (slot != nil && st.Addr != slot) {
				slotOK = false
				continue
			}
			slot = st.Addr
			r.ObSite("R46a", s, "request-error-recorded", errStoredOf(s.Instr.(*ssa.Call)), "the error of a page request is stored in the scanner (exposed by Err and tested before continuing)")
		}
		if cur != nil {
			// every edge of the merged variable is a page request
			for _, e := range cur.Edges {
				c, isc := e.(*ssa.Call)
				if !isc || !viaHelper[c] {
					slotOK = false
				}
			}
		}
		r.Ob("R46a", fn, "one-current-entry", fn.Pos(), slotOK && (slot != nil) != (cur != nil), "every page request's entry replaces the one current entry")
		fieldOfSlot := func(v ssa.Value, field string) bool {
			if f, ok := v.(*ssa.Field); ok && cur != nil {
				_, fname, base, isf := FieldRef(f)
				return isf && fname == field && base == ssa.Value(cur)
			}
			u, ok := v.(*ssa.UnOp)
			if !ok || u.Op != token.MUL {
				return false
			}
			_, f, base, isf := FieldRef(u.X)
			return isf && f == field && base == slot && slot != nil
		}
		for _, s := range calls {
			args := s.Call().Common().Args
			arg := args[len(args)-1] // the cursor (after the receiver for the helper form)
			inLoop := false
			for _, h := range fn.Blocks {
				if IsLoopHeader(h) && h.Dominates(s.Block) {
					inLoop = true
				}
			}
			if !inLoop {
				k, isc := ConstInt(arg)
				r.ObSite("R46a", s, "first-request-cursor-0", isc && k == 0, "the scan starts at cursor 0")
				continue
			}
			r.ObSite("R46a", s, "next-request-uses-returned-cursor", fieldOfSlot(arg, "Cursor"), "a later page is requested with the cursor returned by the previous page")
			// R46b guards
			var gErr, gYield, gCur bool
			for _, g := range DomGuards(s.Block) {
				if x, op, y, ok := CmpGuard(g); ok {
					if op == token.EQL && IsNilConst(y) && strings.HasSuffix(Desc(x), ".err") {
						gErr = true
					}
					if k, isc := ConstInt(y); isc && k == 0 && op == token.NEQ && fieldOfSlot(x, "Cursor") {
						gCur = true
					}
				}
				if g.Pol && yieldCall != nil && g.Cond == ssa.Value(yieldCall) {
					gYield = true
				}
			}
			r.ObSite("R46b", s, "continue-only-if-ok-wanted-and-more", gErr && gYield && gCur, fmt.Sprintf("another page is requested only when the last request succeeded (%v), the consumer wants more (%v) and the cursor is not 0 (%v)", gErr, gYield, gCur))
		}
		// R46e: the scan ends only because a request failed, the consumer stopped or the cursor is 0
		{
			var loopNext *Site
			for i := range calls {
				for _, h := range fn.Blocks {
					if IsLoopHeader(h) && h.Dominates(calls[i].Block) {
						loopNext = &calls[i]
					}
				}
			}
			nExit := 0
			if loopNext != nil {
				reach := func(b *ssa.BasicBlock) bool {
					hit, _ := Reaches(Site{fn, b, -1, nil}, func(w Site) bool { return w.Instr == loopNext.Instr }, nil)
					return hit
				}
				for _, b := range fn.Blocks {
					iff, ok := b.Instrs[len(b.Instrs)-1].(*ssa.If)
					if !ok || len(b.Succs) != 2 {
						continue
					}
					r0, r1 := reach(b.Succs[0]), reach(b.Succs[1])
					if r0 == r1 {
						continue
					}
					nExit++
					exitTrue := r1 // exit edge is succ 0 when only succ 1 continues
					g := normGuard(Guard{iff.Cond, exitTrue, b})
					allowed := false
					if x, op, y, cok := CmpGuard(g); cok {
						if op == token.NEQ && IsNilConst(y) && strings.HasSuffix(Desc(x), ".err") {
							allowed = true
						}
						if k, isc := ConstInt(y); isc && k == 0 && op == token.EQL && fieldOfSlot(x, "Cursor") {
							allowed = true
						}
					}
					if yieldCall != nil && g.Cond == ssa.Value(yieldCall) && !g.Pol {
						allowed = true
					}
					r.ObSite("R46e", Site{fn, b, len(b.Instrs) - 1, iff}, "scan-ends-only-on-error-stop-or-cursor-0", allowed, "leaving the page loop is justified only by a failed request, a consumer that stopped or the final cursor 0: "+g.String())
				}
			}
			r.Anchor("R46e", "scan: loop exits (3)", nExit == 3)
		}
		if yieldCall != nil {
			r.ObSite("R46b", SiteOf(yieldCall), "page-is-current-entry", fieldOfSlot(yieldCall.Call.Args[0], "Elements"), "the page given to the consumer is the Elements of the entry just received")
			gErr := false
			for _, g := range DomGuards(yieldCall.Block()) {
				if x, op, y, ok := CmpGuard(g); ok && op == token.EQL && IsNilConst(y) && strings.HasSuffix(Desc(x), ".err") {
					gErr = true
				}
			}
			r.ObSite("R46b", SiteOf(yieldCall), "failed-page-not-yielded", gErr, "a page is yielded only when its request succeeded")
		}
	}
	// iterator bodies
	for _, spec := range []struct {
		name   string
		stride int64
	}{{"rueidis.(*Scanner).Iter$1$1", 1}, {"rueidis.(*Scanner).Iter2$1$1", 2}} {
		body := r.FnAnchor("R46c", spec.name)
		if body == nil {
			continue
		}
		var ys []Site
		for _, s := range Sites(body, func(in ssa.Instruction) bool {
			c, ok := in.(*ssa.Call)
			if !ok {
				return false
			}
			d := Desc(c.Call.Value)
			return strings.Contains(d, "yield")
		}) {
			ys = append(ys, s)
		}
		r.Anchor("R46c", spec.name+": yield call", len(ys) == 1)
		for _, s := range ys {
			iff, ok := s.Block.Instrs[len(s.Block.Instrs)-1].(*ssa.If)
			good := ok && iff.Cond == ssa.Value(s.Instr.(*ssa.Call))
			if good {
				fe := s.Block.Succs[1]
				again, _ := Reaches(Site{body, fe, -1, nil}, func(w Site) bool {
					c, isc := w.Instr.(*ssa.Call)
					return isc && strings.Contains(Desc(c.Call.Value), "yield")
				}, nil)
				retFalse := true
				WalkFrom(Site{body, fe, -1, nil}, func(w Site) bool {
					if ret, isr := w.Instr.(*ssa.Return); isr {
						if c, isc := ret.Results[0].(*ssa.Const); !isc || c.Value.String() != "false" {
							retFalse = false
						}
						return false
					}
					return true
				})
				good = !again && retFalse
			}
			r.ObSite("R46c", s, "stop-after-false-yield", good, "after the consumer's yield returns false no further yield happens and the page callback reports false")
			// R46d element walk
			args := s.Call().Common().Args
			okWalk := false
			why := ""
			switch spec.stride {
			case 1:
				lh := rangeLoopOver(body, "p0")
				sl, idx, isel := elemOf(args[0])
				okWalk = lh != nil && isel && Desc(sl) == "p0" && isRangeIndex(lh, idx) && loopBodyAlways(body, lh, func(in ssa.Instruction) bool { return in == s.Instr })
				why = "every element page[i] is yielded in index order"
			case 2:
				s0, i0, ok0 := elemOf(args[0])
				s1, i1, ok1 := elemOf(args[1])
				if ok0 && ok1 && Desc(s0) == "p0" && Desc(s1) == "p0" {
					ph, isphi := i0.(*ssa.Phi)
					b1, isb := i1.(*ssa.BinOp)
					if isphi && isb && b1.Op == token.ADD && b1.X == i0 {
						k1, _ := ConstInt(b1.Y)
						okWalk = k1 == 1 && len(ph.Edges) == 2
						for i, e := range ph.Edges {
							if ph.Block().Dominates(ph.Block().Preds[i]) {
								bo, isbo := e.(*ssa.BinOp)
								k, isk := ConstInt0W(bo)
								if !isbo || bo.X != i0 || !isk || k != 2 {
									okWalk = false
								}
							} else if z, isz := ConstInt(e); !isz || z != 0 {
								okWalk = false
							}
						}
						// loop test i+1 < len(page)
						if iff, isif := ph.Block().Instrs[len(ph.Block().Instrs)-1].(*ssa.If); isif {
							cmp, isc := iff.Cond.(*ssa.BinOp)
							if !isc || cmp.Op != token.LSS {
								okWalk = false
							} else {
								x, isx := cmp.X.(*ssa.BinOp)
								lc, isl := cmp.Y.(*ssa.Call)
								if !isx || x.X != i0 || !isl || CalleeName(lc) != "builtin.len" || Desc(lc.Call.Args[0]) != "p0" {
									okWalk = false
								}
							}
						} else {
							okWalk = false
						}
					}
				}
				why = "pairs (page[i], page[i+1]) are yielded for i = 0, 2, 4, ... while i+1 < len(page)"
			}
			r.ObSite("R46d", s, "element-walk", okWalk, why)
		}
		// a completed page reports true
		doneTrue := false
		for _, b := range body.Blocks {
			if ret, isr := b.Instrs[len(b.Instrs)-1].(*ssa.Return); isr {
				if c, isc := ret.Results[0].(*ssa.Const); isc && c.Value.String() == "true" {
					doneTrue = true
				}
			}
		}
		r.Ob("R46c", body, "completed-page-continues", body.Pos(), doneTrue, "after a page was fully yielded the callback reports true so that the scan goes on")
		// the body is driven by s.scan()
		parent := body.Parent()
		driven := false
		for _, s := range Sites(parent, func(in ssa.Instruction) bool { _, ok := in.(*ssa.Call); return ok }) {
			c := s.Instr.(*ssa.Call)
			if inner, ok := c.Call.Value.(*ssa.Call); ok && CalleeName(inner) == "rueidis.(*Scanner).scan" {
				if mc, ismc := c.Call.Args[0].(*ssa.MakeClosure); ismc && mc.Fn == ssa.Value(body) {
					driven = true
				}
			}
		}
		r.Ob("R46c", parent, "driven-by-scan", parent.Pos(), driven, "the iterator body is run by the page scanner")
	}
}
