package rv

import (
	"fmt"
	"go/token"
	"go/types"
	"strings"

	"golang.org/x/tools/go/ssa"
)

func init() {
	Registry["C11"] = RuleDef{Module: ".", Run: runC11,
		Technique:   "same-index correspondence rule over SSA values: paired appends to (commands, indexes) tables, placement of results through the paired index table, argument-pair agreement at the call sites that carry the tables",
		Explanation: "Decides the index-map skeleton of batched cache reads: (R11f) lru.Flights reports the missed positions in ascending batch order (the order in which DoMultiCache sends and refills); (R11e) a position is a hole only if it holds neither a value nor an error, and in pipe.DoMultiCache the request groups built per missed command and the stride/offset of every reply walk agree for each mode, and holes are refilled only after every cached or awaited reply was placed (R11d: the same for the partial MGET); (R11a) wherever a cacheable command is filed into a per-connection or per-node batch (mux.DoMultiCache, cluster _pickMultiCache, resultcachefn re-queues), the same block files its original position into the sibling index table of the same batch object - the loop's own index when grouping the caller's batch, the carried original index cIndexes[i] of the very element commands[i] when re-queuing; (R11b) a reply is stored into the caller's result slice only at the index read from the index table at the reply's own position, the (indexes, commands, replies) triple handed to resultcachefn consists of sibling fields of one batch and the replies of executing exactly that command table; (R11c) helper doMultiCache pairs keys[i], the i-th command and the i-th reply by the same loop index.",
		NotDecided:  "the hole-refill walks in pipe.DoMultiCache / doCacheMGet (which positions are holes is data dependent) - the single-connection heart of the property; duplicates; the cache's answers."}
	Registry["C20"] = RuleDef{Module: ".", Run: runC20,
		Technique:   "same-index correspondence rule (as C11) on the cluster DoMulti tables, loop-bound identification for the transaction re-queue, tuple-agreement rule for pickMulti, slice-origin rule for lifetime recovery",
		Explanation: "Decides structural necessary conditions: (R20i) index-map rules of C11 applied to _pickMulti, doresultfn, doretry and the ASKING interleaver: each command is filed with its own original index, each reply lands at the index filed for its position, the triple given to doresultfn is made of sibling fields of one batch and the replies of exactly that command table; askingMulti returns the replies of the non-ASKING positions in order; (R20a) when a redirected command lies in a MULTI..EXEC block, every member from the MULTI position to the EXEC position (the two positions tested by isMulti/isExec in the dominating guard) is re-queued, in order, to one and the same batch object with its carried original index; (R20b) lifetime recovery re-sends from the MULTI position when the expired reply lies inside a block, otherwise from the expired position; (R20d) ASK recovery after a connection expiry re-sends from the start of the interrupted ASKING group, and the replies of every executed pipeline are always handed to the result function (placed and re-queued) - no path from the execution skips it; (R20c) the transaction flag and the grouping returned by pickMulti stem from the same _pickMulti call, and a batch containing slot-less members panics on mixed slots.",
		NotDecided:  "order within one node under repeated redirects, interaction of partial redirects with retries, the server's behaviour."}
}

// --- shared machinery ---------------------------------------------------------------------

// elemOf decomposes a value that is (a load of) an element of a slice: returns slice and index.
func elemOf(v ssa.Value) (sl, idx ssa.Value, ok bool) {
	for i := 0; i < 6; i++ {
		switch x := v.(type) {
		case *ssa.UnOp:
			if x.Op == token.MUL {
				if al, isal := x.X.(*ssa.Alloc); isal {
					// a spilled local (address taken): look through its only store
					var stored ssa.Value
					ns := 0
					for _, u := range Uses(al) {
						if st, isst := u.(*ssa.Store); isst && st.Addr == ssa.Value(al) {
							stored = st.Val
							ns++
						}
					}
					if ns != 1 {
						return nil, nil, false
					}
					v = stored
					continue
				}
				v = x.X
				continue
			}
		case *ssa.ChangeType:
			v = x.X
			continue
		case *ssa.Convert:
			v = x.X
			continue
		case *ssa.IndexAddr:
			return x.X, x.Index, true
		case *ssa.Field:
			// cmd.Cmd of a CacheableTTL element
			v = x.X
			continue
		case *ssa.FieldAddr:
			v = x.X
			continue
		}
		break
	}
	return nil, nil, false
}

type tableAppend struct {
	site  Site
	field string    // commands | cIndexes | cAskings | aIndexes
	base  ssa.Value // the batch object
	elems []ssa.Value
}

// tableAppends lists the appends whose result is stored into a commands/index table field.
func tableAppends(fn *ssa.Function) []tableAppend {
	out := tableAppendsDirect(fn)
	// one level of inlining: an unexported helper of the package that files into the tables of a
	// batch object it is handed (`queueRedirected(nr, mode, ii, cm)`) files at its call site, with
	// its parameters replaced by the arguments. The helper must file on every path (whichever arm).
	for _, cs := range Sites(fn, func(in ssa.Instruction) bool { _, ok := in.(*ssa.Call); return ok }) {
		call := cs.Instr.(*ssa.Call)
		h := call.Call.StaticCallee()
		if h == nil || h.Blocks == nil || h.Pkg != fn.Pkg || isExportedName(h.Name()) || h == fn {
			continue
		}
		inner := tableAppendsDirect(h)
		if len(inner) == 0 {
			continue
		}
		arg := func(v ssa.Value) ssa.Value {
			for k, prm := range h.Params {
				if v == ssa.Value(prm) && k < len(call.Call.Args) {
					return call.Call.Args[k]
				}
			}
			return v
		}
		always, _ := MustPassFromEntry(h, func(in ssa.Instruction) bool {
			for _, a := range inner {
				if _, isCmd := tableSibling[a.field]; isCmd && a.site.Instr == in {
					return true
				}
			}
			return false
		})
		if !always {
			continue
		}
		for _, a := range inner {
			if _, isp := a.base.(*ssa.Parameter); !isp {
				continue
			}
			var elems []ssa.Value
			for _, e := range a.elems {
				elems = append(elems, arg(e))
			}
			out = append(out, tableAppend{cs, a.field, arg(a.base), elems})
		}
	}
	return out
}

func tableAppendsDirect(fn *ssa.Function) []tableAppend {
	var out []tableAppend
	for _, s := range CallSites(fn, "builtin.append") {
		c := s.Instr.(*ssa.Call)
		for _, u := range Uses(c) {
			st, ok := u.(*ssa.Store)
			if !ok || st.Val != ssa.Value(c) {
				continue
			}
			_, f, base, isf := FieldRef(st.Addr)
			if !isf {
				continue
			}
			switch f {
			case "commands", "cIndexes", "cAskings", "aIndexes":
				out = append(out, tableAppend{s, f, base, variadicElemsOrdered(c.Call.Args[1])})
			}
		}
	}
	return out
}

var tableSibling = map[string]string{"commands": "cIndexes", "cAskings": "aIndexes"}

// hasIntSliceParam: the function receives an index table (carrier mode).
func intSliceParams(fn *ssa.Function) []*ssa.Parameter {
	var out []*ssa.Parameter
	for _, p := range fn.Params {
		if sl, ok := p.Type().Underlying().(*types.Slice); ok {
			if b, isb := sl.Elem().Underlying().(*types.Basic); isb && b.Kind() == types.Int {
				out = append(out, p)
			}
		}
	}
	return out
}

// indexMapAppendRule checks R11a in fn; returns the number of command appends seen.
func indexMapAppendRule(r *Report, rule string, fn *ssa.Function) int {
	apps := tableAppends(fn)
	carrier := len(intSliceParams(fn)) > 0
	n := 0
	for _, a := range apps {
		sib, isCmd := tableSibling[a.field]
		if !isCmd {
			continue
		}
		n++
		var idxApp *tableAppend
		for i := range apps {
			b := &apps[i]
			if b.field == sib && b.site.Block == a.site.Block && Same(b.base, a.base) {
				idxApp = b
			}
		}
		if idxApp == nil {
			r.ObSite(rule, a.site, "filed-with-index:"+a.field, false, "a command is filed into "+a.field+" without filing its position into "+sib+" of the same batch in the same step")
			continue
		}
		ok := len(a.elems) == 1 && len(idxApp.elems) == 1
		why := "one command and one index per step"
		if ok {
			E, I := a.elems[0], idxApp.elems[0]
			sl, k, isel := elemOf(E)
			switch {
			case !isel:
				ok, why = false, "the filed command is not an element of a batch slice: "+Desc(E)
			case carrier:
				isl, ik, iok := elemOf(I)
				if !iok || ik != k {
					ok, why = false, fmt.Sprintf("re-queue must carry the original index table entry at the command's own position: command %s, index %s", Desc(E), Desc(I))
				} else if _, isp := isl.(*ssa.Parameter); !isp {
					ok, why = false, "the carried index does not come from the index table parameter"
				} else if _, isp := sl.(*ssa.Parameter); !isp {
					ok, why = false, "the re-queued command does not come from the command table parameter"
				} else {
					why = "command " + Desc(E) + " carried with " + Desc(I)
				}
			default:
				if I != k {
					ok, why = false, fmt.Sprintf("grouping must file the element's own position: command %s, index %s", Desc(E), Desc(I))
				} else if _, isp := sl.(*ssa.Parameter); !isp {
					ok, why = false, "the grouped command is not an element of the caller's batch"
				} else {
					why = "command " + Desc(E) + " filed with its loop index"
				}
			}
		}
		r.ObSite(rule, a.site, "filed-with-index:"+a.field, ok, why)
	}
	return n
}

// placementRule checks R11b in fn: stores into results.s[idx].
func placementRule(r *Report, rule string, fn *ssa.Function) int {
	n := 0
	for _, s := range Sites(fn, func(in ssa.Instruction) bool { _, ok := in.(*ssa.Store); return ok }) {
		st := s.Instr.(*ssa.Store)
		ia, ok := st.Addr.(*ssa.IndexAddr)
		if !ok || shortType(st.Val.Type()) != "rueidis.RedisResult" {
			continue
		}
		d := DescDeep(ia.X)
		if !strings.HasSuffix(d, ".s") || !strings.Contains(shortType(ia.X.Type()), "RedisResult") {
			continue
		}
		// only the caller-visible result slice: a redisresults that is a parameter/free variable (not the
		// function's own response buffer)
		n++
		isl, ik, iok := elemOf(ia.Index)
		vsl, vk, vok := elemOf(st.Val)
		ok2 := iok && vok && ik == vk
		why := fmt.Sprintf("result %s stored at %s", Desc(st.Val), Desc(ia.Index))
		if ok2 {
			if !strings.Contains(shortType(isl.Type()), "[]int") {
				ok2, why = false, "the position is not read from an index table"
			}
			_ = vsl
		} else {
			why = "a reply must be stored at indexes[i] for the reply's own position i; " + why
		}
		r.ObSite(rule, s, "reply-placed-through-index-table", ok2, why)
	}
	return n
}

// tripleRule checks the call sites of a result function: (indexes, commands, replies) are sibling
// fields of one batch and replies come from executing that command table.
func tripleRule(r *Report, rule string, caller *ssa.Function, callee string, exec map[string][]string) int {
	n := 0
	for _, s := range CallSites(caller, callee) {
		n++
		args := CallArgs(s.Call())
		var idx, cmdT, resps ssa.Value
		for _, a := range args {
			t := shortType(a.Type())
			switch {
			case t == "[]int":
				idx = a
			case t == "[]rueidis.Completed" || t == "[]rueidis.CacheableTTL":
				cmdT = a
			case t == "[]rueidis.RedisResult":
				resps = a
			}
		}
		ok := idx != nil && cmdT != nil && resps != nil
		why := ""
		if ok {
			_, fi, bi, oki := FieldRef(stripLoad(idx))
			_, fc, bc, okc := FieldRef(stripLoad(cmdT))
			switch {
			case !oki || !okc || !Same(bi, bc):
				ok, why = false, "index table and command table are not fields of the same batch"
			case tableSibling[fc] != fi:
				ok, why = false, fmt.Sprintf("tables are not siblings: %s with %s", fc, fi)
			default:
				// replies: X.s where X = exec(..., table...)
				okExec := DependsOn(resps, func(v ssa.Value) bool {
					c, isc := v.(*ssa.Call)
					if !isc {
						return false
					}
					for _, name := range exec[fc] {
						if CalleeName(c) == name {
							for _, ca := range CallArgs(c) {
								if _, f2, b2, ok2 := FieldRef(stripLoad(ca)); ok2 && f2 == fc && Same(b2, bc) {
									return true
								}
							}
						}
					}
					return false
				})
				if !okExec {
					ok, why = false, "the replies are not the result of executing this very command table ("+fc+")"
				} else {
					why = fi + "/" + fc + " of one batch with the replies of executing " + fc
				}
				// once the table was executed its replies are always processed (placed and re-queued):
				// every path from the execution reaches this call
				for _, es := range Sites(caller, func(in ssa.Instruction) bool {
					c, isc := in.(*ssa.Call)
					if !isc {
						return false
					}
					for _, name := range exec[fc] {
						if CalleeName(c) == name {
							for _, ca := range CallArgs(c) {
								if _, f2, b2, ok2 := FieldRef(stripLoad(ca)); ok2 && f2 == fc && Same(b2, bc) {
									return true
								}
							}
						}
					}
					return false
				}) {
					if !Dominates(es, s) {
						continue // the recovery re-send inside the lifetime loop
					}
					if mp, _ := MustPass(es, func(in ssa.Instruction) bool { return in == s.Instr }); !mp {
						ok, why = false, "the replies of an executed pipeline can be dropped: a path from the execution skips the result function"
					}
				}
			}
		}
		r.ObSite(rule, s, "tables-and-replies-belong-together", ok, why)
	}
	return n
}

func stripLoad(v ssa.Value) ssa.Value {
	if u, ok := v.(*ssa.UnOp); ok && u.Op == token.MUL {
		return u.X
	}
	return v
}

// strideAgreementRule (R11e): in pipe.DoMultiCache the request batch for the missed commands is
// built in groups (OPT-IN, cmd) or (OPT-IN, MULTI, PTTL, cmd, EXEC) depending on one flag, and the
// replies are walked with a stride and offset; writer and reader must agree per flag value, and
// holes are refilled only after every served position was placed.
func strideAgreementRule(r *Report) {
	fn := r.FnAnchor("R11e", "rueidis.(*pipe).DoMultiCache")
	if fn == nil {
		return
	}
	flagPol := func(b *ssa.BasicBlock) (ssa.Value, bool, bool) {
		for _, g := range DomGuards(b) {
			if ph, ok := g.Cond.(*ssa.Phi); ok && shortType(ph.Type()) == "bool" {
				return ph, g.Pol, true
			}
		}
		return nil, false, false
	}
	group := map[bool]int{}
	var flag ssa.Value
	okW := true
	nW := 0
	// the group appends: in DoMultiCache, or in an unexported pipe method it hands the mode flag to
	type appendSite struct {
		s    Site
		f    ssa.Value
		pol  bool
		ok   bool
		mult int // how many call sites of the helper this append stands for
	}
	var apps []appendSite
	for _, s := range CallSites(fn, "builtin.append") {
		f, pol, ok := flagPol(s.Block)
		apps = append(apps, appendSite{s, f, pol, ok, 1})
	}
	for _, cs := range Sites(fn, func(in ssa.Instruction) bool { _, ok := in.(*ssa.Call); return ok }) {
		call := cs.Instr.(*ssa.Call)
		h := call.Call.StaticCallee()
		if h == nil || h.Blocks == nil || isExportedName(h.Name()) || !strings.HasPrefix(FuncName(h), "rueidis.(*pipe).") || h == fn {
			continue
		}
		for k, prm := range h.Params {
			if shortType(prm.Type()) != "bool" || k >= len(call.Call.Args) {
				continue
			}
			ph, isphi := call.Call.Args[k].(*ssa.Phi)
			if !isphi {
				continue
			}
			for _, s := range CallSites(h, "builtin.append") {
				for _, g := range DomGuards(s.Block) {
					if g.Cond == ssa.Value(prm) {
						apps = append(apps, appendSite{s, ph, g.Pol, true, 1})
					}
				}
			}
		}
	}
	for _, a := range apps {
		s := a.s
		c := s.Instr.(*ssa.Call)
		if !strings.HasSuffix(shortType(c.Type()), ".Completed") || !strings.HasPrefix(shortType(c.Type()), "[]") {
			continue
		}
		es := variadicElemsOrdered(c.Call.Args[1])
		f, pol, ok := a.f, a.pol, a.ok
		if !ok || len(es) == 0 {
			continue
		}
		nW++
		if flag == nil {
			flag = f
		}
		if f != flag {
			okW = false
		}
		if k, seen := group[pol]; seen && k != len(es) {
			okW = false
		}
		group[pol] = len(es)
	}
	r.Ob("R11e", fn, "request-groups-per-mode", fn.Pos(), okW && nW >= 2 && len(group) == 2, fmt.Sprintf("every missed command contributes a group of fixed size chosen by one flag: %v", group))
	// reply walks
	nR := 0
	for _, b := range fn.Blocks {
		if !IsLoopHeader(b) {
			continue
		}
		iff, ok := b.Instrs[len(b.Instrs)-1].(*ssa.If)
		if !ok {
			continue
		}
		cmp, ok := iff.Cond.(*ssa.BinOp)
		if !ok || cmp.Op != token.LSS {
			continue
		}
		ph, isphi := cmp.X.(*ssa.Phi)
		lc, isl := cmp.Y.(*ssa.Call)
		if !isphi || !isl || CalleeName(lc) != "builtin.len" || !strings.Contains(shortType(lc.Call.Args[0].Type()), "RedisResult") || ph.Block() != b {
			continue
		}
		var off, stride int64 = -1, -1
		for i, e := range ph.Edges {
			if b.Dominates(b.Preds[i]) {
				if bo, isb := e.(*ssa.BinOp); isb && bo.Op == token.ADD && bo.X == ssa.Value(ph) {
					stride, _ = ConstInt(bo.Y)
				}
			} else if k, isc := ConstInt(e); isc {
				off = k
			}
		}
		if off < 0 || stride < 2 {
			continue
		}
		f, pol, okf := flagPol(b)
		if !okf || f != flag {
			continue
		}
		nR++
		want := group[pol]
		r.ObSite("R11e", Site{fn, b, len(b.Instrs) - 1, iff}, "reply-walk-matches-request-groups", int(stride) == want && int(off) == want-1,
			fmt.Sprintf("replies are walked with stride %d from offset %d; the request groups of this mode have %d commands with the command's own reply at offset %d", stride, off, want, want-1))
	}
	r.Anchor("R11e", "DoMultiCache: reply walks (4)", nR == 4)
	// hole refill after served positions
	type slotStore struct {
		s    Site
		hole bool
	}
	var stores []slotStore
	for _, s := range Sites(fn, func(in ssa.Instruction) bool { _, ok := in.(*ssa.Store); return ok }) {
		st := s.Instr.(*ssa.Store)
		ia, ok := st.Addr.(*ssa.IndexAddr)
		if !ok || shortType(st.Val.Type()) != "rueidis.RedisResult" || !strings.HasSuffix(DescDeep(ia.X), ".s") {
			continue
		}
		hole, noErr := false, false
		for _, g := range DomGuards(s.Block) {
			x, op, y, cok := CmpGuard(g)
			k, isk := ConstInt(y)
			if cok && op == token.EQL && isk && k == 0 && strings.HasSuffix(Desc(x), ".typ") {
				if _, ki, isel := elemOfDeep(x); isel && ki == ia.Index {
					hole = true
				}
			}
			if cok && op == token.EQL && IsNilConst(y) && strings.HasSuffix(Desc(x), ".err") {
				if _, ki, isel := elemOfDeep(x); isel && ki == ia.Index {
					noErr = true
				}
			}
		}
		if hole {
			r.ObSite("R11e", s, "hole-means-no-value-and-no-error", noErr, "a position counts as a hole only if it holds neither a value nor an error (a failed flight of another caller already answered that position)")
		}
		stores = append(stores, slotStore{s, hole})
	}
	// served positions filled from a closure (deferred or concurrent) are unordered with respect to the refill
	for _, af := range fn.AnonFuncs {
		for _, f := range WithAnons(af) {
			for _, s := range Sites(f, func(in ssa.Instruction) bool { _, ok := in.(*ssa.Store); return ok }) {
				st := s.Instr.(*ssa.Store)
				if ia, ok := st.Addr.(*ssa.IndexAddr); ok && shortType(st.Val.Type()) == "rueidis.RedisResult" && strings.HasSuffix(DescDeep(ia.X), ".s") {
					r.ObSite("R11e", s, "served-position-filled-from-closure", false, "a result position is filled from a closure whose execution is not ordered before the hole refill")
				}
			}
		}
	}
	nH := 0
	for _, h := range stores {
		if !h.hole {
			continue
		}
		nH++
		late := ""
		for _, o := range stores {
			if o.hole {
				continue
			}
			if hit, _ := Reaches(h.s, func(w Site) bool { return w.Instr == o.s.Instr }, nil); hit {
				late = r.P.Pos(InstrPos(o.s.Instr))
			}
		}
		// the lru fast path fills served positions inside Flights: it must not run after a refill either
		if hit, _ := Reaches(h.s, func(w Site) bool {
			c, isc := w.Instr.(ssa.CallInstruction)
			return isc && CalleeName(c) == "rueidis.(*lru).Flights"
		}, nil); hit {
			late = "the Flights call"
		}
		r.ObSite("R11e", h.s, "holes-filled-after-all-served-positions", late == "", "a position is treated as a hole only after every cached or awaited reply was placed; a served position is still filled later at "+late)
	}
	r.Anchor("R11e", "DoMultiCache: hole refills (>= 2)", nH >= 2)
}

// missListOrderRule (R11f): lru.Flights reports the missed positions in ascending order, because
// pipe.DoMultiCache sends the requests in that order and hands the replies to the empty positions
// in ascending order: every element of the miss list is the index of the pass over the batch,
// appended inside that pass; nothing is appended to it afterwards.
func missListOrderRule(r *Report) {
	fn := r.FnAnchor("R11f", "rueidis.(*lru).Flights")
	if fn == nil {
		return
	}
	n := 0
	for _, s := range CallSites(fn, "builtin.append") {
		c := s.Instr.(*ssa.Call)
		if shortType(c.Type()) != "[]int" {
			continue
		}
		n++
		es := variadicElemsOrdered(c.Call.Args[1])
		ok := len(es) == 1 && isRangeIndexAny(es[0])
		r.ObSite("R11f", s, "miss-list-in-batch-order", ok, "the miss list grows only by the index of the current batch position, so it is ascending")
	}
	r.Anchor("R11f", "Flights: miss list appends (>= 1)", n >= 1)
}

func runC11(r *Report) {
	missListOrderRule(r)
	strideAgreementRule(r)
	nA, nP := 0, 0
	for _, name := range []string{"rueidis.(*mux).DoMultiCache", "rueidis.(*clusterClient)._pickMultiCache", "rueidis.(*clusterClient).resultcachefn"} {
		if fn := r.FnAnchor("R11a", name); fn != nil {
			for _, f := range WithHelpers(r.P, fn) { // closures and helpers only this function calls
				nA += indexMapAppendRule(r, "R11a", f)
				nP += placementRule(r, "R11b", f)
			}
		}
	}
	r.Anchor("R11a", "command filings (>= 5)", nA >= 5)
	r.Anchor("R11b", "result placements (>= 2)", nP >= 2)
	if fn := r.FnAnchor("R11b", "rueidis.(*clusterClient).doretrycache"); fn != nil {
		n := tripleRule(r, "R11b", fn, "rueidis.(*clusterClient).resultcachefn", map[string][]string{
			"commands": {"iface:rueidis.conn.DoMultiCache"}, "cAskings": {"rueidis.(*clusterClient).askingMultiCache"}})
		r.Anchor("R11b", "resultcachefn call sites (2)", n == 2)
	}
	// mux closure: the replies placed are those of executing the batch's own command table
	if fn := r.FnAnchor("R11b", "rueidis.(*mux).DoMultiCache"); fn != nil {
		for _, f := range WithHelpers(r.P, fn)[1:] {
			for _, s := range Sites(f, func(in ssa.Instruction) bool { _, ok := in.(*ssa.Store); return ok }) {
				st := s.Instr.(*ssa.Store)
				ia, ok := st.Addr.(*ssa.IndexAddr)
				if !ok || shortType(st.Val.Type()) != "rueidis.RedisResult" {
					continue
				}
				isl, _, iok := elemOf(ia.Index)
				vsl, _, vok := elemOf(st.Val)
				good := false
				if iok && vok {
					_, fi, bi, ok1 := FieldRef(stripLoad(isl))
					good = ok1 && fi == "cIndexes" && DependsOn(vsl, func(v ssa.Value) bool {
						c, isc := v.(*ssa.Call)
						if !isc || CalleeName(c) != "rueidis.(*mux).doMultiCache" {
							return false
						}
						for _, ca := range CallArgs(c) {
							if _, f2, b2, ok2 := FieldRef(stripLoad(ca)); ok2 && f2 == "commands" && Same(b2, bi) {
								return true
							}
						}
						return false
					})
				}
				r.ObSite("R11b", s, "batch-replies-with-batch-indexes", good, "the replies placed through a batch's index table are the replies of executing that batch's own command table")
			}
		}
	}
	// R11c helper
	if fn := r.FnAnchor("R11c", "rueidis.doMultiCache"); fn != nil {
		sameIndexHelperRule(r, "R11c", fn)
	}
	perKeyCommandRule(r, "R11c", "rueidis.MGetCache")
	perKeyCommandRule(r, "R11c", "rueidis.JsonMGetCache")
	mgetHoleRefillRule(r, "R11d")
}

// sameIndexHelperRule: in a helper that builds one command per key and maps replies back, the
// map key stored for reply resps[i] is keys[i] (or an argument of cmds[i]) for the same i.
func sameIndexHelperRule(r *Report, rule string, fn *ssa.Function) {
	n := 0
	for _, f := range WithAnons(fn) {
		for _, s := range Sites(f, func(in ssa.Instruction) bool { _, ok := in.(*ssa.MapUpdate); return ok }) {
			mu := s.Instr.(*ssa.MapUpdate)
			if !strings.Contains(shortType(mu.Map.Type()), "map[string]rueidis.RedisMessage") && !strings.Contains(shortType(mu.Map.Type()), "map[string]error") {
				continue
			}
			n++
			_, kk, kok := elemOfDeep(mu.Key)
			_, vk, vok := elemOfDeep(mu.Value)
			ok := kok && vok && kk == vk
			r.ObSite(rule, s, "key-and-reply-share-index", ok, fmt.Sprintf("the entry stored for a reply uses the key at the reply's own position: key %s, value %s", DescDeep(mu.Key), DescDeep(mu.Value)))
		}
	}
	r.Anchor(rule, FuncName(fn)+": result map stores", n >= 1)
}

// elemOfDeep finds the outermost element access v depends on (through calls/extracts/fields).
func elemOfDeep(v ssa.Value) (sl, idx ssa.Value, ok bool) {
	seen := map[ssa.Value]bool{}
	var rec func(v ssa.Value, d int) bool
	rec = func(v ssa.Value, d int) bool {
		if v == nil || seen[v] || d > 12 {
			return false
		}
		seen[v] = true
		if s, i, isel := elemOf(v); isel {
			if _, isConst := i.(*ssa.Const); !isConst {
				sl, idx, ok = s, i, true
				return true
			}
			return rec(s, d+1)
		}
		switch x := v.(type) {
		case *ssa.Extract:
			return rec(x.Tuple, d+1)
		case *ssa.Call:
			for _, a := range CallArgs(x) {
				if rec(a, d+1) {
					return true
				}
			}
		case *ssa.UnOp:
			if al, isal := x.X.(*ssa.Alloc); isal {
				for _, u := range Uses(al) {
					if st, isst := u.(*ssa.Store); isst && st.Addr == ssa.Value(al) {
						if rec(st.Val, d+1) {
							return true
						}
					}
				}
			}
			return rec(x.X, d+1)
		case *ssa.Alloc:
			for _, u := range Uses(x) {
				if st, isst := u.(*ssa.Store); isst && st.Addr == ssa.Value(x) {
					if rec(st.Val, d+1) {
						return true
					}
				}
				// an out-parameter: the slot is filled by a call from that call's other operands
				if ci, isci := u.(ssa.CallInstruction); isci {
					for _, a := range CallArgs(ci) {
						if mi, ismi := a.(*ssa.MakeInterface); ismi {
							a = mi.X
						}
						if a != ssa.Value(x) && rec(a, d+1) {
							return true
						}
					}
				}
				// element / field slots of a local aggregate (varargs arrays, composite literals)
				if a, isv := u.(ssa.Value); isv {
					switch u.(type) {
					case *ssa.IndexAddr, *ssa.FieldAddr:
						for _, uu := range Uses(a) {
							if st, isst := uu.(*ssa.Store); isst && st.Addr == a {
								if rec(st.Val, d+1) {
									return true
								}
							}
						}
					}
				}
			}
			return false
		case *ssa.Field:
			return rec(x.X, d+1)
		case *ssa.FieldAddr:
			return rec(x.X, d+1)
		case *ssa.Slice:
			return rec(x.X, d+1)
		case *ssa.MakeInterface:
			return rec(x.X, d+1)
		case *ssa.ChangeType:
			return rec(x.X, d+1)
		case *ssa.Convert:
			return rec(x.X, d+1)
		case *ssa.IndexAddr:
			return rec(x.X, d+1)
		}
		return false
	}
	rec(v, 0)
	return
}

func runC20(r *Report) {
	P := "rueidis.(*clusterClient)."
	nA, nP := 0, 0
	for _, name := range []string{P + "_pickMulti", P + "doresultfn"} {
		if fn := r.FnAnchor("R20i", name); fn != nil {
			nA += indexMapAppendRule(r, "R20i", fn)
			nP += placementRule(r, "R20i", fn)
		}
	}
	r.Anchor("R20i", "command filings (>= 6)", nA >= 6)
	r.Anchor("R20i", "result placements (>= 1)", nP >= 1)
	if fn := r.FnAnchor("R20i", P+"doretry"); fn != nil {
		n := tripleRule(r, "R20i", fn, P+"doresultfn", map[string][]string{
			"commands": {"iface:rueidis.conn.DoMulti"}, "cAskings": {P + "askingMulti"}})
		r.Anchor("R20i", "doresultfn call sites (2)", n == 2)
	}
	// askingMulti: replies of the non-ASKING positions, in order
	if fn := r.FnAnchor("R20i", P+"askingMulti"); fn != nil {
		n := 0
		for _, s := range CallSites(fn, "builtin.append") {
			c := s.Instr.(*ssa.Call)
			if shortType(c.Type()) != "[]rueidis.RedisResult" {
				continue
			}
			es := variadicElemsOrdered(c.Call.Args[1])
			if len(es) != 1 {
				continue // the recovery splice
			}
			_, k, ok := elemOf(es[0])
			if !ok {
				continue
			}
			n++
			// guarded by commands[k] != AskingCmd for the same k
			g := false
			for _, gd := range DomGuards(s.Block) {
				x, op, y, cok := CmpGuard(gd)
				if !cok || op != token.NEQ {
					continue
				}
				for _, side := range [][2]ssa.Value{{x, y}, {y, x}} {
					if _, kk, isel := elemOf(side[0]); isel && kk == k && strings.Contains(DescDeep(side[1]), "AskingCmd") {
						g = true
					}
				}
			}
			r.ObSite("R20i", s, "asking-replies-dropped-by-position", g, "a reply is kept iff the command at the same position is not the interleaved ASKING")
		}
		r.Anchor("R20i", "askingMulti: reply filter", n == 1)
		// interleaving: ASKING precedes each command outside a transaction
		pre := false
		for _, s := range CallSites(fn, "builtin.append") {
			c := s.Instr.(*ssa.Call)
			if shortType(c.Type()) != "[]rueidis.Completed" {
				continue
			}
			es := variadicElemsOrdered(c.Call.Args[1])
			if len(es) == 2 && strings.Contains(DescDeep(es[0]), "AskingCmd") {
				if _, _, isel := elemOf(es[1]); isel {
					pre = true
				}
			}
		}
		r.Ob("R20i", fn, "asking-precedes-command", fn.Pos(), pre, "outside a transaction each command is sent as the pair (ASKING, command)")
	}

	// R20a transaction re-queue
	if fn := r.FnAnchor("R20a", P+"doresultfn"); fn != nil {
		n := 0
		apps := tableAppends(fn)
		for _, a := range apps {
			if _, isCmd := tableSibling[a.field]; !isCmd || len(a.elems) != 1 {
				continue
			}
			_, k, ok := elemOf(a.elems[0])
			if !ok {
				continue
			}
			ph, isphi := k.(*ssa.Phi)
			if !isphi || !IsLoopHeader(ph.Block()) || len(ph.Edges) != 2 {
				continue
			}
			// is this phi the induction of an inner counted loop (not the outer range loop)?
			var init, back ssa.Value
			for i, e := range ph.Edges {
				if ph.Block().Dominates(ph.Block().Preds[i]) {
					back = e
				} else {
					init = e
				}
			}
			bo, isb := back.(*ssa.BinOp)
			if init == nil || !isb || bo.Op != token.ADD || bo.X != ssa.Value(ph) {
				continue
			}
			if c, isc := ConstInt(init); isc && c == -1 {
				continue // outer range loop
			}
			n++
			// bounds: init == X and exit `phi <= Y` where isMulti(commands[X]) and isExec(commands[Y]) guard the loop
			var X, Y ssa.Value
			for _, g := range DomGuards(ph.Block()) {
				if c, isc := g.Cond.(*ssa.Call); isc && g.Pol {
					if _, kk, isel := elemOfDeep(c.Call.Args[0]); isel {
						switch CalleeName(c) {
						case "rueidis.isMulti":
							X = kk
						case "rueidis.isExec":
							Y = kk
						}
					}
				}
			}
			iff, _ := ph.Block().Instrs[len(ph.Block().Instrs)-1].(*ssa.If)
			boundOK := false
			if iff != nil {
				if cmp, isc := iff.Cond.(*ssa.BinOp); isc && cmp.Op == token.LEQ && cmp.X == ssa.Value(ph) && Y != nil && cmp.Y == Y {
					boundOK = true
				}
			}
			okB := X != nil && init == X && boundOK
			r.ObSite("R20a", a.site, "block-requeued-from-MULTI-to-EXEC:"+a.field, okB, "the re-queue loop runs from the position tested by isMulti to the position tested by isExec inclusive")
			// same destination for the whole block: the batch object is defined outside the loop
			inv := true
			if bi, isInstr := a.base.(ssa.Instruction); isInstr {
				inv = bi.Block() != ph.Block() && !ph.Block().Dominates(bi.Block()) || bi.Block().Dominates(ph.Block())
			}
			r.ObSite("R20a", a.site, "block-requeued-to-one-destination:"+a.field, inv, "every member of the block is appended to one batch object chosen before the loop")
			// every iteration appends (ask arm or normal arm)
			always := loopBodyAlways(fn, ph.Block(), func(in ssa.Instruction) bool {
				for _, b := range apps {
					if _, isCmd := tableSibling[b.field]; isCmd && b.site.Instr == in {
						return true
					}
				}
				return false
			})
			r.ObSite("R20a", a.site, "every-member-requeued:"+a.field, always, "no member of the block is skipped")
		}
		r.Anchor("R20a", "transaction re-queue appends (2 arms)", n == 2)
	}
	// R20d: the ASK recovery re-sends whole groups: the re-send starts at the first command of the
	// group that contains the expired reply (ASKING and MULTI are connection state of the new connection)
	if fn := r.FnAnchor("R20d", P+"askingMultiCache"); fn != nil {
		n := 0
		for _, b := range fn.Blocks {
			for _, in := range b.Instrs {
				sl, ok := in.(*ssa.Slice)
				if !ok || sl.Low == nil || sl.High != nil || !strings.HasSuffix(shortType(sl.Type()), ".Completed") {
					continue
				}
				if _, isConst := sl.Low.(*ssa.Const); isConst {
					continue
				}
				n++
				good := false
				if bo, isb := sl.Low.(*ssa.BinOp); isb && bo.Op == token.SUB {
					if ph, isphi := bo.X.(*ssa.Phi); isphi && IsLoopHeader(ph.Block()) {
						for i, e := range ph.Edges {
							if !ph.Block().Dominates(ph.Block().Preds[i]) && e == bo.Y {
								good = true // i starts at offset and the re-send starts at i - offset
							}
						}
					}
				}
				r.ObSite("R20d", SiteOf(in), "asking-group-resent-whole", good, "after a connection expiry the re-send starts at the first command of the interrupted (OPT-IN, ASKING, ...) group: position - offset for a walk that starts at offset")
			}
		}
		r.Anchor("R20d", "askingMultiCache: recovery slice", n == 1)
	}
	if fn := r.FnAnchor("R20d", P+"askingMulti"); fn != nil {
		n := 0
		for _, b := range fn.Blocks {
			for _, in := range b.Instrs {
				sl, ok := in.(*ssa.Slice)
				if !ok || sl.Low == nil || sl.High != nil || !strings.HasSuffix(shortType(sl.Type()), ".Completed") {
					continue
				}
				if _, isConst := sl.Low.(*ssa.Const); isConst {
					continue
				}
				n++
				// the start is the recorded position of the last ASKING marker: a phi fed by the loop
				// index under `commands[i] == AskingCmd`
				good := false
				if ph, isphi := sl.Low.(*ssa.Phi); isphi {
					for i, e := range ph.Edges {
						if !isRangeIndexAny(e) {
							continue
						}
						for _, g := range append(DomGuards(ph.Block().Preds[i]), edgeGuards(ph.Block().Preds[i], ph.Block())...) {
							if strings.Contains(DescDeep(g.Cond), "AskingCmd") && g.Pol {
								good = true
							}
						}
					}
				}
				r.ObSite("R20d", SiteOf(in), "asking-pair-resent-whole", good, "after a connection expiry the re-send starts at the ASKING marker that precedes the expired command")
			}
		}
		r.Anchor("R20d", "askingMulti: recovery slice", n == 1)
	}
	// R20b lifetime recovery
	if fn := r.FnAnchor("R20b", P+"doretry"); fn != nil {
		n := 0
		for _, b := range fn.Blocks {
			for _, in := range b.Instrs {
				sl, ok := in.(*ssa.Slice)
				if !ok || sl.Low == nil || shortType(sl.Type()) != "[]rueidis.Completed" {
					continue
				}
				if _, f, _, isf := FieldRef(stripLoad(sl.X)); !isf || f != "commands" {
					continue
				}
				n++
				ph, isphi := sl.Low.(*ssa.Phi)
				inTx := Guarded(b, func(g Guard) bool {
					x, op, y, cok := CmpGuard(g)
					k, isc := ConstInt(y)
					_, xphi := x.(*ssa.Phi)
					return cok && op == token.GTR && isc && k == 0 && xphi
				})
				switch {
				case inTx:
					// low bound is the transaction start tracker: a phi set to the loop index under isMulti and to 0 under isExec
					ok := isphi && txTracker(ph)
					r.ObSite("R20b", SiteOf(in), "resend-from-MULTI-inside-block", ok, "inside a transaction the re-send starts at the recorded MULTI position")
				default:
					r.ObSite("R20b", SiteOf(in), "resend-from-expired-position", isRangeIndexAny(sl.Low), "outside a transaction the re-send starts at the expired position")
				}
			}
		}
		r.Anchor("R20b", "doretry: recovery slices (2)", n == 2)
	}
	// R20c pickMulti tuple agreement and mixed-slot panic
	if fn := r.FnAnchor("R20c", P+"pickMulti"); fn != nil {
		n := 0
		for _, b := range fn.Blocks {
			ret, ok := b.Instrs[len(b.Instrs)-1].(*ssa.Return)
			if !ok || len(ret.Results) != 3 || IsNilConst(ret.Results[0]) {
				continue
			}
			n++
			r.ObSite("R20c", SiteOf(ret), "grouping-and-flag-from-one-call", sameTuple(ret.Results[0], ret.Results[1]), "the transaction flag returned with a grouping is the one computed by the same _pickMulti call")
		}
		r.Anchor("R20c", "pickMulti: successful return", n >= 1)
	}
	if fn := r.FnAnchor("R20c", P+"_pickMulti"); fn != nil {
		pan := false
		for _, s := range Sites(fn, func(in ssa.Instruction) bool { _, ok := in.(*ssa.Panic); return ok }) {
			{
				for _, g := range DomGuards(s.Block) {
					if _, op, _, ok := CmpGuard(g); ok && op == token.NEQ && strings.Contains(DescDeep(g.Cond), "Slot") {
						pan = true
					}
				}
			}
		}
		r.Ob("R20c", fn, "mixed-slots-with-slotless-members-panic", fn.Pos(), pan, "a batch with slot-less members (MULTI/EXEC) spanning different slots is refused, so a transaction goes to one node")
		// DoMulti passes the flag it got to every doretry
	}
	if fn := r.FnAnchor("R20c", P+"DoMulti"); fn != nil {
		var flag ssa.Value
		for _, s := range CallSites(fn, P+"pickMulti") {
			flag = extractOf(s.Instr.(*ssa.Call), 1)
		}
		n := 0
		for _, s := range Sites(fn, func(in ssa.Instruction) bool {
			c, ok := in.(ssa.CallInstruction)
			return ok && CalleeName(c) == P+"doretry"
		}) {
			n++
			args := CallArgs(s.Call())
			r.ObSite("R20c", s, "flag-passed-to-executor", flag != nil && args[len(args)-1] == flag, "the transaction flag computed by grouping is what the per-node executor receives")
		}
		r.Anchor("R20c", "DoMulti: doretry calls (2)", n == 2)
	}
}

func txTracker(ph *ssa.Phi) bool {
	seen := map[*ssa.Phi]bool{}
	sawIdx, sawZero := false, false
	var rec func(p *ssa.Phi) bool
	rec = func(p *ssa.Phi) bool {
		if seen[p] {
			return true
		}
		seen[p] = true
		for _, e := range p.Edges {
			if k, isc := ConstInt(e); isc {
				if k != 0 {
					return false
				}
				sawZero = true
				continue
			}
			if q, isq := e.(*ssa.Phi); isq && !isRangeIndexAny(e) {
				if !rec(q) {
					return false
				}
				continue
			}
			if isRangeIndexAny(e) {
				sawIdx = true
				continue
			}
			return false
		}
		return true
	}
	return rec(ph) && sawIdx && sawZero
}

// isRangeIndexAny: v is the index of some range loop (phi+1 with phi starting at -1).
func isRangeIndexAny(v ssa.Value) bool {
	bo, ok := v.(*ssa.BinOp)
	if !ok || bo.Op != token.ADD {
		return false
	}
	ph, isphi := bo.X.(*ssa.Phi)
	return isphi && isRangeIndex(ph.Block(), v)
}

// sameTuple: a and b are components of the same call on every incoming edge.
func sameTuple(a, b ssa.Value) bool {
	tup := func(v ssa.Value) ssa.Value {
		if ex, ok := v.(*ssa.Extract); ok {
			return ex.Tuple
		}
		return nil
	}
	pa, oka := a.(*ssa.Phi)
	pb, okb := b.(*ssa.Phi)
	if oka != okb {
		return false
	}
	if !oka {
		return tup(a) != nil && tup(a) == tup(b)
	}
	if pa.Block() != pb.Block() || len(pa.Edges) != len(pb.Edges) {
		return false
	}
	for i := range pa.Edges {
		if !sameTuple(pa.Edges[i], pb.Edges[i]) {
			return false
		}
	}
	return true
}

// mgetHoleRefillRule: in the partial MGET the positions served by the cache or by other callers'
// flights are all filled before the remaining holes are identified and given the fetched replies.
func mgetHoleRefillRule(r *Report, rule string) {
	// R11d hole refill in the partial MGET: the positions served by the cache or by other callers'
	// flights are all filled before the remaining holes are identified
	if fn := r.FnAnchor(rule, "rueidis.(*pipe).doCacheMGet"); fn != nil {
		type slotStore struct {
			s    Site
			hole bool
		}
		var stores []slotStore
		for _, s := range Sites(fn, func(in ssa.Instruction) bool { _, ok := in.(*ssa.Store); return ok }) {
			st := s.Instr.(*ssa.Store)
			ia, ok := st.Addr.(*ssa.IndexAddr)
			if !ok || shortType(st.Val.Type()) != "rueidis.RedisMessage" {
				continue
			}
			c, isc := ia.X.(*ssa.Call)
			if !isc || CalleeName(c) != "rueidis.(*RedisMessage).values" || !strings.Contains(DescDeep(c.Call.Args[0]), "RedisResult.val") {
				continue
			}
			// on every feasible way in, the slot written was found empty (typ == 0): a dominating test, or
			// the exit of a scan loop `for j < len && vals[j].typ != 0 { j++ }` followed by `j < len`
			hole := AllDisjuncts(GuardDNF(s.Block, 4), func(g Guard) bool {
				x, op, y, cok := CmpGuard(g)
				k, isk := ConstInt(y)
				if cok && op == token.EQL && isk && k == 0 && strings.HasSuffix(Desc(x), ".typ") {
					if _, ki, isel := elemOfDeep(x); isel && ki == ia.Index {
						return true
					}
				}
				return false
			})
			stores = append(stores, slotStore{s, hole})
		}
		nHole, nOther := 0, 0
		for _, h := range stores {
			if !h.hole {
				nOther++
				continue
			}
			nHole++
			late := ""
			for _, o := range stores {
				if o.hole {
					continue
				}
				if hit, _ := Reaches(h.s, func(w Site) bool { return w.Instr == o.s.Instr }, nil); hit {
					late = r.P.Pos(InstrPos(o.s.Instr))
				}
			}
			r.ObSite(rule, h.s, "holes-filled-after-all-served-positions", late == "", "a position is treated as a hole (and given the next fetched reply) only after every cached or awaited reply was placed; a served position is still filled later at "+late)
		}
		r.Anchor(rule, "doCacheMGet: hole refill (1) and served-position stores (2)", nHole == 1 && nOther == 2)
	}
}
