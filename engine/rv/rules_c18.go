package rv

import (
	"encoding/json"
	"fmt"
	"go/ast"
	"go/constant"
	"go/token"
	"go/types"
	"os"
	"path/filepath"
	"sort"
	"strings"

	"golang.org/x/tools/go/ssa"
)

func init() {
	Registry["C18"] = RuleDef{Module: ".", Run: runC18,
		Technique:   "constant-table evaluation against the CRC16-XMODEM generator, sibling-shape rule over all slot-updating builder methods with a cross-check against the command JSON, guard rule on the cross-slot check, bounds prover on the hash-tag scan",
		Explanation: "Decides (R18a) that the 256 constants of crc16tab equal the CRC16-XMODEM table generated from polynomial 0x1021 (MSB first, init 0), that the update step is (crc<<8) ^ tab[byte(crc>>8) ^ key[i]] and that every return of slot masks with 16383; (R18b) that every use of slot() in the builder package has the two-arm shape (NoSlot builders overwrite `NoSlot|slot(k)`, others go through check(prev, slot(k)) and store the result back into the same command's slot field on every path), that variadic key methods process every key of a cluster builder, and that every argument the command JSON types as `key` has a slot-updating method reachable from that command's root builder; (R18c) that check returns the new slot only when the previous slot is unset or equal and panics otherwise, and that nothing else assigns the slot field from a key; (R18d) that every index/slice in slot and crc16 is in bounds. (R18e) SetSlot stores slot(key), keeping of the old value only the NoSlot mark.",
		NotDecided:  "that the two scanning loops of slot implement exactly 'first {, next }, non-empty' (loop semantics beyond index safety and the structural scan rule).",
	}
}

func crc16xmodemTable() [256]uint16 {
	var t [256]uint16
	for i := 0; i < 256; i++ {
		crc := uint16(i) << 8
		for b := 0; b < 8; b++ {
			if crc&0x8000 != 0 {
				crc = crc<<1 ^ 0x1021
			} else {
				crc <<= 1
			}
		}
		t[i] = crc
	}
	return t
}

type jsonArg struct {
	Name      any       `json:"name"`
	Type      any       `json:"type"`
	Block     []jsonArg `json:"block"`
	Arguments []jsonArg `json:"arguments"`
}

func normName(s string) string {
	return strings.NewReplacer("-", "", "_", "", " ", "").Replace(strings.ToLower(s))
}

func jsonKeyArgs(args []jsonArg, out *[]string) {
	for _, a := range args {
		switch t := a.Type.(type) {
		case string:
			if t == "key" {
				*out = append(*out, normName(fmt.Sprint(a.Name)))
			}
		case []any:
			names, _ := a.Name.([]any)
			for i, tt := range t {
				if tt == "key" && i < len(names) {
					*out = append(*out, normName(fmt.Sprint(names[i])))
				}
			}
		}
		jsonKeyArgs(a.Block, out)
		jsonKeyArgs(a.Arguments, out)
	}
}

func runC18(r *Report) {
	setSlotRule(r)
	p := r.P
	pk := p.Pkg("rueidis/internal/cmds")
	if !r.Anchor("R18", "package internal/cmds", pk != nil) {
		return
	}
	// R18a: table
	want := crc16xmodemTable()
	found := false
	for _, f := range pk.Syntax {
		for _, d := range f.Decls {
			gd, ok := d.(*ast.GenDecl)
			if !ok || gd.Tok != token.VAR {
				continue
			}
			for _, sp := range gd.Specs {
				vs := sp.(*ast.ValueSpec)
				if len(vs.Names) != 1 || vs.Names[0].Name != "crc16tab" || len(vs.Values) != 1 {
					continue
				}
				cl, ok := vs.Values[0].(*ast.CompositeLit)
				if !ok {
					continue
				}
				found = true
				bad := -1
				n := 0
				for i, e := range cl.Elts {
					tv, ok := pk.TypesInfo.Types[e]
					if !ok || tv.Value == nil {
						bad = i
						break
					}
					v, _ := constant.Uint64Val(tv.Value)
					n++
					if i >= 256 || uint16(v) != want[i] {
						bad = i
						break
					}
				}
				why := fmt.Sprintf("%d entries equal the table generated from polynomial 0x1021", n)
				if bad >= 0 {
					why = fmt.Sprintf("entry %d differs from the CRC16-XMODEM table (expected %#04x)", bad, want[bad&255])
				}
				r.Ob("R18a", nil, "crc16tab", vs.Pos(), bad < 0 && n == 256, why)
			}
		}
	}
	r.Anchor("R18a", "var crc16tab", found)
	slotFn := r.FnAnchor("R18a", "rueidis/internal/cmds.slot")
	crcFn := r.FnAnchor("R18a", "rueidis/internal/cmds.crc16")
	if slotFn != nil {
		for _, b := range slotFn.Blocks {
			if ret, ok := b.Instrs[len(b.Instrs)-1].(*ssa.Return); ok {
				okm := false
				if bo, isb := ret.Results[0].(*ssa.BinOp); isb && bo.Op == token.AND {
					if k, isc := ConstInt(bo.Y); isc && k == 16383 {
						if c, isc := bo.X.(*ssa.Call); isc && CalleeName(c) == "rueidis/internal/cmds.crc16" {
							okm = true
						}
					}
				}
				r.ObSite("R18a", Site{slotFn, b, len(b.Instrs) - 1, ret}, "slot-is-crc16-mod-16384", okm, "every return of slot is crc16(...) & 16383")
			}
		}
		// structural scan rule: the tag is key[s+1:e] with s found by scanning for '{' from 0 and e by
		// scanning for '}' from s+1; the whole key is hashed when no '{', no '}' or an empty tag
		nTag, nWhole := 0, 0
		for _, s := range CallSites(slotFn, "rueidis/internal/cmds.crc16") {
			arg := s.Call().Common().Args[0]
			if sl, ok := arg.(*ssa.Slice); ok {
				nTag++
				lo, okLo := sl.Low.(*ssa.BinOp)
				shape := okLo && lo.Op == token.ADD && sl.High != nil
				if shape {
					k, isc := ConstInt(lo.Y)
					shape = isc && k == 1
				}
				// e scanning starts at s+1 and both loops compare one byte of the key with '{' / '}'
				r.ObSite("R18a", s, "tag-is-between-braces", shape, "the hashed tag is key[s+1:e]")
			} else if _, ok := arg.(*ssa.Parameter); ok {
				nWhole++
			}
		}
		r.Ob("R18a", slotFn, "whole-key-fallbacks", slotFn.Pos(), nTag == 1 && nWhole >= 2, fmt.Sprintf("slot hashes the tag once and falls back to the whole key in %d places (no '{', no '}' / empty tag)", nWhole))
		braces := map[int64]int{}
		idiomAfter := false
		for _, b := range slotFn.Blocks {
			for _, in := range b.Instrs {
				if bo, ok := in.(*ssa.BinOp); ok && (bo.Op == token.EQL || bo.Op == token.NEQ) {
					if k, isc := ConstInt(bo.Y); isc { // `key[i] == '{'` with break, or `for ... && key[i] != '{'`
						braces[k]++
					}
				}
				if c, ok := in.(*ssa.Call); ok && (CalleeName(c) == "strings.IndexByte" || CalleeName(c) == "bytes.IndexByte") {
					if k, isc := ConstInt(c.Call.Args[1]); isc {
						braces[k]++
						if k == '}' {
							// searched in the part of the key after the opening brace
							if sl, issl := c.Call.Args[0].(*ssa.Slice); issl && sl.Low != nil {
								if lo, isb := sl.Low.(*ssa.BinOp); isb && lo.Op == token.ADD {
									if one, isc := ConstInt(lo.Y); isc && one == 1 {
										idiomAfter = true
									}
								}
							}
						}
					}
				}
			}
		}
		r.Ob("R18a", slotFn, "brace-bytes", slotFn.Pos(), braces['{'] == 1 && braces['}'] == 1, "the scan looks for '{' once and for '}' once (byte comparison or IndexByte)")
		// the search for '}' starts right after the '{' found
		startsAfter := false
		for _, b := range slotFn.Blocks {
			for _, in := range b.Instrs {
				if ph, ok := in.(*ssa.Phi); ok && isIntType(ph.Type()) {
					for _, e := range ph.Edges {
						if bo, isb := e.(*ssa.BinOp); isb && bo.Op == token.ADD {
							if k, isc := ConstInt(bo.Y); isc && k == 1 {
								if _, isphi := bo.X.(*ssa.Phi); isphi && bo.X != ssa.Value(ph) {
									startsAfter = true
								}
							}
						}
					}
				}
			}
		}
		r.Ob("R18a", slotFn, "closing-brace-searched-after-opening", slotFn.Pos(), startsAfter || idiomAfter, "the closing brace is searched from the position after the first opening brace")
		boundsObligations(r, "R18d", slotFn, nil, nil)
	}
	if crcFn != nil {
		boundsObligations(r, "R18d", crcFn, nil, nil)
		shape := false
		for _, b := range crcFn.Blocks {
			for _, in := range b.Instrs {
				if bo, ok := in.(*ssa.BinOp); ok && bo.Op == token.XOR {
					d := DescDeep(bo)
					if strings.Contains(d, " << 8)") && strings.Contains(d, "crc16tab[") && strings.Contains(d, " >> 8)") && strings.Contains(d, "p0[") {
						shape = true
					}
				}
			}
		}
		r.Ob("R18a", crcFn, "crc-update-step", crcFn.Pos(), shape, "crc = (crc<<8) ^ crc16tab[byte(crc>>8) ^ key[i]]")
	}
	r.Min("R18d", 4)

	// R18c: check
	if fn := r.FnAnchor("R18c", "rueidis/internal/cmds.check"); fn != nil {
		for _, b := range fn.Blocks {
			if ret, ok := b.Instrs[len(b.Instrs)-1].(*ssa.Return); ok {
				okr := ret.Results[0] == ssa.Value(fn.Params[1])
				g := AllDisjuncts(GuardDNF(b, 3), func(g Guard) bool {
					x, op, y, cok := CmpGuard(g)
					if !cok || op != token.EQL || Strip(x) != ssa.Value(fn.Params[0]) {
						return false
					}
					if Strip(y) == ssa.Value(fn.Params[1]) {
						return true
					}
					k, isc := ConstInt(y)
					return isc && k == 1<<14
				})
				r.ObSite("R18c", Site{fn, b, len(b.Instrs) - 1, ret}, "accept-only-unset-or-equal", okr && g, "check returns the new slot only when the previous one is InitSlot or equal")
			}
		}
		nPanic := len(Sites(fn, func(in ssa.Instruction) bool { _, ok := in.(*ssa.Panic); return ok }))
		r.Ob("R18c", fn, "cross-slot-panics", fn.Pos(), nPanic == 1, "keys in different slots are rejected by a panic")
	}

	// callers of slot helpers: the helper is handed the command's current slot and its answer is
	// stored back into the same command
	for _, fn := range p.ModuleFuncs() {
		if !strings.HasPrefix(FuncName(fn), "rueidis/internal/cmds.") {
			continue
		}
		for _, cs := range Sites(fn, func(in ssa.Instruction) bool {
			c, ok := in.(*ssa.Call)
			return ok && slotHelperParam(c.Call.StaticCallee()) != nil && len(CallSites(c.Call.StaticCallee(), "rueidis/internal/cmds.slot")) > 0
		}) {
			call := cs.Instr.(*ssa.Call)
			h := call.Call.StaticCallee()
			hp := slotHelperParam(h)
			okArg, okStore := false, false
			for k, prm := range h.Params {
				if prm == hp && k < len(call.Call.Args) {
					okArg = strings.HasSuffix(Desc(call.Call.Args[k]), ".ks")
				}
			}
			for _, ref := range *call.Referrers() {
				if st, ok := ref.(*ssa.Store); ok && st.Val == ssa.Value(call) {
					if _, f, _, isf := FieldRef(st.Addr); isf && f == "ks" {
						okStore = true
					}
				}
			}
			r.ObSite("R18b", cs, "slot-helper-updates-own-command", okArg && okStore, "a slot helper is handed the command's current slot field and its answer is stored back into it")
		}
	}

	// R18b: shape of every slot() use
	nUse, nVar := 0, 0
	for _, fn := range p.ModuleFuncs() {
		if !strings.HasPrefix(FuncName(fn), "rueidis/internal/cmds.") {
			continue
		}
		sites := CallSites(fn, "rueidis/internal/cmds.slot")
		if len(sites) == 0 {
			continue
		}
		for _, s := range sites {
			nUse++
			call := s.Instr.(*ssa.Call)
			okShape, why := slotUseShape(s, call)
			if !okShape {
				switch {
				case FuncName(fn) == "rueidis/internal/cmds.(Completed).SetSlot":
					// documented explicit override of the slot by the caller (not a key parameter)
					okShape, why = true, "explicit SetSlot override"
				case groupedBySlot(call):
					okShape, why = true, "keys are grouped into per-slot commands: the key's slot is the map key and the command's slot"
				}
			}
			r.ObSite("R18b", s, "slot-use-shape", okShape, why)
		}
		// variadic keys: the checking arm must visit every key (a range loop without an early exit)
		if fn.Signature.Variadic() || slotHelperParam(fn) != nil {
			nVar++
			okAll := true
			for _, s := range sites {
				checked := false
				for _, ref := range *s.Instr.(*ssa.Call).Referrers() {
					if c, ok := ref.(*ssa.Call); ok && CalleeName(c) == "rueidis/internal/cmds.check" {
						checked = true
					}
				}
				if !checked {
					continue
				}
				// the loop containing the check: every iteration reaches the back edge or the loop exit
				// through the header only (no break out of the loop body)
				var hdr *ssa.BasicBlock
				for _, b := range fn.Blocks {
					if IsLoopHeader(b) && b.Dominates(s.Block) {
						hdr = b
					}
				}
				if hdr == nil {
					okAll = false
					continue
				}
				exits := 0
				for _, b := range fn.Blocks {
					if !hdr.Dominates(b) || b == hdr || !reachesBlock(b, hdr) {
						continue
					}
					for _, sc := range b.Succs {
						if !reachesBlock(sc, hdr) || !hdr.Dominates(sc) {
							exits++
						}
					}
				}
				if exits > 0 {
					okAll = false
				}
			}
			r.Ob("R18b", fn, "every-key-checked", fn.Pos(), okAll, "in a cluster builder every key of a variadic key list goes through check (no early exit from the checking loop)")
		}
	}
	r.Anchor("R18b", "uses of slot() in the builder package", nUse >= 500)
	r.Extra["slot_uses"] = nUse
	r.Extra["variadic_key_methods"] = nVar

	// R18b: JSON cross-check
	jsonKeyCrossCheck(r, pk.Types, pk.TypesInfo, pk.Syntax)
}

// slotUseShape: the result of slot(k) is either or-ed with NoSlot and stored into the receiver's
// ks under `ks&NoSlot == NoSlot`, or passed to check(ks, ·) whose result is stored into ks.
// slotHelperParam: fn is an unexported package-level function that is handed a command's slot value
// (uint16) and returns the updated one: `c.ks = mgetKeysSlot(c.ks, key)`.
func slotHelperParam(fn *ssa.Function) *ssa.Parameter {
	if fn == nil || fn.Signature.Recv() != nil || isExportedName(fn.Name()) || fn.Signature.Results().Len() != 1 || shortType(fn.Signature.Results().At(0).Type()) != "uint16" {
		return nil
	}
	for _, p := range fn.Params {
		if shortType(p.Type()) == "uint16" {
			return p
		}
	}
	return nil
}

func slotUseShape(s Site, call *ssa.Call) (bool, string) {
	if hp := slotHelperParam(s.Fn); hp != nil {
		return slotUseShapeInHelper(s, call, hp)
	}
	isKs := func(addr ssa.Value) bool {
		_, f, _, ok := FieldRef(addr)
		return ok && f == "ks"
	}
	for _, ref := range *call.Referrers() {
		switch x := ref.(type) {
		case *ssa.BinOp:
			if x.Op == token.OR {
				k, isc := ConstInt(x.X)
				if !isc {
					k, isc = ConstInt(x.Y)
				}
				if isc && k == 1<<15 {
					stored := false
					for _, r2 := range *x.Referrers() {
						if st, ok := r2.(*ssa.Store); ok && isKs(st.Addr) {
							stored = true
						}
					}
					guard := Guarded(s.Block, func(g Guard) bool {
						y, op, z, cok := CmpGuard(g)
						kk, isk := ConstInt(z)
						return cok && op == token.EQL && isk && kk == 1<<15 && strings.Contains(Desc(y), ".ks & 32768")
					})
					if stored && guard {
						return true, "NoSlot arm"
					}
					return false, "NoSlot|slot(k) must be stored into ks under ks&NoSlot == NoSlot"
				}
			}
		case *ssa.Call:
			if CalleeName(x) == "rueidis/internal/cmds.check" {
				prevOK := strings.HasSuffix(Desc(x.Call.Args[0]), ".ks") && x.Call.Args[1] == ssa.Value(call)
				stored := false
				for _, r2 := range *x.Referrers() {
					if st, ok := r2.(*ssa.Store); ok && isKs(st.Addr) {
						stored = true
					}
				}
				guard := Guarded(s.Block, func(g Guard) bool {
					y, op, z, cok := CmpGuard(g)
					kk, isk := ConstInt(z)
					return cok && op == token.NEQ && isk && kk == 1<<15 && strings.Contains(Desc(y), ".ks & 32768")
				})
				if prevOK && stored && guard {
					return true, "checking arm"
				}
				return false, "check(c.ks, slot(k)) must take the command's current slot, be stored back into ks, and sit on the non-NoSlot arm"
			}
		}
	}
	return false, "the slot of a key is computed but neither merged with NoSlot nor passed to check"
}

func jsonKeyCrossCheck(r *Report, tpkg *types.Package, info *types.Info, files []*ast.File) {
	dir := filepath.Join(filepath.Dir(r.P.Dir+"/x"), "hack", "cmds")
	paths, _ := filepath.Glob(filepath.Join(dir, "*.json"))
	if !r.Anchor("R18b", "command JSON files (hack/cmds/*.json)", len(paths) > 0) {
		return
	}
	cmdKeys := map[string][]string{}
	for _, f := range paths {
		b, err := os.ReadFile(f)
		if err != nil {
			continue
		}
		var m map[string]struct {
			Arguments []jsonArg `json:"arguments"`
		}
		if json.Unmarshal(b, &m) != nil {
			continue
		}
		for k, v := range m {
			var ks []string
			jsonKeyArgs(v.Arguments, &ks)
			if len(ks) > 0 {
				cmdKeys[k] = ks
			}
		}
	}
	scope := tpkg.Scope()
	builder := scope.Lookup("Builder").Type()
	decl := map[string]map[string]*ast.FuncDecl{}
	rootTok := map[string]string{}
	for _, f := range files {
		for _, d := range f.Decls {
			fd, ok := d.(*ast.FuncDecl)
			if !ok || fd.Recv == nil || fd.Body == nil {
				continue
			}
			rt := info.TypeOf(fd.Recv.List[0].Type)
			nt, ok := rt.(*types.Named)
			if !ok {
				continue
			}
			if decl[nt.Obj().Name()] == nil {
				decl[nt.Obj().Name()] = map[string]*ast.FuncDecl{}
			}
			decl[nt.Obj().Name()][fd.Name.Name] = fd
			if types.Identical(rt, builder) && fd.Type.Results != nil && len(fd.Type.Results.List) == 1 {
				if ret, ok := info.TypeOf(fd.Type.Results.List[0].Type).(*types.Named); ok {
					var toks []string
					ast.Inspect(fd.Body, func(n ast.Node) bool {
						if ce, ok := n.(*ast.CallExpr); ok {
							if id, ok := ce.Fun.(*ast.Ident); ok && id.Name == "append" {
								for _, a := range ce.Args[1:] {
									if tv, ok := info.Types[a]; ok && tv.Value != nil && tv.Value.Kind() == constant.String {
										toks = append(toks, constant.StringVal(tv.Value))
									}
								}
							}
						}
						return true
					})
					rootTok[strings.Join(toks, " ")] = ret.Obj().Name()
				}
			}
		}
	}
	// unexported package-level functions (no receiver) that call slot() on their arguments
	slotHelpers := map[string]bool{}
	for _, f := range files {
		for _, d := range f.Decls {
			fd, ok := d.(*ast.FuncDecl)
			if !ok || fd.Recv != nil || fd.Body == nil || ast.IsExported(fd.Name.Name) || fd.Name.Name == "slot" {
				continue
			}
			ast.Inspect(fd.Body, func(n ast.Node) bool {
				if ce, ok := n.(*ast.CallExpr); ok {
					if id, ok := ce.Fun.(*ast.Ident); ok && id.Name == "slot" {
						slotHelpers[fd.Name.Name] = true
					}
				}
				return true
			})
		}
	}
	slotParams := func(root string) map[string]bool {
		out := map[string]bool{}
		seen := map[string]bool{}
		var walk func(t *types.Named)
		walk = func(t *types.Named) {
			if seen[t.Obj().Name()] {
				return
			}
			seen[t.Obj().Name()] = true
			for i := 0; i < t.NumMethods(); i++ {
				m := t.Method(i)
				if fd := decl[t.Obj().Name()][m.Name()]; fd != nil {
					ast.Inspect(fd.Body, func(n ast.Node) bool {
						if ce, ok := n.(*ast.CallExpr); ok {
							// a package-level helper that computes slots for the keys it is handed
							if id, ok := ce.Fun.(*ast.Ident); ok && slotHelpers[id.Name] {
								for _, arg := range ce.Args {
									if a, ok := arg.(*ast.Ident); ok {
										for _, fl := range fd.Type.Params.List {
											for _, nn := range fl.Names {
												if nn.Name == a.Name {
													out[normName(a.Name)] = true
												}
											}
										}
									}
								}
							}
							if id, ok := ce.Fun.(*ast.Ident); ok && id.Name == "slot" && len(ce.Args) == 1 {
								if a, ok := ce.Args[0].(*ast.Ident); ok {
									isParam := false
									for _, fl := range fd.Type.Params.List {
										for _, nn := range fl.Names {
											if nn.Name == a.Name {
												isParam = true
											}
										}
									}
									if isParam {
										out[normName(a.Name)] = true
									} else { // loop variable over a variadic parameter
										for _, fl := range fd.Type.Params.List {
											for _, nn := range fl.Names {
												out[normName(nn.Name)] = true
											}
										}
									}
								}
							}
						}
						return true
					})
				}
				sig := m.Type().(*types.Signature)
				if sig.Results().Len() == 1 {
					if nt, ok := sig.Results().At(0).Type().(*types.Named); ok && nt.Obj().Pkg() == tpkg && nt.Obj().Name() != "Completed" && nt.Obj().Name() != "Cacheable" {
						walk(nt)
					}
				}
			}
		}
		if o, ok := scope.Lookup(root).(*types.TypeName); ok {
			if nt, ok := o.Type().(*types.Named); ok {
				walk(nt)
			}
		}
		return out
	}
	var cmds []string
	for k := range cmdKeys {
		cmds = append(cmds, k)
	}
	sort.Strings(cmds)
	nOK, nNoRoot := 0, 0
	for _, k := range cmds {
		root, found := rootTok[k]
		if !found {
			nNoRoot++
			continue // the builder does not offer this command
		}
		sp := slotParams(root)
		var miss []string
		for _, a := range cmdKeys[k] {
			if !sp[a] {
				miss = append(miss, a)
			}
		}
		if len(miss) == 0 {
			nOK++
		}
		r.Ob("R18b", nil, "json-key-args:"+k, token.NoPos, len(miss) == 0, "command "+k+": the JSON types ["+strings.Join(cmdKeys[k], ",")+"] as keys; no slot-updating builder method found for ["+strings.Join(miss, ",")+"]")
	}
	r.Extra["json_commands_with_keys"] = len(cmds)
	r.Extra["json_commands_checked"] = nOK
	r.Extra["json_commands_without_root_builder"] = nNoRoot
	r.Anchor("R18b", "commands with key arguments in the JSON", len(cmds) >= 200)
}

// groupedBySlot: the slot of the key selects the per-slot command (map lookup and update with that
// key) and becomes that command's slot field.
func groupedBySlot(call *ssa.Call) bool {
	lookup, update, ksField := false, false, false
	var scan func(v ssa.Value, depth int)
	scan = func(v ssa.Value, depth int) {
		for _, u := range Uses(v) {
			switch x := u.(type) {
			case *ssa.Lookup:
				if x.Index == v {
					lookup = true
				}
			case *ssa.MapUpdate:
				if x.Key == v {
					update = true
				}
			case *ssa.Store:
				if _, f, _, ok := FieldRef(x.Addr); ok && f == "ks" && x.Val == v {
					ksField = true
				}
			case *ssa.Call:
				// the grouping may live in an unexported helper of the package that receives the slot
				callee := x.Common().StaticCallee()
				if depth == 0 || callee == nil || callee.Blocks == nil || callee.Pkg != call.Parent().Pkg || isExportedName(callee.Name()) {
					continue
				}
				for i, a := range x.Common().Args {
					if a == v && i < len(callee.Params) {
						scan(callee.Params[i], depth-1)
					}
				}
			}
		}
	}
	scan(call, 1)
	return lookup && update && ksField
}

// setSlotRule (R18e): SetSlot replaces the slot bits of a command by slot(key); the only part of
// the previous value that survives is the NoSlot mark. Any other bit that is carried over (for
// instance the InitSlot placeholder of a key-less cluster command) yields a number that is not a
// slot and indexes the cluster's slot tables out of range.
func setSlotRule(r *Report) {
	fn := r.FnAnchor("R18e", "rueidis/internal/cmds.(Completed).SetSlot")
	if fn == nil {
		return
	}
	n := 0
	for _, s := range Sites(fn, func(in ssa.Instruction) bool { _, ok := in.(*ssa.Store); return ok }) {
		st := s.Instr.(*ssa.Store)
		if _, f, _, isf := FieldRef(st.Addr); !isf || f != "ks" {
			continue
		}
		n++
		isSlotOfKey := func(v ssa.Value) bool {
			c, ok := v.(*ssa.Call)
			return ok && CalleeName(c) == "rueidis/internal/cmds.slot" && Desc(c.Call.Args[0]) == "p1"
		}
		ok := isSlotOfKey(st.Val)
		if bo, isb := st.Val.(*ssa.BinOp); isb && bo.Op == token.OR {
			for _, pair := range [][2]ssa.Value{{bo.X, bo.Y}, {bo.Y, bo.X}} {
				if k, isc := ConstInt(pair[0]); isc && k == 0x8000 && isSlotOfKey(pair[1]) {
					// the mark is re-applied only where it was set before
					for _, g := range DomGuards(s.Block) {
						if x, op, y, cok := CmpGuard(g); cok && op == token.EQL {
							if kk, isk := ConstInt(y); isk && kk == 0x8000 && strings.Contains(DescDeep(x), ".ks") {
								ok = true
							}
						}
					}
				}
			}
		}
		r.ObSite("R18e", s, "slot-bits-replaced-by-slot-of-key", ok, "SetSlot stores slot(key), or NoSlot|slot(key) where the NoSlot mark was set; no other bit of the previous value survives: "+DescDeep(st.Val))
	}
	r.Anchor("R18e", "SetSlot: stores to ks (>= 1)", n >= 1)
}

// slotUseShapeInHelper: the two-arm shape on the helper's slot parameter; "stored into ks" becomes
// "returned" (directly or through the loop-carried variable).
func slotUseShapeInHelper(s Site, call *ssa.Call, hp *ssa.Parameter) (bool, string) {
	var reachesReturn func(v ssa.Value, depth int) bool
	reachesReturn = func(v ssa.Value, depth int) bool {
		refs := v.Referrers()
		if refs == nil || depth > 4 {
			return false
		}
		for _, ref := range *refs {
			switch x := ref.(type) {
			case *ssa.Return:
				return true
			case *ssa.Phi:
				if reachesReturn(x, depth+1) {
					return true
				}
			}
		}
		return false
	}
	var isCur func(v ssa.Value, depth int) bool // the parameter or the loop-carried value derived from it
	isCur = func(v ssa.Value, depth int) bool {
		if v == ssa.Value(hp) {
			return true
		}
		if ph, ok := v.(*ssa.Phi); ok && depth < 3 {
			for _, e := range ph.Edges {
				if e == ssa.Value(ph) {
					continue
				}
				if c, isc := e.(*ssa.Call); isc && CalleeName(c) == "rueidis/internal/cmds.check" {
					continue
				}
				if !isCur(e, depth+1) {
					return false
				}
			}
			return true
		}
		return false
	}
	noSlotGuard := func(want token.Token) bool {
		return Guarded(s.Block, func(g Guard) bool {
			y, op, z, cok := CmpGuard(g)
			kk, isk := ConstInt(z)
			if !cok || op != want || !isk || kk != 1<<15 {
				return false
			}
			bo, isb := y.(*ssa.BinOp)
			if !isb || bo.Op != token.AND {
				return false
			}
			m, ism := ConstInt(bo.Y)
			return ism && m == 1<<15 && bo.X == ssa.Value(hp)
		})
	}
	for _, ref := range *call.Referrers() {
		switch x := ref.(type) {
		case *ssa.BinOp:
			if x.Op == token.OR {
				k, isc := ConstInt(x.X)
				if !isc {
					k, isc = ConstInt(x.Y)
				}
				if isc && k == 1<<15 {
					if reachesReturn(x, 0) && noSlotGuard(token.EQL) {
						return true, "NoSlot arm (helper)"
					}
					return false, "in a slot helper NoSlot|slot(k) must be returned under ks&NoSlot == NoSlot of the slot it was handed"
				}
			}
		case *ssa.Call:
			if CalleeName(x) == "rueidis/internal/cmds.check" {
				if isCur(x.Call.Args[0], 0) && x.Call.Args[1] == ssa.Value(call) && reachesReturn(x, 0) && noSlotGuard(token.NEQ) {
					return true, "checking arm (helper)"
				}
				return false, "in a slot helper check(ks, slot(k)) must take the slot it was handed (or the value carried from the previous key), be returned, and sit on the non-NoSlot arm"
			}
		}
	}
	return false, "the slot of a key is computed but neither merged with NoSlot nor passed to check"
}
