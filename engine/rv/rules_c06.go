package rv

import (
	"fmt"
	"go/token"
	"strings"

	"golang.org/x/tools/go/ssa"
)

func init() {
	Registry["C06"] = RuleDef{Module: ".", Run: runC06,
		Technique:   "who-may-call rule on the cache-store interface, guard / must-pass rules on the invalidation and purge paths, emission-order rule on the tracked fetch batches, lock-set rule on the LRU store",
		Explanation: "Decides (R06a) that commits (Update), invalidations (Delete, via handlePush) and connection loss (Close) are only issued from the connection's reader/teardown goroutine, and lookups (Flight/Flights) and cancellations only from the cached request paths, so commit and invalidation are serialised in wire order; (R06b) that the `invalidate` push reaches the store on every path when a store exists, with nil exactly for a null key list; (R06c) that purging removes exactly the completed entries of a key and keeps walking past in-flight ones, that a flush visits every key, and that nothing but the constructor and Close replaces the store's containers; (R06e) that every batch fetching a cacheable command starts with the opt-in command, that the transactional form is [OPT-IN, MULTI, PTTL key, cmd, EXEC] with the static-TTL tag cleared before the command is queued, and that the reader commits only under an opt-in led batch or the static-TTL gate; (R06f) that the identity used for lookup and for commit is computed by the same identity functions from the command being fetched / the queue entry being committed; (R06g) that the LRU store's containers are only touched under its mutex. (R06h) in the partial MGET a fetched reply is placed into a position only after every cached or awaited reply was placed, so each key receives the reply of its own command.",
		NotDecided:  "Redis' own ordering of pushes versus replies and tracking-mode semantics on the server; the read-lock fast path versus a concurrent Update publishing e.val (a data-race question)."}
	Registry["C09"] = RuleDef{Module: ".", Run: runC09,
		Technique:   "must-pass and ordering rules on owner-failure arms, guard rules on what is put on the wire, lock-set and once-rules on flight completion in both stores",
		Explanation: "Decides (R09a) that on every branch on which the owner's own request failed (transport error on the static path, failed EXEC on the transactional path) the flight is cancelled before the function returns or waits: every error arm passes Cancel, and in the batch path no wait on another flight precedes the cancellations; (R09b) that a command is put on the wire only when the lookup returned neither a hit nor a flight, and the flight arm only waits; (R09c) that a flight is completed exactly once and waiters are woken outside the store lock: lru.Cancel/Update close the entry's channel only for an in-flight entry and after unlocking, the adapter completes a flight and clears its slot in the same critical section, Flight re-checks under the write lock before inserting, and neither store drops in-flight entries on invalidation. (R09d) a looked-up entry's client-side expiry is consulted only for completed entries, so a pending flight is always joined and never replaced by a second request; (R09e) a failed partial MGET cancels exactly the flights of the keys of its rewritten command.",
		NotDecided:  "interleavings of waiter arrival versus completion; whether an abandoned owner's reply still arrives (C01/C04)."}
}

func callersIn(p *Prog, callee string) map[string][]Site {
	out := map[string][]Site{}
	for _, s := range p.Callers(callee) {
		n := FuncName(TopFunc(s.Fn))
		out[n] = append(out[n], s)
	}
	return out
}

func whoMayCall(r *Report, rule, callee string, allowed ...string) {
	al := map[string]bool{}
	for _, a := range allowed {
		al[a] = true
	}
	n := 0
	for caller, sites := range callersIn(r.P, callee) {
		if strings.HasSuffix(caller, "_test") {
			continue
		}
		for _, s := range sites {
			n++
			okc := al[caller] || helperOnlyCalledFrom(r.P, r.P.Fn(caller), al, 3)
			r.ObSite(rule, s, "caller-of:"+callee, okc, callee+" may only be called from "+strings.Join(allowed, ", ")+" (or from an unexported helper that only they call, synchronously); called from "+caller)
		}
	}
	r.Anchor(rule, "call sites of "+callee, n >= 1)
}

// helperOnlyCalledFrom: fn is an unexported function of the module that is never used as a value
// or started as a goroutine and whose every call site lies in an allowed function (or in another
// such helper): code extracted from an allowed caller stays an allowed caller.
func helperOnlyCalledFrom(p *Prog, fn *ssa.Function, al map[string]bool, depth int) bool {
	if fn == nil || depth == 0 || fn.Blocks == nil || isExportedName(fn.Name()) || fn.Parent() != nil {
		return false
	}
	n := 0
	for _, g := range p.ModuleFuncs() {
		for _, b := range g.Blocks {
			for _, in := range b.Instrs {
				var ops [8]*ssa.Value
				for _, op := range in.Operands(ops[:0]) {
					if f, ok := (*op).(*ssa.Function); ok && f == fn {
						c, isCall := in.(*ssa.Call)
						if !isCall || c.Call.Value != ssa.Value(fn) {
							return false // go/defer statement, method value, stored or passed as a value
						}
					}
				}
				if c, ok := in.(*ssa.Call); ok && c.Call.StaticCallee() == fn {
					n++
					cn := FuncName(TopFunc(g))
					if !al[cn] && !helperOnlyCalledFrom(p, p.Fn(cn), al, depth-1) {
						return false
					}
				}
			}
		}
	}
	return n > 0
}

func runC06(r *Report) {
	mgetHoleRefillRule(r, "R06h")
	p := r.P
	const P = "rueidis.(*pipe)."
	whoMayCall(r, "R06a", "iface:rueidis.CacheStore.Update", P+"_backgroundRead")
	whoMayCall(r, "R06a", "iface:rueidis.CacheStore.Delete", P+"handlePush")
	whoMayCall(r, "R06a", P[:len(P)-1]+".handlePush", P+"_backgroundRead")
	whoMayCall(r, "R06a", "iface:rueidis.CacheStore.Close", P+"_background")
	whoMayCall(r, "R06a", "iface:rueidis.CacheStore.Flight", P+"DoCache", P+"doCacheMGet", P+"DoMultiCache")
	whoMayCall(r, "R06a", "rueidis.(*lru).Flights", P+"DoMultiCache")
	whoMayCall(r, "R06a", "iface:rueidis.CacheStore.Cancel", P+"DoCache", P+"doCacheMGet", P+"DoMultiCache", P+"_backgroundRead")

	// R06b
	if hp := r.FnAnchor("R06b", P+"handlePush"); hp != nil {
		dels := CallSites(hp, "iface:rueidis.CacheStore.Delete")
		r.Anchor("R06b", "Delete calls in handlePush (one per arm of the null test, or one with the hoisted key list)", len(dels) == 2 || len(dels) == 1)
		for _, s := range dels {
			arg := s.Call().Common().Args[0]
			desc := "keys"
			if IsNilConst(arg) {
				desc = "nil"
			} else if _, isphi := arg.(*ssa.Phi); isphi {
				desc = "nil-or-keys"
			}
			ok := pushedKeyListArg(arg, s.Block)
			r.ObSite("R06b", s, "delete-"+desc+"-iff-null-keylist", ok, "Delete(nil) exactly when the pushed key list is null, otherwise Delete(values[1].values())")
			hasStore := Guarded(s.Block, func(g Guard) bool {
				x, op, y, cok := CmpGuard(g)
				return cok && op == token.NEQ && IsNilConst(y) && strings.HasSuffix(Desc(x), ".cache")
			})
			r.ObSite("R06b", s, "delete-under-store-present", hasStore, "the store is consulted when it exists")
		}
		// from the `cache != nil` true edge every path passes a Delete
		for _, b := range hp.Blocks {
			iff, ok := b.Instrs[len(b.Instrs)-1].(*ssa.If)
			if !ok {
				continue
			}
			x, op, y, cok := CmpGuard(normGuard(Guard{iff.Cond, true, b}))
			if !cok || op != token.NEQ || !IsNilConst(y) || !strings.HasSuffix(Desc(x), ".cache") {
				continue
			}
			okp, _ := MustPass(Site{hp, b.Succs[0], -1, nil}, func(in ssa.Instruction) bool { _, is := CallTo(in, "iface:rueidis.CacheStore.Delete"); return is })
			r.ObSite("R06b", Site{hp, b, len(b.Instrs) - 1, iff}, "invalidation-always-reaches-store", okp, "with a store present, every path of the invalidate arm calls Delete (no callback or hook may divert it)")
		}
		// the arm is entered for every frame with at least 2 elements
		for _, b := range hp.Blocks {
			for _, in := range b.Instrs {
				if bo, ok := in.(*ssa.BinOp); ok && bo.Op == token.EQL {
					if s, iss := ConstString(bo.Y); iss && s == "invalidate" {
						okLen := Guarded(b, func(g Guard) bool {
							_, op, y, cok := CmpGuard(g)
							k, isc := ConstInt(y)
							return cok && op == token.GEQ && isc && k == 2
						})
						r.Ob("R06b", hp, "invalidate-arm-entered-for-frames>=2", bo.Pos(), okLen, "the only precondition of the invalidate arm is len(values) >= 2")
					}
				}
			}
		}
	}

	// R06c purge
	if fn := r.FnAnchor("R06c", "rueidis.(*lru).purge"); fn != nil {
		// the in-flight arm keeps walking: from the pending edge the loop header is reached before any return
		n := 0
		for _, b := range fn.Blocks {
			iff, ok := b.Instrs[len(b.Instrs)-1].(*ssa.If)
			if !ok {
				continue
			}
			pend, is := isTypZero(normGuard(Guard{iff.Cond, true, b}))
			if !is {
				continue
			}
			n++
			arm := b.Succs[0]
			if !pend {
				arm = b.Succs[1]
			}
			var hdr *ssa.BasicBlock
			for _, h := range fn.Blocks {
				if IsLoopHeader(h) && h.Dominates(b) {
					hdr = h
				}
			}
			keeps := hdr != nil
			if hdr != nil {
				WalkFrom(Site{fn, arm, -1, nil}, func(x Site) bool {
					if x.Block == hdr {
						return false
					}
					if isReturn(x.Instr) {
						keeps = false
						return false
					}
					return true
				})
			}
			r.ObSite("R06c", Site{fn, b, len(b.Instrs) - 1, iff}, "in-flight-entry-is-skipped-not-a-stop", keeps, "meeting an in-flight entry must only skip it: the remaining entries of the key still have to be purged, otherwise completed replies survive their invalidation")
		}
		r.Anchor("R06c", "pending test in purge", n >= 1)
	}
	if fn := r.FnAnchor("R06c", "rueidis.(*lru).Delete"); fn != nil {
		calls := CallSites(fn, "rueidis.(*lru).purge")
		r.Anchor("R06c", "purge calls in lru.Delete", len(calls) == 2)
		for _, s := range calls {
			inLoop := false
			for _, h := range fn.Blocks {
				if IsLoopHeader(h) && h.Dominates(s.Block) {
					inLoop = true
				}
			}
			r.ObSite("R06c", s, "purge-per-key", inLoop, "every invalidated key (every key on a flush) is purged individually so that in-flight entries survive")
		}
	}
	for _, f := range []string{"store", "list"} {
		for _, a := range p.FieldAccesses("rueidis.lru", f) {
			if !a.Write {
				continue
			}
			if _, isStore := a.Instr.(*ssa.Store); !isStore {
				continue
			}
			tn := FuncName(TopFunc(a.Fn))
			r.ObSite("R06c", a.Site, "container-replaced:"+f, tn == "rueidis.newLRU" || tn == "rueidis.(*lru).Close", "the store's containers are replaced only by the constructor and by Close; replacing them elsewhere drops in-flight entries and their waiters")
		}
	}
	if fn := r.FnAnchor("R06c", "rueidis.(*adapter).del"); fn != nil {
		for _, s := range CallSites(fn, "iface:rueidis.SimpleCache.Del", "builtin.delete") {
			if c, ok := s.Instr.(*ssa.Call); ok && CalleeName(c) == "builtin.delete" && shortType(c.Call.Args[0].Type()) != "map[string]rueidis.CacheEntry" {
				continue
			}
			ok := Guarded(s.Block, func(g Guard) bool {
				x, op, y, cok := CmpGuard(g)
				return cok && op == token.EQL && IsNilConst(y) && strings.Contains(shortType(x.Type()), "CacheEntry")
			})
			r.ObSite("R06c", s, "adapter-keeps-in-flight", ok, "the adapter deletes a cached value (and its slot) only when no flight is pending for it")
		}
	}

	// R06e
	fetchBatchRules(r, "R06e")
	if rd := p.Fn(P + "_backgroundRead"); rd != nil {
		for _, s := range CallSites(rd, "iface:rueidis.CacheStore.Update") {
			ok := Guarded(s.Block, func(g Guard) bool {
				c, isc := g.Cond.(*ssa.Call)
				if !isc || !g.Pol {
					return false
				}
				n := CalleeName(c)
				return strings.HasSuffix(n, ").IsOptIn") || n == "rueidis/internal/cmds.IsStaticTTL"
			})
			r.ObSite("R06e", s, "commit-only-for-tracked-fetch", ok, "the reader commits a reply to the store only for a batch led by the opt-in command or under the static-TTL gate")
		}
	}

	// R06f identity
	identityFns := map[string]bool{"rueidis/internal/cmds.CacheKey": true, "rueidis/internal/cmds.MGetCacheKey": true, "rueidis/internal/cmds.MGetCacheCmd": true}
	fromIdentity := func(v ssa.Value) bool {
		return DependsOn(v, func(x ssa.Value) bool {
			c, ok := x.(*ssa.Call)
			return ok && identityFns[CalleeName(c)]
		}) || DependsOn(v, func(x ssa.Value) bool {
			c, ok := x.(*ssa.Call)
			return ok && strings.HasSuffix(CalleeName(c), ").Commands") // MGET keys are taken from the command itself
		})
	}
	nId := 0
	for _, name := range []string{P + "DoCache", P + "doCacheMGet", P + "DoMultiCache", P + "_backgroundRead"} {
		fn := p.Fn(name)
		if fn == nil {
			continue
		}
		for _, s := range CallSites(fn, "iface:rueidis.CacheStore.Flight", "iface:rueidis.CacheStore.Update", "iface:rueidis.CacheStore.Cancel") {
			args := s.Call().Common().Args
			nId++
			r.ObSite("R06f", s, "identity-from-identity-functions", fromIdentity(args[0]) && fromIdentity(args[1]), "the (key, command) identity handed to the store is computed by CacheKey / MGetCacheKey / MGetCacheCmd (or the command's own key list)")
		}
	}
	r.Anchor("R06f", "store calls with identities", nId >= 8)

	// R06g
	for _, f := range []string{"store", "list"} {
		r.FieldLockCheck("R06g", "rueidis.lru", f, "mu", p.Funcs("rueidis.(*lru)."))
	}
	r.Min("R06g", 20)
}

// fetchBatchRules: shape of every batch that fetches a cacheable command.
func fetchBatchRules(r *Report, rule string) {
	p := r.P
	isOptIn := func(v ssa.Value) bool {
		c, ok := v.(*ssa.Call)
		if !ok {
			return false
		}
		n := CalleeName(c)
		return n == "rueidis.(*pipe).optInCmd" || strings.HasSuffix(n, ".OptInCmd")
	}
	isGlobal := func(v ssa.Value, name string) bool { return strings.HasSuffix(Desc(v), "cmds."+name) }
	fromCacheable := func(v ssa.Value) bool {
		ct, ok := v.(*ssa.ChangeType)
		if ok {
			return strings.Contains(shortType(ct.X.Type()), "Cacheable")
		}
		if c, isc := v.(*ssa.Call); isc && strings.HasSuffix(CalleeName(c), "(Arbitrary).MultiGet") {
			return true // the rewritten MGET of the missing keys
		}
		if u, isu := v.(*ssa.UnOp); isu && u.Op == token.MUL {
			if al, isal := u.X.(*ssa.Alloc); isal {
				for _, ref := range *al.Referrers() {
					if st, isst := ref.(*ssa.Store); isst && st.Addr == ssa.Value(al) {
						if c, isc := st.Val.(*ssa.Call); isc && strings.HasSuffix(CalleeName(c), "(Arbitrary).MultiGet") {
							return true
						}
					}
				}
			}
		}
		return false
	}
	n := 0
	check := func(fn *ssa.Function, s Site, els []ssa.Value) {
		ci := -1
		for i, e := range els {
			if e != nil && fromCacheable(e) {
				ci = i
			}
		}
		if ci < 0 {
			return
		}
		n++
		ok := len(els) > 0 && els[0] != nil && isOptIn(els[0])
		why := "starts with the opt-in command"
		hasMulti := false
		for _, e := range els {
			if e != nil && isGlobal(e, "MultiCmd") {
				hasMulti = true
			}
		}
		if ok && hasMulti {
			// [OPTIN, MULTI, PTTL.., cmd, EXEC]
			okT := len(els) >= 5 && isGlobal(els[1], "MultiCmd") && isGlobal(els[len(els)-1], "ExecCmd") && ci == len(els)-2
			for _, e := range els[2:ci] {
				if !isPTTLCmd(e) {
					okT = false
				}
			}
			if !okT {
				ok, why = false, "the transactional fetch must be [OPT-IN, MULTI, PTTL key…, cmd, EXEC]"
			}
		}
		if !ok && why == "starts with the opt-in command" {
			why = "a cacheable command is fetched in a batch that does not start with the opt-in command: the server will not track the key and no invalidation will ever arrive"
		}
		r.ObSite(rule, s, "tracked-fetch-batch", ok, why)
		if hasMulti {
			// the static-TTL tag is cleared on the command before it is converted for queueing
			if ct, isct := els[ci].(*ssa.ChangeType); isct {
				if ld, isld := ct.X.(*ssa.UnOp); isld && ld.Op == token.MUL {
					cleared := false
					for _, cs := range CallSites(fn, "rueidis/internal/cmds.ClearStaticTTL") {
						if Same(cs.Call().Common().Args[0], ld.X) || cs.Call().Common().Args[0] == ld.X {
							if cs.Block == ld.Block() {
								ldSite := SiteOf(ld)
								cleared = cs.Idx < ldSite.Idx
							} else {
								cleared = cs.Block.Dominates(ld.Block())
							}
						}
					}
					stat := len(CallSites(fn, "rueidis/internal/cmds.ClearStaticTTL")) == 0 && len(CallSites(fn, "rueidis/internal/cmds.IsStaticTTL")) == 0
					if strings.HasSuffix(FuncName(fn), "DoCache") {
						// DoCache sends the transactional form only when the command is not static-TTL
						stat = Guarded(s.Block, func(g Guard) bool {
							c, isc := g.Cond.(*ssa.Call)
							return isc && !g.Pol && CalleeName(c) == "rueidis/internal/cmds.IsStaticTTL"
						})
					}
					r.ObSite(rule, s, "static-ttl-tag-cleared-before-queueing", cleared || stat, "inside MULTI/EXEC the command must be queued without the static-TTL tag (read after ClearStaticTTL), otherwise the reader's static-TTL gate commits the +QUEUED reply to the cache")
				}
			}
		}
	}
	for _, name := range []string{"rueidis.(*pipe).DoCache", "rueidis.(*pipe).doCacheMGet", "rueidis.(*pipe).DoMultiCache", "rueidis.(*clusterClient).askingMultiCache"} {
		fn := r.FnAnchor(rule, name)
		if fn == nil {
			continue
		}
		for _, s := range CallSites(fn, "builtin.append") {
			c := s.Instr.(*ssa.Call)
			if strings.HasSuffix(name, "doCacheMGet") {
				continue // built by successive appends: checked as a whole below
			}
			if len(c.Call.Args) == 2 && strings.Contains(shortType(c.Type()), "Completed") {
				els := variadicElemsOrdered(c.Call.Args[1])
				if strings.HasSuffix(name, "askingMultiCache") && len(els) > 1 {
					// [OPT-IN, ASKING, ...]: ASKING sits between the opt-in and the rest
					var rest []ssa.Value
					for _, e := range els {
						if e != nil && isGlobal(e, "AskingCmd") {
							continue
						}
						rest = append(rest, e)
					}
					els = rest
				}
				check(fn, s, els)
			}
		}
		for _, s := range CallSites(fn, "rueidis.(*pipe).DoMulti") {
			args := s.Call().Common().Args
			check(fn, s, variadicElemsOrdered(args[len(args)-1]))
		}
	}
	// doCacheMGet builds its batch by successive appends: [optIn, MULTI] then PTTLs then [rewritten, EXEC]
	if fn := p.Fn("rueidis.(*pipe).doCacheMGet"); fn != nil {
		first, last, pttl := false, false, false
		for _, s := range CallSites(fn, "builtin.append") {
			c := s.Instr.(*ssa.Call)
			if len(c.Call.Args) != 2 {
				continue
			}
			els := variadicElemsOrdered(c.Call.Args[1])
			if len(els) == 2 && els[0] != nil && isOptIn(els[0]) && isGlobal(els[1], "MultiCmd") {
				first = true
			}
			if len(els) == 2 && els[0] != nil && fromCacheable(els[0]) && isGlobal(els[1], "ExecCmd") {
				last = true
			}
			if len(els) == 1 && els[0] != nil && isPTTLCmd(els[0]) {
				pttl = true
			}
		}
		r.Ob(rule, fn, "mget-batch-shape", fn.Pos(), first && last && pttl, "the MGET fetch batch is [OPT-IN, MULTI] + PTTL per key + [rewritten MGET, EXEC]")
		n++
	}
	r.Anchor(rule, "tracked fetch batches", n >= 5)
	_ = fmt.Sprint
}

// pendingNeverExpiresRule (R09d): an entry whose request is still in flight (typ == 0) is never
// judged by its client-side deadline when a caller looks it up: the expiry test of a looked-up
// entry is reached only for completed entries. Otherwise a slow reply makes a later caller replace
// the pending entry and send a second request, and the first entry's waiters are orphaned.
func pendingNeverExpiresRule(r *Report) {
	n := 0
	for _, name := range []string{"rueidis.(*lru).Flight", "rueidis.(*lru).Flights", "rueidis.(*adapter).Flight"} {
		fn0 := r.FnAnchor("R09d", name)
		if fn0 == nil {
			continue
		}
		var sites []Site
		for _, f := range WithHelpers(r.P, fn0) { // a lookup may be split into a fast path and a locked slow path
			sites = append(sites, CallSites(f, "rueidis.(*RedisMessage).relativePTTL")...)
		}
		for _, s := range sites {
			n++
			ok := false
			for _, g := range DomGuards(s.Block) {
				x, op, y, cok := CmpGuard(g)
				k, isc := ConstInt(y)
				if cok && isc && k == 0 && op == token.NEQ && strings.HasSuffix(Desc(x), ".typ") {
					ok = true
				}
			}
			r.ObSite("R09d", s, "expiry-tested-only-for-completed-entries", ok, "the client-side expiry of a looked-up entry is consulted only when the entry is completed (typ != 0); a pending entry is joined, never replaced")
		}
	}
	r.Anchor("R09d", "expiry tests in the stores' lookups (>= 5)", n >= 5)
}

// ownedFlightsRule (R09e): when the partial MGET fails, the flights it cancels are exactly the ones
// it became the owner of - the keys of the rewritten command - not keys that were served from the
// cache or are owned by another caller's flight.
func ownedFlightsRule(r *Report) {
	fn := r.FnAnchor("R09e", "rueidis.(*pipe).doCacheMGet")
	if fn == nil {
		return
	}
	n := 0
	for _, s := range Sites(fn, func(in ssa.Instruction) bool { _, ok := CallTo(in, "iface:rueidis.CacheStore.Cancel"); return ok }) {
		n++
		key := s.Call().Common().Args[0]
		sl, _, isel := elemOf(key)
		own := false
		if isel {
			base := sl
			for {
				if x, ok := base.(*ssa.Slice); ok {
					base = x.X
					continue
				}
				break
			}
			if c, ok := base.(*ssa.Call); ok && strings.HasSuffix(CalleeName(c), ").Commands") {
				own = DependsOn(c.Call.Args[0], func(v ssa.Value) bool {
					cc, ok := v.(*ssa.Call)
					return ok && strings.HasSuffix(CalleeName(cc), ").MultiGet")
				})
			}
		}
		r.ObSite("R09e", s, "cancels-only-owned-flights", own, "the keys whose flights are cancelled are taken from the rewritten command (the misses this call owns), not from the caller's full key list")
	}
	r.Anchor("R09e", "doCacheMGet: cancel sites", n >= 1)
}

func runC09(r *Report) {
	pendingNeverExpiresRule(r)
	ownedFlightsRule(r)
	p := r.P
	const P = "rueidis.(*pipe)."
	isCancel := func(in ssa.Instruction) bool { _, ok := CallTo(in, "iface:rueidis.CacheStore.Cancel"); return ok }
	// R09a: owner-failure arms pass Cancel
	nArm := 0
	for _, name := range []string{P + "DoCache", P + "doCacheMGet", P + "DoMultiCache"} {
		fn := r.FnAnchor("R09a", name)
		if fn == nil {
			continue
		}
		for _, b := range fn.Blocks {
			iff, ok := b.Instrs[len(b.Instrs)-1].(*ssa.If)
			if !ok {
				continue
			}
			x, op, y, cok := CmpGuard(normGuard(Guard{iff.Cond, true, b}))
			if !cok || op != token.NEQ || !IsNilConst(y) || shortType(x.Type()) != "error" {
				continue
			}
			// the owner's own reply: ToArray()/Error() of resp.s[...], or its .err field
			owner := DependsOn(x, func(v ssa.Value) bool {
				if c, isc := v.(*ssa.Call); isc {
					n := CalleeName(c)
					if n == "rueidis.(RedisResult).ToArray" || n == "rueidis.(RedisResult).Error" {
						return DependsOn(c.Call.Args[0], func(w ssa.Value) bool {
							ia, isia := w.(*ssa.IndexAddr)
							return isia && strings.HasSuffix(DescDeep(ia.X), ".s") && DependsOn(ia.X, func(z ssa.Value) bool {
								cc, ok := z.(*ssa.Call)
								return ok && CalleeName(cc) == P+"DoMulti"
							})
						})
					}
				}
				if u, isu := v.(*ssa.UnOp); isu && u.Op == token.MUL {
					if _, f, base, isf := FieldRef(u.X); isf && f == "err" {
						if ia, isia := base.(*ssa.IndexAddr); isia {
							return DependsOn(ia.X, func(z ssa.Value) bool {
								cc, ok := z.(*ssa.Call)
								return ok && CalleeName(cc) == P+"DoMulti"
							})
						}
					}
				}
				return false
			})
			if !owner {
				continue
			}
			// skip the inner refinement `preErr != nil` (it only picks which error to report)
			if ca, isc := x.(*ssa.Call); isc && CalleeName(ca) == "rueidis.(RedisResult).Error" && !isCancelReachableArm(b.Succs[0], isCancel) && strings.Contains(Desc(ca), " - 1)") {
				continue
			}
			nArm++
			arm := b.Succs[0]
			passes := true
			var hdr *ssa.BasicBlock
			for _, h := range fn.Blocks {
				if IsLoopHeader(h) && h.Dominates(b) {
					hdr = h
				}
			}
			WalkFrom(Site{fn, arm, -1, nil}, func(s Site) bool {
				if isCancel(s.Instr) {
					return false
				}
				// a range loop over the owned keys whose body always cancels counts as the cancellation
				if s.Idx == 0 && IsLoopHeader(s.Block) && s.Block != hdr && loopBodyAlways(fn, s.Block, isCancel) {
					return false
				}
				if isReturn(s.Instr) || (hdr != nil && s.Block == hdr) {
					passes = false
					return false
				}
				if c, isc := s.Instr.(*ssa.Call); isc && strings.HasSuffix(CalleeName(c), "CacheEntry.Wait") {
					passes = false
					return false
				}
				return true
			})
			// result-assembly loops re-derive the same error after the flights were already cancelled
			// by an earlier loop: accept when a Cancel for the same reply index dominates
			if !passes {
				for _, cs := range Sites(fn, isCancel) {
					if cs.Block.Dominates(b) || reachesBlock(cs.Block, b) && !reachesBlock(b, cs.Block) {
						if dominatedByCancelLoop(fn, cs, b) {
							passes = true
						}
					}
				}
			}
			r.ObSite("R09a", Site{fn, b, len(b.Instrs) - 1, iff}, "owner-failure-cancels-flight", passes, "when the owner's own request failed, the flight must be cancelled (waking its waiters with the error) before returning, looping on or waiting")
		}
	}
	r.Anchor("R09a", "owner failure arms", nArm >= 4)
	// no wait on another flight before the cancellations (batch path)
	if fn := p.Fn(P + "DoMultiCache"); fn != nil {
		for _, s := range Sites(fn, func(in ssa.Instruction) bool {
			c, ok := in.(*ssa.Call)
			return ok && strings.HasSuffix(CalleeName(c), "CacheEntry.Wait")
		}) {
			late, at := Reaches(s, func(x Site) bool { return isCancel(x.Instr) }, nil)
			why := "all cancellations precede the waits"
			if late {
				why = "a Cancel at " + p.Pos(InstrPos(at.Instr)) + " is only reached after waiting on other flights: a batch that joined the flight it must cancel (duplicate command, crossing batches) waits forever"
			}
			r.ObSite("R09a", s, "cancel-before-waiting", !late, why)
		}
	}

	// R09b
	nSend := 0
	for _, name := range []string{P + "DoMultiCache", P + "doCacheMGet"} {
		fn := p.Fn(name)
		if fn == nil {
			continue
		}
		flights := CallSites(fn, "iface:rueidis.CacheStore.Flight")
		for _, fs := range flights {
			call := fs.Instr.(*ssa.Call)
			var v, entry ssa.Value
			for _, ref := range *call.Referrers() {
				if ex, ok := ref.(*ssa.Extract); ok {
					if ex.Index == 0 {
						v = ex
					} else {
						entry = ex
					}
				}
			}
			// sends: appends / Args() that are reachable from the Flight call within the same iteration
			for _, s := range Sites(fn, func(in ssa.Instruction) bool {
				c, ok := in.(*ssa.Call)
				if !ok {
					return false
				}
				n := CalleeName(c)
				if (n == "builtin.append" && strings.Contains(shortType(c.Type()), "Completed")) || strings.HasSuffix(n, "(Arbitrary).Args") {
					return true
				}
				// or a call of an unexported pipe method that appends to the batch it is handed and returns it
				h := c.Call.StaticCallee()
				if h == nil || h.Blocks == nil || isExportedName(h.Name()) || !strings.HasPrefix(FuncName(h), P) || !strings.Contains(shortType(c.Type()), "[]rueidis.Completed") {
					return false
				}
				for _, hs := range CallSites(h, "builtin.append") {
					if strings.Contains(shortType(hs.Instr.(*ssa.Call).Type()), "Completed") {
						return true
					}
				}
				return false
			}) {
				if !fs.Block.Dominates(s.Block) || !sameLoop(fn, fs.Block, s.Block) {
					continue
				}
				nSend++
				miss := Guarded(s.Block, func(g Guard) bool {
					x, op, y, ok := CmpGuard(g)
					k, isc := ConstInt(y)
					return ok && op == token.EQL && isc && k == 0 && strings.HasSuffix(Desc(x), ".typ") && v != nil
				})
				noFlight := Guarded(s.Block, func(g Guard) bool {
					x, op, y, ok := CmpGuard(g)
					return ok && op == token.EQL && IsNilConst(y) && x == entry
				})
				r.ObSite("R09b", s, "send-only-on-miss-without-flight", miss && noFlight, "a command is added to the outgoing batch only when the lookup returned neither a hit nor an existing flight")
			}
		}
	}
	if fn := p.Fn(P + "DoCache"); fn != nil {
		for _, s := range CallSites(fn, P+"DoMulti") {
			nSend++
			okG := Guarded(s.Block, func(g Guard) bool {
				_, op, y, ok := CmpGuard(g)
				return ok && op == token.EQL && IsNilConst(y)
			}) && Guarded(s.Block, func(g Guard) bool {
				x, op, y, ok := CmpGuard(g)
				k, isc := ConstInt(y)
				return ok && op == token.EQL && isc && k == 0 && strings.HasSuffix(Desc(x), ".typ")
			})
			r.ObSite("R09b", s, "send-only-on-miss-without-flight", okG, "DoCache sends only when the lookup returned neither a hit nor a flight")
		}
	}
	r.Anchor("R09b", "send sites behind a lookup", nSend >= 3)

	// R09c store semantics
	for _, name := range []string{"rueidis.(*lru).Update", "rueidis.(*lru).Cancel"} {
		fn := r.FnAnchor("R09c", name)
		if fn == nil {
			continue
		}
		ls := ComputeLockSets(fn, map[string]bool{})
		for _, s := range CallSites(fn, "builtin.close") {
			held := ls.At(s)
			r.ObSite("R09c", s, "waiters-woken-outside-lock", len(held) == 0, "the flight's channel is closed after the store lock was released; held: "+setString(held))
			// the channel closed is the entry's channel taken under the pending guard
			ch := s.Call().Common().Args[0]
			var pendingEdges func(v ssa.Value, depth int) bool
			pendingEdges = func(v ssa.Value, depth int) bool {
				switch x := v.(type) {
				case *ssa.Phi:
					for k, e := range x.Edges {
						if IsNilConst(e) {
							continue
						}
						if _, isphi := e.(*ssa.Phi); isphi {
							continue
						}
						pred := x.Block().Preds[k]
						src := pred
						if in, isin := e.(ssa.Instruction); isin {
							src = in.Block()
						}
						if !Guarded(src, func(g Guard) bool { pend, is := isTypZero(g); return is && pend }) {
							return false
						}
					}
				case *ssa.Call:
					// the channel is handed back by an unexported helper of the store (called under the lock)
					callee := x.Call.StaticCallee()
					if depth == 0 || callee == nil || callee.Blocks == nil || isExportedName(callee.Name()) || !strings.HasPrefix(FuncName(callee), "rueidis.(*lru).") {
						return false
					}
					for _, b := range callee.Blocks {
						if ret, isret := b.Instrs[len(b.Instrs)-1].(*ssa.Return); isret && b.Comment != "recover" {
							for _, rv := range RetVals(ret) {
								if shortType(rv.Type()) == shortType(x.Type()) && !IsNilConst(rv) && !pendingEdges(rv, depth-1) {
									return false
								}
							}
						}
					}
				}
				return true
			}
			pendingOnly := pendingEdges(ch, 2)
			nonNil := Guarded(s.Block, func(g Guard) bool {
				x, op, y, ok := CmpGuard(g)
				return ok && op == token.NEQ && IsNilConst(y) && x == ch
			})
			r.ObSite("R09c", s, "completed-once", pendingOnly && nonNil, "the channel is closed only when this call completed an in-flight entry (e.val.typ == 0), so a flight is completed exactly once")
		}
	}
	if fn := r.FnAnchor("R09c", "rueidis.(*lru).Cancel"); fn != nil {
		// Cancel and the unexported helpers only it calls
		fns := []*ssa.Function{fn}
		for _, g := range r.P.Funcs("rueidis.(*lru).") {
			if g != fn && helperOnlyCalledFrom(r.P, g, map[string]bool{"rueidis.(*lru).Cancel": true}, 2) {
				fns = append(fns, g)
			}
		}
		nRem, nDel := 0, 0
		errSet := false
		for _, g := range fns {
			nRem += len(CallSites(g, listRemove))
			nDel += len(CallSites(g, "builtin.delete"))
			for _, a := range FieldAccessesIn(g, "rueidis.cacheEntry", "err") {
				if a.Write {
					errSet = true
				}
			}
		}
		rem := nRem == 1 && nDel >= 1
		r.Ob("R09c", fn, "cancel-removes-and-reports", fn.Pos(), rem && errSet, "Cancel records the error on the entry and removes it from the index and the list, so a later call fetches again")
	}
	for _, name := range []string{"rueidis.(*adapter).Update", "rueidis.(*adapter).Cancel"} {
		fn := r.FnAnchor("R09c", name)
		if fn == nil {
			continue
		}
		sets := CallSites(fn, "rueidis.(*adapterEntry).set")
		// or the helper written out: close(entry.ch) of an adapter entry
		for _, s := range CallSites(fn, "builtin.close") {
			if IsFieldLoad(s.Call().Common().Args[0], "rueidis.adapterEntry", "ch") {
				sets = append(sets, s)
			}
		}
		okOnce := len(sets) == 1
		cleared := false
		if okOnce {
			for _, in := range sets[0].Block.Instrs {
				if mu, ok := in.(*ssa.MapUpdate); ok && IsNilConst(mu.Value) {
					cleared = true
				}
			}
			ls := ComputeLockSets(fn, map[string]bool{})
			okOnce = len(ls.At(sets[0])) == 1
		}
		r.Ob("R09c", fn, "adapter-completes-once-and-clears-slot", fn.Pos(), okOnce && cleared, "the adapter completes the flight once and clears its slot in the same critical section")
	}
	if fn := r.FnAnchor("R09c", "rueidis.(*lru).Flight"); fn != nil {
		// double-checked insert: the PushBack of a new pending entry is under the write lock and behind
		// a second lookup of kc.cache[cmd]
		for _, s := range CallSites(fn, "container/list.(*List).PushBack") {
			ls := ComputeLockSets(fn, map[string]bool{})
			held := ls.At(s)
			wl := false
			for l := range held {
				if strings.HasSuffix(l, ".mu") {
					wl = true
				}
			}
			recheck := false
			for _, b := range fn.Blocks {
				for _, in := range b.Instrs {
					if lk, ok := in.(*ssa.Lookup); ok && strings.HasSuffix(DescDeep(lk.X), ".cache") {
						held2 := ls.At(SiteOf(lk))
						for l := range held2 {
							if strings.HasSuffix(l, ".mu") && (b.Dominates(s.Block) || reachesBlock(b, s.Block)) {
								recheck = true
							}
						}
					}
				}
			}
			r.ObSite("R09c", s, "double-checked-insert", wl && recheck, "a new flight is inserted under the write lock after looking the command up again under that lock (two callers must not both become owners)")
		}
	}
	// neither store drops in-flight entries on invalidation (shared with C06)
	for _, f := range []string{"store", "list"} {
		for _, a := range p.FieldAccesses("rueidis.lru", f) {
			if st, isStore := a.Instr.(*ssa.Store); isStore && a.Write {
				_ = st
				tn := FuncName(TopFunc(a.Fn))
				r.ObSite("R09c", a.Site, "container-replaced:"+f, tn == "rueidis.newLRU" || tn == "rueidis.(*lru).Close", "replacing the store's containers outside the constructor and Close drops in-flight entries: their waiters never get the reply and later readers send a second request")
			}
		}
	}
	for _, s := range p.Callers("container/list.(*List).Init") {
		if strings.HasPrefix(FuncName(s.Fn), "rueidis.(*lru).") {
			r.ObSite("R09c", s, "list-reinitialised", false, "re-initialising the LRU list drops in-flight entries")
		}
	}
}

// isPTTLCmd: NewCompleted([]string{"PTTL", key}) or a Pttl() builder chain.
func isPTTLCmd(e ssa.Value) bool {
	c, ok := e.(*ssa.Call)
	if !ok {
		return false
	}
	if strings.Contains(DescDeep(c), "(Pttl") {
		return true
	}
	if CalleeName(c) == "rueidis/internal/cmds.NewCompleted" {
		els := variadicElemsOrdered(c.Call.Args[0])
		if len(els) >= 1 {
			if sv, iss := ConstString(els[0]); iss && sv == "PTTL" {
				return true
			}
		}
	}
	return false
}

func isCancelReachableArm(arm *ssa.BasicBlock, isCancel func(ssa.Instruction) bool) bool {
	found := false
	WalkFrom(Site{arm.Parent(), arm, -1, nil}, func(s Site) bool {
		if isCancel(s.Instr) {
			found = true
			return false
		}
		return !found
	})
	return found
}

// dominatedByCancelLoop: the Cancel site sits in an earlier loop over the same reply slice whose
// error test has the same shape, and that loop completes before block b is reached.
func dominatedByCancelLoop(fn *ssa.Function, cs Site, b *ssa.BasicBlock) bool {
	var hdr *ssa.BasicBlock
	for _, h := range fn.Blocks {
		if IsLoopHeader(h) && h.Dominates(cs.Block) {
			hdr = h
		}
	}
	if hdr == nil {
		return false
	}
	// b is outside that loop and after it
	inLoop := false
	for _, pr := range hdr.Preds {
		if hdr.Dominates(pr) && (pr == b || reachesBlock(b, pr)) && hdr.Dominates(b) {
			// b could be inside: check whether b reaches the back edge without leaving
			inLoop = true
		}
	}
	if inLoop && sameLoop(fn, cs.Block, b) {
		return false
	}
	return reachesBlock(hdr, b)
}

// loopBodyAlways: every iteration of the loop headed by h passes an instruction satisfying hit.
func loopBodyAlways(fn *ssa.Function, h *ssa.BasicBlock, hit func(ssa.Instruction) bool) bool {
	// natural loop of h: blocks that reach a back edge of h without passing h
	loop := map[*ssa.BasicBlock]bool{h: true}
	var work []*ssa.BasicBlock
	for _, pr := range h.Preds {
		if h.Dominates(pr) && !loop[pr] {
			loop[pr] = true
			work = append(work, pr)
		}
	}
	for len(work) > 0 {
		b := work[len(work)-1]
		work = work[:len(work)-1]
		for _, pr := range b.Preds {
			if !loop[pr] && h.Dominates(pr) {
				loop[pr] = true
				work = append(work, pr)
			}
		}
	}
	var body *ssa.BasicBlock
	for _, sc := range h.Succs {
		if loop[sc] && sc != h {
			body = sc
		}
	}
	if body == nil {
		return false
	}
	ok := true
	WalkFrom(Site{fn, body, -1, nil}, func(s Site) bool {
		if hit(s.Instr) {
			return false
		}
		if s.Block == h || isReturn(s.Instr) || !loop[s.Block] {
			ok = false
			return false
		}
		return true
	})
	return ok
}
