package rv

import (
	"fmt"
	"go/constant"
	"go/token"
	"go/types"
	"sort"
	"strings"

	"golang.org/x/tools/go/ssa"
)

// A5 - the bounds prover ("guardprove"). It decides index / slice / allocation / divisor
// obligations of one function from facts only: dominating and edge-wise guards, induction on
// integer phis, construction lengths, parity and half-range lemmas, documented result ranges of a
// few library calls, and pure-accessor congruence. Linear arithmetic with small integer
// coefficients; no solver, no path conditions beyond branch guards.

// Lin is a linear form sum(coef*atom) + K over opaque atoms.
type Lin struct {
	C  map[string]int64
	K  int64
	OK bool
}

func konst(k int64) Lin { return Lin{C: map[string]int64{}, K: k, OK: true} }
func atomL(a string) Lin { return Lin{C: map[string]int64{a: 1}, OK: true} }

func (a Lin) Add(b Lin, s int64) Lin {
	if !a.OK || !b.OK {
		return Lin{}
	}
	r := Lin{C: map[string]int64{}, K: a.K + s*b.K, OK: true}
	for x, v := range a.C {
		r.C[x] += v
	}
	for x, v := range b.C {
		r.C[x] += s * v
	}
	for x, v := range r.C {
		if v == 0 {
			delete(r.C, x)
		}
	}
	return r
}

func (a Lin) Scale(s int64) Lin {
	if !a.OK {
		return a
	}
	r := Lin{C: map[string]int64{}, K: a.K * s, OK: true}
	for x, v := range a.C {
		if v*s != 0 {
			r.C[x] = v * s
		}
	}
	return r
}

func (a Lin) IsConst() bool { return a.OK && len(a.C) == 0 }

func (a Lin) Rename(m map[string]string) Lin {
	if !a.OK || len(m) == 0 {
		return a
	}
	r := Lin{C: map[string]int64{}, K: a.K, OK: true}
	for x, v := range a.C {
		if n, ok := m[x]; ok {
			r.C[n] += v
		} else {
			r.C[x] += v
		}
	}
	return r
}

func (a Lin) String() string {
	if !a.OK {
		return "?"
	}
	var ks []string
	for x := range a.C {
		ks = append(ks, x)
	}
	sort.Strings(ks)
	s := ""
	for _, x := range ks {
		s += fmt.Sprintf("%+d*%s ", a.C[x], x)
	}
	return s + fmt.Sprintf("%+d", a.K)
}

// BCtx is the per-function prover state.
type BCtx struct {
	Fn      *ssa.Function
	classOf map[ssa.Value]string
	stored  map[string]bool  // address classes written somewhere in the function
	Lower   map[string]int64 // atom -> known lower bound
	Upper   map[string]int64 // atom -> known upper bound
	parity  map[string]int   // atom -> known parity
	global  []Lin            // facts L >= 0 valid everywhere in the function (definitions)
	// scoped: definitional facts that presuppose that the defining instruction was executed without
	// panicking (x % m implies m >= 1); they hold only at points dominated by that instruction
	scoped []scopedFact
	qBlk   *ssa.BasicBlock // block of the current query (set by ProveAt)
	qIdx   int             // instruction index of the current query inside qBlk
	qSet   bool
	minArgs map[string][]Lin // atom of a min(...) result -> its arguments
	// safeConv: signed->unsigned conversions whose operand is proved non-negative (only those are
	// treated as the identity; the others are opaque non-negative atoms)
	safeConv map[*ssa.Convert]bool
	// Assume lets a property add facts established by another rule (field invariants).
	Assume func(c *BCtx)
}

func NewBCtx(fn *ssa.Function) *BCtx {
	c := &BCtx{Fn: fn, classOf: map[ssa.Value]string{}, stored: map[string]bool{}, Lower: map[string]int64{}, Upper: map[string]int64{}, parity: map[string]int{}}
	// address classes that are stored to (loads of those are not congruent)
	c.stored = nil
	st := map[string]bool{}
	tmp := &BCtx{Fn: fn, classOf: map[ssa.Value]string{}, stored: map[string]bool{}, Lower: map[string]int64{}, Upper: map[string]int64{}, parity: map[string]int{}}
	for _, b := range fn.Blocks {
		for _, in := range b.Instrs {
			if s, ok := in.(*ssa.Store); ok {
				st[tmp.addrClass(s.Addr)] = true
			}
		}
	}
	c.stored = st
	c.definitions()
	c.induction()
	c.lockstep()
	c.loopUpperInvariants()
	// phase 2: decide which signed->unsigned conversions are value preserving, then rebuild
	safe := map[*ssa.Convert]bool{}
	any := false
	for _, b := range fn.Blocks {
		for ci, in := range b.Instrs {
			if cv, ok := in.(*ssa.Convert); ok && isIntType(cv.Type()) && isIntType(cv.X.Type()) && isUnsignedType(cv.Type()) && !isUnsignedType(cv.X.Type()) {
				if c.ProveAtIdx(b, ci, c.Lin(cv.X)) {
					safe[cv] = true
					any = true
				}
			}
		}
	}
	if any {
		c2 := &BCtx{Fn: fn, classOf: map[ssa.Value]string{}, stored: st, Lower: map[string]int64{}, Upper: map[string]int64{}, parity: map[string]int{}, safeConv: safe}
		c2.definitions()
		c2.induction()
		c2.lockstep()
		c2.loopUpperInvariants()
		return c2
	}
	return c
}

// addrClass names an address structurally.
func (c *BCtx) addrClass(v ssa.Value) string {
	switch x := v.(type) {
	case *ssa.FieldAddr:
		_, f, base, _ := FieldRef(x)
		return "&" + c.class(base) + "." + f
	case *ssa.IndexAddr:
		return "&" + c.class(x.X) + "[" + c.Lin(x.Index).String() + "]"
	case *ssa.Global:
		return "@" + x.Name()
	}
	return c.class(v)
}

// class names a value so that two occurrences denoting the same run-time value get the same name.
func (c *BCtx) class(v ssa.Value) string {
	if s, ok := c.classOf[v]; ok {
		return s
	}
	c.classOf[v] = v.Name() // cycle guard
	s := ""
	switch x := v.(type) {
	case *ssa.Call:
		n := CalleeName(x)
		if PureAccessors[n] {
			args := CallArgs(x)
			if len(args) == 1 {
				s = n[strings.LastIndex(n, ".")+1:] + "(" + c.class(args[0]) + ")"
			}
		}
	case *ssa.ChangeType:
		s = c.class(x.X)
	case *ssa.Convert:
		s = "conv(" + c.class(x.X) + ")"
	case *ssa.FieldAddr, *ssa.IndexAddr:
		s = c.addrClass(v)
	case *ssa.UnOp:
		if x.Op == token.MUL {
			switch y := x.X.(type) {
			case *ssa.FieldAddr, *ssa.IndexAddr:
				ac := c.addrClass(x.X)
				if c.stored != nil && !c.stored[ac] && !c.storedPrefix(ac) {
					s = "*" + ac
				}
			case *ssa.FreeVar:
				if c.stored != nil && !c.stored["fv:"+y.Name()] {
					s = "*fv:" + y.Name()
				}
			}
		}
	case *ssa.Parameter:
		s = "p:" + x.Name()
	case *ssa.FreeVar:
		s = "fv:" + x.Name()
	case *ssa.Const:
		if x.Value != nil {
			s = "k:" + x.Value.ExactString()
		}
	}
	if s == "" {
		s = v.Name()
	}
	c.classOf[v] = s
	return s
}

// storedPrefix: some stored address class is a prefix of ac (a store to &x.f invalidates &x.f.g).
func (c *BCtx) storedPrefix(ac string) bool {
	for s := range c.stored {
		if s != "" && strings.HasPrefix(ac, s) && strings.HasPrefix(s, "&") {
			return true
		}
	}
	return false
}

func isSliceOrString(t types.Type) bool {
	switch u := t.Underlying().(type) {
	case *types.Slice:
		return true
	case *types.Basic:
		return u.Info()&types.IsString != 0
	}
	return false
}

func isIntType(t types.Type) bool {
	b, ok := t.Underlying().(*types.Basic)
	return ok && b.Info()&types.IsInteger != 0
}

func isUnsignedType(t types.Type) bool {
	b, ok := t.Underlying().(*types.Basic)
	return ok && b.Info()&types.IsUnsigned != 0
}

// LenOf gives the length of a slice/string/array value as a linear form.
func (c *BCtx) LenOf(v ssa.Value) Lin {
	t := v.Type().Underlying()
	if p, ok := t.(*types.Pointer); ok {
		if a, ok := p.Elem().Underlying().(*types.Array); ok {
			return konst(a.Len())
		}
	}
	if a, ok := t.(*types.Array); ok {
		return konst(a.Len())
	}
	switch x := v.(type) {
	case *ssa.MakeSlice:
		return c.Lin(x.Len)
	case *ssa.Slice:
		var hi Lin
		if x.High != nil {
			hi = c.Lin(x.High)
		} else {
			hi = c.LenOf(x.X)
		}
		lo := konst(0)
		if x.Low != nil {
			lo = c.Lin(x.Low)
		}
		return hi.Add(lo, -1)
	case *ssa.Const:
		if x.Value != nil && x.Value.Kind() == constant.String {
			return konst(int64(len(constant.StringVal(x.Value))))
		}
		if x.Value == nil {
			return konst(0) // nil slice
		}
	case *ssa.Convert:
		// string <-> []byte keep the length
		return c.LenOf(x.X)
	case *ssa.ChangeType:
		return c.LenOf(x.X)
	case *ssa.UnOp:
		// a field of a local struct variable with a single store that dominates this load
		if fa, ok := x.X.(*ssa.FieldAddr); ok && x.Op == token.MUL {
			if _, root := fieldPath(fa); root != nil {
				if al, isAlloc := root.(*ssa.Alloc); isAlloc {
					var stores []*ssa.Store
					var collect func(v ssa.Value)
					path, _ := fieldPath(fa)
					collect = func(v ssa.Value) {
						if v.Referrers() == nil {
							return
						}
						for _, r := range *v.Referrers() {
							switch y := r.(type) {
							case *ssa.FieldAddr:
								collect(y)
							case *ssa.Store:
								if y.Addr == v {
									if pp, _ := fieldPath(y.Addr); pp == path {
										stores = append(stores, y)
									}
								}
							}
						}
					}
					collect(al)
					whole := false
					for _, r := range *al.Referrers() {
						if st, ok := r.(*ssa.Store); ok && st.Addr == ssa.Value(al) {
							// `g := T{...}`: the literal is built in a temporary and copied whole
							if ld, isld := st.Val.(*ssa.UnOp); isld && ld.Op == token.MUL {
								if tmp, istmp := ld.X.(*ssa.Alloc); istmp && tmp.Comment == "complit" {
									collect(tmp)
									continue
								}
							}
							whole = true
						}
					}
					if len(stores) == 1 && !whole && stores[0].Block().Dominates(x.Block()) && (stores[0].Block() != x.Block() || true) {
						return c.LenOf(stores[0].Val)
					}
				}
			}
		}
	}
	return atomL("len[" + c.class(v) + "]")
}

// Lin turns an integer value into a linear form.
func (c *BCtx) Lin(v ssa.Value) Lin {
	switch x := v.(type) {
	case *ssa.Const:
		if x.Value != nil && x.Value.Kind() == constant.Int {
			if i, ok := constant.Int64Val(x.Value); ok {
				return konst(i)
			}
		}
		return Lin{}
	case *ssa.BinOp:
		switch x.Op {
		case token.ADD:
			return c.Lin(x.X).Add(c.Lin(x.Y), 1)
		case token.SUB:
			return c.Lin(x.X).Add(c.Lin(x.Y), -1)
		case token.MUL:
			a, b := c.Lin(x.X), c.Lin(x.Y)
			if a.IsConst() && a.K >= -8 && a.K <= 8 {
				return b.Scale(a.K)
			}
			if b.IsConst() && b.K >= -8 && b.K <= 8 {
				return a.Scale(b.K)
			}
		case token.SHL:
			if k := c.Lin(x.Y); k.IsConst() && k.K >= 0 && k.K <= 3 {
				return c.Lin(x.X).Scale(1 << uint(k.K))
			}
		}
	case *ssa.Call:
		if b, ok := x.Common().Value.(*ssa.Builtin); ok {
			switch b.Name() {
			case "len":
				return c.LenOf(x.Common().Args[0])
			case "cap":
				if ms, ok := x.Common().Args[0].(*ssa.MakeSlice); ok {
					return c.Lin(ms.Cap)
				}
				if ph, ok := x.Common().Args[0].(*ssa.Phi); ok {
					if ms := fillToCapacity(ph); ms != nil {
						return c.Lin(ms.Cap)
					}
				}
				return atomL("cap[" + c.class(x.Common().Args[0]) + "]")
			}
		}
	case *ssa.Convert:
		if isIntType(x.Type()) && isIntType(x.X.Type()) {
			if isUnsignedType(x.Type()) && !isUnsignedType(x.X.Type()) {
				if k, isc := ConstInt(x.X); isc && k >= 0 {
					return konst(k)
				}
				if !c.safeConv[x] {
					return atomL(x.Name()) // may wrap around: opaque (its type makes it >= 0)
				}
			}
			return c.Lin(x.X)
		}
	case *ssa.ChangeType:
		return c.Lin(x.X)
	case *ssa.UnOp:
		if x.Op == token.MUL {
			cl := c.class(v)
			if cl != v.Name() {
				return atomL(cl)
			}
		}
	}
	return atomL(v.Name())
}

type scopedFact struct {
	l   Lin
	blk *ssa.BasicBlock
	idx int
}

// definitions records facts that follow from how a value is computed.
func (c *BCtx) definitions() {
	add := func(l Lin) {
		if l.OK {
			c.global = append(c.global, l)
		}
	}
	for _, b := range c.Fn.Blocks {
		for _, in := range b.Instrs {
			v, isVal := in.(ssa.Value)
			if isVal && isIntType(v.Type()) && isUnsignedType(v.Type()) {
				if _, isConst := v.(*ssa.Const); !isConst {
					if l := c.Lin(v); len(l.C) == 1 && l.K == 0 {
						for a, co := range l.C {
							if co == 1 {
								if _, ok := c.Lower[a]; !ok {
									c.Lower[a] = 0
								}
								if bt := v.Type().Underlying().(*types.Basic); bt.Kind() == types.Uint8 {
									c.Upper[a] = 255
								} else if bt.Kind() == types.Uint16 {
									c.Upper[a] = 65535
								}
							}
						}
					}
				}
			}
			switch x := in.(type) {
			case *ssa.BinOp:
				self := atomL(x.Name())
				switch x.Op {
				case token.QUO:
					if k := c.Lin(x.Y); k.IsConst() && k.K == 2 {
						num := c.Lin(x.X)
						if c.nonneg(num) {
							add(num.Add(self.Scale(2), -1))                     // x - 2h >= 0
							add(self.Scale(2).Add(num, -1).Add(konst(1), 1))    // 2h - x + 1 >= 0
							c.Lower[x.Name()] = 0
						}
					} else if k.IsConst() && k.K > 0 {
						num := c.Lin(x.X)
						if c.nonneg(num) {
							c.Lower[x.Name()] = 0
							add(num.Add(self.Scale(k.K), -1)) // x - k*q >= 0
						}
					}
				case token.REM:
					m := c.Lin(x.Y)
					num := c.Lin(x.X)
					if m.IsConst() && m.K > 0 {
						c.Upper[x.Name()] = m.K - 1
						add(konst(m.K - 1).Add(self, -1))
						if c.nonneg(num) || isUnsignedType(x.X.Type()) {
							c.Lower[x.Name()] = 0
						} else {
							c.Lower[x.Name()] = -(m.K - 1)
						}
					} else if m.OK && (c.nonneg(num) || isUnsignedType(x.X.Type())) {
						// x % m in [0, m) when m >= 1 (fact m-1-r >= 0 is only sound if m >= 1: it is
						// added as m - r - 1 >= 0 which implies m >= 1 + r >= 1; a division by m == 0
						// panics before, which is a separate obligation)
						c.Lower[x.Name()] = 0
						if l := m.Add(self, -1).Add(konst(1), -1); l.OK {
							idx := 0
							for k, q := range b.Instrs {
								if q == in {
									idx = k
								}
							}
							c.scoped = append(c.scoped, scopedFact{l, b, idx})
						}
					}
				case token.AND:
					for _, side := range [2]ssa.Value{x.X, x.Y} {
						m := c.Lin(side)
						if m.OK && (isUnsignedType(x.Type()) || (m.IsConst() && m.K >= 0)) {
							add(m.Add(self, -1)) // r <= m
							if _, ok := c.Lower[x.Name()]; !ok {
								c.Lower[x.Name()] = 0
							}
						}
					}
				case token.SHR:
					if isUnsignedType(x.Type()) {
						c.Lower[x.Name()] = 0
						if bt, ok := x.X.Type().Underlying().(*types.Basic); ok {
							if k := c.Lin(x.Y); k.IsConst() {
								bits := map[types.BasicKind]int64{types.Uint8: 8, types.Uint16: 16, types.Uint32: 32}[bt.Kind()]
								if bits > 0 && k.K < bits && bits-k.K < 62 {
									c.Upper[x.Name()] = (int64(1) << uint(bits-k.K)) - 1
									add(konst(c.Upper[x.Name()]).Add(self, -1))
								}
							}
						}
					}
				}
			case *ssa.Call:
				n := CalleeName(x)
				self := atomL(x.Name())
				switch n {
				case "strings.LastIndexByte", "strings.IndexByte", "strings.Index", "strings.LastIndex", "bytes.IndexByte", "strings.IndexAny":
					ln := c.LenOf(x.Call.Args[0])
					add(ln.Add(self, -1).Add(konst(1), -1)) // r < len
					c.Lower[x.Name()] = -1
				case "builtin.min":
					if c.minArgs == nil {
						c.minArgs = map[string][]Lin{}
					}
					for _, a := range x.Call.Args {
						add(c.Lin(a).Add(self, -1)) // r <= a
						c.minArgs[x.Name()] = append(c.minArgs[x.Name()], c.Lin(a))
					}
					lb, ok := int64(0), true
					for i, a := range x.Call.Args {
						l := c.Lin(a)
						v, has := c.lowerOf(l)
						if !has {
							ok = false
							break
						}
						if i == 0 || v < lb {
							lb = v
						}
					}
					if ok {
						c.Lower[x.Name()] = lb
					}
				case "builtin.max":
					for _, a := range x.Call.Args {
						add(self.Add(c.Lin(a), -1)) // r >= a
						if v, has := c.lowerOf(c.Lin(a)); has {
							if cur, ok := c.Lower[x.Name()]; !ok || v > cur {
								c.Lower[x.Name()] = v
							}
						}
					}
				case "rueidis/internal/util.FastRand", "math/rand/v2.IntN", "math/rand.Intn":
					if len(x.Call.Args) == 1 {
						add(c.Lin(x.Call.Args[0]).Add(self, -1).Add(konst(1), -1)) // r < n
						c.Lower[x.Name()] = 0
					}
				case "builtin.len", "builtin.cap":
					// handled by LenOf; len >= 0 is built into the prover
				}
			}
		}
	}
}

// lowerOf evaluates a lower bound of a linear form from the known atom bounds.
func (c *BCtx) lowerOf(l Lin) (int64, bool) {
	if !l.OK {
		return 0, false
	}
	k := l.K
	for a, co := range l.C {
		if strings.HasPrefix(a, "len[") || strings.HasPrefix(a, "cap[") {
			if co < 0 {
				if ub, ok := c.Upper[a]; ok {
					k += co * ub
					continue
				}
				return 0, false
			}
			continue
		}
		if co > 0 {
			lb, ok := c.Lower[a]
			if !ok {
				return 0, false
			}
			k += co * lb
		} else {
			ub, ok := c.Upper[a]
			if !ok {
				return 0, false
			}
			k += co * ub
		}
	}
	return k, true
}

func (c *BCtx) nonneg(l Lin) bool {
	v, ok := c.lowerOf(l)
	return ok && v >= 0
}

// induction: optimistic lower-bound fixpoint and parity for integer phis.
func (c *BCtx) induction() {
	const inf = int64(1) << 60
	var phis []*ssa.Phi
	for _, b := range c.Fn.Blocks {
		for _, in := range b.Instrs {
			if phi, ok := in.(*ssa.Phi); ok && isIntType(phi.Type()) {
				phis = append(phis, phi)
			}
		}
	}
	lb := map[string]int64{}
	for _, p := range phis {
		lb[p.Name()] = inf
	}
	edgeLB := func(e ssa.Value) (int64, bool) {
		l := c.Lin(e)
		if !l.OK {
			return 0, false
		}
		v := l.K
		for a, co := range l.C {
			if strings.HasPrefix(a, "len[") || strings.HasPrefix(a, "cap[") {
				if co < 0 {
					return 0, false
				}
				continue
			}
			alb, ok := lb[a]
			if !ok {
				if x, ok2 := c.Lower[a]; ok2 {
					alb, ok = x, true
				}
			}
			if !ok || co < 0 {
				return 0, false
			}
			if alb == inf {
				return inf, true
			}
			v += co * alb
		}
		return v, true
	}
	unstable := map[string]bool{}
	for iter := 0; iter < 40; iter++ {
		changed := false
		for _, p := range phis {
			if _, ok := lb[p.Name()]; !ok {
				continue
			}
			best := inf
			bad := false
			for _, e := range p.Edges {
				v, ok := edgeLB(e)
				if !ok {
					bad = true
					break
				}
				if v < best {
					best = v
				}
			}
			if bad {
				delete(lb, p.Name())
				changed = true
				continue
			}
			if best != lb[p.Name()] {
				lb[p.Name()] = best
				changed = true
				if iter > 25 {
					unstable[p.Name()] = true
				}
			}
		}
		if !changed {
			break
		}
	}
	for k, v := range lb {
		if v != inf && !unstable[k] {
			if cur, ok := c.Lower[k]; !ok || v > cur {
				c.Lower[k] = v
			}
		}
	}
	// symbolic lower bounds: p = phi(X, p+c...) with all increments non-negative => p >= X
	for _, phi := range phis {
		var base ssa.Value
		ok := true
		for _, e := range phi.Edges {
			if e == ssa.Value(phi) {
				continue
			}
			if bo, isb := e.(*ssa.BinOp); isb && bo.Op == token.ADD && bo.X == ssa.Value(phi) {
				if k, isc := ConstInt(bo.Y); isc && k >= 0 {
					continue
				}
			}
			if base == nil {
				base = e
				continue
			}
			ok = false
		}
		if ok && base != nil {
			if _, isc := ConstInt(base); !isc {
				if l := c.Lin(base); l.OK {
					c.global = append(c.global, atomL(phi.Name()).Add(l, -1))
				}
			}
		}
	}
	// counters with an equality exit: for a constant K that some value is compared with (== / !=),
	// the greatest set S of integer phis such that every edge of a member is a constant <= K-1,
	// another member, or member+1 arriving over an edge guarded by (member+1) != K. By induction
	// every member is <= K-1.
	ks := map[int64]bool{}
	for _, b := range c.Fn.Blocks {
		for _, in := range b.Instrs {
			if bo, ok := in.(*ssa.BinOp); ok && (bo.Op == token.EQL || bo.Op == token.NEQ) && isIntType(bo.X.Type()) {
				if k, isc := ConstInt(bo.Y); isc && k > 0 {
					ks[k] = true
				}
			}
		}
	}
	for K := range ks {
		S := map[*ssa.Phi]bool{}
		for _, p := range phis {
			S[p] = true
		}
		for changed := true; changed; {
			changed = false
			for _, p := range phis {
				if !S[p] {
					continue
				}
				ok := true
				for k, e := range p.Edges {
					if e == ssa.Value(p) {
						continue
					}
					if v, isc := ConstInt(e); isc {
						if v > K-1 {
							ok = false
						}
						continue
					}
					if q, isphi := e.(*ssa.Phi); isphi && S[q] {
						continue
					}
					if bo, isb := e.(*ssa.BinOp); isb && bo.Op == token.ADD {
						q, isphi := bo.X.(*ssa.Phi)
						one, isc := ConstInt(bo.Y)
						if isphi && S[q] && isc && one == 1 {
							pred := p.Block().Preds[k]
							gs := DomGuards(pred)
							if iff, isif := pred.Instrs[len(pred.Instrs)-1].(*ssa.If); isif && pred.Succs[0] != pred.Succs[1] {
								gs = append(gs, normGuard(Guard{iff.Cond, pred.Succs[0] == p.Block(), pred}))
							}
							guarded := false
							for _, g := range gs {
								x, op, y, cok := CmpGuard(g)
								if kk, isk := ConstInt(y); cok && op == token.NEQ && x == ssa.Value(bo) && isk && kk == K {
									guarded = true
								}
							}
							if guarded {
								continue
							}
						}
					}
					ok = false
				}
				if !ok {
					S[p] = false
					changed = true
				}
			}
		}
		for p, in := range S {
			if !in {
				continue
			}
			// only meaningful if the set really contains a counter (some +1 edge)
			if cur, has := c.Upper[p.Name()]; !has || K-1 < cur {
				c.Upper[p.Name()] = K - 1
				c.global = append(c.global, konst(K-1).Add(atomL(p.Name()), -1))
			}
		}
	}
	for _, phi := range phis {
		step := int64(-1)
		init := int64(0)
		hasInit := false
		good := true
		for _, e := range phi.Edges {
			l := c.Lin(e)
			if l.IsConst() {
				if hasInit && init&1 != l.K&1 {
					good = false
				}
				init, hasInit = l.K, true
				continue
			}
			if len(l.C) == 1 && l.C[phi.Name()] == 1 {
				if step == -1 || step == l.K {
					step = l.K
				} else {
					good = false
				}
				continue
			}
			good = false
		}
		if good && hasInit && step > 0 && step%2 == 0 {
			c.parity[phi.Name()] = int(init & 1)
		}
	}
}

// lockstep relates integer phis of one loop header that start at constants and advance by constants
// on the same edges (`for i, j := 0, 0; ...; i, j = i+1, j+2`): sq*(p-ip) == sp*(q-iq) holds
// wherever both are defined.
func (c *BCtx) lockstep() {
	type ind struct {
		phi        *ssa.Phi
		init, step int64
		kind       []byte // per incoming edge: 'i' init, 's' step
	}
	byBlock := map[*ssa.BasicBlock][]ind{}
	for _, b := range c.Fn.Blocks {
		for _, in := range b.Instrs {
			phi, ok := in.(*ssa.Phi)
			if !ok || !isIntType(phi.Type()) {
				continue
			}
			x := ind{phi: phi, kind: make([]byte, len(phi.Edges))}
			good, hasInit, hasStep := true, false, false
			for k, e := range phi.Edges {
				l := c.Lin(e)
				switch {
				case l.IsConst():
					if hasInit && x.init != l.K {
						good = false
					}
					x.init, hasInit = l.K, true
					x.kind[k] = 'i'
				case l.OK && len(l.C) == 1 && l.C[phi.Name()] == 1:
					if hasStep && x.step != l.K {
						good = false
					}
					x.step, hasStep = l.K, true
					x.kind[k] = 's'
				default:
					good = false
				}
			}
			if good && hasInit && hasStep && x.step != 0 {
				byBlock[b] = append(byBlock[b], x)
			}
		}
	}
	for _, xs := range byBlock {
		for i := 0; i < len(xs); i++ {
			for j := i + 1; j < len(xs); j++ {
				p, q := xs[i], xs[j]
				if string(p.kind) != string(q.kind) {
					continue
				}
				// q.step*(p - p.init) - p.step*(q - q.init) == 0
				l := atomL(p.phi.Name()).Scale(q.step).Add(atomL(q.phi.Name()), -p.step).Add(konst(-q.step*p.init+p.step*q.init), 1)
				c.global = append(c.global, l, l.Scale(-1))
			}
		}
	}
}

// factsFromGuard appends the linear facts implied by a guard; par receives parity facts.
func (c *BCtx) factsFromGuard(g Guard, cj *conj, ren map[string]string) {
	facts, par := &cj.facts, cj.par
	bo, ok := g.Cond.(*ssa.BinOp)
	if !ok {
		return
	}
	if bo.Op == token.EQL || bo.Op == token.NEQ {
		if rem, ok := bo.X.(*ssa.BinOp); ok && rem.Op == token.REM {
			if k := c.Lin(rem.Y); k.IsConst() && k.K == 2 {
				if z := c.Lin(bo.Y); z.IsConst() {
					even := (bo.Op == token.EQL) == g.Pol
					val := int(z.K & 1)
					if !even {
						val ^= 1
					}
					l := c.Lin(rem.X).Rename(ren)
					if l.OK && len(l.C) == 1 {
						for a, co := range l.C {
							if co == 1 || co == -1 {
								par[a] = (val + int(l.K&1)) & 1
							}
						}
					}
				}
			}
		}
	}
	if !isIntType(bo.X.Type()) {
		return
	}
	x, y := c.Lin(bo.X).Rename(ren), c.Lin(bo.Y).Rename(ren)
	if !x.OK || !y.OK {
		return
	}
	op := bo.Op
	if !g.Pol {
		switch op {
		case token.LSS:
			op = token.GEQ
		case token.LEQ:
			op = token.GTR
		case token.GTR:
			op = token.LEQ
		case token.GEQ:
			op = token.LSS
		case token.EQL:
			op = token.NEQ
		case token.NEQ:
			op = token.EQL
		}
	}
	switch op {
	case token.LSS:
		*facts = append(*facts, y.Add(x, -1).Add(konst(1), -1))
	case token.LEQ:
		*facts = append(*facts, y.Add(x, -1))
	case token.GTR:
		*facts = append(*facts, x.Add(y, -1).Add(konst(1), -1))
	case token.GEQ:
		*facts = append(*facts, x.Add(y, -1))
	case token.EQL:
		*facts = append(*facts, x.Add(y, -1), y.Add(x, -1))
	case token.NEQ:
		cj.neq = append(cj.neq, y.Add(x, -1))
		if y.IsConst() && y.K == 0 && c.nonneg(x) {
			*facts = append(*facts, x.Add(konst(1), -1))
		}
		if x.IsConst() && x.K == 0 && c.nonneg(y) {
			*facts = append(*facts, y.Add(konst(1), -1))
		}
		// x != -1 with x >= -1  => x >= 0
		if y.IsConst() {
			if lb, ok := c.lowerOf(x); ok && lb == y.K {
				*facts = append(*facts, x.Add(konst(y.K+1), -1))
			}
		}
	}
}

// conj is one way control can reach a block: facts and parity information.
type conj struct {
	facts []Lin
	par   map[string]int
	neq   []Lin // forms known to be non-zero
}

// factDNF computes the facts of block b edge-wise. At a join every predecessor (back edges
// included) contributes one disjunct in which the join's integer phis are bound to the edge
// values; for a back edge the loop-carried phi atoms occurring in the predecessor's facts are
// renamed (they denote the previous iteration's values).
func (c *BCtx) factDNF(b *ssa.BasicBlock, depth int) []conj {
	base := func(par map[string]int) map[string]int {
		m := map[string]int{}
		for k, v := range c.parity {
			m[k] = v
		}
		for k, v := range par {
			m[k] = v
		}
		return m
	}
	domConj := func(blk *ssa.BasicBlock, ren map[string]string) conj {
		cj := conj{par: base(nil)}
		for _, g := range DomGuards(blk) {
			c.factsFromGuard(g, &cj, ren)
		}
		return cj
	}
	var rec func(blk *ssa.BasicBlock, depth int) []conj
	rec = func(blk *ssa.BasicBlock, depth int) []conj {
		if len(blk.Preds) == 0 {
			return []conj{{par: base(nil)}}
		}
		if len(blk.Preds) == 1 {
			p := blk.Preds[0]
			up := rec(p, depth)
			var out []conj
			for _, u := range up {
				cj := conj{facts: append([]Lin{}, u.facts...), par: base(u.par), neq: append([]Lin{}, u.neq...)}
				if iff, ok := p.Instrs[len(p.Instrs)-1].(*ssa.If); ok && p.Succs[0] != p.Succs[1] {
					c.factsFromGuard(normGuard(Guard{iff.Cond, p.Succs[0] == blk, p}), &cj, nil)
				}
				out = append(out, cj)
			}
			return out
		}
		if depth == 0 {
			return []conj{domConj(blk, nil)}
		}
		var phis, sphis []*ssa.Phi
		for _, in := range blk.Instrs {
			if ph, ok := in.(*ssa.Phi); ok {
				if isIntType(ph.Type()) {
					phis = append(phis, ph)
				} else if isSliceOrString(ph.Type()) {
					sphis = append(sphis, ph)
				}
			} else {
				break
			}
		}
		var out []conj
		for k, p := range blk.Preds {
			back := blk.Dominates(p)
			ren := map[string]string{}
			if back {
				for _, ph := range phis {
					ren[ph.Name()] = ph.Name() + "'"
				}
			}
			var ups []conj
			if back {
				ups = []conj{domConj(p, ren)}
			} else {
				ups = rec(p, depth-1)
			}
			for _, u := range ups {
				cj := conj{facts: append([]Lin{}, u.facts...), par: base(u.par), neq: append([]Lin{}, u.neq...)}
				if iff, ok := p.Instrs[len(p.Instrs)-1].(*ssa.If); ok && p.Succs[0] != p.Succs[1] {
					c.factsFromGuard(normGuard(Guard{iff.Cond, p.Succs[0] == blk, p}), &cj, ren)
				}
				for _, ph := range phis {
					e := c.Lin(ph.Edges[k]).Rename(ren)
					self := atomL(ph.Name())
					if e.OK {
						cj.facts = append(cj.facts, self.Add(e, -1), e.Add(self, -1))
					}
				}
				for _, ph := range sphis {
					if ph.Edges[k] == ssa.Value(ph) {
						continue
					}
					e := c.LenOf(ph.Edges[k]).Rename(ren)
					self := c.LenOf(ph)
					if e.OK && self.OK {
						cj.facts = append(cj.facts, self.Add(e, -1), e.Add(self, -1))
					}
				}
				if back {
					// previous-iteration atoms keep the induction lower bounds
					for old, nw := range ren {
						if lb, ok := c.Lower[old]; ok {
							c.Lower[nw] = lb
						}
					}
				}
				out = append(out, cj)
			}
		}
		if len(out) > 48 {
			return []conj{domConj(blk, nil)}
		}
		return out
	}
	return rec(b, depth)
}

func (c *BCtx) trivially(l Lin) bool {
	v, ok := c.lowerOf(l)
	return ok && v >= 0
}

func (c *BCtx) strengthen(cj conj) []Lin {
	out := append([]Lin{}, cj.facts...)
	out = append(out, c.global...)
	for _, sf := range c.scoped {
		if c.qBlk == nil {
			continue
		}
		if sf.blk == c.qBlk {
			if sf.idx < c.qIdx {
				out = append(out, sf.l)
			}
		} else if sf.blk.Dominates(c.qBlk) {
			out = append(out, sf.l)
		}
	}
	// parity lemma: a fact L >= 0 whose atoms all have known parity and which is odd => L >= 1
	for _, f := range cj.facts {
		if !f.OK || len(f.C) == 0 || len(f.C) > 2 {
			continue
		}
		p := int(f.K & 1)
		known := true
		for a, co := range f.C {
			pa, ok := cj.par[a]
			if !ok {
				known = false
				break
			}
			if co&1 != 0 {
				p ^= pa
			}
		}
		if known && p&1 == 1 {
			out = append(out, f.Add(konst(1), -1))
		}
	}
	return out
}

// Prove decides goal >= 0 under one conjunct.
func (c *BCtx) proveIn(goal Lin, facts []Lin) bool {
	if c.proveIn1(goal, facts) {
		return true
	}
	// equalities among the facts (L >= 0 and -L >= 0) with a unit coefficient: substitute the atom
	// away in the goal and in the other facts (j == 2*i makes a goal about j one about i) and retry
	g2, f2, changed := eliminateEqualities(goal, facts)
	return changed && c.proveIn1(g2, f2)
}

func eliminateEqualities(goal Lin, facts []Lin) (Lin, []Lin, bool) {
	changed := false
	fs := append([]Lin{}, facts...)
	for round := 0; round < 3; round++ {
		seen := map[string]int{}
		for i, f := range fs {
			if f.OK {
				seen[f.String()] = i
			}
		}
		var eq *Lin
		atom := ""
		for i := range fs {
			f := fs[i]
			if !f.OK || len(f.C) < 2 {
				continue
			}
			if _, ok := seen[f.Scale(-1).String()]; !ok {
				continue
			}
			for a, co := range f.C {
				if (co == 1 || co == -1) && !strings.HasPrefix(a, "len[") && !strings.HasPrefix(a, "cap[") && goal.C[a] != 0 {
					eq, atom = &fs[i], a
				}
			}
			if eq != nil {
				break
			}
		}
		if eq == nil {
			break
		}
		e := *eq
		ca := e.C[atom]
		sub := func(g Lin) Lin {
			cg := g.C[atom]
			if !g.OK || cg == 0 {
				return g
			}
			return g.Add(e, -cg*ca)
		}
		goal = sub(goal)
		var nf []Lin
		for _, f := range fs {
			f2 := sub(f)
			if f2.OK && len(f2.C) == 0 {
				continue // the equality itself
			}
			nf = append(nf, f2)
		}
		fs = nf
		changed = true
	}
	return goal, fs, changed
}

func (c *BCtx) proveIn1(goal Lin, facts []Lin) bool {
	if !goal.OK {
		return false
	}
	if c.trivially(goal) {
		return true
	}
	for _, f := range facts {
		if c.trivially(goal.Add(f, -1)) {
			return true
		}
	}
	n := len(facts)
	if n > 60 {
		n = 60
	}
	for i := 0; i < n; i++ {
		for j := i; j < n; j++ {
			for _, m := range [][2]int64{{1, 1}, {2, 1}, {1, 2}, {2, 2}} {
				if c.trivially(goal.Add(facts[i], -m[0]).Add(facts[j], -m[1])) {
					return true
				}
			}
		}
	}
	// a goal with a positive min(...) atom holds if it holds for each argument substituted
	for a, co := range goal.C {
		if args, ok := c.minArgs[a]; ok && co > 0 {
			all := true
			for _, arg := range args {
				g2 := goal.Add(atomL(a).Scale(co), -1).Add(arg.Scale(co), 1)
				if !c.proveIn1(g2, facts) {
					all = false
					break
				}
			}
			if all {
				return true
			}
		}
	}
	if n <= 24 {
		for i := 0; i < n; i++ {
			for j := i; j < n; j++ {
				for k := j; k < n; k++ {
					if c.trivially(goal.Add(facts[i], -1).Add(facts[j], -1).Add(facts[k], -1)) {
						return true
					}
				}
			}
		}
	}
	return false
}

// ProveAt decides goal >= 0 at block b: it must hold on every way into b.
// ProveAtIdx proves goal >= 0 just before instruction idx of block b.
func (c *BCtx) ProveAtIdx(b *ssa.BasicBlock, idx int, goal Lin) bool {
	old := c.qIdx
	c.qIdx = idx
	c.qSet = true
	defer func() { c.qIdx = old; c.qSet = false }()
	return c.ProveAt(b, goal)
}

// ProveAt proves goal >= 0 at the end of block b (or at the position set by ProveAtIdx/IndexSites).
func (c *BCtx) ProveAt(b *ssa.BasicBlock, goal Lin) bool {
	c.qBlk = b
	if !c.qSet {
		c.qIdx = 1 << 30
	}
	defer func() { c.qBlk = nil }()
	for _, cj := range c.factDNF(b, 3) {
		facts := c.strengthen(cj)
		// x != y together with x <= y (or >=) sharpens the inequality by one
		for _, d := range cj.neq {
			if c.proveIn(d, facts) {
				facts = append(facts, d.Add(konst(1), -1))
			}
			nd := d.Scale(-1)
			if c.proveIn(nd, facts) {
				facts = append(facts, nd.Add(konst(1), -1))
			}
		}
		if !c.proveIn(goal, facts) {
			return false
		}
	}
	return true
}

// BoundSite is one index/slice obligation.
type BoundSite struct {
	Site   Site
	Kind   string
	Proved bool
	Need   string
	Desc   string
}

// IndexSites evaluates every index and slice expression of the function.
func (c *BCtx) IndexSites() []BoundSite {
	var out []BoundSite
	defer func() { c.qIdx = 0; c.qSet = false }()
	for _, b := range c.Fn.Blocks {
		for i, in := range b.Instrs {
			c.qIdx = i
			c.qSet = true
			s := Site{c.Fn, b, i, in}
			var x, idx ssa.Value
			kind := ""
			switch v := in.(type) {
			case *ssa.IndexAddr:
				x, idx, kind = v.X, v.Index, "index"
			case *ssa.Index:
				x, idx, kind = v.X, v.Index, "index"
			case *ssa.Lookup:
				if _, ok := v.X.Type().Underlying().(*types.Map); ok {
					continue
				}
				x, idx, kind = v.X, v.Index, "strindex"
			case *ssa.Slice:
				ln := c.LenOf(v.X)
				capOK := false
				if _, isStr := v.X.Type().Underlying().(*types.Basic); !isStr {
					// slices may be extended up to cap; we only accept len unless x is a fresh make
					if ms, ok := v.X.(*ssa.MakeSlice); ok {
						ln = c.Lin(ms.Cap)
						capOK = true
					}
				}
				_ = capOK
				hi := ln
				if v.High != nil {
					hi = c.Lin(v.High)
				}
				lo := konst(0)
				if v.Low != nil {
					lo = c.Lin(v.Low)
				}
				if pt, isPtr := v.X.Type().Underlying().(*types.Pointer); isPtr && v.High == nil && v.Low == nil {
					_ = pt
					out = append(out, BoundSite{s, "slice", true, "", "whole array"})
					continue
				}
				ok1 := c.ProveAt(b, lo)
				ok2 := c.ProveAt(b, hi.Add(lo, -1))
				ok3 := v.High == nil || c.ProveAt(b, ln.Add(hi, -1))
				need := ""
				if !ok1 {
					need += "needs low >= 0 (" + lo.String() + " >= 0); "
				}
				if !ok2 {
					need += "needs low <= high (" + hi.Add(lo, -1).String() + " >= 0); "
				}
				if !ok3 {
					need += "needs high <= len (" + ln.Add(hi, -1).String() + " >= 0); "
				}
				out = append(out, BoundSite{s, "slice", ok1 && ok2 && ok3, need, Desc(v.X)})
				continue
			default:
				continue
			}
			ix := c.Lin(idx)
			ln := c.LenOf(x)
			okLo := c.ProveAt(b, ix)
			okHi := c.ProveAt(b, ln.Add(ix, -1).Add(konst(1), -1))
			need := ""
			if !okLo {
				need += "needs index >= 0 (" + ix.String() + " >= 0); "
			}
			if !okHi {
				need += "needs index < len (" + ln.Add(ix, -1).Add(konst(1), -1).String() + " >= 0); "
			}
			out = append(out, BoundSite{s, kind, okLo && okHi, need, Desc(x) + "[" + Desc(idx) + "]"})
		}
	}
	return out
}

// fillToCapacity recognises `s := make(T, 0, n); for i := 0; i < cap(s); i++ { s = append(s, one) }`:
// the slice phi has the arms make(T,0,n) and append(phi, <one element>), and the append is guarded
// by `j < cap(phi)` for a unit-step counter j that starts at 0 in the same loop header. Then
// len(phi) == j < cap(phi) at every append, so append never reallocates and cap(phi) == n.
func fillToCapacity(ph *ssa.Phi) *ssa.MakeSlice {
	if len(ph.Edges) != 2 {
		return nil
	}
	var ms *ssa.MakeSlice
	var app *ssa.Call
	for _, e := range ph.Edges {
		switch x := e.(type) {
		case *ssa.MakeSlice:
			ms = x
		case *ssa.Call:
			if CalleeName(x) == "builtin.append" {
				app = x
			}
		}
	}
	if ms == nil || app == nil || app.Call.Args[0] != ssa.Value(ph) {
		return nil
	}
	if k, ok := ConstInt(ms.Len); !ok || k != 0 {
		return nil
	}
	if len(variadicElems(app.Call.Args[1])) != 1 {
		return nil
	}
	for _, g := range DomGuards(app.Block()) {
		x, op, y, ok := CmpGuard(g)
		if !ok || op != token.LSS {
			continue
		}
		cp, isc := y.(*ssa.Call)
		if !isc || CalleeName(cp) != "builtin.cap" || cp.Call.Args[0] != ssa.Value(ph) {
			continue
		}
		j, isphi := x.(*ssa.Phi)
		if !isphi || j.Block() != ph.Block() || len(j.Edges) != 2 {
			continue
		}
		zero, inc := false, false
		for _, e := range j.Edges {
			if k, ok := ConstInt(e); ok && k == 0 {
				zero = true
			}
			if b, ok := e.(*ssa.BinOp); ok && b.Op == token.ADD && b.X == ssa.Value(j) {
				if k, ok := ConstInt(b.Y); ok && k == 1 && b.Block() == app.Block() {
					inc = true
				}
			}
		}
		if zero && inc {
			return ms
		}
	}
	return nil
}

// loopUpperInvariants: for p = phi(X, p+1) whose back edge comes from a block dominated by the true
// edge of `p < N` (N defined outside the loop), p <= N holds everywhere provided X <= N holds on
// the entry edge (proved with the facts of the entry predecessor). Run twice so that an inner
// loop's base may use an outer invariant.
func (c *BCtx) loopUpperInvariants() {
	for round := 0; round < 2; round++ {
		for _, b := range c.Fn.Blocks {
			for _, in := range b.Instrs {
				phi, ok := in.(*ssa.Phi)
				if !ok || !isIntType(phi.Type()) || len(phi.Edges) < 2 {
					continue
				}
				var base ssa.Value
				var entry, latch *ssa.BasicBlock
				shape := true
				// leaves of the phi's edges, looking through merge phis inside the loop body
				// (`if cond { continue }; count++` joins count and count+1 before the back edge)
				type leaf struct {
					v    ssa.Value
					from *ssa.BasicBlock
				}
				var leaves []leaf
				var expand func(e ssa.Value, from *ssa.BasicBlock, depth int)
				expand = func(e ssa.Value, from *ssa.BasicBlock, depth int) {
					if q, isphi := e.(*ssa.Phi); isphi && q != phi && depth < 3 && b.Dominates(q.Block()) && q.Block() != b {
						for k2, e2 := range q.Edges {
							expand(e2, q.Block().Preds[k2], depth+1)
						}
						return
					}
					leaves = append(leaves, leaf{e, from})
				}
				for k, e := range phi.Edges {
					expand(e, b.Preds[k], 0)
				}
				for _, lf := range leaves {
					e := lf.v
					if e == ssa.Value(phi) {
						continue // an iteration that leaves the counter alone (`continue`)
					}
					if bo, isb := e.(*ssa.BinOp); isb && bo.Op == token.ADD && bo.X == ssa.Value(phi) {
						if one, isc := ConstInt(bo.Y); isc && one == 1 {
							if latch != nil {
								shape = false
							}
							latch = bo.Block() // the increment is computed under this block's guards
							continue
						}
					}
					if base != nil {
						shape = false
					}
					base, entry = e, lf.from
				}
				if !shape || base == nil || latch == nil || entry == nil {
					continue
				}
				for _, g := range DomGuards(latch) {
					x, op, y, cok := CmpGuard(g)
					if !cok || op != token.LSS || x != ssa.Value(phi) {
						continue
					}
					// N must not change inside the loop: defined in a block that dominates the header
					if yi, isInstr := y.(ssa.Instruction); isInstr && !(yi.Block().Dominates(b) && yi.Block() != b) {
						if _, isCall := y.(*ssa.Call); !isCall || !strings.HasPrefix(CalleeName(y.(*ssa.Call)), "builtin.len") {
							continue
						}
					}
					N := c.Lin(y)
					goal := N.Add(c.Lin(base), -1)
					proved := false
					// facts on the entry edge
					for _, dummy := range []int{0} {
						_ = dummy
						cjs := c.factDNF(entry, 3)
						all := true
						for _, cj := range cjs {
							if iff, isif := entry.Instrs[len(entry.Instrs)-1].(*ssa.If); isif && entry.Succs[0] != entry.Succs[1] {
								c.factsFromGuard(normGuard(Guard{iff.Cond, entry.Succs[0] == b, entry}), &cj, nil)
							}
							facts := c.strengthen(cj)
							for _, d := range cj.neq {
								if c.proveIn(d, facts) {
									facts = append(facts, d.Add(konst(1), -1))
								}
								if nd := d.Scale(-1); c.proveIn(nd, facts) {
									facts = append(facts, nd.Add(konst(1), -1))
								}
							}
							if !c.proveIn(goal, facts) {
								all = false
							}
						}
						proved = all
					}
					if proved {
						f := N.Add(atomL(phi.Name()), -1)
						dup := false
						for _, gq := range c.global {
							if gq.String() == f.String() {
								dup = true
							}
						}
						if !dup {
							c.global = append(c.global, f)
						}
					}
				}
			}
		}
	}
}
