package rv

import (
	"fmt"
	"go/token"
	"go/types"
	"strings"

	"golang.org/x/tools/go/ssa"
)

func init() {
	Registry["C08"] = RuleDef{Module: ".", Run: runC08,
		Technique:   "framing rule on string concatenations that derive a cache identity (operands resolved in SSA; a concatenation of two or more caller-controlled strings needs a length-dependent operand for all but one of them), addressing rule for the two-level maps of the stores, argument-pair rule at the call sites of the CacheStore interface",
		Explanation: "Decides structural necessary conditions of 'different commands, different entries': (R08a) wherever a cache identity is assembled from caller-controlled strings (cmds.CacheKey, cmds.MGetCacheCmd, the SimpleCache adapter's store key), at most one operand of the concatenation is unframed - every other one is accompanied by an operand computed from its length; an unframed concatenation of two arbitrary strings cannot be injective; (R08b) the built-in store and the adapter address entries by store[key] then cache[cmd] with exactly the (key, cmd) pair they were given (Flights: the pair returned by CacheKey for that element); (R08f) a cache entry's identity fields (cmd, kc, ch) are written only while the entry is constructed - entries are never recycled for another command while a waiter may still hold them; (R08c) every caller of CacheStore.Flight/Update/Cancel passes the key and the command identity of the same command in that order (both components of one CacheKey call, or MGetCacheKey/MGetCacheCmd of the same MGET).",
		NotDecided:  "collisions between a read-only script identity and a plain command with the same token text (requires reasoning about the token alphabet); server-side aliasing."}
}

func runC08(r *Report) {
	p := r.P
	// R08a framing
	scope := []*ssa.Function{}
	for _, n := range []string{"rueidis/internal/cmds.CacheKey", "rueidis/internal/cmds.MGetCacheCmd"} {
		if fn := r.FnAnchor("R08a", n); fn != nil {
			scope = append(scope, fn)
		}
	}
	ad := p.Funcs("rueidis.(*adapter).")
	r.Anchor("R08a", "SimpleCache adapter methods (>= 5)", len(ad) >= 5)
	scope = append(scope, ad...)
	// helpers called by the adapter that build strings
	seenFn := map[*ssa.Function]bool{}
	for _, fn := range scope {
		seenFn[fn] = true
	}
	for _, fn := range ad {
		for _, s := range Sites(fn, func(in ssa.Instruction) bool { _, ok := in.(ssa.CallInstruction); return ok }) {
			if c := s.Call().Common().StaticCallee(); c != nil && p.InModule(c) && c.Blocks != nil && !seenFn[c] {
				if c.Signature.Results().Len() == 1 && types.Identical(c.Signature.Results().At(0).Type(), types.Typ[types.String]) {
					seenFn[c] = true
					scope = append(scope, c)
				}
			}
		}
	}
	isDyn := func(v ssa.Value) bool { _, isc := v.(*ssa.Const); return !isc }
	lenDependsOn := func(v, of ssa.Value) bool {
		return DependsOn(v, func(x ssa.Value) bool {
			c, ok := x.(*ssa.Call)
			return ok && CalleeName(c) == "builtin.len" && Same(c.Call.Args[0], of)
		})
	}
	nConcat := 0
	for _, fn := range scope {
		done := map[*ssa.BinOp]bool{}
		for _, b := range fn.Blocks {
			for _, in := range b.Instrs {
				switch x := in.(type) {
				case *ssa.BinOp:
					if x.Op != token.ADD || !types.Identical(x.Type().Underlying(), types.Typ[types.String]) || done[x] {
						continue
					}
					// only the root of a concatenation tree
					isRoot := true
					for _, u := range Uses(x) {
						if bo, ok := u.(*ssa.BinOp); ok && bo.Op == token.ADD {
							isRoot = false
						}
					}
					if !isRoot {
						continue
					}
					var ops []ssa.Value
					var flat func(v ssa.Value)
					flat = func(v ssa.Value) {
						if bo, ok := v.(*ssa.BinOp); ok && bo.Op == token.ADD {
							done[bo] = true
							flat(bo.X)
							flat(bo.Y)
							return
						}
						ops = append(ops, v)
					}
					flat(x)
					nConcat++
					var dyn []ssa.Value
					for _, o := range ops {
						if isDyn(o) {
							dyn = append(dyn, o)
						}
					}
					unframed := 0
					for _, d := range dyn {
						isPrefix := false // an operand that is itself a length rendering is not payload
						for _, other := range dyn {
							if other != d && lenDependsOn(d, other) {
								isPrefix = true
							}
						}
						if isPrefix {
							continue
						}
						framed := false
						for _, o := range ops {
							if o != d && lenDependsOn(o, d) {
								framed = true
							}
						}
						if !framed {
							unframed++
						}
					}
					r.ObSite("R08a", SiteOf(in), "concat", unframed <= 1, fmt.Sprintf("%d caller-controlled operands are concatenated without a length prefix (at most one may be): %s", unframed, DescDeep(x)))
				case *ssa.Call:
					if CalleeName(x) != "strings.(*Builder).WriteString" {
						continue
					}
					arg := x.Call.Args[1]
					if !isDyn(arg) {
						continue
					}
					nConcat++
					inLoop := false
					for _, h := range fn.Blocks {
						if IsLoopHeader(h) && h.Dominates(b) && reachesBlock(b, h) {
							inLoop = true
						}
					}
					if !inLoop {
						// count the dynamic writes on this builder
						nd := 0
						for _, s := range CallSites(fn, "strings.(*Builder).WriteString") {
							if Same(s.Call().Common().Args[0], x.Call.Args[0]) && isDyn(s.Call().Common().Args[1]) {
								nd++
							}
						}
						r.ObSite("R08a", SiteOf(in), "builder-write", nd <= 1, fmt.Sprintf("%d caller-controlled strings are written to one builder without framing", nd))
						continue
					}
					// in a loop: some write in the same loop body must depend on len(arg)
					framed := false
					for _, s := range CallSites(fn, "strings.(*Builder).WriteString", "strings.(*Builder).WriteByte", "strings.(*Builder).Write") {
						if s.Instr != in && s.Block == b && lenDependsOn(s.Call().Common().Args[1], arg) {
							framed = true
						}
					}
					r.ObSite("R08a", SiteOf(in), "builder-write-in-loop", framed, "a variable number of caller-controlled tokens is concatenated without a length prefix per token: different token sequences can yield the same identity")
				}
			}
		}
	}
	r.Anchor("R08a", "identity concatenations (>= 3)", nConcat >= 3)

	// R08d the JSON.MGET identity contains the path argument (two JSON.MGETs with different paths differ)
	if fn := r.FnAnchor("R08d", "rueidis/internal/cmds.MGetCacheCmd"); fn != nil {
		n := 0
		for _, b := range fn.Blocks {
			ret, ok := b.Instrs[len(b.Instrs)-1].(*ssa.Return)
			if !ok {
				continue
			}
			isJ := false
			for _, g := range DomGuards(b) {
				if _, op, y, cok := CmpGuard(g); cok && op == token.EQL {
					if k, isc := ConstInt(y); isc && k == 'J' {
						isJ = true
					}
				}
			}
			if !isJ {
				continue
			}
			n++
			dep := DependsOn(ret.Results[0], func(v ssa.Value) bool {
				ia, ok := v.(*ssa.IndexAddr)
				if !ok {
					return false
				}
				bo, isb := ia.Index.(*ssa.BinOp)
				if !isb || bo.Op != token.SUB {
					return false
				}
				k, isc := ConstInt(bo.Y)
				_, isl := bo.X.(*ssa.Call)
				return isc && k == 1 && isl
			})
			r.ObSite("R08d", SiteOf(ret), "json-identity-includes-path", dep, "the identity of a JSON.MGET element contains the path (last argument)")
		}
		r.Anchor("R08d", "MGetCacheCmd JSON arm", n == 1)
	}

	// R08b addressing
	isKeyMap := func(t types.Type) (lvl int) {
		m, ok := t.Underlying().(*types.Map)
		if !ok {
			return 0
		}
		if b, isb := m.Key().Underlying().(*types.Basic); !isb || b.Kind() != types.String {
			return 0
		}
		e := shortType(m.Elem())
		switch {
		case e == "*rueidis.keyCache" || strings.HasPrefix(e, "map[string]rueidis.CacheEntry"):
			return 1
		case e == "*container/list.Element" || e == "rueidis.CacheEntry":
			return 2
		}
		return 0
	}
	nAddr := 0
	for _, prefix := range []string{"rueidis.(*lru).", "rueidis.(*adapter)."} {
		for _, fn := range p.Funcs(prefix) {
			if fn.Parent() != nil {
				continue
			}
			// (key, cmd) of this function: parameters named by position (string, string) or the
			// components of a CacheKey call
			var keyV, cmdV []ssa.Value
			sp := []*ssa.Parameter{}
			for _, pa := range fn.Params[1:] {
				if types.Identical(pa.Type(), types.Typ[types.String]) {
					sp = append(sp, pa)
				}
			}
			if len(sp) >= 1 {
				keyV = append(keyV, sp[0])
			}
			if len(sp) >= 2 {
				cmdV = append(cmdV, sp[1])
			}
			for _, s := range CallSites(fn, "rueidis/internal/cmds.CacheKey") {
				if k := extractOf(s.Instr.(*ssa.Call), 0); k != nil {
					keyV = append(keyV, k)
				}
				if c := extractOf(s.Instr.(*ssa.Call), 1); c != nil {
					cmdV = append(cmdV, c)
				}
			}
			in := func(v ssa.Value, set []ssa.Value) bool {
				for _, s := range set {
					if v == s {
						return true
					}
				}
				return false
			}
			for _, b := range fn.Blocks {
				for _, instr := range b.Instrs {
					var m, k ssa.Value
					switch x := instr.(type) {
					case *ssa.Lookup:
						m, k = x.X, x.Index
					case *ssa.MapUpdate:
						m, k = x.Map, x.Key
					default:
						continue
					}
					lvl := isKeyMap(m.Type())
					if lvl == 0 {
						continue
					}
					// accesses that do not look an identity up: range-driven walks (delete/purge loops), keys
					// taken from invalidation messages, and the identity stored in an entry itself
					trace := func(v ssa.Value) string {
						switch x := throughLocal(v).(type) {
						case *ssa.Parameter:
							return "param"
						case *ssa.Extract:
							if _, isNext := x.Tuple.(*ssa.Next); isNext {
								return "range"
							}
							if c, isc := x.Tuple.(*ssa.Call); isc && CalleeName(c) == "rueidis/internal/cmds.CacheKey" {
								return "cachekey"
							}
						case *ssa.Call:
							if strings.HasSuffix(CalleeName(x), "RedisMessage).string") {
								return "message"
							}
						case *ssa.UnOp:
							if _, f, _, isf := FieldRef(x.X); isf && (f == "key" || f == "cmd") {
								return "stored-identity"
							}
						}
						return ""
					}
					tk := trace(k)
					if tk == "" {
						nAddr++
						r.ObSite("R08b", SiteOf(instr), fmt.Sprintf("level-%d-identity-traceable", lvl), false, "the entry is addressed by a value that is neither the (key, cmd) pair given by the caller / CacheKey nor a stored identity: "+Desc(k))
						continue
					}
					if tk != "param" && tk != "cachekey" {
						continue
					}
					if len(keyV) == 0 {
						continue
					}
					nAddr++
					ok := lvl == 1 && in(k, keyV) || lvl == 2 && in(k, cmdV)
					r.ObSite("R08b", SiteOf(instr), fmt.Sprintf("level-%d-addressed-by-own-component", lvl), ok, "the first level is addressed by the key and the second by the command identity, as given")
				}
			}
		}
	}
	r.Anchor("R08b", "two-level accesses (>= 12)", nAddr >= 12)

	// R08e batch lookup: the identity used for a position is derived from the command at that position
	if fn0 := r.FnAnchor("R08e", "rueidis.(*lru).Flights"); fn0 != nil {
		n := 0
		for _, fn := range WithHelpers(p, fn0) { // Flights may be split into its two passes
			var resP, entP ssa.Value
			for _, prm := range fn.Params {
				switch shortType(prm.Type()) {
				case "[]rueidis.RedisResult":
					resP = prm
				case "map[int]rueidis.CacheEntry":
					entP = prm
				}
			}
			for _, cs := range CallSites(fn, "rueidis/internal/cmds.CacheKey") {
				_, X, ok := elemOfDeep(cs.Call().Common().Args[0])
				if !ok {
					r.ObSite("R08e", cs, "identity-of-a-batch-element", false, "the identity is not derived from an element of the batch")
					continue
				}
				for _, b := range fn.Blocks {
					if !cs.Block.Dominates(b) {
						continue
					}
					for _, in := range b.Instrs {
						var idx ssa.Value
						switch x := in.(type) {
						case *ssa.Store:
							if ia, isia := x.Addr.(*ssa.IndexAddr); isia && resP != nil && ia.X == resP {
								idx = ia.Index
							}
						case *ssa.MapUpdate:
							if entP != nil && x.Map == entP {
								idx = x.Key
							}
						}
						if idx == nil {
							continue
						}
						// only within the same loop iteration: no loop header strictly between
						n++
						same := idx == X
						if !same {
							// X may be the range index while idx is the loaded range value (missed[t]) or vice versa
							same = throughLocal(idx) == throughLocal(X)
						}
						r.ObSite("R08e", SiteOf(in), "result-slot-matches-identity-position", same, fmt.Sprintf("the result/entry slot filled after looking an identity up is the slot of the command the identity was derived from: identity of %s, slot %s", Desc(X), Desc(idx)))
					}
				}
			}
		}
		r.Anchor("R08e", "Flights: slots filled under an identity (>= 4)", n >= 4)
	}

	// R08f: the identity of a cache entry is fixed at construction. A *cacheEntry is handed to
	// callers as their flight (they may wait on it much later); its cmd, kc and ch fields are written
	// only while it is being built, never on an entry that already exists (no recycling of entries:
	// a late waiter would receive the reply of whatever command the object was given next).
	nId := 0
	for _, f := range []string{"cmd", "kc", "ch"} {
		for _, a := range p.FieldAccesses("rueidis.cacheEntry", f) {
			if !a.Write {
				continue
			}
			nId++
			fresh := false
			if st, ok := a.Instr.(*ssa.Store); ok {
				_, _, base, _ := FieldRef(st.Addr)
				_, fresh = Strip(base).(*ssa.Alloc)
			}
			r.ObSite("R08f", a.Site, "entry-identity-set-only-at-construction:"+f, fresh, "cacheEntry."+f+" is assigned only in the composite literal that creates the entry")
		}
	}
	// ... and no whole-struct overwrite of an existing entry
	for _, fn := range p.Funcs("rueidis.") {
		for _, s := range Sites(fn, func(in ssa.Instruction) bool {
			st, ok := in.(*ssa.Store)
			return ok && shortType(st.Val.Type()) == "rueidis.cacheEntry"
		}) {
			st := s.Instr.(*ssa.Store)
			_, fresh := Strip(st.Addr).(*ssa.Alloc)
			if !fresh {
				nId++
				r.ObSite("R08f", s, "existing-entry-overwritten", false, "an existing cacheEntry is overwritten as a whole (recycled for another command) although callers may still hold it as their flight")
			}
		}
	}
	r.Anchor("R08f", "cacheEntry identity field initialisations (>= 6)", nId >= 6)

	// R08c callers
	nCall := 0
	for _, fn := range p.ModuleFuncs() {
		if !strings.HasPrefix(FuncName(fn), "rueidis.") {
			continue
		}
		for _, s := range Sites(fn, func(in ssa.Instruction) bool {
			c, ok := in.(ssa.CallInstruction)
			if !ok {
				return false
			}
			switch CalleeName(c) {
			case "iface:rueidis.CacheStore.Flight", "iface:rueidis.CacheStore.Update", "iface:rueidis.CacheStore.Cancel":
				return true
			}
			return false
		}) {
			nCall++
			args := s.Call().Common().Args
			k, c := args[0], args[1]
			origin := func(v ssa.Value) (kind string, src ssa.Value) {
				v = throughLocal(v)
				if ex, ok := v.(*ssa.Extract); ok {
					if call, isc := ex.Tuple.(*ssa.Call); isc && CalleeName(call) == "rueidis/internal/cmds.CacheKey" {
						return fmt.Sprintf("CacheKey#%d", ex.Index), call
					}
				}
				if call, ok := v.(*ssa.Call); ok {
					switch CalleeName(call) {
					case "rueidis/internal/cmds.MGetCacheKey":
						return "MGetCacheKey", throughLocal(call.Call.Args[0])
					case "rueidis/internal/cmds.MGetCacheCmd":
						return "MGetCacheCmd", throughLocal(call.Call.Args[0])
					}
				}
				if sl, _, isel := elemOf(v); isel {
					// an argv element of an MGET-family command (keys start right after the name token)
					if sx, iss := sl.(*ssa.Slice); iss {
						if lo, isc := ConstInt(sx.Low); isc && lo == 1 {
							if call, isc := sx.X.(*ssa.Call); isc && strings.HasSuffix(CalleeName(call), ").Commands") {
								return "ArgvKey", nil
							}
						}
					}
				}
				if ph, ok := v.(*ssa.Phi); ok {
					// loop-carried or merged: all edges must agree
					var k0 string
					var s0 ssa.Value
					for i, e := range ph.Edges {
						if e == ssa.Value(ph) {
							continue
						}
						kk, ss := "", ssa.Value(nil)
						if ex, ok := throughLocal(e).(*ssa.Extract); ok {
							if call, isc := ex.Tuple.(*ssa.Call); isc && CalleeName(call) == "rueidis/internal/cmds.CacheKey" {
								kk, ss = fmt.Sprintf("CacheKey#%d", ex.Index), call
							}
						}
						if i == 0 || k0 == "" {
							k0, s0 = kk, ss
						} else if kk != k0 {
							return "mixed", nil
						}
					}
					return k0, s0
				}
				return "other:" + Desc(v), nil
			}
			pairOK := func(k, c ssa.Value) (bool, string, string) {
				kk, ks := origin(k)
				ck, cs := origin(c)
				return kk == "CacheKey#0" && ck == "CacheKey#1" && (ks == cs || ks == nil || cs == nil) ||
					kk == "MGetCacheKey" && ck == "MGetCacheCmd" && Same(ks, cs) ||
					kk == "ArgvKey" && ck == "MGetCacheCmd", kk, ck
			}
			ok, kk, ck := pairOK(k, c)
			if _, isPrm := k.(*ssa.Parameter); !ok && isPrm {
				// an unexported helper that is handed key and identity: decided at each of its call sites
				kv, _, ok1 := paramArgs(p, k)
				cv, _, ok2 := paramArgs(p, c)
				if _, cPrm := c.(*ssa.Parameter); cPrm && ok1 && ok2 && len(kv) == len(cv) && len(kv) > 0 {
					ok = true
					for i := range kv {
						o, a, b := pairOK(kv[i], cv[i])
						if !o {
							ok = false
						}
						kk, ck = "caller:"+a, "caller:"+b
					}
				}
			}
			r.ObSite("R08c", s, "key-and-identity-of-one-command", ok, fmt.Sprintf("the store is given the key and the command identity of the same command, in this order: key from %s, identity from %s", kk, ck))
		}
	}
	r.Anchor("R08c", "CacheStore call sites (>= 10)", nCall >= 10)
}

// throughLocal looks through a load of a single-store local slot.
func throughLocal(v ssa.Value) ssa.Value {
	for i := 0; i < 4; i++ {
		u, ok := v.(*ssa.UnOp)
		if !ok || u.Op != token.MUL {
			return v
		}
		al, ok := u.X.(*ssa.Alloc)
		if !ok {
			return v
		}
		var stored ssa.Value
		n := 0
		for _, use := range Uses(al) {
			if st, isst := use.(*ssa.Store); isst && st.Addr == ssa.Value(al) {
				stored = st.Val
				n++
			}
		}
		if n != 1 {
			return v
		}
		v = stored
	}
	return v
}
