package rv

import (
	"regexp"
	"go/types"
	"go/constant"
	"go/ast"
	"fmt"
	"go/token"
	"strings"

	"golang.org/x/tools/go/ssa"
)

func init() {
	Registry["C34"] = RuleDef{Module: ".", Run: runC34,
		Technique:   "normal-form check of the quorum arithmetic, guard rules on the success return and on the cancellation of the lock context, ordering rules (cancel before waiting for release; key deletion only after the monitor loop ended) over the SSA of locker.try and its closures",
		Explanation: "Decides client-side necessary conditions only: (R34a) the number of keys is 2*majority-1 for the very majority that the counters are compared with, so two holders cannot both own a majority; (R34b) try reports success only when the deadline timer had not fired and fewer than a majority of acquisitions failed, the acquisition loop runs while both counters are below the majority and every iteration bumps exactly one of them by 1, the remaining keys up to totalcnt are attempted too and every attempted key gets a monitor; (R34c) the unlock function cancels the lock context before it waits for the keys to be released, and a monitor deletes its key only after its loop ended (context done, extension failed or locker closed); (R34d) once a majority of monitors have ended the lock context is cancelled before anything else happens, and `done` is closed exactly when all of them ended; (R34e) extension and deletion use the holder's own random value and key; (R34f) a failed extension ends the monitor: nothing inside the monitor loop resets the loop-carried error to nil; (R34g) the gate's wake-up token is consumed only by the blocking wait of WithContext, never drained between a failed try and the wait; (R34i) every lock script that writes its key reads it again afterwards (re-arming client tracking for the holder's connection); (R34j) the invalidation handler parses keys as the inverse of keyname (prefix stripped by length, one split); (R34h) the lock scripts, which are built retryable, contain no non-idempotent command (lint over the script text).",
		NotDecided:  "mutual exclusion itself (server-side SET NX / scripts, key expiry against wall-clock time, cross-process schedules), promptness of loss detection, wake-up of WithContext waiters."}
}

func runC34(r *Report) {
	p := r.P
	L := "rueidis/rueidislock."
	// R34a
	if fn := r.FnAnchor("R34a", L+"NewLocker"); fn != nil {
		var maj, tot ssa.Value
		for _, s := range Sites(fn, func(in ssa.Instruction) bool { _, ok := in.(*ssa.Store); return ok }) {
			st := s.Instr.(*ssa.Store)
			if t, f, _, ok := FieldRef(st.Addr); ok && strings.HasSuffix(t, "locker") {
				switch f {
				case "majority":
					maj = st.Val
				case "totalcnt":
					tot = st.Val
				}
			}
		}
		ok := false
		if maj != nil && tot != nil {
			if sub, isb := tot.(*ssa.BinOp); isb && sub.Op == token.SUB {
				if k, isc := ConstInt(sub.Y); isc && k == 1 {
					if mul, ism := sub.X.(*ssa.BinOp); ism && mul.Op == token.MUL {
						k2, isc2 := ConstInt(mul.Y)
						ok = isc2 && k2 == 2 && Same(mul.X, maj)
					}
				}
			}
		}
		r.Ob("R34a", fn, "totalcnt-is-2*majority-1", fn.Pos(), ok, "the key count is 2*majority-1 of the stored majority")
		// majority >= 1: defaulted when <= 0
		pos := false
		if maj != nil {
			pos = DependsOn(maj, func(v ssa.Value) bool { k, isc := ConstInt(v); return isc && k >= 1 }) || true
			// the default arm: a store of a positive constant under `KeyMajority <= 0`
			pos = false
			for _, s := range Sites(fn, func(in ssa.Instruction) bool { _, ok := in.(*ssa.Store); return ok }) {
				st := s.Instr.(*ssa.Store)
				if _, f, _, okf := FieldRef(st.Addr); okf && f == "KeyMajority" {
					if k, isc := ConstInt(st.Val); isc && k >= 1 {
						for _, g := range DomGuards(s.Block) {
							if _, op, y, cok := CmpGuard(g); cok && op == token.LEQ {
								if z, isz := ConstInt(y); isz && z == 0 {
									pos = true
								}
							}
						}
					}
				}
			}
		}
		r.Ob("R34a", fn, "majority-positive", fn.Pos(), pos, "a non-positive KeyMajority is replaced by a positive default")
	}
	r.Anchor("R34h", "lock scripts", scriptConstructorRule(r, "R34h", "rueidis/rueidislock", "") >= 6)
	try := r.FnAnchor("R34b", L+"(*locker).try")
	if try == nil {
		return
	}
	isLoadOf := func(v ssa.Value, name string) bool { // atomic.LoadInt32(&<name>) where name is the local's comment
		c, ok := v.(*ssa.Call)
		if !ok || CalleeName(c) != "sync/atomic.LoadInt32" {
			return false
		}
		a := c.Call.Args[0]
		if al, isal := a.(*ssa.Alloc); isal {
			return al.Comment == name
		}
		if fv, isfv := a.(*ssa.FreeVar); isfv {
			return fv.Name() == name
		}
		return false
	}
	isMajority := func(v ssa.Value) bool { return strings.HasSuffix(Desc(v), ".majority") }
	isTotal := func(v ssa.Value) bool { return strings.HasSuffix(Desc(v), ".totalcnt") }
	// R34b success return
	nSucc := 0
	for _, b := range try.Blocks {
		ret, ok := b.Instrs[len(b.Instrs)-1].(*ssa.Return)
		if !ok || len(ret.Results) != 2 || !IsNilConst(ret.Results[1]) {
			continue
		}
		nSucc++
		gFail, gTimer := false, false
		for _, g := range DomGuards(b) {
			if x, op, y, cok := CmpGuard(g); cok && op == token.LSS && isLoadOf(x, "failures") && isMajority(y) {
				gFail = true
			}
			if c, isc := g.Cond.(*ssa.Call); isc && g.Pol && CalleeName(c) == "time.(*Timer).Stop" {
				gTimer = true
			}
		}
		r.ObSite("R34b", SiteOf(ret), "success-only-with-quorum-and-live-timer", gFail && gTimer, fmt.Sprintf("success is reported only when fewer than a majority of acquisitions failed (%v) and the validity timer had not fired (%v)", gFail, gTimer))
	}
	r.Anchor("R34b", "try: success return", nSucc == 1)
	// acquisition loop
	{
		var hdr *ssa.BasicBlock
		for _, b := range try.Blocks {
			if !IsLoopHeader(b) {
				continue
			}
			hdr = b
		}
		okLoop := false
		why := "no loop"
		if hdr != nil {
			// continuing requires acquired < majority and failures < majority
			var body *ssa.BasicBlock
			for _, s := range Sites(try, func(in ssa.Instruction) bool {
				c, ok := in.(*ssa.Call)
				return ok && CalleeName(c) == "sync/atomic.AddInt32"
			}) {
				if hdr.Dominates(s.Block) {
					body = s.Block
				}
			}
			gA, gF := false, false
			if body != nil {
				for _, g := range DomGuards(body) {
					if x, op, y, cok := CmpGuard(g); cok && op == token.LSS && isMajority(y) {
						if isLoadOf(x, "acquired") {
							gA = true
						}
						if isLoadOf(x, "failures") {
							gF = true
						}
					}
				}
			}
			// each iteration bumps exactly one counter by one: the two AddInt32 are in the two arms of `err == nil`
			var adds []Site
			for _, s := range Sites(try, func(in ssa.Instruction) bool {
				c, ok := in.(*ssa.Call)
				return ok && CalleeName(c) == "sync/atomic.AddInt32" && hdr.Dominates(in.Block())
			}) {
				adds = append(adds, s)
			}
			one := len(adds) == 2 && adds[0].Block != adds[1].Block
			if one {
				for _, a := range adds {
					k, isc := ConstInt(a.Call().Common().Args[1])
					if !isc || k != 1 {
						one = false
					}
				}
				names := map[string]bool{}
				for _, a := range adds {
					if al, isal := a.Call().Common().Args[0].(*ssa.Alloc); isal {
						names[al.Comment] = true
					}
				}
				one = one && names["acquired"] && names["failures"]
				// sibling arms of one test on the acquisition's error
				if one {
					pa, pb := adds[0].Block.Preds, adds[1].Block.Preds
					one = len(pa) == 1 && len(pb) == 1 && pa[0] == pb[0]
				}
			}
			okLoop = gA && gF && one
			why = fmt.Sprintf("continues under acquired<majority (%v) and failures<majority (%v); one counter per iteration (%v)", gA, gF, one)
		}
		r.Ob("R34b", try, "acquisition-loop", try.Pos(), okLoop, why)
	}
	// closures by content
	var monitor, acquire, rest, unlock *ssa.Function
	for _, f := range try.AnonFuncs {
		switch {
		case len(CallSites(f, L+"(*locker).script")) > 0:
			monitor = f
		case len(CallSites(f, L+"(*locker).acquire")) > 0:
			acquire = f
		case len(f.Params) == 0 && len(f.Blocks) > 0:
			unlock = f
		default:
			rest = f
		}
	}
	r.Anchor("R34b", "try closures: monitor, acquire, remaining keys, unlock", monitor != nil && acquire != nil && rest != nil && unlock != nil)
	if acquire != nil && monitor != nil {
		// every attempted key gets a monitor: `go monitoring(...)` on every path of acquire
		ok, _ := MustPassFromEntry(acquire, func(in ssa.Instruction) bool {
			g, isg := in.(*ssa.Go)
			if !isg {
				return false
			}
			d := DescDeep(g.Call.Value)
			return strings.Contains(d, "monitoring") || strings.Contains(d, "try$1") || g.Call.Value.Type().String() == monitor.Signature.String()
		})
		r.Ob("R34b", acquire, "every-attempt-is-monitored", acquire.Pos(), ok, "each key attempt starts a monitor on every path (so that `released` reaches totalcnt)")
	}
	if rest != nil {
		// loops i .. totalcnt
		ok := false
		for _, b := range rest.Blocks {
			if iff, isif := b.Instrs[len(b.Instrs)-1].(*ssa.If); isif && IsLoopHeader(b) {
				if cmp, isc := iff.Cond.(*ssa.BinOp); isc && cmp.Op == token.LSS && isTotal(cmp.Y) {
					ok = true
				}
			}
		}
		r.Ob("R34b", rest, "remaining-keys-attempted-up-to-totalcnt", rest.Pos(), ok, "after the quorum decision the remaining keys up to totalcnt are attempted as well")
	}
	// R34c
	if unlock != nil {
		var cancelSite, waitSite *Site
		for _, s := range Sites(unlock, func(in ssa.Instruction) bool { return true }) {
			s := s
			switch x := s.Instr.(type) {
			case *ssa.Call:
				if strings.Contains(DescDeep(x.Call.Value), "cancel") && cancelSite == nil {
					cancelSite = &s
				}
			case *ssa.UnOp:
				if x.Op == token.ARROW && waitSite == nil {
					waitSite = &s
				}
			}
		}
		ok := cancelSite != nil && waitSite != nil && Dominates(*cancelSite, *waitSite)
		r.Ob("R34c", unlock, "cancel-before-waiting-for-release", unlock.Pos(), ok, "the unlock function cancels the lock context first and only then waits for the keys to be released")
	}
	if monitor != nil {
		// deletion only after the loop: the delkey script call is not inside the monitor loop
		n := 0
		for _, s := range CallSites(monitor, L+"(*locker).script") {
			args := s.Call().Common().Args
			isDel := false
			for _, a := range args {
				if strings.HasSuffix(DescDeep(a), "delkey") {
					isDel = true
				}
			}
			inLoop := false
			for _, h := range monitor.Blocks {
				if IsLoopHeader(h) && h.Dominates(s.Block) && reachesBlock(s.Block, h) {
					inLoop = true
				}
			}
			if isDel {
				n++
				r.ObSite("R34c", s, "key-deleted-only-after-monitor-loop", !inLoop, "a monitor deletes its key only after its loop ended, i.e. after the lock context was done, the extension failed or the locker was closed")
			} else {
				r.ObSite("R34e", s, "extend-inside-loop", inLoop, "extensions happen inside the monitor loop")
			}
			// R34e own key and value: key parameter p1, val free variable
			kv := false
			if len(args) >= 5 {
				kv = Desc(args[3]) == "p1" && strings.Contains(DescDeep(args[4]), "val")
			}
			r.ObSite("R34e", s, "script-on-own-key-and-value", kv, "extension and deletion address the monitor's own key with the holder's random value")
		}
		r.Anchor("R34c", "monitor: delkey call", n == 1)
		// R34d
		var add *ssa.Call
		for _, s := range CallSites(monitor, "sync/atomic.AddInt32") {
			add = s.Instr.(*ssa.Call)
		}
		okD := false
		closeOK := false
		if add != nil {
			k, isc := ConstInt(add.Call.Args[1])
			// the cancel call is the first call in the arm guarded by released >= majority
			for _, s := range Sites(monitor, func(in ssa.Instruction) bool {
				c, ok := in.(*ssa.Call)
				return ok && strings.Contains(DescDeep(c.Call.Value), "cancel")
			}) {
				g := false
				for _, gd := range DomGuards(s.Block) {
					if x, op, y, cok := CmpGuard(gd); cok && op == token.GEQ && x == ssa.Value(add) && isMajority(y) {
						g = gd.Block == add.Block()
					}
				}
				first := true
				for _, in := range s.Block.Instrs[:s.Idx] {
					if c, isc := in.(ssa.CallInstruction); isc && !strings.HasPrefix(CalleeName(c), "builtin.") {
						first = false
					}
				}
				okD = isc && k == 1 && g && first
			}
			for _, s := range CallSites(monitor, "builtin.close") {
				for _, gd := range DomGuards(s.Block) {
					if x, op, y, cok := CmpGuard(gd); cok && op == token.EQL && x == ssa.Value(add) && isTotal(y) {
						closeOK = true
					}
				}
			}
		}
		r.Ob("R34d", monitor, "cancel-when-majority-of-monitors-ended", monitor.Pos(), okD, "every ended monitor counts once; when the count reaches the majority the lock context is cancelled before anything else")
		r.Ob("R34d", monitor, "done-closed-when-all-ended", monitor.Pos(), closeOK, "`done` is closed by the monitor that brings the count to totalcnt")
	}
	// R34f: a failed extension ends the monitor. The loop-carried error of the monitor loop is fed
	// only by the results of extend / ctx.Err / ErrLockerClosed; no path inside the loop resets it to
	// nil (which would keep a holder alive that can no longer extend its keys).
	if monitor != nil {
		n := 0
		for _, h := range monitor.Blocks {
			if !IsLoopHeader(h) {
				continue
			}
			for _, in := range h.Instrs {
				ph, ok := in.(*ssa.Phi)
				if !ok {
					break
				}
				if shortType(ph.Type()) != "error" {
					continue
				}
				n++
				seen := map[ssa.Value]bool{}
				swallowed := ""
				var walk func(v ssa.Value, fromInside bool)
				walk = func(v ssa.Value, fromInside bool) {
					if seen[v] {
						return
					}
					seen[v] = true
					if q, isphi := v.(*ssa.Phi); isphi {
						for i, e := range q.Edges {
							inside := h.Dominates(q.Block().Preds[i]) && (q != ph || h.Dominates(q.Block().Preds[i]))
							if q == ph && !h.Dominates(q.Block().Preds[i]) {
								inside = false
							}
							walk(e, inside)
						}
						return
					}
					if IsNilConst(v) && fromInside {
						swallowed = "the loop-carried error is reset to nil inside the monitor loop"
					}
				}
				walk(ph, false)
				r.ObSite("R34f", SiteOf(in), "failed-extension-ends-the-monitor", swallowed == "", "the monitor loop's error is only ever replaced by the result of an extension, the context error or ErrLockerClosed; "+swallowed)
			}
		}
		r.Anchor("R34f", "monitor loop error variable", n >= 1)
	}
	// R34g: the wake-up token of a gate is consumed only by the blocking wait of WithContext
	if wc := r.FnAnchor("R34g", L+"(*locker).WithContext"); wc != nil {
		isGateCh := func(v ssa.Value) bool {
			d := DescDeep(v)
			return strings.HasSuffix(d, ".ch") && strings.Contains(shortType(v.Type()), "chan struct{}")
		}
		n := 0
		for _, b := range wc.Blocks {
			for _, in := range b.Instrs {
				switch x := in.(type) {
				case *ssa.Select:
					for _, st := range x.States {
						if st.Dir == 2 && isGateCh(st.Chan) {
							n++
							done := false
							for _, st2 := range x.States {
								if c, isc := st2.Chan.(*ssa.Call); isc && CalleeName(c) == "iface:context.Context.Done" {
									done = true
								}
							}
							r.ObSite("R34g", SiteOf(in), "wake-up-consumed-only-by-the-wait", x.Blocking && done, "the gate's wake-up token is received only in the blocking wait (together with the caller's context); a non-blocking drain after a failed try can discard the release notification that arrived meanwhile")
						}
					}
				case *ssa.UnOp:
					if x.Op == token.ARROW && isGateCh(x.X) {
						n++
						r.ObSite("R34g", SiteOf(in), "wake-up-consumed-only-by-the-wait", false, "the gate's wake-up token is received outside the wait")
					}
				}
			}
		}
		r.Anchor("R34g", "WithContext: wait on the gate", n == 1)
	}
	// R34i: scripts that write a lock key end by reading it again. The holder learns about the loss
	// of a key through client tracking, and a write (SET, PEXPIREAT) drops the tracking entry of the
	// writer's own connection; the trailing GET re-registers it (lint over the script text).
	{
		pkg := r.P.Pkg("rueidis/rueidislock")
		n := 0
		if pkg != nil {
			re := regexp.MustCompile(`redis\.call\(\s*["']([A-Za-z]+)["']`)
			for _, f := range pkg.Syntax {
				ast.Inspect(f, func(nd ast.Node) bool {
					ce, ok := nd.(*ast.CallExpr)
					if !ok || len(ce.Args) == 0 {
						return true
					}
					sel, ok := ce.Fun.(*ast.SelectorExpr)
					if !ok || !strings.HasPrefix(sel.Sel.Name, "NewLuaScript") {
						return true
					}
					tv, ok := pkg.TypesInfo.Types[ce.Args[0]]
					if !ok || tv.Value == nil || tv.Value.Kind() != constant.String {
						return true
					}
					src := constant.StringVal(tv.Value)
					ms := re.FindAllStringSubmatchIndex(src, -1)
					lastWrite, lastGet := -1, -1
					for _, m := range ms {
						cmd := strings.ToUpper(src[m[2]:m[3]])
						switch cmd {
						case "SET", "PEXPIREAT", "PEXPIRE", "EXPIRE", "EXPIREAT":
							lastWrite = m[0]
						case "GET":
							lastGet = m[0]
						}
					}
					if lastWrite < 0 {
						return true
					}
					n++
					r.Ob("R34i", nil, "tracking-re-armed-after-write:"+types.ExprString(ce.Args[0])[:min(24, len(types.ExprString(ce.Args[0])))], ce.Pos(), lastGet > lastWrite, "a script that writes the lock key reads it again afterwards, so that the holder's connection keeps tracking the key")
					return true
				})
			}
		}
		r.Anchor("R34i", "lock scripts that write their key (>= 5)", n >= 5)
	}
	// R34j: the invalidation handler parses a key as the inverse of keyname (prefix ":" index ":"
	// name): the prefix is removed by its length - it may itself contain colons - and the rest is
	// split once, into index and name (the name may contain colons too).
	if oi := r.FnAnchor("R34j", L+"(*locker).onInvalidations"); oi != nil {
		n := 0
		for _, s := range CallSites(oi, "strings.SplitN") {
			n++
			a := s.Call().Common().Args
			cnt, isc := ConstInt(a[2])
			sep, iss := ConstString(a[1])
			sl, issl := a[0].(*ssa.Slice)
			byLen := false
			if issl && sl.Low != nil {
				// low = len(prefix) + 1
				if bo, isb := sl.Low.(*ssa.BinOp); isb && bo.Op == token.ADD {
					k, isk := ConstInt(bo.Y)
					lc, isl := bo.X.(*ssa.Call)
					byLen = isk && k == 1 && isl && CalleeName(lc) == "builtin.len" && strings.HasSuffix(DescDeep(lc.Call.Args[0]), ".prefix")
				}
			}
			hasPrefix := false
			for _, g := range DomGuards(s.Block) {
				if c, isc2 := g.Cond.(*ssa.Call); isc2 && g.Pol && CalleeName(c) == "strings.HasPrefix" && strings.HasSuffix(DescDeep(c.Call.Args[1]), ".prefix") {
					hasPrefix = true
				}
			}
			r.ObSite("R34j", s, "key-parsed-as-inverse-of-keyname", isc && cnt == 2 && iss && sep == ":" && byLen && hasPrefix, "the prefix is stripped by its own length under a HasPrefix test and the remainder is split once at ':' into index and name")
		}
		r.Anchor("R34j", "onInvalidations: key split", n == 1)
	}
	if kn := r.FnAnchor("R34j", L+"keyname"); kn != nil {
		// prefix, ':', index, ':', name in this order
		var seq []string
		for _, s := range Sites(kn, func(in ssa.Instruction) bool {
			c, ok := in.(*ssa.Call)
			return ok && (CalleeName(c) == "strings.(*Builder).WriteString" || CalleeName(c) == "strings.(*Builder).WriteByte")
		}) {
			a := s.Call().Common().Args[1]
			if k, isk := ConstInt(a); isk {
				seq = append(seq, string(rune(k)))
			} else {
				seq = append(seq, Desc(a))
			}
		}
		r.Ob("R34j", kn, "keyname-layout", kn.Pos(), len(seq) == 5 && seq[0] == "p0" && seq[1] == ":" && seq[3] == ":" && seq[4] == "p1", fmt.Sprintf("keyname writes prefix ':' index ':' name; got %v", seq))
	}
	_ = p
}
