package rv

import (
	"fmt"
	"go/token"
	"strings"

	"golang.org/x/tools/go/ssa"
)

func init() {
	Registry["C04"] = RuleDef{Module: ".", Run: runC04,
		Technique:   "must-pass (post-dominance style) rules on every teardown path, sibling comparison of the multiplexer's request methods, pairing rule for the single-flight connect latch, guard rules on the stores' Close",
		Explanation: "Decides that every wake-up mechanism the property lists is wired on every path: (R04a) after the reader exits, _background always closes the three subscription registries, swaps out and closes the Pub/Sub hook channel, closes the cache store, calls both invalidation callbacks with nil, drains the queue while calls are in flight, waits for the writer and publishes the final state; (R04b) _exit latches the error, closes the socket and runs the close hook on every path; (R04c) the failure arms of the synchronous paths latch the error, close the socket and start the background cleanup; (R04d) every request method of the multiplexer that uses a shared wire tests isBroken on its result and resets the slot to the initial wire, the blocking paths close an errored wire and always give it back, and the single-flight connect latch taken in _pipe is released on every path of its owner; (R04e) lru.Close / adapter.Close / subs.Close fail or close every pending waiter and disable further flights, and Flight creates no flight after Close; (R04f) the keep-alive watchdog turns a missing PONG into a deadline error and every unresolved error reaches _exit; (R04g) pipe.Close latches ErrClosing before changing state and always closes the socket and the secondary RESP2 Pub/Sub pipe; mux.Close marks every slot dead before closing the previous wire and both pools. (R04h-state) the connection state is written only by its owners - background (0->1), the workers' failure exit (1->2 on a lost connection), the worker's end (4) and Close (0->2/1->2) - and Close, when it moved the pipe to stopping, queues a PING behind the requests in flight and waits for it before closing the socket, so that a lifetime expiry or Close does not fail (and make the clients re-send) requests that were already written. (R04i) the blocking-command marker consulted by the keep-alive watchdog is released on any reply and kept only on a transport error; (R04j) the hand-over to the background worker after a synchronous exchange is judged by the state seen on entry.",
		NotDecided:  "that the peer's failure is detected by the OS/network; wake-up timing of Receive and blocking commands; interleavings between Close and in-flight calls."}
}

func runC04(r *Report) {
	const P = "rueidis.(*pipe)."
	// R04a
	if bg := r.FnAnchor("R04a", P+"_background"); bg != nil {
		starts := CallSites(bg, P+"_backgroundRead")
		if r.Anchor("R04a", "_backgroundRead call in _background", len(starts) == 1) {
			st := starts[0]
			must := func(desc string, hit func(ssa.Instruction) bool, nilField string) {
				var edge func(*ssa.BasicBlock, int) bool
				if nilField != "" {
					edge = NilTestEdge(nilField)
				}
				// a teardown step may live in an unexported helper of the package that _background calls
				// synchronously: the call counts when every path of the helper performs the step
				deep := func(in ssa.Instruction) bool {
					if hit(in) {
						return true
					}
					c, isc := in.(*ssa.Call)
					if !isc {
						return false
					}
					callee := c.Call.StaticCallee()
					if callee == nil || callee.Blocks == nil || callee.Pkg != bg.Pkg || isExportedName(callee.Name()) || callee == bg {
						return false
					}
					return MustPassOrEdge(Site{callee, callee.Blocks[0], -1, nil}, hit, edge)
				}
				ok := MustPassOrEdge(st, deep, edge)
				why := "after the reader exits, every path of _background must " + desc
				if nilField != "" {
					why += " (unless " + nilField[1:] + " is nil)"
				}
				r.ObSite("R04a", st, "teardown:"+desc, ok, why)
			}
			for _, reg := range []string{"nsubs", "psubs", "ssubs"} {
				reg := reg
				must("close the "+reg+" registry", func(in ssa.Instruction) bool {
					c, ok := CallTo(in, "rueidis.(*subs).Close")
					return ok && strings.HasSuffix(DescDeep(c.Common().Args[0]), "."+reg)
				}, "")
			}
			must("swap out the Pub/Sub hooks", func(in ssa.Instruction) bool {
				c, ok := in.(*ssa.Call)
				return ok && strings.Contains(CalleeName(c), ").Swap") && strings.Contains(DescDeep(c), ".pshks")
			}, "")
			must("close the previous hook channel", func(in ssa.Instruction) bool {
				c, ok := CallTo(in, "builtin.close")
				return ok && strings.HasSuffix(DescDeep(c.Common().Args[0]), ".close")
			}, ".close")
			must("close the cache store", func(in ssa.Instruction) bool { _, ok := CallTo(in, "iface:rueidis.CacheStore.Close"); return ok }, ".cache")
			must("call the option's invalidation callback with nil", func(in ssa.Instruction) bool {
				c, ok := in.(*ssa.Call)
				return ok && c.Call.StaticCallee() == nil && !c.Call.IsInvoke() && strings.HasSuffix(ValueDescThroughParam(c.Call.Value), ".onInvalidations") && !strings.HasSuffix(ValueDescThroughParam(c.Call.Value), ".hooks.onInvalidations") && len(c.Call.Args) == 1 && IsNilConst(c.Call.Args[0])
			}, ".onInvalidations")
			must("call the hook's invalidation callback with nil", func(in ssa.Instruction) bool {
				c, ok := in.(*ssa.Call)
				return ok && c.Call.StaticCallee() == nil && !c.Call.IsInvoke() && strings.HasSuffix(ValueDescThroughParam(c.Call.Value), ".hooks.onInvalidations") && len(c.Call.Args) == 1 && IsNilConst(c.Call.Args[0])
			}, ".hooks.onInvalidations")
			must("wait for the writer to exit", func(in ssa.Instruction) bool {
				u, ok := in.(*ssa.UnOp)
				return ok && u.Op == token.ARROW && strings.HasSuffix(DescDeep(u.X), ".close") && strings.Contains(shortType(u.X.Type()), "chan struct{}") && !u.CommaOk
			}, "")
			must("publish the final state", func(in ssa.Instruction) bool {
				c, ok := CallTo(in, "sync/atomic.StoreInt32")
				if !ok {
					return false
				}
				k, isc := ConstInt(c.Common().Args[1])
				return isc && k == 4 && strings.HasSuffix(DescDeep(c.Common().Args[0]), ".state")
			}, "")
			// drain loop: while loadWaits() != 0, entries from NextResultCh are failed and released
			drain := false
			// the drain loop may have been extracted into an unexported helper that _background must pass
			drainFns := map[*ssa.Function]*ssa.BasicBlock{bg: nil}
			for _, cs := range Sites(bg, func(in ssa.Instruction) bool { _, ok := in.(*ssa.Call); return ok }) {
				callee := cs.Call().Common().StaticCallee()
				if callee == nil || callee.Blocks == nil || callee.Pkg != bg.Pkg || isExportedName(callee.Name()) || callee == bg {
					continue
				}
				if mp, _ := MustPass(st, func(in ssa.Instruction) bool { return in == cs.Instr }); mp {
					drainFns[callee] = cs.Block
				}
			}
			for dfn, via := range drainFns {
				for _, b := range dfn.Blocks {
					if !IsLoopHeader(b) {
						continue
					}
					iff, ok := b.Instrs[len(b.Instrs)-1].(*ssa.If)
					if !ok || !strings.Contains(DescDeep(iff.Cond), "loadWaits") {
						continue
					}
					nr, fr := false, false
					for _, bb := range dfn.Blocks {
						if b.Dominates(bb) && reachesBlock(bb, b) {
							for _, in := range bb.Instrs {
								if _, is := CallTo(in, "iface:rueidis.queue.NextResultCh"); is {
									nr = true
								}
								if _, is := CallTo(in, "iface:rueidis.queue.FinishResult"); is {
									fr = true
								}
							}
						}
					}
					if dfn == bg {
						drain = drain || (nr && fr && reachesBlock(st.Block, b))
					} else {
						// every path of the helper enters the loop header
						hdr := b
						mp, _ := MustPassFromEntry(dfn, func(in ssa.Instruction) bool { return in.Block() == hdr })
						drain = drain || (nr && fr && mp && via != nil)
					}
				}
			}
			r.ObSite("R04a", st, "teardown:drain pending calls", drain, "after the reader exits, _background keeps failing and releasing queue entries while calls are in flight (loadWaits() != 0)")
		}
	}
	// R04b
	if ex := r.FnAnchor("R04b", P+"_exit"); ex != nil {
		for desc, hit := range map[string]func(ssa.Instruction) bool{
			"latch the error": func(in ssa.Instruction) bool {
				c, ok := in.(*ssa.Call)
				return ok && strings.Contains(CalleeName(c), ").CompareAndSwap") && strings.Contains(DescDeep(c), ".error")
			},
			"close the socket": func(in ssa.Instruction) bool { _, ok := CallTo(in, "iface:net.Conn.Close"); return ok },
			"run the close hook": func(in ssa.Instruction) bool {
				c, ok := in.(*ssa.Call)
				return ok && c.Call.StaticCallee() == nil && !c.Call.IsInvoke() && strings.Contains(DescDeep(c.Call.Value), ".clhks")
			},
		} {
			ok, _ := MustPassFromEntry(ex, hit)
			r.Ob("R04b", ex, "exit:"+desc, ex.Pos(), ok, "_exit must "+desc+" on every path")
		}
	}
	// R04c
	for _, n := range []string{"syncDo", "syncDoMulti", "DoStream", "DoMultiStream"} {
		fn := r.FnAnchor("R04c", P+n)
		if fn == nil {
			continue
		}
		// every call of p.background() in these functions follows the error latch and the socket close
		bgs := CallSites(fn, P+"background")
		errArm := 0
		for _, s := range bgs {
			cas, cls := false, false
			for i := 0; i < s.Idx; i++ {
				in := s.Block.Instrs[i]
				if c, ok := in.(*ssa.Call); ok {
					if strings.Contains(CalleeName(c), ").CompareAndSwap") && strings.Contains(DescDeep(c), ".error") {
						cas = true
					}
					if CalleeName(c) == "iface:net.Conn.Close" {
						cls = true
					}
				}
			}
			if !cas && !cls {
				continue // a background() call that only switches to pipelining
			}
			errArm++
			r.ObSite("R04c", s, "failure-arm-complete", cas && cls, "a failed synchronous exchange latches the error, closes the socket and starts the background cleanup")
		}
		// every I/O error test leads to such an arm
		for _, b := range fn.Blocks {
			iff, ok := b.Instrs[len(b.Instrs)-1].(*ssa.If)
			if !ok {
				continue
			}
			x, op, y, cok := CmpGuard(normGuard(Guard{iff.Cond, true, b}))
			if !cok || op != token.NEQ || !IsNilConst(y) || shortType(x.Type()) != "error" {
				continue
			}
			io := DependsOn(x, func(v ssa.Value) bool {
				c, isc := v.(*ssa.Call)
				if !isc {
					return false
				}
				n := CalleeName(c)
				return n == "rueidis.flushCmd" || n == "rueidis.syncRead" || n == "bufio.(*Writer).Flush" || n == "rueidis.writeCmd" || n == "rueidis.readNextMessage"
			})
			if !io {
				continue
			}
			okArm := MustPassOrEdge(Site{fn, b.Succs[0], -1, nil}, func(in ssa.Instruction) bool { _, is := CallTo(in, P+"background"); return is }, nil)
			r.ObSite("R04c", Site{fn, b, len(b.Instrs) - 1, iff}, "io-error-reaches-cleanup", okArm, "every I/O error of the synchronous path must reach the cleanup (error latch, close, background)")
		}
		r.Anchor("R04c", P+n+": failure arm", errArm >= 1)
	}
	// R04d mux siblings
	for _, n := range []string{"pipeline", "pipelineMulti", "DoCache", "doMultiCache", "Receive"} {
		fn := r.FnAnchor("R04d", "rueidis.(*mux)."+n)
		if fn == nil {
			continue
		}
		ws := CallSites(fn, "rueidis.(*mux).pipe")
		if !r.Anchor("R04d", "mux."+n+": wire from m.pipe", len(ws) == 1) {
			continue
		}
		w := ws[0].Instr.(ssa.Value)
		brs := CallSites(fn, "rueidis.isBroken")
		okB := len(brs) >= 1
		for _, b := range brs {
			if Strip(b.Call().Common().Args[1]) != w {
				okB = false
			}
		}
		okReset := false
		for _, s := range Sites(fn, func(in ssa.Instruction) bool {
			c, ok := in.(*ssa.Call)
			return ok && strings.Contains(CalleeName(c), ").CompareAndSwap") && strings.Contains(DescDeep(c), ".wire")
		}) {
			args := s.Call().Common().Args
			if Strip(args[1]) == w && strings.HasSuffix(DescDeep(args[2]), ".init") {
				okReset = Guarded(s.Block, func(g Guard) bool {
					c, ok := g.Cond.(*ssa.Call)
					return ok && g.Pol && CalleeName(c) == "rueidis.isBroken"
				})
			}
		}
		if !(okB && okReset) {
			// the test-and-reset may be a shared unexported mux method that is handed the wire
			for _, cs := range Sites(fn, func(in ssa.Instruction) bool { _, ok := in.(*ssa.Call); return ok }) {
				call := cs.Instr.(*ssa.Call)
				h := call.Call.StaticCallee()
				if h == nil || h.Blocks == nil || isExportedName(h.Name()) || !strings.HasPrefix(FuncName(h), "rueidis.(*mux).") {
					continue
				}
				var wp ssa.Value
				for k, a := range call.Call.Args {
					if Strip(a) == w && k < len(h.Params) {
						wp = h.Params[k]
					}
				}
				if wp == nil {
					continue
				}
				hb, hr := false, false
				for _, b := range CallSites(h, "rueidis.isBroken") {
					if Strip(b.Call().Common().Args[1]) == wp {
						hb = true
					}
				}
				for _, s := range Sites(h, func(in ssa.Instruction) bool {
					c, ok := in.(*ssa.Call)
					return ok && strings.Contains(CalleeName(c), ").CompareAndSwap") && strings.Contains(DescDeep(c), ".wire")
				}) {
					args := s.Call().Common().Args
					if Strip(args[1]) == wp && strings.HasSuffix(DescDeep(args[2]), ".init") {
						hr = Guarded(s.Block, func(g Guard) bool {
							c, ok := g.Cond.(*ssa.Call)
							return ok && g.Pol && CalleeName(c) == "rueidis.isBroken"
						})
					}
				}
				if hb && hr {
					okB, okReset = true, true
				}
			}
		}
		r.Ob("R04d", fn, "broken-wire-resets-slot", fn.Pos(), okB && okReset, "mux."+n+" must test isBroken(result, wire) and put the initial wire back into the slot so that later calls dial afresh")
	}
	for _, n := range []string{"blocking", "blockingMulti"} {
		fn := r.FnAnchor("R04d", "rueidis.(*mux)."+n)
		if fn == nil {
			continue
		}
		okClose := false
		for _, s := range CallSites(fn, "iface:rueidis.wire.Close") {
			okClose = Guarded(s.Block, func(g Guard) bool {
				x, op, y, ok := CmpGuard(g)
				return ok && op == token.NEQ && IsNilConst(y) && strings.Contains(Desc(x), "NonRedisError")
			})
		}
		okStore, _ := MustPassFromEntry(fn, func(in ssa.Instruction) bool { _, is := CallTo(in, "rueidis.(*pool).Store"); return is })
		r.Ob("R04d", fn, "errored-wire-closed-and-returned", fn.Pos(), okClose && okStore, "a dedicated wire whose command ended with a transport error is closed, and the wire is always given back to the pool")
	}
	if fn := r.FnAnchor("R04d", "rueidis.(*mux)._pipe"); fn != nil {
		adds := CallSites(fn, "sync.(*WaitGroup).Add")
		r.Anchor("R04d", "single-flight latch in mux._pipe", len(adds) == 1)
		for _, s := range adds {
			// the owner is the caller that found no latch: prune edges inconsistent with `sc == nil`
			var scVal ssa.Value
			for _, g := range DomGuards(s.Block) {
				x, op, y, ok := CmpGuard(g)
				if ok && op == token.EQL && IsNilConst(y) && strings.HasSuffix(DescDeep(x), ".sc") {
					scVal = x
				}
			}
			prune := func(from *ssa.BasicBlock, succ int) bool {
				iff, ok := from.Instrs[len(from.Instrs)-1].(*ssa.If)
				if !ok || scVal == nil {
					return false
				}
				g := normGuard(Guard{iff.Cond, succ == 0, from})
				x, op, y, cok := CmpGuard(g)
				// the edge on which the (same) latch value is non-nil is infeasible for the owner
				return cok && op == token.NEQ && IsNilConst(y) && (x == scVal || Same(x, scVal))
			}
			done := MustPassOrEdge(s, func(in ssa.Instruction) bool { _, is := CallTo(in, "sync.(*WaitGroup).Done"); return is }, prune)
			cleared := MustPassOrEdge(s, func(in ssa.Instruction) bool {
				st, ok := in.(*ssa.Store)
				return ok && IsNilConst(st.Val) && strings.HasSuffix(DescDeep(st.Addr), ".sc")
			}, prune)
			r.ObSite("R04d", s, "connect-latch-released", done && cleared, "the caller that installs the single-flight connect latch must clear it and signal Done on every path; otherwise every later call on that slot waits forever and nobody dials again")
		}
	}
	// R04e stores
	if fn := r.FnAnchor("R04e", "rueidis.(*lru).Close"); fn != nil {
		closes := CallSites(fn, "builtin.close")
		okc := len(closes) == 1
		for _, s := range closes {
			okc = okc && Guarded(s.Block, func(g Guard) bool { pend, is := isTypZero(g); return is && pend })
		}
		nils := 0
		for _, f := range []string{"store", "list"} {
			for _, a := range FieldAccessesIn(fn, "rueidis.lru", f) {
				if st, ok := a.Instr.(*ssa.Store); ok && IsNilConst(st.Val) {
					if okp, _ := MustPassFromEntry(fn, func(in ssa.Instruction) bool { return in == a.Instr }); okp {
						nils++
					}
				}
			}
		}
		r.Ob("R04e", fn, "lru-close-fails-flights", fn.Pos(), okc && nils == 2, "lru.Close closes the channel of every in-flight entry and drops the containers so that no flight is created afterwards")
	}
	if fn := r.FnAnchor("R04e", "rueidis.(*lru).Flight"); fn != nil {
		for _, s := range CallSites(fn, "container/list.(*List).PushBack") {
			ok := Guarded(s.Block, func(g Guard) bool {
				x, op, y, cok := CmpGuard(g)
				if cok && op == token.NEQ && IsNilConst(y) && strings.HasSuffix(DescDeep(x), ".store") {
					return true
				}
				// `kc, ok = c.store[key]; ok` found: the store exists
				ex, isx := g.Cond.(*ssa.Extract)
				return isx && g.Pol && ex.Index == 1
			})
			r.ObSite("R04e", s, "no-flight-after-close", ok, "a flight is created only while the store exists (not after Close)")
		}
	}
	if fn := r.FnAnchor("R04e", "rueidis.(*adapter).Close"); fn != nil {
		setNil := false
		for _, a := range FieldAccessesIn(fn, "rueidis.adapter", "flights") {
			if st, ok := a.Instr.(*ssa.Store); ok && IsNilConst(st.Val) {
				setNil = true
			}
		}
		sets := CallSites(fn, "rueidis.(*adapterEntry).set")
		okSet := len(sets) == 1
		for _, s := range sets {
			okSet = okSet && !IsNilConst(s.Call().Common().Args[2])
		}
		r.Ob("R04e", fn, "adapter-close-fails-flights", fn.Pos(), setNil && okSet, "adapter.Close detaches the flights table and completes every pending flight with the error")
	}
	if fn := r.FnAnchor("R04e", "rueidis.(*adapter).Flight"); fn != nil {
		n := 0
		for _, b := range fn.Blocks {
			for i, in := range b.Instrs {
				mu, ok := in.(*ssa.MapUpdate)
				if !ok {
					continue
				}
				if _, isAlloc := Strip(mu.Value).(*ssa.Alloc); !isAlloc {
					continue
				}
				n++
				okG := Guarded(b, func(g Guard) bool {
					x, op, y, cok := CmpGuard(g)
					return cok && op == token.NEQ && IsNilConst(y) && strings.Contains(shortType(x.Type()), "map[")
				})
				r.ObSite("R04e", Site{fn, b, i, in}, "no-flight-after-close", okG, "the adapter creates a flight only while its flights table exists")
			}
		}
		r.Anchor("R04e", "flight insertion in adapter.Flight", n >= 1)
	}
	if fn := r.FnAnchor("R04e", "rueidis.(*subs).Close"); fn != nil {
		inLoop := false
		for _, s := range CallSites(fn, "builtin.close") {
			for _, h := range fn.Blocks {
				if IsLoopHeader(h) && h.Dominates(s.Block) {
					inLoop = true
				}
			}
		}
		nils := 0
		for _, f := range []string{"chs", "sub"} {
			for _, a := range FieldAccessesIn(fn, "rueidis.subs", f) {
				if st, ok := a.Instr.(*ssa.Store); ok && IsNilConst(st.Val) {
					nils++
				}
			}
		}
		r.Ob("R04e", fn, "subs-close-closes-every-subscription", fn.Pos(), inLoop && nils == 2, "subs.Close detaches the registry and closes the channel of every subscription (waking every Receive)")
	}
	// R04f watchdog
	if fn := r.FnAnchor("R04f", P+"backgroundPing$1"); fn != nil {
		dl := false
		for _, f := range WithHelpers(r.P, fn) { // the ping-with-timeout block may be a method of its own
			for _, b := range f.Blocks {
				for _, in := range b.Instrs {
					if u, ok := in.(*ssa.UnOp); ok && u.Op == token.MUL && strings.HasSuffix(Desc(u), "os.ErrDeadlineExceeded") {
						dl = true
					}
				}
			}
		}
		exits := CallSites(fn, P+"_exit")
		okExit := len(exits) == 1
		for _, s := range exits {
			okExit = okExit && Guarded(s.Block, func(g Guard) bool {
				x, op, y, ok := CmpGuard(g)
				return ok && op == token.NEQ && IsNilConst(y) && shortType(x.Type()) == "error"
			})
		}
		// every path with err != nil && err != ErrClosing reaches _exit: the _exit block's only guards are those two
		r.Ob("R04f", fn, "missing-pong-becomes-deadline-error", fn.Pos(), dl, "when the PING timer fires first the watchdog records a deadline error")
		r.Ob("R04f", fn, "unresolved-error-exits", fn.Pos(), okExit, "an unresolved watchdog error (not nil, not ErrClosing) tears the connection down through _exit")
		if len(exits) == 1 {
			n := 0
			for _, conj := range GuardDNF(exits[0].Block, 4) {
				for _, g := range conj {
					if g.Block != nil && g.Block.Parent() == fn {
						_ = g
					}
				}
				n = len(conj)
			}
			_ = n
		}
	}
	stateTransitionRule(r, "R04h")
	blockingMarkerRule(r)
	// R04g
	if fn := r.FnAnchor("R04g", P+"Close"); fn != nil {
		var latch *Site
		for _, s := range Sites(fn, func(in ssa.Instruction) bool {
			c, ok := in.(*ssa.Call)
			return ok && strings.Contains(CalleeName(c), ").CompareAndSwap") && strings.Contains(DescDeep(c), ".error")
		}) {
			s2 := s
			latch = &s2
		}
		okOrder := latch != nil
		if latch != nil {
			for _, s := range CallSites(fn, "sync/atomic.CompareAndSwapInt32") {
				if strings.HasSuffix(DescDeep(s.Call().Common().Args[0]), ".state") && !Dominates(*latch, s) {
					okOrder = false
				}
			}
			okArg := strings.HasSuffix(DescDeep(latch.Call().Common().Args[len(latch.Call().Common().Args)-1]), "errClosing")
			okOrder = okOrder && okArg
		}
		r.Ob("R04g", fn, "closing-latched-before-state-change", fn.Pos(), okOrder, "Close latches ErrClosing before it changes the pipe state, so every call failing afterwards reports ErrClosing")
		entry := Site{fn, fn.Blocks[0], -1, nil}
		okConn := MustPassOrEdge(entry, func(in ssa.Instruction) bool { _, is := CallTo(in, "iface:net.Conn.Close"); return is }, NilTestEdge(".conn"))
		okR2p := MustPassOrEdge(entry, func(in ssa.Instruction) bool { _, is := CallTo(in, "rueidis.(*r2p).Close"); return is }, NilTestEdge(".r2p"))
		r.Ob("R04g", fn, "close-closes-socket", fn.Pos(), okConn, "every path of Close closes the socket (when there is one)")
		r.Ob("R04g", fn, "close-closes-resp2-pubsub-pipe", fn.Pos(), okR2p, "every path of Close closes the secondary RESP2 Pub/Sub pipe (when there is one); otherwise a Receive pending on it hangs forever")
	}
	if fn := r.FnAnchor("R04g", "rueidis.(*mux).Close"); fn != nil {
		swaps := Sites(fn, func(in ssa.Instruction) bool {
			c, ok := in.(*ssa.Call)
			return ok && strings.Contains(CalleeName(c), ").Swap") && strings.HasSuffix(DescDeep(c.Call.Args[len(c.Call.Args)-1]), ".dead")
		})
		okSwap := len(swaps) == 1
		for _, s := range CallSites(fn, "iface:rueidis.wire.Close") {
			if len(swaps) == 1 && !Dominates(swaps[0], s) {
				okSwap = false
			}
		}
		pools := len(CallSites(fn, "rueidis.(*pool).Close"))
		r.Ob("R04g", fn, "slots-dead-before-wires-closed", fn.Pos(), okSwap && pools == 2, "mux.Close swaps every slot to the dead wire before closing the previous wire, and closes both pools")
	}
}

// stateTransitionRule: the connection state (0 synchronous, 1 pipelining, 2 stopping, 4 dead) is
// written only by the functions that own the corresponding step: background (0->1), the workers'
// failure exit _exit (1->2, the connection is lost), _background (4 at its end) and Close (0->2 / 1->2, whose CAS results
// gate the drain fence that lets already written requests receive their replies before the socket
// is closed). A transition to "stopping" made anywhere else makes Close skip that fence: requests
// that were written come back with the close error and are re-sent by the clients.
func stateTransitionRule(r *Report, rule string) {
	P := "rueidis.(*pipe)."
	allowed := map[string]map[string]bool{
		P + "background":  {"cas:0->1": true},
		P + "_background": {"store:4": true},
		P + "_exit":       {"cas:1->2": true}, // the workers' and the keep-alive's failure exit: the connection is already lost
		P + "Close":       {"cas:0->2": true, "cas:1->2": true},
	}
	n := 0
	for _, a := range r.P.FieldAccesses("rueidis.pipe", "state") {
		c, isc := a.Instr.(ssa.CallInstruction)
		if !isc {
			if a.Write {
				fresh := false
				if st, ok := a.Instr.(*ssa.Store); ok {
					_, _, base, _ := FieldRef(st.Addr)
					_, fresh = Strip(base).(*ssa.Alloc)
				}
				if !fresh {
					n++
					r.ObSite(rule, a.Site, "state-plain-store", false, "the connection state of a shared pipe is written without an atomic operation")
				}
			}
			continue
		}
		name := CalleeName(c)
		args := c.Common().Args
		var tr string
		switch name {
		case "sync/atomic.LoadInt32":
			continue
		case "sync/atomic.CompareAndSwapInt32":
			from, ok1 := ConstInt(args[1])
			to, ok2 := ConstInt(args[2])
			if !ok1 || !ok2 {
				tr = "cas:?"
			} else {
				tr = fmt.Sprintf("cas:%d->%d", from, to)
			}
		case "sync/atomic.StoreInt32":
			if k, ok := ConstInt(args[1]); ok {
				tr = fmt.Sprintf("store:%d", k)
			} else {
				tr = "store:?"
			}
		default:
			tr = "op:" + name
		}
		n++
		fn := FuncName(TopFunc(a.Fn))
		r.ObSite(rule, a.Site, "state-transition:"+tr, allowed[fn][tr], "connection state transition "+tr+" in "+fn+"; transitions are owned by background (0->1), _exit (1->2 on a lost connection), _background (4) and Close (0->2, 1->2, followed by the drain fence)")
	}
	r.Anchor(rule, "pipe.state writers (5)", n >= 5)
	// Close's fence depends on its own CAS results
	if fn := r.FnAnchor(rule, P+"Close"); fn != nil {
		fenced := false
		isPut := func(in ssa.Instruction) bool {
			c, ok := in.(ssa.CallInstruction)
			return ok && CalleeName(c) == "iface:rueidis.queue.PutOne"
		}
		for _, s := range Sites(fn, func(in ssa.Instruction) bool {
			if isPut(in) {
				return true
			}
			// or an unexported pipe method only Close calls, every path of which queues the PING
			c, ok := in.(*ssa.Call)
			if !ok {
				return false
			}
			h := c.Call.StaticCallee()
			if h == nil || h.Blocks == nil || isExportedName(h.Name()) || !strings.HasPrefix(FuncName(h), P) || !helperOnlyCalledFrom(r.P, h, map[string]bool{P + "Close": true}, 1) {
				return false
			}
			mp, _ := MustPassFromEntry(h, isPut)
			return mp
		}) {
			fenced = Guarded(s.Block, func(g Guard) bool {
				return g.Pol && DependsOn(g.Cond, func(v ssa.Value) bool {
					c, ok := v.(*ssa.Call)
					return ok && CalleeName(c) == "sync/atomic.CompareAndSwapInt32"
				})
			})
			// the socket is closed only after the fence
			for _, cs := range Sites(fn, func(in ssa.Instruction) bool { _, is := CallTo(in, "iface:net.Conn.Close"); return is }) {
				if hit, _ := Reaches(cs, func(w Site) bool { return w.Instr == s.Instr }, nil); hit {
					fenced = false
				}
			}
		}
		r.Ob(rule, fn, "close-drains-before-closing-the-socket", fn.Pos(), fenced, "when Close moved the pipe to stopping it queues a PING behind the requests in flight and waits for it (bounded) before the socket is closed")
	}
}

// blockingMarkerRule (R04i): the marker that tells the keep-alive watchdog "a blocking command is
// outstanding on this connection" is released whenever the command's reply arrived - whatever the
// reply says. Its release may depend on the transport error only (the `err` field), never on
// RedisResult.Error(), which is also non-nil for a null reply or a Redis error reply: the marker
// would stay raised on a healthy, reused connection and the watchdog would never fire again.
// (R04j) after its synchronous exchange a caller hands over to the background worker when others
// queued up meanwhile, judged by the state it saw when it chose the synchronous path: a fresh
// read may observe Close's "stopping" and leave the queued callers without any worker.
func blockingMarkerRule(r *Report) {
	P := "rueidis.(*pipe)."
	nRel := 0
	for _, name := range []string{P + "Do", P + "DoMulti"} {
		fn := r.FnAnchor("R04i", name)
		if fn == nil {
			continue
		}
		for _, cl := range fn.AnonFuncs {
			var rel []Site
			for _, s := range CallSites(cl, "sync/atomic.AddInt32") {
				a := s.Call().Common().Args
				if k, ok := ConstInt(a[1]); ok && k == -1 && strings.HasSuffix(DescDeep(a[0]), ".blcksig") {
					rel = append(rel, s)
				}
			}
			if len(rel) == 0 {
				continue
			}
			nRel++
			bad := ""
			for _, b := range cl.Blocks {
				iff, ok := b.Instrs[len(b.Instrs)-1].(*ssa.If)
				if !ok {
					continue
				}
				if DependsOn(iff.Cond, func(v ssa.Value) bool {
					c, isc := v.(*ssa.Call)
					return isc && (CalleeName(c) == "rueidis.(RedisResult).Error" || CalleeName(c) == "rueidis.(*RedisMessage).Error")
				}) {
					bad = "the release depends on RedisResult.Error(), which is also non-nil for null replies and Redis error replies"
				}
			}
			r.Ob("R04i", cl, "blocking-marker-released-on-any-reply", cl.Pos(), bad == "", "the blocking-command marker is kept only when the transport failed; "+bad)
		}
		// R04j
		var entryState ssa.Value
		for _, s := range CallSites(fn, P+"syncDo", P+"syncDoMulti") {
			for _, g := range DomGuards(s.Block) {
				if x, op, y, ok := CmpGuard(g); ok && op == token.EQL && strings.Contains(DescDeep(x), ".state") {
					if k, isc := ConstInt(y); isc && k == 0 {
						entryState = x
					}
				}
			}
		}
		for _, d := range CallSites(fn, P+"decrWaitsAndIncrRecvs") {
			for _, s := range CallSites(fn, P+"background") {
				if !Dominates(d, s) {
					continue
				}
				same, seen := true, false
				for _, g := range DomGuards(s.Block) {
					if x, op, y, ok := CmpGuard(g); ok && op == token.EQL && strings.Contains(DescDeep(x), ".state") {
						if k, isc := ConstInt(y); isc && k == 0 {
							seen = true
							if entryState == nil || x != entryState {
								same = false
							}
						}
					}
				}
				same = same && seen
				r.ObSite("R04j", s, "handover-judged-by-entry-state", same, "the hand-over to the background worker after a synchronous exchange tests the state the caller saw on entry (a later state may already be Close's 'stopping', and then nobody would serve the callers queued behind it)")
			}
		}
	}
	r.Anchor("R04i", "blocking marker release closures (2)", nRel == 2)
}
