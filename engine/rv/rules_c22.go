package rv

import (
	"go/token"
	"go/types"
	"strings"

	"golang.org/x/tools/go/ssa"
)

func init() {
	Registry["C22"] = RuleDef{Module: ".", Run: runC22,
		Technique:   "bounds prover on returned indices (return-value range obligations), signed-to-unsigned conversion obligations, index safety of the AZ match table",
		Explanation: "Decides for the closures returned by PreferReplicaNodeSelector, AZAffinityNodeSelector and AZAffinityReplicasAndPrimaryNodeSelector (R22a) that every returned value is the constant -1, a value handed through from pickAZ, or an index proved within [0, len(nodes)) on every path (modulo results, start offsets, constant 0 under a non-empty list), (R22b) that every conversion of a signed value to an unsigned type inside them is applied to a value proved non-negative (an unguarded conversion of len(nodes)-start wraps around for short lists), and (R22c) that pickAZ indexes the node list and its fixed-size match table within bounds and never divides by zero. (R22f) every index expression inside a selector closure is proved in bounds (a selector may be handed an empty node list). (R22g) the AZ matcher (newAZSelector / pickAZ) is used only by the AZ-affinity selectors and with the caller's own AZ, never to build the any-replica selector.",
		NotDecided:  "that a same-AZ replica is preferred and that rotation is fair; that the match table's contents are valid indices (array contents are not tracked)."}
}

// freeVarLower derives lower bounds for captured variables and parameters from the constants
// passed at every call site (one or two levels).
func paramLowerFromCallers(p *Prog, fn *ssa.Function, c *BCtx) {
	// free variables of a closure: bound in the parent's MakeClosure
	if fn.Parent() != nil {
		for _, b := range fn.Parent().Blocks {
			for _, in := range b.Instrs {
				mc, ok := in.(*ssa.MakeClosure)
				if !ok || mc.Fn != ssa.Value(fn) {
					continue
				}
				for i, bind := range mc.Bindings {
					if i >= len(fn.FreeVars) {
						continue
					}
					ft := fn.FreeVars[i].Type()
					if pt, ok := ft.Underlying().(*types.Pointer); ok {
						ft = pt.Elem()
					}
					if !isIntType(ft) {
						continue
					}
					if lb, ok := valueLowerFromCallers(p, bind, 5); ok {
						c.Lower[fn.FreeVars[i].Name()] = lb
						c.Lower["*fv:"+fn.FreeVars[i].Name()] = lb
					}
				}
			}
		}
	}
	for _, prm := range fn.Params {
		if !isIntType(prm.Type()) {
			continue
		}
		if lb, ok := valueLowerFromCallers(p, prm, 5); ok {
			c.Lower[prm.Name()] = lb
		}
	}
}

func valueLowerFromCallers(p *Prog, v ssa.Value, depth int) (int64, bool) {
	if k, isc := ConstInt(v); isc {
		return k, true
	}
	if depth == 0 {
		return 0, false
	}
	switch x := v.(type) {
	case *ssa.Parameter:
		fn := x.Parent()
		if fn.Parent() != nil || isExportedName(fn.Name()) {
			return 0, false
		}
		idx := -1
		for i, q := range fn.Params {
			if q == x {
				idx = i
			}
		}
		callers := p.Callers(FuncName(fn))
		if len(callers) == 0 {
			return 0, false
		}
		best := int64(1) << 60
		for _, cs := range callers {
			args := CallArgs(cs.Call())
			lb, ok := valueLowerFromCallers(p, args[idx], depth-1)
			if !ok {
				return 0, false
			}
			if lb < best {
				best = lb
			}
		}
		return best, true
	case *ssa.FreeVar:
		fn := x.Parent()
		if fn.Parent() == nil {
			return 0, false
		}
		for _, b := range fn.Parent().Blocks {
			for _, in := range b.Instrs {
				if mc, ok := in.(*ssa.MakeClosure); ok && mc.Fn == ssa.Value(fn) {
					for i, fv := range fn.FreeVars {
						if fv == x && i < len(mc.Bindings) {
							return valueLowerFromCallers(p, mc.Bindings[i], depth-1)
						}
					}
				}
			}
		}
	case *ssa.UnOp:
		// free variables captured by reference are loaded through a pointer
		if x.Op == token.MUL {
			return valueLowerFromCallers(p, x.X, depth)
		}
	case *ssa.Alloc:
		// captured local: single store of the initial value
		var val ssa.Value
		n := 0
		for _, r := range *x.Referrers() {
			if st, ok := r.(*ssa.Store); ok && st.Addr == ssa.Value(x) {
				n++
				val = st.Val
			}
		}
		if n == 1 {
			return valueLowerFromCallers(p, val, depth)
		}
	}
	return 0, false
}

func runC22(r *Report) {
	p := r.P
	var closures []*ssa.Function
	for _, n := range []string{"rueidis.PreferReplicaNodeSelector", "rueidis.AZAffinityReplicasAndPrimaryNodeSelector", "rueidis.newAZSelector"} {
		fn := r.FnAnchor("R22a", n)
		if fn == nil {
			continue
		}
		for _, a := range fn.AnonFuncs {
			closures = append(closures, a)
		}
	}
	if fn := r.FnAnchor("R22a", "rueidis.AZAffinityNodeSelector"); fn != nil {
		ok := len(CallSites(fn, "rueidis.newAZSelector")) == 1
		r.Ob("R22a", fn, "delegates-to-newAZSelector", fn.Pos(), ok, "AZAffinityNodeSelector is built by newAZSelector")
	}
	r.Anchor("R22a", "selector closures", len(closures) == 3)
	// R22g: AZ matching is only for the AZ-affinity selectors, and with the caller's own AZ: a selector
	// that is documented to rotate over ANY replica must not be built from the AZ matcher (an empty
	// "AZ" matches every node whose zone is unknown, and the matcher looks at 8 candidates only)
	for _, cs := range p.Callers("rueidis.newAZSelector") {
		caller := FuncName(TopFunc(cs.Fn))
		_, isParam := Strip(cs.Call().Common().Args[0]).(*ssa.Parameter)
		r.ObSite("R22g", cs, "az-matcher-only-for-az-affinity", caller == "rueidis.AZAffinityNodeSelector" && isParam, "newAZSelector is used only by AZAffinityNodeSelector, with the AZ it was given; called from "+caller)
	}
	for _, cs := range p.Callers("rueidis.pickAZ") {
		caller := FuncName(TopFunc(cs.Fn))
		ok := caller == "rueidis.newAZSelector" || caller == "rueidis.AZAffinityReplicasAndPrimaryNodeSelector"
		r.ObSite("R22g", cs, "az-matcher-only-for-az-affinity", ok, "pickAZ is used only by the AZ-affinity selectors; called from "+caller)
	}
	for _, cl := range closures {
		c := NewBCtx(cl)
		paramLowerFromCallers(p, cl, c)
		c.induction()
		var nodes *ssa.Parameter
		for _, prm := range cl.Params {
			if strings.Contains(shortType(prm.Type()), "NodeInfo") {
				nodes = prm
			}
		}
		if !r.Anchor("R22a", FuncName(cl)+": nodes parameter", nodes != nil) {
			continue
		}
		// R22f: a selector is handed whatever node list the topology holds (possibly empty): it never
		// indexes the list without a proof
		boundsObligations(r, "R22f", cl, func(bc *BCtx) { paramLowerFromCallers(p, cl, bc) }, nil)
		ln := c.LenOf(nodes)
		for _, b := range cl.Blocks {
			ret, ok := b.Instrs[len(b.Instrs)-1].(*ssa.Return)
			if !ok || len(ret.Results) != 1 {
				continue
			}
			s := Site{cl, b, len(b.Instrs) - 1, ret}
			v := ret.Results[0]
			if k, isc := ConstInt(v); isc && k == -1 {
				r.ObSite("R22a", s, "return:-1", true, "no candidate")
				continue
			}
			if call, isc := Strip(v).(*ssa.Call); isc && CalleeName(call) == "rueidis.pickAZ" {
				ok := Guarded(b, func(g Guard) bool {
					x, op, y, cok := CmpGuard(g)
					k, isk := ConstInt(y)
					return cok && op == token.NEQ && isk && k == -1 && Strip(x) == ssa.Value(call)
				})
				r.ObSite("R22a", s, "return:pickAZ", ok, "a pickAZ result is returned only when it is not -1")
				continue
			}
			// an unexported helper that is handed the number of nodes: every value it returns is -1 or
			// proved within [0, that parameter) in the helper, and the argument is len(nodes)
			if call, isc := Strip(v).(*ssa.Call); isc {
				if h := call.Call.StaticCallee(); h != nil && h.Blocks != nil && h.Pkg == cl.Pkg && !isExportedName(h.Name()) && h.Signature.Recv() == nil {
					okH, whyH := false, "no parameter of the helper bounds its result"
					for k, prm := range h.Params {
						if !isIntType(prm.Type()) || k >= len(call.Call.Args) {
							continue
						}
						// the argument is len(nodes) (possibly converted)
						a := call.Call.Args[k]
						if cv, iscv := a.(*ssa.Convert); iscv {
							a = cv.X
						}
						if la := c.Lin(a); !la.OK || la.String() != ln.String() {
							continue
						}
						hc := NewBCtx(h)
						paramLowerFromCallers(p, h, hc)
						hc.induction()
						all, any := true, false
						for _, hb := range h.Blocks {
							hret, isr := hb.Instrs[len(hb.Instrs)-1].(*ssa.Return)
							if !isr || len(hret.Results) != 1 {
								continue
							}
							any = true
							if kk, isk := ConstInt(hret.Results[0]); isk && kk == -1 {
								continue
							}
							hl := hc.Lin(hret.Results[0])
							pl := hc.Lin(prm)
							if !(hc.ProveAt(hb, hl) && hc.ProveAt(hb, pl.Add(hl, -1).Add(konst(1), -1))) {
								all = false
								whyH = "helper return " + Desc(hret.Results[0]) + " is not proved within [0, " + prm.Name() + ")"
							}
						}
						if all && any {
							okH, whyH = true, "helper "+FuncName(h)+" returns -1 or an index below its parameter "+prm.Name()+", which receives len(nodes)"
						}
					}
					r.ObSite("R22a", s, "return:index", okH, "a returned node index must be proved within [0, len(nodes)); "+whyH)
					if okH {
						boundsObligations(r, "R22f", h, func(bc *BCtx) { paramLowerFromCallers(p, h, bc) }, nil)
					}
					continue
				}
			}
			l := c.Lin(v)
			lo := c.ProveAt(b, l)
			hi := c.ProveAt(b, ln.Add(l, -1).Add(konst(1), -1))
			r.ObSite("R22a", s, "return:index", lo && hi, "a returned node index must be proved within [0, len(nodes)); value "+Desc(v)+" = "+l.String())
		}
		// conversions signed -> unsigned
		for _, b := range cl.Blocks {
			for i, in := range b.Instrs {
				cv, ok := in.(*ssa.Convert)
				if !ok || !isIntType(cv.Type()) || !isIntType(cv.X.Type()) {
					continue
				}
				if isUnsignedType(cv.Type()) && !isUnsignedType(cv.X.Type()) {
					okc := c.ProveAtIdx(b, i, c.Lin(cv.X))
					r.ObSite("R22b", Site{cl, b, i, in}, "signed-to-unsigned", okc, "a signed value converted to "+shortType(cv.Type())+" must be proved non-negative, otherwise it wraps to a huge count: "+Desc(cv.X))
				}
			}
		}
		// modulo divisors
		for _, b := range cl.Blocks {
			for i, in := range b.Instrs {
				if bo, ok := in.(*ssa.BinOp); ok && (bo.Op == token.REM || bo.Op == token.QUO) && isIntType(bo.Type()) {
					if _, isc := ConstInt(bo.Y); !isc {
						r.ObSite("R22c", Site{cl, b, i, in}, "divisor", c.ProveAtIdx(b, i, c.Lin(bo.Y).Add(konst(1), -1)), "modulo by a value not proved >= 1")
					}
				}
			}
		}
	}
	// R22d: one rotation ticket per invocation path (drawing two advances the rotation by two and
	// starves every other equally ranked candidate); R22e: the client AZ is only ever compared with a
	// node's AZ (no special-cased values)
	azFns := append([]*ssa.Function{}, closures...)
	if pa := p.Fn("rueidis.pickAZ"); pa != nil {
		azFns = append(azFns, pa)
	}
	for _, fn := range azFns {
		maxAdds := 0
		EnumBlockPaths(fn, 20000, func(path []*ssa.BasicBlock) {
			n := 0
			for _, b := range path {
				for _, in := range b.Instrs {
					if _, ok := CallTo(in, "sync/atomic.(*Uint32).Add"); ok {
						n++
					}
				}
			}
			if n > maxAdds {
				maxAdds = n
			}
		})
		r.Ob("R22d", fn, "one-ticket-per-path", fn.Pos(), maxAdds <= 1, "at most one rotation ticket (counter.Add) may be drawn on any path of one selector invocation")
		for _, b := range fn.Blocks {
			for i, in := range b.Instrs {
				bo, ok := in.(*ssa.BinOp)
				if !ok || (bo.Op != token.EQL && bo.Op != token.NEQ) || shortType(bo.X.Type()) != "string" {
					continue
				}
				isAZParam := func(v ssa.Value) bool {
					d := Desc(v)
					return strings.Contains(d, "clientAZ") || func() bool {
						prm, ok := v.(*ssa.Parameter)
						return ok && prm.Name() == "clientAZ"
					}()
				}
				isNodeAZ := func(v ssa.Value) bool { return IsFieldLoad(v, "rueidis.NodeInfo", "AZ") }
				if isAZParam(bo.X) || isAZParam(bo.Y) {
					okc := (isAZParam(bo.X) && isNodeAZ(bo.Y)) || (isAZParam(bo.Y) && isNodeAZ(bo.X))
					r.ObSite("R22e", Site{fn, b, i, in}, "az-compared-with-node-az", okc, "the client's AZ is only compared with a node's AZ field; any other comparison special-cases a value and changes which nodes count as same-AZ")
				}
			}
		}
	}
	r.Min("R22e", 2)
	r.Min("R22a", 8)
	r.Min("R22b", 3)
	if fn := r.FnAnchor("R22c", "rueidis.pickAZ"); fn != nil {
		assume := func(c *BCtx) { paramLowerFromCallers(p, fn, c) }
		boundsObligations(r, "R22c", fn, assume, nil)
		c := NewBCtx(fn)
		assume(c)
		c.induction()
		for _, b := range fn.Blocks {
			for i, in := range b.Instrs {
				if bo, ok := in.(*ssa.BinOp); ok && (bo.Op == token.REM || bo.Op == token.QUO) && isIntType(bo.Type()) {
					if _, isc := ConstInt(bo.Y); !isc {
						r.ObSite("R22c", Site{fn, b, i, in}, "divisor", c.ProveAtIdx(b, i, c.Lin(bo.Y).Add(konst(1), -1)), "modulo by a value not proved >= 1")
					}
				}
			}
			if ret, ok := b.Instrs[len(b.Instrs)-1].(*ssa.Return); ok {
				v := ret.Results[0]
				okr := false
				if k, isc := ConstInt(v); isc && k == -1 {
					okr = true
				}
				if DependsOn(v, func(x ssa.Value) bool {
					ia, ok := x.(*ssa.IndexAddr)
					if !ok {
						return false
					}
					_, isArr := ia.X.Type().Underlying().(*types.Pointer)
					return isArr
				}) {
					okr = true
				}
				r.ObSite("R22c", Site{fn, b, len(b.Instrs) - 1, ret}, "pickAZ-return", okr, "pickAZ returns -1 or an entry of its match table")
			}
		}
	}
	r.Min("R22c", 4)
}
