package rv

import (
	"go/token"
	"strings"

	"golang.org/x/tools/go/ssa"
)

func init() {
	Registry["C25"] = RuleDef{Module: ".", Run: runC25,
		Technique:   "guard rule (recycled-check dominates every use, re-evaluated per retry iteration), once-rule on the hand-back, must-precede rules on the cleaning of a returned wire, provenance rule on shared slots",
		Explanation: "Decides (R25a) that every use of a dedicated client's wire is dominated by the nil arm of its recycled-check, taken inside the same retry iteration as the use (so a release during a back-off is noticed before the retry is sent), and that the cluster dedicated client obtains its wire only through acquire, which refuses a released client; (R25b) that the wire is handed back only by the caller that wins the mark compare-and-swap (single) or under `!mark` within the critical section that sets it (cluster); (R25c) that mux.Store resets the Pub/Sub hooks, cleans subscriptions and - when an invalidation callback had been installed, as observed before the hooks were reset - switches tracking off, all before the wire is stored back; that CleanSubscriptions unsubscribes everything and discards an open transaction on a pipelined wire, or closes a wire with a pending blocking command; (R25d) that wires taken from a pool are never installed into the multiplexer's shared slots. (R25e) every attempt of a dedicated client's call, retries included, passes check() before it uses the wire. (R25f) a dedicated cluster client binds its wire only inside the critical section that found the recycle mark clear; (R25g) StopTimer, which decides whether a pooled connection may be lent to a session, counts every timer's Stop().",
		NotDecided:  "interleaving with concurrent traffic (follows from the pool's exclusivity, C24, and R25d; not separately shown)."}
	Registry["C27"] = RuleDef{Module: ".", Run: runC27,
		Technique:   "sibling agreement of the three invalidation sinks (guard rule), unconditional-dispatch rule for pushes, must-pass rules on teardown and on the release of a tracking connection",
		Explanation: "Decides (R27a) that the store, the option callback and the hook callback each receive nil exactly when the pushed key list is null and otherwise the pushed key list itself, each under the presence test of its own sink only; (R27d) that every push frame the reader meets - top level or embedded in a multi-key reply by Redis 6 - is dispatched through handlePush under no condition on the presence of the built-in cache; (R27b) that teardown calls both callbacks with nil once the connection is lost (shared with C04); (R27c) that releasing a dedicated wire on which an invalidation callback was installed switches tracking off before the wire is pooled again, the presence of the callback being read before the hooks are reset (shared with C25). Each of the three sinks (store, option callback, hook callback) is served by a call of its own - none is a fallback for another.",
		NotDecided:  "equality of the delivered keys with what the server sent (value-level); ordering relative to replies."}
}

func runC25(r *Report) {
	recheckBeforeRetryRule(r, "R25e")
	bindUnderMarkRule(r)
	p := r.P
	const DS = "rueidis.(*dedicatedSingleClient)."
	// R25a
	nUse := 0
	for _, fn := range p.Funcs(DS) {
		if fn.Parent() != nil {
			continue
		}
		for _, s := range Sites(fn, func(in ssa.Instruction) bool {
			c, ok := in.(*ssa.Call)
			return ok && strings.HasPrefix(CalleeName(c), "iface:rueidis.wire.") && c.Call.IsInvoke() && IsFieldLoad(c.Call.Value, "rueidis.dedicatedSingleClient", "wire")
		}) {
			m := s.Call().Common().Method.Name()
			if fn.Name() == "Close" || fn.Name() == "release" {
				continue
			}
			if m == "Error" {
				continue // isRetryable(err, c.wire, ctx) only inspects the wire's error state
			}
			nUse++
			var checkBlock *ssa.BasicBlock
			for _, g := range DomGuards(s.Block) {
				x, op, y, ok := CmpGuard(g)
				if !ok || op != token.EQL {
					continue
				}
				if c, isc := x.(*ssa.Call); isc && IsNilConst(y) && CalleeName(c) == DS+"check" {
					checkBlock = c.Block()
				}
				// the same test written out: atomic.LoadUint32(&c.mark) == 0
				if c, isc := x.(*ssa.Call); isc && CalleeName(c) == "sync/atomic.LoadUint32" && IsFieldAddr(c.Call.Args[0], "rueidis.dedicatedSingleClient", "mark") {
					if k, isk := ConstInt(y); isk && k == 0 {
						checkBlock = c.Block()
					}
				}
			}
			ok := checkBlock != nil
			why := "no dominating `c.check() == nil`"
			if ok {
				// same retry iteration: the innermost loop containing the use also contains the check
				inner := func(x *ssa.BasicBlock) *ssa.BasicBlock {
					var h *ssa.BasicBlock
					for _, blk := range fn.Blocks {
						if IsLoopHeader(blk) && (blk == x || blk.Dominates(x)) {
							for _, pr := range blk.Preds {
								if blk.Dominates(pr) && (pr == x || reachesBlock(x, pr)) {
									h = blk
								}
							}
						}
					}
					return h
				}
				if hu := inner(s.Block); hu != nil && inner(checkBlock) != hu {
					ok = false
					why = "the recycled-check is outside the retry loop that re-sends on this wire: a client released during the back-off still sends its retry on a wire that may already belong to someone else"
				}
			}
			r.ObSite("R25a", s, "check-before-use:"+m, ok, "every use of the dedicated wire follows the recycled-check of the same retry iteration; "+why)
		}
	}
	r.Anchor("R25a", "uses of the dedicated wire", nUse >= 5)
	for _, fn := range p.Funcs("rueidis.(*dedicatedClusterClient).") {
		for _, a := range FieldAccessesIn(fn, "rueidis.dedicatedClusterClient", "wire") {
			if a.Write || fn.Name() == "acquire" || fn.Name() == "release" || fn.Name() == "Close" || fn.Name() == "getConn" {
				continue
			}
			// other methods must go through acquire
			r.ObSite("R25a", a.Site, "cluster-wire-only-through-acquire", fn.Name() == "SetPubSubHooks" || fn.Name() == "SetOnInvalidations", "the cluster dedicated client reads its wire only inside acquire/release (acquire refuses a released client)")
		}
	}
	// R25b
	if rel := r.FnAnchor("R25b", DS+"release"); rel != nil {
		for _, s := range CallSites(rel, "iface:rueidis.conn.Store") {
			ok := Guarded(s.Block, func(g Guard) bool {
				c, isc := g.Cond.(*ssa.Call)
				return isc && g.Pol && CalleeName(c) == "sync/atomic.CompareAndSwapUint32" && strings.HasSuffix(DescDeep(c.Call.Args[0]), ".mark")
			})
			r.ObSite("R25b", s, "handed-back-once", ok, "the wire is stored back only by the caller that wins the mark compare-and-swap")
		}
	}
	if rel := r.FnAnchor("R25b", "rueidis.(*dedicatedClusterClient).release"); rel != nil {
		ls := ComputeLockSets(rel, map[string]bool{})
		for _, s := range CallSites(rel, "iface:rueidis.conn.Store") {
			notMarked := Guarded(s.Block, func(g Guard) bool { return !g.Pol && IsFieldLoad(g.Cond, "rueidis.dedicatedClusterClient", "mark") })
			held := len(ls.At(s)) == 1
			setMark := false
			for _, a := range FieldAccessesIn(rel, "rueidis.dedicatedClusterClient", "mark") {
				if st, ok := a.Instr.(*ssa.Store); ok {
					if k, isc := st.Val.(*ssa.Const); isc && k.Value != nil && k.Value.String() == "true" {
						if len(ls.At(a.Site)) == 1 {
							// on every path on which the client was not marked yet (an early return for an
							// already marked client has nothing to set)
							okp := MustPassOrEdge(Site{rel, rel.Blocks[0], -1, nil}, func(in ssa.Instruction) bool { return in == a.Instr }, func(from *ssa.BasicBlock, succ int) bool {
								iff, isif := from.Instrs[len(from.Instrs)-1].(*ssa.If)
								if !isif {
									return false
								}
								g := normGuard(Guard{iff.Cond, succ == 0, from})
								return g.Pol && IsFieldLoad(g.Cond, "rueidis.dedicatedClusterClient", "mark")
							})
							if okp {
								setMark = true
							}
						}
					}
				}
			}
			r.ObSite("R25b", s, "handed-back-once", notMarked && held && setMark, "the cluster dedicated wire is stored back only under `!mark`, and mark is set on every path within the same critical section")
		}
	}
	storeCleaningRules(r, "R25c")
	if cs := r.FnAnchor("R25c", "rueidis.(*pipe).CleanSubscriptions"); cs != nil {
		okClose, okUnsub := false, false
		for _, s := range CallSites(cs, "rueidis.(*pipe).Close") {
			okClose = Guarded(s.Block, func(g Guard) bool {
				x, op, y, ok := CmpGuard(g)
				k, isc := ConstInt(y)
				return ok && op == token.NEQ && isc && k == 0 && strings.Contains(DescDeep(x), ".blcksig")
			})
		}
		n := 0
		for _, s := range CallSites(cs, "rueidis.(*pipe).DoMulti") {
			n++
			els := variadicElemsOrdered(s.Call().Common().Args[len(s.Call().Common().Args)-1])
			has := map[string]bool{}
			for _, e := range els {
				d := Desc(e)
				for _, k := range []string{"UnsubscribeCmd", "PUnsubscribeCmd", "DiscardCmd"} {
					if strings.HasSuffix(d, "cmds."+k) {
						has[k] = true
					}
				}
			}
			okUnsub = has["UnsubscribeCmd"] && has["PUnsubscribeCmd"] && has["DiscardCmd"]
			if !okUnsub {
				break
			}
		}
		r.Ob("R25c", cs, "clean-subscriptions", cs.Pos(), okClose && okUnsub && n >= 1, "CleanSubscriptions closes a wire with a pending blocking command, and otherwise sends UNSUBSCRIBE, PUNSUBSCRIBE (and SUNSUBSCRIBE) and DISCARD on a pipelined wire")
	}
	// R25d
	n := 0
	for _, fn := range p.Funcs("rueidis.(*mux).") {
		for _, s := range Sites(fn, func(in ssa.Instruction) bool {
			c, ok := in.(*ssa.Call)
			if !ok {
				return false
			}
			nm := CalleeName(c)
			return (nm == "sync/atomic.(*Value).Store" || nm == "sync/atomic.(*Value).CompareAndSwap" || nm == "sync/atomic.(*Value).Swap") && strings.HasSuffix(DescDeep(c.Call.Args[0]), ".wire")
		}) {
			n++
			args := s.Call().Common().Args
			fromPool := DependsOn(args[len(args)-1], func(v ssa.Value) bool {
				c, ok := v.(*ssa.Call)
				return ok && (strings.HasSuffix(CalleeName(c), ".Acquire"))
			})
			r.ObSite("R25d", s, "shared-slot-never-from-pool", !fromPool, "a wire acquired from a pool (exclusive use) is never installed into a shared multiplexer slot")
		}
	}
	r.Anchor("R25d", "stores into mux slots", n >= 4)
}

// storeCleaningRules: mux.Store cleans the wire before pooling it (shared by C25 and C27).
func storeCleaningRules(r *Report, rule string) {
	st := r.FnAnchor(rule, "rueidis.(*mux).Store")
	if st == nil {
		return
	}
	stores := CallSites(st, "rueidis.(*pool).Store")
	if !r.Anchor(rule, "dpool.Store in mux.Store", len(stores) >= 1) {
		return
	}
	// the flag: a condition derived from GetPubSubHooks().onInvalidations, read before the hooks are reset
	resets := CallSites(st, "iface:rueidis.wire.SetPubSubHooks")
	flagGuard := func(g Guard) (installed bool, ok bool) {
		var get *ssa.Call
		DependsOn(g.Cond, func(v ssa.Value) bool {
			if c, isc := v.(*ssa.Call); isc && CalleeName(c) == "iface:rueidis.wire.GetPubSubHooks" {
				get = c
			}
			return false
		})
		if get == nil || !strings.Contains(DescDeep(g.Cond), "onInvalidations") {
			return false, false
		}
		for _, rs := range resets {
			if !Dominates(SiteOf(get), rs) {
				return false, false // read after the reset: always finds none
			}
		}
		pol := g.Pol
		if x, op, y, cok := CmpGuard(g); cok && IsNilConst(y) {
			_ = x
			pol = op == token.NEQ
		}
		return pol, true
	}
	isOff := func(in ssa.Instruction) bool {
		c, ok := in.(*ssa.Call)
		return ok && CalleeName(c) == "iface:rueidis.wire.Do" && strings.HasSuffix(Desc(c.Call.Args[len(c.Call.Args)-1]), "cmds.ClientTrackingOffCmd")
	}
	for _, ps := range stores {
		ps := ps
		before := func(names ...string) (Site, bool) {
			for _, s := range CallSites(st, names...) {
				if Dominates(s, ps) {
					return s, true
				}
			}
			return Site{}, false
		}
		reset, okReset := before("iface:rueidis.wire.SetPubSubHooks")
		if okReset {
			// the argument is the zero PubSubHooks
			arg := reset.Call().Common().Args[0]
			c, isc := arg.(*ssa.Const)
			okReset = isc && c.Value == nil
			if !okReset {
				if u, isu := arg.(*ssa.UnOp); isu {
					if al, isal := u.X.(*ssa.Alloc); isal {
						okReset = true
						for _, ref := range *al.Referrers() {
							if _, isst := ref.(*ssa.Store); isst {
								okReset = false
							}
							if fa, isfa := ref.(*ssa.FieldAddr); isfa {
								for _, rr := range *fa.Referrers() {
									if _, isst := rr.(*ssa.Store); isst {
										okReset = false
									}
								}
							}
						}
					}
				}
			}
		}
		r.ObSite(rule, ps, "hooks-reset-before-pooling", okReset, "the Pub/Sub hooks are reset (SetPubSubHooks(PubSubHooks{})) before the wire is pooled")
		_, okClean := before("iface:rueidis.wire.CleanSubscriptions")
		r.ObSite(rule, ps, "subscriptions-cleaned-before-pooling", okClean, "subscriptions are cleaned before the wire is pooled")
		// tracking off: no path reaches this pooling with the callback installed and without the command
		bad := false
		type state struct {
			b    *ssa.BasicBlock
			done bool
		}
		seen := map[state]bool{}
		var walk func(b *ssa.BasicBlock, from int, done bool)
		walk = func(b *ssa.BasicBlock, from int, done bool) {
			for i := from; i < len(b.Instrs); i++ {
				if isOff(b.Instrs[i]) {
					done = true
				}
				if b.Instrs[i] == ps.Instr {
					if !done {
						bad = true
					}
					return
				}
			}
			for k, sc := range b.Succs {
				d := done
				if iff, isif := b.Instrs[len(b.Instrs)-1].(*ssa.If); isif {
					if installed, ok := flagGuard(normGuard(Guard{iff.Cond, k == 0, b})); ok && !installed {
						d = true // nothing was installed: nothing to switch off
					}
				}
				if !seen[state{sc, d}] {
					seen[state{sc, d}] = true
					walk(sc, 0, d)
				}
			}
		}
		walk(st.Blocks[0], 0, false)
		// and the command is sent only when something was installed (as read before the reset)
		okOff := !bad && okReset
		nOff := 0
		for _, off := range Sites(st, isOff) {
			nOff++
			g := Guarded(off.Block, func(g Guard) bool { installed, ok := flagGuard(g); return ok && installed })
			okOff = okOff && g
		}
		okOff = okOff && nOff >= 1
		r.ObSite(rule, ps, "tracking-off-before-pooling", okOff, "when an invalidation callback had been installed - as read from the wire's hooks before they are reset - CLIENT TRACKING OFF is sent before the wire is pooled; reading the hooks after the reset always finds none, and the next user inherits a tracking connection")
	}
}

func runC27(r *Report) {
	p := r.P
	hp := r.FnAnchor("R27a", "rueidis.(*pipe).handlePush")
	if hp != nil {
		n := 0
		for _, s := range Sites(hp, func(in ssa.Instruction) bool {
			c, ok := in.(*ssa.Call)
			if !ok {
				return false
			}
			if CalleeName(c) == "iface:rueidis.CacheStore.Delete" {
				return true
			}
			return c.Call.StaticCallee() == nil && !c.Call.IsInvoke() && strings.HasSuffix(DescDeep(c.Call.Value), "onInvalidations") || (c.Call.StaticCallee() == nil && !c.Call.IsInvoke() && strings.Contains(DescDeep(c.Call.Value), "onInvalidations"))
		}) {
			n++
			args := s.Call().Common().Args
			arg := args[len(args)-1]
			r.ObSite("R27a", s, "sink-gets-nil-iff-null-keylist", pushedKeyListArg(arg, s.Block), "each invalidation sink receives nil exactly for a null key list (flush) and otherwise the pushed key list values[1].values()")
			// only its own presence test and the frame shape guard it
			foreign := false
			for _, conj := range [][]Guard{DomGuards(s.Block)} {
				for _, g := range conj {
					d := DescDeep(g.Cond)
					mine := strings.Contains(d, "IsNil") || strings.Contains(d, "builtin.len") || strings.Contains(d, "\"invalidate\"") || strings.Contains(d, "string(")
					if CalleeName(s.Call()) == "iface:rueidis.CacheStore.Delete" {
						mine = mine || strings.HasSuffix(strings.TrimSuffix(d, " != nil)"), ".cache")
					} else {
						sinkDesc := DescDeep(s.Call().Common().Value)
						mine = mine || strings.Contains(d, sinkDesc)
					}
					if !mine {
						foreign = true
					}
				}
			}
			r.ObSite("R27a", s, "sink-independent-of-other-sinks", !foreign, "a sink is called under the presence test of that sink only (the store, the option callback and the hook callback do not shadow each other)")
		}
		r.Anchor("R27a", "invalidation sinks in handlePush (3 sinks, written per arm or once)", n == 6 || n == 3)
		// each of the three sinks is served on its own: the store, the client-wide option callback and
		// the connection's hook callback (none is a fallback for another)
		kinds := map[string]int{}
		for _, s := range Sites(hp, func(in ssa.Instruction) bool { _, ok := in.(*ssa.Call); return ok }) {
			c := s.Instr.(*ssa.Call)
			switch {
			case CalleeName(c) == "iface:rueidis.CacheStore.Delete":
				kinds["store"]++
			case c.Call.StaticCallee() == nil && !c.Call.IsInvoke():
				// a callback value: which field(s) can it come from?
				srcs := map[string]bool{}
				var walk func(v ssa.Value, d int)
				walk = func(v ssa.Value, d int) {
					if d > 4 {
						return
					}
					if ph, ok := v.(*ssa.Phi); ok {
						for _, e := range ph.Edges {
							walk(e, d+1)
						}
						return
					}
					dd := DescDeep(v)
					switch {
					case strings.HasSuffix(dd, ".hooks.onInvalidations"):
						srcs["hook"] = true
					case strings.HasSuffix(dd, ".onInvalidations"):
						srcs["option"] = true
					}
				}
				walk(c.Call.Value, 0)
				if len(srcs) == 1 {
					for k := range srcs {
						kinds[k]++
					}
				} else if len(srcs) > 1 {
					r.ObSite("R27a", s, "sink-is-one-callback", false, "one call serves either the option callback or the hook callback, so only one of the two is notified")
				}
			}
		}
		for _, k := range []string{"store", "option", "hook"} {
			r.Ob("R27a", hp, "sink-served:"+k, hp.Pos(), kinds[k] >= 1, "handlePush notifies the "+k+" sink of an invalidation through a call of its own")
		}
	}
	// R27d
	if rd := r.FnAnchor("R27d", "rueidis.(*pipe)._backgroundRead"); rd != nil {
		calls := CallSites(rd, "rueidis.(*pipe).handlePush")
		r.Anchor("R27d", "handlePush dispatch sites in the reader", len(calls) >= 2)
		for _, s := range calls {
			dep := false
			for _, conj := range GuardDNF(s.Block, 4) {
				for _, g := range conj {
					if strings.Contains(DescDeep(g.Cond), ".cache") || strings.Contains(DescDeep(g.Cond), "onInvalidations") {
						dep = true
					}
				}
			}
			r.ObSite("R27d", s, "push-dispatch-unconditional", !dep, "push frames are dispatched regardless of whether the built-in cache (or any callback) is configured: with DisableCache an embedded Redis 6 invalidation must still reach the user's callbacks")
		}
	}
	// R27b teardown
	if bg := r.FnAnchor("R27b", "rueidis.(*pipe)._background"); bg != nil {
		starts := CallSites(bg, "rueidis.(*pipe)._backgroundRead")
		if len(starts) == 1 {
			for _, suffix := range []string{".onInvalidations", ".hooks.onInvalidations"} {
				suffix := suffix
				ok := MustPassOrEdge(starts[0], DeepHit(bg, func(in ssa.Instruction) bool {
					c, ok := in.(*ssa.Call)
					if !ok || c.Call.StaticCallee() != nil || c.Call.IsInvoke() || len(c.Call.Args) != 1 || !IsNilConst(c.Call.Args[0]) {
						return false
					}
					d := ValueDescThroughParam(c.Call.Value)
					if suffix == ".onInvalidations" {
						return strings.HasSuffix(d, suffix) && !strings.HasSuffix(d, ".hooks.onInvalidations")
					}
					return strings.HasSuffix(d, suffix)
				}, NilTestEdge(suffix)), NilTestEdge(suffix))
				r.ObSite("R27b", starts[0], "teardown-notifies"+suffix, ok, "when the connection is lost the callback is invoked once more with nil")
			}
		}
	}
	storeCleaningRules(r, "R27c")
	_ = p
}

// recheckBeforeRetryRule: a dedicated client may be released by another goroutine while one of its
// calls waits in the retry back-off; the wire is then back in the pool. Every attempt - not only
// the first - therefore re-validates the client (check()) before it touches the wire: no path leads
// from one use of the wire to the next without passing check().
func recheckBeforeRetryRule(r *Report, rule string) {
	P := "rueidis.(*dedicatedSingleClient)."
	n := 0
	for _, name := range []string{"Do", "DoMulti", "Receive"} {
		fn := r.FnAnchor(rule, P+name)
		if fn == nil {
			continue
		}
		isCheck := func(s Site) bool { _, ok := CallTo(s.Instr, P+"check"); return ok }
		for _, s := range Sites(fn, func(in ssa.Instruction) bool {
			c, ok := in.(*ssa.Call)
			return ok && c.Call.IsInvoke() && strings.HasPrefix(CalleeName(c), "iface:rueidis.wire.") && strings.HasSuffix(DescDeep(c.Call.Value), ".wire")
		}) {
			n++
			first, _ := MustPassFromEntry(fn, func(in ssa.Instruction) bool { return in == s.Instr })
			_ = first
			again, _ := Reaches(s, func(w Site) bool { return w.Instr == s.Instr }, isCheck)
			// and the first use is behind a check as well
			guarded := false
			for _, cs := range CallSites(fn, P+"check") {
				if Dominates(cs, s) {
					guarded = true
				}
			}
			r.ObSite(rule, s, "wire-used-only-after-revalidation", guarded && !again, "every attempt (the retries too) re-validates the dedicated client before using its wire; a client released during the back-off no longer owns the wire")
		}
	}
	r.Anchor(rule, "dedicated client wire uses (>= 3)", n >= 3)
}

// bindUnderMarkRule (R25f): the wire of a dedicated cluster client is bound only inside the
// critical section in which the recycle mark was found clear. If the lock is dropped between the
// test and the binding, a release in between marks the client recycled and finds no wire to
// return; the late binding then runs a command after release and leaks the connection.
// (R25g) a pooled connection is handed to a dedicated session only if *all* of its timers could be
// stopped: StopTimer's answer includes every timer's Stop() (a credentials refresh that already
// fired would otherwise write AUTH into the session).
func bindUnderMarkRule(r *Report) {
	T := "rueidis.dedicatedClusterClient"
	n := 0
	for _, a := range r.P.FieldAccesses(T, "wire") {
		st, ok := a.Instr.(*ssa.Store)
		if !ok || IsNilConst(st.Val) {
			continue
		}
		fn := a.Fn
		n++
		held := ComputeLockSets(fn, nil).At(a.Site)
		locked := false
		for l := range held {
			if strings.HasSuffix(l, ".mu") {
				locked = true
			}
		}
		var markTest *Site
		for _, g := range DomGuards(a.Block) {
			if !g.Pol && strings.HasSuffix(Desc(g.Cond), ".mark") {
				if in, isin := g.Cond.(ssa.Instruction); isin {
					s := SiteOf(in)
					markTest = &s
				}
			}
		}
		ok2 := locked && markTest != nil
		why := ""
		if ok2 {
			for _, u := range Sites(fn, func(in ssa.Instruction) bool {
				c, isc := in.(*ssa.Call) // deferred unlocks run at return and are not *ssa.Call
				return isc && strings.HasSuffix(CalleeName(c), ").Unlock")
			}) {
				if Dominates(*markTest, u) && Dominates(u, a.Site) {
					ok2, why = false, "the lock is released between the mark test and the binding"
				}
				if hit, _ := Reaches(*markTest, func(w Site) bool { return w.Instr == u.Instr }, nil); hit {
					if hit2, _ := Reaches(u, func(w Site) bool { return w.Instr == a.Instr }, nil); hit2 {
						ok2, why = false, "the lock can be released between the mark test and the binding"
					}
				}
			}
		}
		r.ObSite("R25f", a.Site, "wire-bound-in-the-section-that-tested-the-mark", ok2, "the dedicated cluster client's wire is bound under its mutex, in the same critical section that found the recycle mark clear; "+why)
	}
	r.Anchor("R25f", "dedicatedClusterClient.wire bindings (>= 1)", n >= 1)
	if fn := r.FnAnchor("R25g", "rueidis.(*pipe).StopTimer"); fn != nil {
		stops := CallSites(fn, "time.(*Timer).Stop")
		all := len(stops) >= 2
		for _, s := range stops {
			// the answer is used as data (assigned to the result) or as control (`a && b`)
			used := len(Uses(s.Instr.(*ssa.Call))) > 0
			if !used {
				all = false
			}
		}
		r.Ob("R25g", fn, "every-timer-stop-counts", fn.Pos(), all, "StopTimer answers true only if every timer of the connection (lifetime and credentials refresh) could be stopped before it fired")
	}
}
