package rv

import (
	"go/constant"
	"go/types"

	"golang.org/x/tools/go/ssa"
)

// predicateHelperDNF expands a guard whose condition is a call of an unexported function of the
// caller's own package with the single result bool: the conditions (as a DNF over the helper's own
// values) under which the helper returns the guard's polarity. nil when g is not such a call or
// the helper's result cannot be decomposed.
func predicateHelperDNF(g Guard) [][]Guard {
	call, ok := g.Cond.(*ssa.Call)
	if !ok {
		return nil
	}
	callee := call.Common().StaticCallee()
	if callee == nil || callee.Blocks == nil || call.Parent() == nil || callee.Pkg == nil || callee.Pkg != call.Parent().Pkg {
		return nil
	}
	if n := callee.Name(); isExportedName(n) {
		return nil
	}
	res := callee.Signature.Results()
	if res.Len() != 1 {
		return nil
	}
	if b, isb := res.At(0).Type().Underlying().(*types.Basic); !isb || b.Kind() != types.Bool {
		return nil
	}
	var out [][]Guard
	add := func(b *ssa.BasicBlock, extra ...Guard) {
		for _, conj := range GuardDNF(b, 4) {
			out = append(out, append(append([]Guard{}, extra...), conj...))
		}
	}
	var value func(v ssa.Value, at *ssa.BasicBlock, depth int) bool
	value = func(v ssa.Value, at *ssa.BasicBlock, depth int) bool {
		switch x := v.(type) {
		case *ssa.Const:
			if x.Value != nil && x.Value.Kind() == constant.Bool {
				if constant.BoolVal(x.Value) == g.Pol {
					add(at)
				}
				return true
			}
			return false
		case *ssa.Phi:
			if depth == 0 {
				return false
			}
			for i, e := range x.Edges {
				if !value(e, x.Block().Preds[i], depth-1) {
					return false
				}
			}
			return true
		}
		add(at, normGuard(Guard{v, g.Pol, at}))
		return true
	}
	nret := 0
	for _, b := range callee.Blocks {
		if len(b.Instrs) == 0 {
			continue
		}
		ret, isr := b.Instrs[len(b.Instrs)-1].(*ssa.Return)
		if !isr {
			continue
		}
		nret++
		if len(ret.Results) != 1 || !value(ret.Results[0], b, 3) {
			return nil
		}
	}
	if nret == 0 || len(out) == 0 || len(out) > 64 {
		return nil
	}
	return out
}

// boolPhiDNF expands a guard on a boolean phi (the SSA form of `x := a && b`, `a || b` or of an
// if/else assigning constants) into the conditions under which the phi has the guard's polarity:
// one conjunction per incoming edge that can carry that value - the guards of the edge's origin
// plus, for a non-constant edge, the edge value itself. nil when g is not such a phi.
func boolPhiDNF(g Guard) [][]Guard {
	ph, ok := g.Cond.(*ssa.Phi)
	if !ok {
		return nil
	}
	if b, isb := ph.Type().Underlying().(*types.Basic); !isb || b.Kind() != types.Bool {
		return nil
	}
	var out [][]Guard
	for i, e := range ph.Edges {
		pred := ph.Block().Preds[i]
		if ph.Block().Dominates(pred) {
			return nil // loop-carried: not a pure expression
		}
		conj := append([]Guard{}, DomGuards(pred)...)
		conj = append(conj, edgeGuards(pred, ph.Block())...)
		if c, isc := e.(*ssa.Const); isc {
			if c.Value == nil || c.Value.Kind() != constant.Bool {
				return nil
			}
			if constant.BoolVal(c.Value) != g.Pol {
				continue
			}
		} else {
			conj = append(conj, normGuard(Guard{e, g.Pol, pred}))
		}
		out = append(out, conj)
	}
	if len(out) == 0 || len(out) > 16 {
		return nil
	}
	return out
}

// impliedGuards returns g together with the guards it implies when it is a boolean phi with a
// single way of having its polarity (`x := a && b; if x` implies a and b), recursively.
func impliedGuards(g Guard, depth int) []Guard {
	out := []Guard{g}
	if depth == 0 {
		return out
	}
	if dnf := boolPhiDNF(g); len(dnf) == 1 {
		for _, h := range dnf[0] {
			out = append(out, impliedGuards(h, depth-1)...)
		}
	}
	return out
}
