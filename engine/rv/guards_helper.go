package rv

import (
	"go/constant"
	"go/token"
	"go/types"
	"strings"

	"golang.org/x/tools/go/ssa"
)

// predicateHelperDNF expands a guard whose condition is a call of an unexported function of the
// caller's own package with the single result bool: the conditions (as a DNF over the helper's own
// values) under which the helper returns the guard's polarity. nil when g is not such a call or
// the helper's result cannot be decomposed.
func predicateHelperDNF(g Guard) [][]Guard {
	call, ok := g.Cond.(*ssa.Call)
	if !ok {
		return nil
	}
	callee := call.Common().StaticCallee()
	if callee == nil || callee.Blocks == nil || call.Parent() == nil || callee.Pkg == nil || callee.Pkg != call.Parent().Pkg {
		return nil
	}
	if n := callee.Name(); isExportedName(n) {
		return nil
	}
	res := callee.Signature.Results()
	if res.Len() != 1 {
		return nil
	}
	if b, isb := res.At(0).Type().Underlying().(*types.Basic); !isb || b.Kind() != types.Bool {
		return nil
	}
	var out [][]Guard
	add := func(b *ssa.BasicBlock, extra ...Guard) {
		for _, conj := range GuardDNF(b, 4) {
			out = append(out, append(append([]Guard{}, extra...), conj...))
		}
	}
	var value func(v ssa.Value, at *ssa.BasicBlock, depth int) bool
	value = func(v ssa.Value, at *ssa.BasicBlock, depth int) bool {
		switch x := v.(type) {
		case *ssa.Const:
			if x.Value != nil && x.Value.Kind() == constant.Bool {
				if constant.BoolVal(x.Value) == g.Pol {
					add(at)
				}
				return true
			}
			return false
		case *ssa.Phi:
			if depth == 0 {
				return false
			}
			for i, e := range x.Edges {
				if !value(e, x.Block().Preds[i], depth-1) {
					return false
				}
			}
			return true
		}
		add(at, normGuard(Guard{v, g.Pol, at}))
		return true
	}
	nret := 0
	for _, b := range callee.Blocks {
		if len(b.Instrs) == 0 {
			continue
		}
		ret, isr := b.Instrs[len(b.Instrs)-1].(*ssa.Return)
		if !isr {
			continue
		}
		nret++
		if len(ret.Results) != 1 || !value(ret.Results[0], b, 3) {
			return nil
		}
	}
	if nret == 0 || len(out) == 0 || len(out) > 64 {
		return nil
	}
	return out
}

// boolPhiDNF expands a guard on a boolean phi (the SSA form of `x := a && b`, `a || b` or of an
// if/else assigning constants) into the conditions under which the phi has the guard's polarity:
// one conjunction per incoming edge that can carry that value - the guards of the edge's origin
// plus, for a non-constant edge, the edge value itself. nil when g is not such a phi.
func boolPhiDNF(g Guard) [][]Guard {
	ph, ok := g.Cond.(*ssa.Phi)
	if !ok {
		return nil
	}
	if b, isb := ph.Type().Underlying().(*types.Basic); !isb || b.Kind() != types.Bool {
		return nil
	}
	var out [][]Guard
	for i, e := range ph.Edges {
		pred := ph.Block().Preds[i]
		if ph.Block().Dominates(pred) {
			return nil // loop-carried: not a pure expression
		}
		conj := append([]Guard{}, DomGuards(pred)...)
		conj = append(conj, edgeGuards(pred, ph.Block())...)
		if c, isc := e.(*ssa.Const); isc {
			if c.Value == nil || c.Value.Kind() != constant.Bool {
				return nil
			}
			if constant.BoolVal(c.Value) != g.Pol {
				continue
			}
		} else {
			conj = append(conj, normGuard(Guard{e, g.Pol, pred}))
		}
		out = append(out, conj)
	}
	if len(out) == 0 || len(out) > 16 {
		return nil
	}
	return out
}

// impliedGuards returns g together with the guards it implies when it is a boolean phi with a
// single way of having its polarity (`x := a && b; if x` implies a and b), recursively.
func impliedGuards(g Guard, depth int) []Guard {
	out := []Guard{g}
	if depth == 0 {
		return out
	}
	if dnf := boolPhiDNF(g); len(dnf) == 1 {
		for _, h := range dnf[0] {
			out = append(out, impliedGuards(h, depth-1)...)
		}
	}
	return out
}

// DeepHit widens a must-pass predicate by one call level: an instruction also counts when it is a
// synchronous call of an unexported function of the caller's package on every path of which an
// instruction satisfying hit is executed (or an accepted edge is crossed). Code extracted from the
// analysed function into a helper keeps satisfying the rule.
func DeepHit(caller *ssa.Function, hit func(ssa.Instruction) bool, edge func(*ssa.BasicBlock, int) bool) func(ssa.Instruction) bool {
	return func(in ssa.Instruction) bool {
		if hit(in) {
			return true
		}
		c, isc := in.(*ssa.Call)
		if !isc {
			return false
		}
		callee := c.Call.StaticCallee()
		if callee == nil || callee.Blocks == nil || callee.Pkg != caller.Pkg || isExportedName(callee.Name()) || callee == caller {
			return false
		}
		return MustPassOrEdge(Site{callee, callee.Blocks[0], -1, nil}, hit, edge)
	}
}

// pushedKeyListArg: arg is what an invalidation sink must receive for the pushed frame - nil exactly
// when the key list values[1] is null, otherwise values[1].values(); either written out in both
// arms of the null test or hoisted into one variable (a phi of the two).
func pushedKeyListArg(arg ssa.Value, use *ssa.BasicBlock) bool {
	isNilTest := func(g Guard, want bool) bool {
		c, ok := g.Cond.(*ssa.Call)
		return ok && CalleeName(c) == "rueidis.(*RedisMessage).IsNil" && g.Pol == want
	}
	isValues := func(v ssa.Value) bool {
		c, ok := v.(*ssa.Call)
		return ok && CalleeName(c) == "rueidis.(*RedisMessage).values"
	}
	switch {
	case IsNilConst(arg):
		return Guarded(use, func(g Guard) bool { return isNilTest(g, true) })
	case isValues(arg):
		return Guarded(use, func(g Guard) bool { return isNilTest(g, false) })
	}
	ph, ok := arg.(*ssa.Phi)
	if !ok {
		return false
	}
	for k, e := range ph.Edges {
		pred := ph.Block().Preds[k]
		gs := append(append([]Guard{}, DomGuards(pred)...), edgeGuards(pred, ph.Block())...)
		want := IsNilConst(e)
		if !want && !isValues(e) {
			return false
		}
		ok := false
		for _, g := range gs {
			if isNilTest(g, want) {
				ok = true
			}
		}
		if !ok {
			return false
		}
	}
	return true
}

// paramArgs resolves a value that is a parameter of an unexported, directly called function to the
// arguments passed for it at every call site of the module (one level). For any other value it
// returns the value itself. ok is false when the function has no static call site.
func paramArgs(p *Prog, v ssa.Value) (vals []ssa.Value, sites []Site, ok bool) {
	prm, isp := v.(*ssa.Parameter)
	if !isp {
		return []ssa.Value{v}, nil, true
	}
	fn := prm.Parent()
	if fn == nil || fn.Parent() != nil || isExportedName(fn.Name()) {
		return []ssa.Value{v}, nil, true
	}
	idx := -1
	for i, q := range fn.Params {
		if q == prm {
			idx = i
		}
	}
	cs := p.Callers(FuncName(fn))
	if idx < 0 || len(cs) == 0 {
		return nil, nil, false
	}
	for _, c := range cs {
		args := CallArgs(c.Call())
		if idx >= len(args) {
			return nil, nil, false
		}
		vals = append(vals, args[idx])
		sites = append(sites, c)
	}
	return vals, sites, true
}

// paramOnlyRead: fn is a function with a body whose k-th parameter (a pointer) is used only as the
// operand of loads and as the receiver/argument of Load/RLock-style calls (never stored through,
// never passed on, never stored anywhere).
func paramOnlyRead(fn *ssa.Function, k int) bool {
	if fn == nil || fn.Blocks == nil || k < 0 || k >= len(fn.Params) {
		return false
	}
	prm := fn.Params[k]
	refs := prm.Referrers()
	if refs == nil {
		return false
	}
	for _, ref := range *refs {
		switch x := ref.(type) {
		case *ssa.UnOp:
			if x.Op != token.MUL {
				return false
			}
		case ssa.CallInstruction:
			n := CalleeName(x)
			if !(strings.Contains(n, ".Load") || strings.HasSuffix(n, "RLock") || strings.HasSuffix(n, "RUnlock")) {
				return false
			}
		case *ssa.DebugRef:
		default:
			return false
		}
	}
	return true
}

// WithHelpers returns fn, its closures, and the unexported functions of its package that only fn
// (or its closures) calls, synchronously: the scope a rule about "what fn does" has to read when
// parts of fn may have been extracted into helpers.
func WithHelpers(p *Prog, fn *ssa.Function) []*ssa.Function {
	out := WithAnons(fn)
	al := map[string]bool{FuncName(TopFunc(fn)): true}
	seen := map[*ssa.Function]bool{}
	for _, f := range out {
		seen[f] = true
	}
	for i := 0; i < len(out); i++ {
		for _, cs := range Sites(out[i], func(in ssa.Instruction) bool { _, ok := in.(*ssa.Call); return ok }) {
			h := cs.Call().Common().StaticCallee()
			if h == nil || seen[h] || h.Blocks == nil || h.Pkg != fn.Pkg || isExportedName(h.Name()) {
				continue
			}
			if helperOnlyCalledFrom(p, h, al, 2) {
				seen[h] = true
				out = append(out, h)
			}
		}
	}
	return out
}

// ringScope: the methods of the ring plus the unexported functions of the package that only ring
// methods call (slot helpers on *node): the code that may touch a slot's state.
func ringScope(p *Prog) []*ssa.Function {
	ring := p.Funcs("rueidis.(*ring).")
	al := map[string]bool{}
	for _, f := range ring {
		al[FuncName(TopFunc(f))] = true
	}
	out := append([]*ssa.Function{}, ring...)
	for _, f := range p.Funcs("rueidis.(*node).") {
		if f.Parent() == nil && helperOnlyCalledFrom(p, f, al, 2) {
			out = append(out, f)
		}
	}
	return out
}
