package rv

import (
	"fmt"
	"sort"
	"regexp"
	"go/types"
	"go/constant"
	"go/ast"
	"go/token"
	"strings"

	"golang.org/x/tools/go/ssa"
)

const probPkg = "rueidis/rueidisprob"

func init() {
	Registry["C35"] = RuleDef{Module: "rueidisprob", Run: func(r *Report) { runProb(r, "C35", "bloomFilter", "R35") },
		Technique:   "bounds prover (lower bounds of the filter parameters through one level of callee summaries), who-may-write rule on the parameter fields, sibling agreement of the add and query paths",
		Explanation: "(R35d) scripts are built with a constructor that matches their text: read-only scripts do not write, no retryable script contains a non-idempotent command. Decides for rueidisprob's Bloom filter (R35a) that the number of hash functions and the bit size stored by every constructor are proved >= 1 on every path (a rounding to 0 hash functions makes Add set nothing and Exists answer false), and that these fields are written nowhere else; (R35b) that the add and the query path derive their bit indexes from the same indexes method, which reads the same size and hash-count fields and reduces every index modulo that size, and that both pass the hash count string the constructor derived from the very value stored as the hash count; (R35c) that ExistsMulti allocates one answer per input key and fills answers at the response's own position; (R35e) in every embedded script, a variable that feeds a per-item answer (appears in a table.insert inside the per-item loop) and carries state across iterations is re-armed inside the loop by an assignment that neither uses nor is conditioned on its old value - otherwise an item's answer depends on the items before it in the batch (block-structure lint over the script text, not Lua semantics).",
		NotDecided:  "the server-side Lua scripts and BITFIELD semantics; hash quality; Count monotonicity (server-side counter)."}
	Registry["C36"] = RuleDef{Module: "rueidisprob", Run: func(r *Report) { runProb(r, "C36", "countingBloomFilter", "R36") },
		Technique:   "bounds prover (parameter lower bounds, divisor >= 1), who-may-write rule, sibling agreement of add / remove / query paths",
		Explanation: "(R36d) the increment/decrement scripts are not built retryable (an automatic re-send after a lost reply would count twice) and read-only scripts do not write. Decides for the counting Bloom filter (R36a) that the hash count and size stored by the constructor are proved >= 1 and written nowhere else; (R36b) that add, remove, query and min-count paths all obtain their field indexes from the same indexes method reading the same fields, reduced modulo the size; (R36c) that every grouping of per-hash replies by `(i+1) % hashIterations` divides by a value proved >= 1 (field invariant from R36a), so the grouping can neither panic nor lose groups; (R36e) in every embedded script, a variable that feeds a per-item answer (appears in a table.insert inside the per-item loop) and carries state across iterations is re-armed inside the loop by an assignment that neither uses nor is conditioned on its old value - otherwise an item's answer depends on the items before it in the batch (block-structure lint over the script text, not Lua semantics).",
		NotDecided:  "the server-side scripts (rollback of a removal that would drive a counter negative); multiplicity arithmetic on the server."}
}

func runProb(r *Report, prop, typ, rp string) {
	p := r.P
	T := probPkg + "." + typ
	fns := p.Funcs(probPkg + ".(*" + typ + ").")
	r.Anchor(rp+"a", "methods of "+T, len(fns) >= 5)
	ctorName := map[string]string{"bloomFilter": "NewBloomFilter", "countingBloomFilter": "NewCountingBloomFilter"}[typ]
	ctor := r.FnAnchor(rp+"a", probPkg+"."+ctorName)
	scriptFile := map[string]string{"bloomFilter": "/bloomfilter.go", "countingBloomFilter": "/countingbloomfilter.go"}[typ]
	r.Anchor(rp+"d", "script constructors in "+scriptFile, scriptConstructorRule(r, rp+"d", "rueidis/rueidisprob", scriptFile) >= 2)

	// Ra: stored parameters are >= 1, single writer
	for _, f := range []string{"hashIterations", "size"} {
		n := 0
		for _, a := range p.FieldAccesses(T, f) {
			if !a.Write {
				continue
			}
			n++
			r.ObSite(rp+"a", a.Site, "writer-of:"+f, a.Fn == ctor, f+" is written only by the constructor")
			st, ok := a.Instr.(*ssa.Store)
			if !ok {
				r.ObSite(rp+"a", a.Site, "positive:"+f, false, "not a plain store")
				continue
			}
			okPos, why := provedAtLeastOne(p, a.Fn, a.Block, st.Val, 1)
			r.ObSite(rp+"a", a.Site, "positive:"+f, okPos, "the "+f+" stored by the constructor must be proved >= 1 on every path; "+why)
		}
		r.Anchor(rp+"a", "store to "+T+"."+f, n >= 1)
	}
	// hash count string derives from the stored hash count
	if ctor != nil {
		var hv, sv ssa.Value
		for _, a := range FieldAccessesIn(ctor, T, "hashIterations") {
			if st, ok := a.Instr.(*ssa.Store); ok {
				hv = st.Val
			}
		}
		for _, a := range FieldAccessesIn(ctor, T, "hashIterationString") {
			if st, ok := a.Instr.(*ssa.Store); ok {
				sv = st.Val
			}
		}
		if sv != nil {
			ok := hv != nil && DependsOn(sv, func(v ssa.Value) bool { return v == hv })
			r.Ob(rp+"b", ctor, "hash-count-string-from-hash-count", ctor.Pos(), ok, "the hash count passed to the server scripts is formatted from the very value stored as hashIterations")
		}
	}
	// Rb: all paths use the same indexes method
	idx := r.FnAnchor(rp+"b", probPkg+".(*"+typ+").indexes")
	if idx != nil {
		readsSize, readsK := false, false
		for _, a := range FieldAccessesIn(idx, T, "size") {
			if !a.Write {
				readsSize = true
			}
		}
		for _, a := range FieldAccessesIn(idx, T, "hashIterations") {
			if !a.Write {
				readsK = true
			}
		}
		r.Ob(rp+"b", idx, "indexes-reads-filter-parameters", idx.Pos(), readsSize && readsK, "indexes derives positions from the filter's own size and hash count")
		for _, s := range CallSites(idx, probPkg+".index") {
			args := s.Call().Common().Args
			okSize := DependsOn(args[3], func(v ssa.Value) bool { return IsFieldLoad(v, T, "size") })
			r.ObSite(rp+"b", s, "index-uses-size", okSize, "every index is computed against the filter's size")
			// loop bound is the hash count
			okLoop := Guarded(s.Block, func(g Guard) bool {
				_, op, y, cok := CmpGuard(g)
				return cok && op == token.LSS && IsFieldLoad(y, T, "hashIterations")
			})
			r.ObSite(rp+"b", s, "one-index-per-hash-function", okLoop, "the index loop runs exactly hashIterations times per key")
		}
	}
	if fn := r.FnAnchor(rp+"b", probPkg+".index"); fn != nil {
		okMod := false
		for _, b := range fn.Blocks {
			if ret, ok := b.Instrs[len(b.Instrs)-1].(*ssa.Return); ok {
				if bo, isb := ret.Results[0].(*ssa.BinOp); isb && bo.Op == token.REM && bo.Y == ssa.Value(fn.Params[3]) {
					okMod = true
				}
			}
		}
		r.Ob(rp+"b", fn, "index-modulo-size", fn.Pos(), okMod, "index reduces modulo the size it was given")
	}
	nUsers := 0
	for _, fn := range fns {
		name := fn.Name()
		if !(strings.HasSuffix(name, "Multi") || name == "ItemMinCountMulti") {
			continue
		}
		calls := CallSites(fn, probPkg+".(*"+typ+").indexes")
		nUsers++
		r.Ob(rp+"b", fn, "uses-shared-indexes", fn.Pos(), len(calls) == 1, name+" must obtain its positions from the shared indexes method exactly once (add and query must agree)")
		if typ == "bloomFilter" {
			// first script argument is the stored hash count string
			okStr := false
			for _, f := range append([]*ssa.Function{fn}, argsHelpers(fn)...) {
				for _, b := range f.Blocks {
					for _, in := range b.Instrs {
						if c, ok := in.(*ssa.Call); ok && CalleeName(c) == "builtin.append" {
							for _, e := range variadicElems(c.Call.Args[1]) {
								if IsFieldLoad(e, T, "hashIterationString") {
									okStr = true
								}
							}
						}
					}
				}
			}
			r.Ob(rp+"b", fn, "passes-hash-count-string", fn.Pos(), okStr, name+" passes the stored hash count string to its script")
		}
	}
	r.Anchor(rp+"b", "multi-key methods of "+T, nUsers >= 2)

	// Rc
	assume := func(c *BCtx) {
		// field invariant established by Ra: hash count and size are >= 1
		for _, b := range c.Fn.Blocks {
			for _, in := range b.Instrs {
				if u, ok := in.(*ssa.UnOp); ok && u.Op == token.MUL && (IsFieldAddr(u.X, T, "hashIterations") || IsFieldAddr(u.X, T, "size")) {
					for a := range c.Lin(u).C {
						c.Lower[a] = 1
					}
				}
			}
		}
	}
	nDiv := 0
	for _, fn := range fns {
		c := NewBCtx(fn)
		assume(c)
		c.induction()
		for _, b := range fn.Blocks {
			for i, in := range b.Instrs {
				bo, ok := in.(*ssa.BinOp)
				if !ok || (bo.Op != token.REM && bo.Op != token.QUO) || !isIntType(bo.Type()) {
					continue
				}
				if _, isc := ConstInt(bo.Y); isc {
					continue
				}
				nDiv++
				r.ObSite(rp+"c", Site{fn, b, i, in}, "divisor", c.ProveAtIdx(b, i, c.Lin(bo.Y).Add(konst(1), -1)), "grouping replies by the hash count divides by a value that must be proved >= 1 (zero panics, and makes every group empty)")
			}
		}
		if fn.Name() == "ExistsMulti" && typ == "bloomFilter" {
			// one answer per key, filled at the response's own position
			okMake, okIdx := false, false
			for _, b := range fn.Blocks {
				for _, in := range b.Instrs {
					if mk, ok := in.(*ssa.MakeSlice); ok && strings.Contains(shortType(mk.Type()), "bool") {
						if c2, isc := mk.Len.(*ssa.Call); isc && CalleeName(c2) == "builtin.len" && c2.Call.Args[0] == ssa.Value(fn.Params[2]) {
							okMake = true
						}
					}
					if st, ok := in.(*ssa.Store); ok {
						if ia, isia := st.Addr.(*ssa.IndexAddr); isia && strings.Contains(shortType(ia.X.Type()), "bool") {
							// index is the range position over the response array
							if DependsOn(ia.Index, func(v ssa.Value) bool { _, isphi := v.(*ssa.Phi); return isphi }) {
								okIdx = true
							}
						}
					}
				}
			}
			r.Ob(rp+"c", fn, "one-answer-per-key-by-position", fn.Pos(), okMake && okIdx, "ExistsMulti returns len(keys) answers, each stored at the position of its reply")
		}
	}
	if typ == "countingBloomFilter" {
		r.Anchor(rp+"c", "groupings by hash count", nDiv >= 1)
	}
}

// provedAtLeastOne: v >= min at block b of fn, looking one level into module callees.
func provedAtLeastOne(p *Prog, fn *ssa.Function, b *ssa.BasicBlock, v ssa.Value, min int64) (bool, string) {
	c := NewBCtx(fn)
	if c.ProveAt(b, c.Lin(v).Add(konst(min), -1)) {
		return true, "proved from the guards in the constructor"
	}
	if call, ok := Strip(v).(*ssa.Call); ok {
		callee := call.Call.StaticCallee()
		if callee != nil && callee.Blocks != nil && p.InModule(callee) {
			cc := NewBCtx(callee)
			all := true
			for _, cb := range callee.Blocks {
				if ret, isret := cb.Instrs[len(cb.Instrs)-1].(*ssa.Return); isret {
					if !cc.ProveAt(cb, cc.Lin(ret.Results[0]).Add(konst(min), -1)) {
						all = false
					}
				}
			}
			if all {
				return true, "every return of " + FuncName(callee) + " is proved >= 1"
			}
			return false, FuncName(callee) + " can return a value < 1 (e.g. a rounding to 0)"
		}
	}
	return false, "no guard, clamp or max establishes a positive value: " + Desc(v)
}

// scriptConstructorRule: a Lua script that is built retryable (its EVALSHA is re-sent after a
// lost connection) must be idempotent, and one built read-only must not write. The command names
// are read from the script's constant text (redis.call('CMD', ...)); this is a lint over the
// embedded source, not an analysis of Lua semantics.
func scriptConstructorRule(r *Report, rule, pkgShort, onlyFile string) int {
	pkg := r.P.Pkg(pkgShort)
	if pkg == nil {
		r.Anchor(rule, "package "+pkgShort, false)
		return 0
	}
	nonIdem := map[string]bool{"INCR": true, "INCRBY": true, "INCRBYFLOAT": true, "DECR": true, "DECRBY": true, "HINCRBY": true, "HINCRBYFLOAT": true,
		"APPEND": true, "LPUSH": true, "RPUSH": true, "LPOP": true, "RPOP": true, "SPOP": true, "ZINCRBY": true, "XADD": true, "SETRANGE": true}
	readOnly := map[string]bool{"GET": true, "MGET": true, "BITFIELD_RO": true, "HGET": true, "HMGET": true, "HGETALL": true, "EXISTS": true, "TIME": true,
		"TTL": true, "PTTL": true, "STRLEN": true, "GETBIT": true, "BITCOUNT": true, "HEXISTS": true, "HLEN": true}
	callRe := regexp.MustCompile(`redis\.p?call\(\s*['"]([A-Za-z_]+)['"]`)
	n := 0
	for _, f := range pkg.Syntax {
		fname := r.P.Fset.Position(f.Pos()).Filename
		if onlyFile != "" && !strings.HasSuffix(fname, onlyFile) {
			continue
		}
		ast.Inspect(f, func(nd ast.Node) bool {
			ce, ok := nd.(*ast.CallExpr)
			if !ok || len(ce.Args) == 0 {
				return true
			}
			sel, ok := ce.Fun.(*ast.SelectorExpr)
			if !ok || !strings.HasPrefix(sel.Sel.Name, "NewLuaScript") {
				return true
			}
			tv, ok := pkg.TypesInfo.Types[ce.Args[0]]
			if !ok || tv.Value == nil || tv.Value.Kind() != constant.String {
				return true
			}
			n++
			src := constant.StringVal(tv.Value)
			var cmds []string
			for _, m := range callRe.FindAllStringSubmatch(src, -1) {
				cmds = append(cmds, strings.ToUpper(m[1]))
			}
			bad := ""
			if strings.Contains(sel.Sel.Name, "Retryable") {
				for _, c := range cmds {
					if nonIdem[c] {
						bad = "retryable script contains the non-idempotent command " + c
					}
				}
			}
			if strings.Contains(sel.Sel.Name, "ReadOnly") {
				for _, c := range cmds {
					if !readOnly[c] {
						bad = "read-only script calls " + c
					}
				}
			}
			r.Ob(rule, nil, "script-constructor:"+sel.Sel.Name+":"+types.ExprString(ce.Args[0]), ce.Pos(), bad == "", "a script re-sent automatically after a lost connection must be idempotent and a read-only script must not write (commands: "+strings.Join(dedupSorted(cmds), ",")+"); "+bad)
			if strings.HasPrefix(rule, "R35") || strings.HasPrefix(rule, "R36") {
				if carried, un := luaUnrearmedLoopState(src); len(carried) > 0 {
					r.Ob(rule[:3]+"e", nil, "per-item-state-re-armed:"+types.ExprString(ce.Args[0]), ce.Pos(), len(un) == 0, fmt.Sprintf("every variable that carries state across the iterations of the script's per-item loop %v is re-armed inside the loop by an assignment that neither uses nor is conditioned on its old value (not re-armed: %v)", carried, un))
				}
			}
			return true
		})
	}
	return n
}

func dedupSorted(s []string) []string {
	t := append([]string{}, s...)
	sort.Strings(t)
	return dedup(t)
}

// argsHelpers: unexported functions of the package called from fn that return the []string handed
// to a script execution in fn (the ARGV construction extracted into a helper).
func argsHelpers(fn *ssa.Function) []*ssa.Function {
	var out []*ssa.Function
	for _, s := range CallSites(fn, "rueidis.(*Lua).Exec") {
		args := s.Call().Common().Args
		if len(args) < 5 {
			continue
		}
		if c, ok := args[4].(*ssa.Call); ok {
			if h := c.Call.StaticCallee(); h != nil && h.Blocks != nil && h.Pkg == fn.Pkg && !isExportedName(h.Name()) {
				out = append(out, h)
			}
		}
	}
	return out
}
