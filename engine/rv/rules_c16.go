package rv

import (
	"sort"
	"fmt"
	"go/token"
	"strings"

	"golang.org/x/tools/go/ssa"
)

func init() {
	Registry["C16"] = RuleDef{Module: ".", Run: runC16,
		Technique:   "same-index correspondence rule on the element-wise and pair-wise reply accessors (output slot i / i-th append is computed from input element i; map entries take the key from position 2i and the value from 2i+1 of a stride-2 walk)",
		Explanation: "Decides only the positional skeleton of the collection accessors: (R16a) in AsStrSlice, AsIntSlice, AsFloatSlice, AsBoolSlice, AsXRange, AsXRangeSlices, AsZScores (both reply shapes) and DecodeSliceOfJSON every output element is computed from the input element with the same index (the flat ZSCORE shape: output i from input[2i:2i+2]) and every iteration of a full walk contributes its element; (R16b) in AsStrMap, AsIntMap and toMap each entry takes its key from position i and its value from position i+1 of one stride-2 walk starting at 0, so pairs are preserved in order (later duplicates overwrite earlier ones by map semantics); (R16c) AsInt64/AsUint64/AsFloat64 parse text replies with the parser of their own result type over the full 64-bit range in base 10 and take integer replies from intlen; (R16e) AsBool converts an integer reply to true iff it is non-zero; (R16d) no As* helper uses a RESP3-strict To{Int64,Float64,Bool} accessor on reply elements, so the RESP2 shape (numbers as strings) is accepted wherever the RESP3 shape is.",
		NotDecided:  "which number, boolean or string a scalar conversion yields (arithmetic on runtime contents), the structured helpers for search/aggregate/geo/pop replies, RESP2/RESP3 shape equivalence."}
}

// elemOrWindow is elemOfDeep extended with windows arr[j:j+w] (index j).
func elemOrWindow(v ssa.Value) (idx ssa.Value, window int64, ok bool) {
	if c, isc := v.(*ssa.Call); isc {
		for _, a := range CallArgs(c) {
			if sl, iss := a.(*ssa.Slice); iss && sl.Low != nil && sl.High != nil {
				if _, isConst := sl.Low.(*ssa.Const); !isConst {
					if hi, ish := sl.High.(*ssa.BinOp); ish && hi.Op == token.ADD && hi.X == sl.Low {
						if w, isw := ConstInt(hi.Y); isw {
							return sl.Low, w, true
						}
					}
				}
			}
		}
	}
	if ex, isex := v.(*ssa.Extract); isex {
		return elemOrWindow(ex.Tuple)
	}
	_, i, isel := elemOfDeep(v)
	return i, 1, isel
}

// scalarParserRule (R16c): a scalar accessor parses string replies with the parser of its own result
// type (full 64-bit range, base 10) and takes integer replies from intlen; (R16d) the shape-tolerant
// As* helpers never use the RESP3-strict ToInt64/ToFloat64/ToBool accessors on reply elements
// (a RESP2 server sends those values as strings).
func scalarParserRule(r *Report) {
	P := "rueidis.(*RedisMessage)."
	for _, sp := range []struct{ name, parser string }{{"AsInt64", "strconv.ParseInt"}, {"AsUint64", "strconv.ParseUint"}, {"AsFloat64", "rueidis/internal/util.ToFloat64"}} {
		fn := r.FnAnchor("R16c", P+sp.name)
		if fn == nil {
			continue
		}
		n := 0
		for _, b := range fn.Blocks {
			ret, ok := b.Instrs[len(b.Instrs)-1].(*ssa.Return)
			if !ok {
				continue
			}
			v := RetVals(ret)[0]
			if _, isc := v.(*ssa.Const); isc {
				continue
			}
			n++
			good := false
			why := DescDeep(v)
			switch x := v.(type) {
			case *ssa.Extract:
				if c, isc := x.Tuple.(*ssa.Call); isc && CalleeName(c) == sp.parser && x.Index == 0 {
					good = true
					if strings.HasPrefix(sp.parser, "strconv.") {
						base, ok1 := ConstInt(c.Call.Args[1])
						bits, ok2 := ConstInt(c.Call.Args[2])
						good = ok1 && ok2 && base == 10 && bits == 64
					}
					// the parsed text is the message's own string
					src := c.Call.Args[0]
					if !DependsOn(src, func(y ssa.Value) bool {
						cc, is := y.(*ssa.Call)
						return is && (CalleeName(cc) == P+"ToString" || CalleeName(cc) == P+"string")
					}) {
						good = false
					}
				}
			default:
				// integer reply: intlen, possibly converted to the result type
				d := DescDeep(v)
				good = strings.HasSuffix(strings.TrimSuffix(d, ")"), ".intlen") || strings.Contains(d, "p0.intlen")
			}
			r.ObSite("R16c", SiteOf(ret), "parsed-with-the-result-types-parser", good, sp.name+" returns intlen of an integer reply or "+sp.parser+"(text, 10, 64) of the reply's text: "+why)
		}
		r.Anchor("R16c", sp.name+": value returns (2)", n == 2)
	}
	nAs := 0
	for _, fn := range r.P.Funcs(P + "As") {
		if fn.Parent() != nil {
			continue
		}
		nAs++
		for _, f := range WithAnons(fn) {
			for _, s := range CallSites(f, P+"ToInt64", P+"ToFloat64", P+"ToBool") {
				r.ObSite("R16d", s, "strict-accessor-in-shape-tolerant-helper", false, "an As* helper must accept the RESP2 shape (numbers as strings) and therefore uses AsInt64/AsFloat64/AsBool, not the RESP3-strict "+CalleeName(s.Call()))
			}
		}
	}
	r.Ob("R16d", nil, "As-helpers-scanned", token.NoPos, nAs >= 25, fmt.Sprintf("%d As* helpers scanned for RESP3-strict element accessors", nAs))
}

// asBoolRule (R16e): AsBool judges each reply class by its own encoding: an integer reply is true
// iff it is non-zero (compared with 0), a RESP3 boolean iff its flag is set, a status string iff OK.
func asBoolRule(r *Report) {
	fn := r.FnAnchor("R16e", "rueidis.(*RedisMessage).AsBool")
	if fn == nil {
		return
	}
	n := 0
	for _, b := range fn.Blocks {
		for _, in := range b.Instrs {
			bo, ok := in.(*ssa.BinOp)
			if !ok || !strings.HasSuffix(Desc(bo.X), ".intlen") {
				continue
			}
			k, isc := ConstInt(bo.Y)
			if !isc {
				continue
			}
			// which type bytes reach this comparison
			var tys []string
			for _, cj := range GuardDNF(b, 4) {
				for _, g := range cj {
					if _, op, y, cok := CmpGuard(g); cok && op == token.EQL {
						if tb, ist := ConstInt(y); ist && tb > 32 && tb < 127 {
							tys = append(tys, string(rune(tb)))
						}
					}
				}
			}
			sort.Strings(tys)
			tset := strings.Join(dedup(tys), "")
			n++
			good := true
			if strings.Contains(tset, ":") {
				// integers: non-zero means true
				good = k == 0 && bo.Op == token.NEQ
			}
			r.ObSite("R16e", SiteOf(in), "bool-of-"+tset, good, fmt.Sprintf("an integer reply (:) converts to true iff it is non-zero; this arm serves %q with `intlen %s %d`", tset, bo.Op, k))
		}
	}
	r.Anchor("R16e", "AsBool: intlen comparisons (2)", n == 2)
}

func runC16(r *Report) {
	scalarParserRule(r)
	asBoolRule(r)
	P := "rueidis.(*RedisMessage)."
	for _, name := range []string{P + "AsStrSlice", P + "AsIntSlice", P + "AsFloatSlice", P + "AsBoolSlice", P + "AsXRange", P + "AsXRangeSlices", P + "AsZScores", "rueidis.DecodeSliceOfJSON"} {
		fn := r.FnAnchor("R16a", name)
		if fn == nil {
			continue
		}
		n := 0
		for _, s := range Sites(fn, func(in ssa.Instruction) bool { _, ok := in.(*ssa.Store); return ok }) {
			st := s.Instr.(*ssa.Store)
			ia, ok := st.Addr.(*ssa.IndexAddr)
			if !ok {
				continue
			}
			if _, isms := Strip(ia.X).(*ssa.MakeSlice); !isms {
				continue
			}
			if _, isConst := st.Val.(*ssa.Const); isConst {
				continue
			}
			n++
			K, w, okK := elemOrWindow(st.Val)
			good := false
			why := fmt.Sprintf("slot %s <- %s", Desc(ia.Index), DescDeep(st.Val))
			if okK {
				switch {
				case w == 1 && K == ia.Index:
					good = true
				case w > 1:
					// K = I * w
					if bo, isb := K.(*ssa.BinOp); isb && bo.Op == token.MUL && bo.X == ia.Index {
						k, isc := ConstInt(bo.Y)
						good = isc && k == w
					}
					// or a second loop variable advancing in lockstep: for i, j := 0, 0; ...; i, j = i+1, j+w
					if !good {
						good = lockstepMultiple(K, ia.Index, w)
					}
				}
			}
			r.ObSite("R16a", s, "output-i-from-input-i", good, "output element i is computed from input element i (or from the i-th window of the flat shape); "+why)
		}
		for _, s := range CallSites(fn, "builtin.append") {
			es := variadicElemsOrdered(s.Call().Common().Args[1])
			if len(es) != 1 {
				continue
			}
			_, K, okK := elemOfDeep(es[0])
			if !okK {
				continue
			}
			n++
			good := isRangeIndexAny(K)
			if good {
				ph := K.(*ssa.BinOp).X.(*ssa.Phi)
				good = loopBodyAlways(fn, ph.Block(), func(in ssa.Instruction) bool {
					if in == s.Instr {
						return true
					}
					// leaving with an error is not skipping an element
					if ret, isr := in.(*ssa.Return); isr && len(ret.Results) > 0 {
						last := ret.Results[len(ret.Results)-1]
						return shortType(last.Type()) == "error" && !IsNilConst(last)
					}
					return false
				})
			}
			r.ObSite("R16a", s, "append-i-from-input-i", good, "the i-th appended element is computed from input element i and no element is skipped")
		}
		r.Anchor("R16a", name+": element outputs", n >= 1)
	}
	for _, name := range []string{P + "AsStrMap", P + "AsIntMap", "rueidis.toMap"} {
		fn := r.FnAnchor("R16b", name)
		if fn == nil {
			continue
		}
		n := 0
		for _, s := range Sites(fn, func(in ssa.Instruction) bool { _, ok := in.(*ssa.MapUpdate); return ok }) {
			mu := s.Instr.(*ssa.MapUpdate)
			if !strings.HasPrefix(shortType(mu.Map.Type()), "map[string]") {
				continue
			}
			n++
			_, K, okK := elemOfDeep(mu.Key)
			_, V, okV := elemOfDeep(mu.Value)
			good := false
			why := fmt.Sprintf("key %s, value %s", DescDeep(mu.Key), DescDeep(mu.Value))
			if okK && okV {
				if bo, isb := V.(*ssa.BinOp); isb && bo.Op == token.ADD && bo.X == K {
					k, isc := ConstInt(bo.Y)
					good = isc && k == 1
				}
				// stride-2 walk from 0
				if ph, isphi := K.(*ssa.Phi); good && isphi {
					for i, e := range ph.Edges {
						if ph.Block().Dominates(ph.Block().Preds[i]) {
							inc, isinc := e.(*ssa.BinOp)
							k, isc := ConstInt0W(inc)
							if !isinc || inc.X != K || !isc || k != 2 {
								good = false
							}
						} else if z, isz := ConstInt(e); !isz || z != 0 {
							good = false
						}
					}
				} else {
					good = false
				}
			}
			r.ObSite("R16b", s, "entry-from-positions-2i-and-2i+1", good, "each map entry takes key and value from adjacent positions of one stride-2 walk from 0; "+why)
		}
		r.Anchor("R16b", name+": map stores", n >= 1)
	}
}

// lockstepMultiple: k and i are phis of the same loop header that start at constants and advance by
// constants on the same edges, with k == w*i throughout (k0 == w*i0, step_k == w*step_i).
func lockstepMultiple(k, i ssa.Value, w int64) bool {
	pk, ok1 := k.(*ssa.Phi)
	pi, ok2 := i.(*ssa.Phi)
	if !ok1 || !ok2 || pk.Block() != pi.Block() || len(pk.Edges) != len(pi.Edges) {
		return false
	}
	edge := func(p *ssa.Phi, e ssa.Value) (init bool, v int64, ok bool) {
		if c, isc := ConstInt(e); isc {
			return true, c, true
		}
		if bo, isb := e.(*ssa.BinOp); isb && bo.Op == token.ADD && bo.X == ssa.Value(p) {
			if c, isc := ConstInt(bo.Y); isc {
				return false, c, true
			}
		}
		return false, 0, false
	}
	steps := 0
	for n := range pk.Edges {
		ik, vk, okk := edge(pk, pk.Edges[n])
		ii, vi, oki := edge(pi, pi.Edges[n])
		if !okk || !oki || ik != ii || vk != w*vi {
			return false
		}
		if !ik {
			steps++
		}
	}
	return steps > 0
}
