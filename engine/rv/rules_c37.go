package rv

import (
	"fmt"
	"go/constant"
	"go/token"
	"go/types"
	"regexp"
	"sort"
	"strconv"
	"strings"

	"golang.org/x/tools/go/ssa"
)

func init() {
	Registry["C37"] = RuleDef{Module: "rueidisprob", Run: runC37,
		Technique:   "def-use rule on the rotation period, layout agreement between the KEYS/ARGV the Go side builds and the KEYS/ARGV the embedded scripts declare, sibling agreement between the rotation prologues of the add/exists scripts (lint over script text)",
		Explanation: "Decides client-side necessary conditions of `an added item stays visible for at least half a window`: (R37a) the rotation period handed to every script is exactly windowSize in milliseconds divided by two, written once by the constructor, which refuses windows under one second (so the period is positive); (R37b) AddMulti and ExistsMulti send ARGV as [hash count, period, bit indexes...] and initialize as [period], and every script reads its `windowHalf` and `hashIterations` from exactly those positions and uses windowHalf - nothing else - as the PX of the NX rotation lock; (R37c) the add and exists key lists are the same five keys in the same order and every script binds filterKey/nextFilterKey/counterKey/nextCounterKey/lastRotationKey to the positions the Go side puts the plain, :n, :c, :nc and :lr keys at; (R37d, lint) the add script sets every bit in both the current and the next filter and the exists scripts read the current filter only; (R37e, lint) the three scripts that can rotate share one rotation prologue (same text), which promotes the next generation by RENAME before it re-creates an empty next one.",
		NotDecided:  "the server: TIME, key expiry, atomic script execution, RENAME/BITFIELD semantics - i.e. that a rotation really happens at most once per period and that an item written to both generations survives exactly one rotation; Reset/Delete; false-positive rate.",
	}
}

func runC37(r *Report) {
	T := probPkg + ".slidingBloomFilter"
	ctor := r.FnAnchor("R37a", probPkg+".NewSlidingBloomFilter")
	if ctor == nil {
		return
	}
	pk := r.P.Pkg(probPkg)
	script := func(name string) string {
		if pk == nil {
			return ""
		}
		if c, ok := pk.Types.Scope().Lookup(name).(*types.Const); ok && c.Val().Kind() == constant.String {
			return constant.StringVal(c.Val())
		}
		return ""
	}
	scripts := map[string]string{}
	for _, n := range []string{"slidingBloomFilterInitializeScript", "slidingBloomFilterAddMultiScript", "slidingBloomFilterExistsMultiScript", "slidingBloomFilterExistsReadOnlyMultiScript", "slidingBloomFilterResetScript"} {
		scripts[n] = script(n)
		r.Anchor("R37b", "script text "+n, scripts[n] != "")
	}

	// R37a: the period
	var windowParam ssa.Value
	for _, p := range ctor.Params {
		if p.Name() == "windowSize" || shortType(p.Type()) == "time.Duration" {
			windowParam = p
		}
	}
	nW := 0
	for _, a := range r.P.FieldAccesses(T, "windowHalfMs") {
		if !a.Write {
			continue
		}
		nW++
		r.ObSite("R37a", a.Site, "period-written-by-constructor-only", a.Fn == ctor, "the rotation period is fixed at construction")
		st, ok := a.Instr.(*ssa.Store)
		okV := false
		if ok {
			if x, isF := isFormatInt10(st.Val); isF {
				if q, isq := x.(*ssa.BinOp); isq && q.Op == token.QUO {
					if k, isc := ConstInt(q.Y); isc && k == 2 {
						if c, isc := q.X.(*ssa.Call); isc && CalleeName(c) == "time.(Duration).Milliseconds" && c.Call.Args[0] == windowParam && windowParam != nil {
							okV = true
						}
					}
				}
				// (windowSize / 2).Milliseconds() is never smaller than windowSize.Milliseconds()/2
				if c, isc := x.(*ssa.Call); isc && CalleeName(c) == "time.(Duration).Milliseconds" {
					if q, isq := c.Call.Args[0].(*ssa.BinOp); isq && q.Op == token.QUO && q.X == windowParam && windowParam != nil {
						if k, isc := ConstInt(q.Y); isc && k == 2 {
							okV = true
						}
					}
				}
			}
		}
		r.ObSite("R37a", a.Site, "period-is-half-the-window-in-ms", okV, "windowHalfMs = FormatInt(windowSize.Milliseconds()/2, 10): a shorter period drops items before half the window has passed")
		if ok {
			g := Guarded(a.Block, func(g Guard) bool {
				x, op, y, ok := CmpGuard(g)
				k, isc := ConstInt(y)
				return ok && x == windowParam && (op == token.GEQ || op == token.GTR) && isc && k >= 2_000_000 // >= 2ms: the halved millisecond count is positive
			})
			r.ObSite("R37a", a.Site, "window-lower-bound", g, "the constructor only gets here with a window large enough for a positive period (PX 0 is rejected by the server and the lock would never be taken)")
		}
	}
	r.Anchor("R37a", "store to windowHalfMs (== 1)", nW == 1)

	// R37b: ARGV layout
	declRe := regexp.MustCompile(`local\s+(\w+)\s*=\s*tonumber\(\s*ARGV\[(\d+)\]\s*\)`)
	argvOf := func(src string) map[string]int {
		m := map[string]int{}
		for _, g := range declRe.FindAllStringSubmatch(src, -1) {
			k, _ := strconv.Atoi(g[2])
			m[g[1]] = k
		}
		return m
	}
	fieldToLocal := map[string]string{"hashIterationString": "hashIterations", "windowHalfMs": "windowHalf"}
	type use struct {
		fn      string
		scripts []string
		spread  bool
	}
	for _, u := range []use{
		{probPkg + ".(*slidingBloomFilter).AddMulti", []string{"slidingBloomFilterAddMultiScript"}, true},
		{probPkg + ".(*slidingBloomFilter).ExistsMulti", []string{"slidingBloomFilterExistsMultiScript", "slidingBloomFilterExistsReadOnlyMultiScript"}, true},
		{probPkg + ".(*slidingBloomFilter).initialize", []string{"slidingBloomFilterInitializeScript"}, false},
	} {
		fn := r.FnAnchor("R37b", u.fn)
		if fn == nil {
			continue
		}
		n := 0
		for _, s := range CallSites(fn, "rueidis.(*Lua).Exec") {
			n++
			segs, ok := flattenArgs(s.Call().Common().Args[4])
			if !ok {
				r.ObSite("R37b", s, "argv-recognised", false, "the ARGV of the script call is not a chain of appends / a literal: layout undecided")
				continue
			}
			// leading scalar positions
			pos := map[string]int{}
			idx := 1
			spreadAt := 0
			for _, sg := range segs {
				if sg.spread != nil {
					spreadAt = idx
					idx = -1 << 20
					continue
				}
				for _, e := range sg.elems {
					for f, l := range fieldToLocal {
						if IsFieldLoad(e, T, f) {
							pos[l] = idx
						}
					}
					idx++
				}
			}
			for _, sn := range u.scripts {
				want := argvOf(scripts[sn])
				okL := len(want) > 0
				for l, k := range want {
					if pos[l] != k {
						okL = false
					}
				}
				okS := true
				if u.spread {
					m := regexp.MustCompile(`numElements\s*=\s*tonumber\(#ARGV\)\s*-\s*(\d+)`).FindStringSubmatch(scripts[sn])
					k := 0
					if m != nil {
						k, _ = strconv.Atoi(m[1])
					}
					okS = spreadAt > 0 && k == spreadAt-1 && strings.Contains(scripts[sn], fmt.Sprintf("ARGV[i+%d]", k))
				}
				r.ObSite("R37b", s, "argv-positions-agree:"+sn, okL && okS, fmt.Sprintf("Go sends %v (indexes from position %d); the script reads %v", pos, spreadAt, want))
			}
		}
		r.Anchor("R37b", u.fn+": one script execution", n == 1)
	}
	// the rotation lock uses windowHalf as PX, NX
	lockRe := regexp.MustCompile(`redis\.call\(\s*'SET'\s*,\s*lastRotationKey\s*,[^)]*\)\s*,\s*'PX'\s*,\s*(\w+)\s*,\s*'NX'\s*\)`)
	for _, sn := range []string{"slidingBloomFilterInitializeScript", "slidingBloomFilterAddMultiScript", "slidingBloomFilterExistsMultiScript", "slidingBloomFilterExistsReadOnlyMultiScript"} {
		ms := lockRe.FindAllStringSubmatch(scripts[sn], -1)
		ok := len(ms) == 1 && ms[0][1] == "windowHalf"
		r.Ob("R37b", nil, sn+":rotation-lock-expires-after-the-period", token.NoPos, ok, "the script takes the rotation lock with SET lastRotationKey ... 'PX', windowHalf, 'NX' (once): the lock's lifetime is the rotation period")
	}

	// R37c: KEYS layout
	suffixLocal := map[string]string{"": "filterKey", ":n": "nextFilterKey", ":c": "counterKey", ":nc": "nextCounterKey", ":lr": "lastRotationKey"}
	keyKinds := func(field string) ([]string, Site, bool) {
		for _, a := range FieldAccessesIn(ctor, T, field) {
			st, ok := a.Instr.(*ssa.Store)
			if !a.Write || !ok {
				continue
			}
			var kinds []string
			for _, e := range variadicElemsOrdered(st.Val) {
				kind := "?"
				if bo, ok := e.(*ssa.BinOp); ok && bo.Op == token.ADD {
					if s, iss := ConstString(bo.Y); iss {
						if l, known := suffixLocal[s]; known && s != "" {
							kind = l
						} else if s == "}" {
							kind = "filterKey"
						}
					}
				}
				kinds = append(kinds, kind)
			}
			return kinds, a.Site, true
		}
		return nil, Site{}, false
	}
	addK, addSite, okA := keyKinds("addMultiKeys")
	exK, exSite, okE := keyKinds("existsMultiKeys")
	if r.Anchor("R37c", "constructor stores addMultiKeys and existsMultiKeys", okA && okE) {
		r.ObSite("R37c", exSite, "exists-keys-equal-add-keys", strings.Join(addK, ",") == strings.Join(exK, ","), "Exists looks at the keys Add writes, in the same order: "+strings.Join(addK, ",")+" / "+strings.Join(exK, ","))
		// all keys derive from one hash-tagged name
		keyRe := regexp.MustCompile(`local\s+(\w+)\s*=\s*KEYS\[(\d+)\]`)
		var names []string
		for n := range scripts {
			names = append(names, n)
		}
		sort.Strings(names)
		for _, sn := range names {
			okK := true
			decl := keyRe.FindAllStringSubmatch(scripts[sn], -1)
			for _, g := range decl {
				k, _ := strconv.Atoi(g[2])
				if k < 1 || k > len(addK) || addK[k-1] != g[1] {
					okK = false
				}
			}
			r.ObSite("R37c", addSite, "keys-positions-agree:"+sn, okK && len(decl) >= 4, fmt.Sprintf("the script's KEYS[n] bindings name the kind of key the Go side puts at position n (%s)", strings.Join(addK, ",")))
		}
	}
	for _, u := range []struct{ fn, field string }{
		{probPkg + ".(*slidingBloomFilter).AddMulti", "addMultiKeys"},
		{probPkg + ".(*slidingBloomFilter).ExistsMulti", "existsMultiKeys"},
		{probPkg + ".(*slidingBloomFilter).initialize", "addMultiKeys"},
	} {
		if fn := r.P.Fn(u.fn); fn != nil {
			for _, s := range CallSites(fn, "rueidis.(*Lua).Exec") {
				r.ObSite("R37c", s, "keys-are-the-filters-key-list", IsFieldLoad(s.Call().Common().Args[3], T, u.field), "the script runs on the filter's own key list ("+u.field+")")
			}
		}
	}
	// which script each Lua object is built from
	for _, f := range []struct{ field, want string }{{"addMultiScript", "slidingBloomFilterAddMultiScript"}} {
		for _, a := range FieldAccessesIn(ctor, T, f.field) {
			st, ok := a.Instr.(*ssa.Store)
			if !a.Write || !ok {
				continue
			}
			okS := false
			if c, isc := st.Val.(*ssa.Call); isc && strings.HasPrefix(CalleeName(c), "rueidis.NewLuaScript") {
				if sv, iss := ConstString(c.Call.Args[0]); iss && sv == scripts[f.want] {
					okS = true
				}
			}
			r.ObSite("R37c", a.Site, "script-of:"+f.field, okS, f.field+" is built from "+f.want)
		}
	}
	for _, a := range FieldAccessesIn(ctor, T, "existsMultiScript") {
		st, ok := a.Instr.(*ssa.Store)
		if !a.Write || !ok {
			continue
		}
		okS := false
		if c, isc := st.Val.(*ssa.Call); isc && strings.HasPrefix(CalleeName(c), "rueidis.NewLuaScript") {
			vals := []ssa.Value{c.Call.Args[0]}
			if ph, isphi := c.Call.Args[0].(*ssa.Phi); isphi {
				vals = ph.Edges
			}
			okS = true
			for _, v := range vals {
				sv, iss := ConstString(v)
				if !iss || (sv != scripts["slidingBloomFilterExistsMultiScript"] && sv != scripts["slidingBloomFilterExistsReadOnlyMultiScript"]) {
					okS = false
				}
			}
		}
		r.ObSite("R37c", a.Site, "script-of:existsMultiScript", okS, "existsMultiScript is built from one of the two exists scripts")
	}

	// R37d: add writes both generations, exists reads the current one
	setRe := regexp.MustCompile(`redis\.call\(\s*'BITFIELD'\s*,\s*(\w+)\s*,\s*'SET'\s*,\s*'u1'\s*,\s*([^,]+?)\s*,\s*'1'\s*\)`)
	getRe := regexp.MustCompile(`redis\.call\(\s*'BITFIELD(?:_RO)?'\s*,\s*(\w+)\s*,\s*'GET'`)
	{
		src := scripts["slidingBloomFilterAddMultiScript"]
		keys := map[string]string{}
		for _, g := range setRe.FindAllStringSubmatch(src, -1) {
			keys[g[1]] = g[2]
		}
		ok := len(keys) == 2 && keys["filterKey"] != "" && keys["filterKey"] == keys["nextFilterKey"]
		inLoop := false
		if i := strings.Index(src, "for i=1, numElements do"); i >= 0 {
			j := strings.Index(src[i:], "nextFilterKey, 'SET'")
			k := strings.Index(src[i:], "filterKey, 'SET'")
			inLoop = j > 0 && k > 0
		}
		// both writes are unconditional statements of the per-index loop body
		depthAt := func(pos int) int {
			d := 0
			for _, m := range regexp.MustCompile(`\b(for|while|if|function|repeat|end|until)\b`).FindAllStringIndex(src[:pos], -1) {
				switch src[m[0]:m[1]] {
				case "end", "until":
					d--
				default:
					d++
				}
			}
			return d
		}
		if li := strings.Index(src, "for i=1, numElements do"); li >= 0 {
			want := depthAt(li) + 1
			for _, m := range setRe.FindAllStringIndex(src, -1) {
				if m[0] < li || depthAt(m[0]) != want {
					inLoop = false
				}
			}
		}
		r.Ob("R37d", nil, "add-sets-bit-in-current-and-next-filter", token.NoPos, ok && inLoop, "for every index the add script sets the bit in filterKey and in nextFilterKey (the copy that survives the next rotation)")
	}
	for _, sn := range []string{"slidingBloomFilterExistsMultiScript", "slidingBloomFilterExistsReadOnlyMultiScript"} {
		keys := map[string]bool{}
		for _, g := range getRe.FindAllStringSubmatch(scripts[sn], -1) {
			keys[g[1]] = true
		}
		r.Ob("R37d", nil, sn+":reads-current-filter", token.NoPos, len(keys) == 1 && keys["filterKey"], "the exists script tests bits of filterKey (the generation every add of the last period wrote to)")
	}

	// initialize creates the keys only when every key it writes was tested absent
	{
		src := scripts["slidingBloomFilterInitializeScript"]
		ex := regexp.MustCompile(`if\s+redis\.call\(\s*'EXISTS'\s*,([^)]*)\)\s*==\s*0\s*then`).FindStringSubmatch(src)
		ms := regexp.MustCompile(`redis\.call\(\s*'MSET'\s*,([^)]*)\)`).FindStringSubmatch(src)
		ok := ex != nil && ms != nil
		if ok {
			tested := map[string]bool{}
			for _, a := range strings.Split(ex[1], ",") {
				tested[strings.TrimSpace(a)] = true
			}
			args := strings.Split(ms[1], ",")
			for i := 0; i < len(args); i += 2 {
				if !tested[strings.TrimSpace(args[i])] {
					ok = false
				}
			}
			ok = ok && len(args) >= 8
		}
		r.Ob("R37d", nil, "initialize-writes-only-keys-tested-absent", token.NoPos, ok, "the initialize script (run by every constructor, also for an existing filter) creates empty filters only when all the keys it writes were tested absent: the rotation lock alone expires by itself and says nothing about the filters")
	}

	// R37e: one rotation prologue
	squash := func(s string) string { return strings.Join(strings.Fields(s), "") }
	prologue := func(src string) string {
		i := strings.Index(src, "local time = redis.call('TIME')")
		j := strings.Index(src, "if acquiredLock then")
		if i < 0 || j < 0 {
			return ""
		}
		k := strings.Index(src[j:], "\nend")
		if k < 0 {
			return ""
		}
		return squash(src[i : j+k+4])
	}
	ref := prologue(scripts["slidingBloomFilterAddMultiScript"])
	r.Anchor("R37e", "rotation prologue of the add script", ref != "")
	for _, sn := range []string{"slidingBloomFilterExistsMultiScript", "slidingBloomFilterExistsReadOnlyMultiScript"} {
		r.Ob("R37e", nil, sn+":rotation-prologue-equals-add", token.NoPos, ref != "" && prologue(scripts[sn]) == ref, "the scripts that may rotate the generations do it with the same code")
	}
	if ref != "" {
		rn := strings.Index(ref, "redis.call('RENAME',nextFilterKey,filterKey)")
		st := strings.Index(ref, "redis.call('SET',nextFilterKey,\"\")")
		lk := strings.Index(ref, "ifacquiredLockthen")
		r.Ob("R37e", nil, "rotation-promotes-next-then-clears-it", token.NoPos, lk >= 0 && rn > lk && st > rn, "under the freshly taken lock the next generation is renamed onto the current one before an empty next generation is created")
	}
	r.Min("R37b", 8)
	r.Min("R37c", 8)
}

type argSeg struct {
	elems  []ssa.Value
	spread ssa.Value
}

// flattenArgs resolves a []string built by a chain of appends on an empty make, or a literal.
func flattenArgs(v ssa.Value) ([]argSeg, bool) {
	var segs []argSeg
	for {
		switch x := v.(type) {
		case *ssa.Call:
			if _, isApp := builtinCall(x, "append"); !isApp {
				// built by an unexported helper of the package (`s.scriptArgs(indexes)`): the list the
				// helper returns, in the helper's own terms (field loads of the receiver keep their meaning,
				// a spread parameter stays a spread)
				h := x.Call.StaticCallee()
				if h == nil || h.Blocks == nil || isExportedName(h.Name()) || x.Parent() == nil || h.Pkg != x.Parent().Pkg {
					return nil, false
				}
				var ret ssa.Value
				n := 0
				for _, b := range h.Blocks {
					if r, isr := b.Instrs[len(b.Instrs)-1].(*ssa.Return); isr && len(r.Results) == 1 {
						ret = r.Results[0]
						n++
					}
				}
				if n != 1 {
					return nil, false
				}
				inner, ok := flattenArgs(ret)
				if !ok {
					return nil, false
				}
				return append(inner, segs...), true
			}
			if len(x.Call.Args) != 2 {
				return nil, false
			}
			if el := variadicElemsOrdered(x.Call.Args[1]); el != nil {
				segs = append([]argSeg{{elems: el}}, segs...)
			} else {
				segs = append([]argSeg{{spread: x.Call.Args[1]}}, segs...)
			}
			v = x.Call.Args[0]
		case *ssa.MakeSlice:
			n, isc := ConstInt(x.Len)
			return segs, isc && n == 0
		case *ssa.Slice:
			el := variadicElemsOrdered(x)
			if el == nil {
				return nil, false
			}
			return append([]argSeg{{elems: el}}, segs...), true
		default:
			return nil, false
		}
	}
}
