package rv

import (
	"go/token"
	"strings"

	"golang.org/x/tools/go/ssa"
)

func init() {
	Registry["C29"] = RuleDef{Module: ".", Run: runC29,
		Technique:   "ownership typestate of the streamed connection, guard / ordering rules in RedisResultStream.WriteTo, must-pass rule on the streaming decoder's trailer consumption",
		Explanation: "Decides (R29a) that a stream's connection is given back to the pool exactly once, only when the count of outstanding replies reaches 0, that it is closed first when an error other than end-of-stream is latched, and that a reply that could not be consumed completely latches its error and forces the count to the final reply so that the recycle step runs; (R29b) that WriteTo consumes at most one reply per call through one streamTo call, only while no error is latched and replies remain; (R29c) that the streaming decoder, after a string header, always discards the trailer `declared length + 2 - bytes copied` before reporting a clean read, the only exceptions being the null string and the chunk terminator; (R29d = R24c) that every return of pipe.DoStream / DoMultiStream either owns (pool, wire) in the stream or has stored the wire, and that mux.DoStream hands the acquired wire to them. (R29e) streamTo never reports clean=true together with the error of a read from the connection.",
		NotDecided:  "payload equality; what the io.Writer does with the bytes."}
}

func runC29(r *Report) {
	cleanFlagRule(r)
	p := r.P
	const RS = "rueidis.RedisResultStream"
	wt := r.FnAnchor("R29a", "rueidis.(*RedisResultStream).WriteTo")
	if wt != nil {
		stores := CallSites(wt, "rueidis.(*pool).Store")
		r.Anchor("R29a", "pool.Store in WriteTo", len(stores) == 1)
		for _, s := range stores {
			last := Guarded(s.Block, func(g Guard) bool {
				x, op, y, ok := CmpGuard(g)
				k, isc := ConstInt(y)
				if !ok || op != token.EQL || !isc || k != 0 {
					return false
				}
				// the compared value is the decremented outstanding count
				if bo, isb := x.(*ssa.BinOp); isb && bo.Op == token.SUB && IsFieldLoad(bo.X, RS, "n") {
					return true
				}
				if IsFieldLoad(x, RS, "n") && g.Block != nil {
					for _, in := range g.Block.Instrs {
						if st, isst := in.(*ssa.Store); isst && IsFieldAddr(st.Addr, RS, "n") {
							if bo, isb := st.Val.(*ssa.BinOp); isb && bo.Op == token.SUB && IsFieldLoad(bo.X, RS, "n") {
								if one, isc := ConstInt(bo.Y); isc && one == 1 {
									return true
								}
							}
						}
					}
				}
				return false
			})
			args := s.Call().Common().Args
			own := IsFieldLoad(args[0], RS, "p") && IsFieldLoad(args[1], RS, "w")
			r.ObSite("R29a", s, "store-once-after-last-reply", last && own, "the stream's own (pool, wire) pair is stored back only when the outstanding count, decremented by this reply, reaches 0")
			// close before store when an error is latched
			closes := CallSites(wt, "rueidis.(*pipe).Close")
			okClose := len(closes) == 1
			for _, c := range closes {
				okClose = okClose && Guarded(c.Block, func(g Guard) bool {
					x, op, y, ok := CmpGuard(g)
					return ok && op == token.NEQ && IsNilConst(y) && IsFieldLoad(x, RS, "e")
				}) && reachesBlock(c.Block, s.Block) && !reachesBlock(s.Block, c.Block)
			}
			r.ObSite("R29a", s, "errored-wire-closed-before-store", okClose, "a connection whose reply could not be consumed is closed before it is stored back (the pool then discards it)")
			// end of stream is latched otherwise
			eof := false
			for _, a := range FieldAccessesIn(wt, RS, "e") {
				if st, ok := a.Instr.(*ssa.Store); ok && strings.HasSuffix(Desc(st.Val), "io.EOF") {
					eof = Guarded(a.Block, func(g Guard) bool {
						x, op, y, ok := CmpGuard(g)
						return ok && op == token.EQL && IsNilConst(y) && IsFieldLoad(x, RS, "e")
					})
				}
			}
			r.ObSite("R29a", s, "end-of-stream-latched", eof, "after the last reply the stream latches io.EOF so that further WriteTo calls do nothing")
		}
		// unclean read
		calls := CallSites(wt, "rueidis.streamTo")
		r.Anchor("R29b", "streamTo in WriteTo", len(calls) == 1)
		for _, s := range calls {
			ok := Guarded(s.Block, func(g Guard) bool {
				x, op, y, cok := CmpGuard(g)
				k, isc := ConstInt(y)
				return cok && op == token.GTR && isc && k == 0 && IsFieldLoad(x, RS, "n")
			}) && Guarded(s.Block, func(g Guard) bool {
				x, op, y, cok := CmpGuard(g)
				return cok && op == token.EQL && IsNilConst(y) && (IsFieldLoad(x, RS, "e") || shortType(x.Type()) == "error")
			})
			r.ObSite("R29b", s, "one-reply-per-call-while-live", ok, "WriteTo reads one reply, and only while no error is latched and replies are outstanding")
			call := s.Instr.(*ssa.Call)
			var clean ssa.Value
			for _, ref := range *call.Referrers() {
				if ex, isx := ref.(*ssa.Extract); isx && ex.Index == 2 {
					clean = ex
				}
			}
			setN, setE := false, false
			for _, a := range FieldAccessesIn(wt, RS, "n") {
				if st, isst := a.Instr.(*ssa.Store); isst {
					if k, isc := ConstInt(st.Val); isc && k == 1 {
						setN = Guarded(a.Block, func(g Guard) bool { return !g.Pol && g.Cond == clean })
					}
				}
			}
			for _, a := range FieldAccessesIn(wt, RS, "e") {
				if st, isst := a.Instr.(*ssa.Store); isst && !strings.HasSuffix(Desc(st.Val), "io.EOF") {
					setE = Guarded(a.Block, func(g Guard) bool { return !g.Pol && g.Cond == clean })
				}
			}
			r.ObSite("R29a", s, "unclean-read-forces-recycle", clean != nil && setN && setE, "a reply that was not consumed completely latches its error and sets the outstanding count to 1, so that this call's decrement reaches 0 and the connection is closed and given back (otherwise the pool slot leaks)")
		}
	}
	// R29c streaming decoder
	if st := r.FnAnchor("R29c", "rueidis.streamTo"); st != nil {
		// from the `n == -1` false edge every return passes Discard, except through `typ == ';'`
		n := 0
		for _, b := range st.Blocks {
			iff, ok := b.Instrs[len(b.Instrs)-1].(*ssa.If)
			if !ok {
				continue
			}
			x, op, y, cok := CmpGuard(normGuard(Guard{iff.Cond, true, b}))
			k, isc := ConstInt(y)
			if !cok || op != token.EQL || !isc || k != -1 {
				continue
			}
			if !DependsOn(x, func(v ssa.Value) bool { c, ok := v.(*ssa.Call); return ok && CalleeName(c) == "rueidis.readI" }) {
				continue
			}
			n++
			chunkEdge := func(from *ssa.BasicBlock, succ int) bool {
				i2, ok := from.Instrs[len(from.Instrs)-1].(*ssa.If)
				if !ok {
					return false
				}
				g := normGuard(Guard{i2.Cond, succ == 0, from})
				_, op2, y2, ok2 := CmpGuard(g)
				k2, isc2 := ConstInt(y2)
				return ok2 && op2 == token.EQL && isc2 && k2 == ';'
			}
			okT := MustPassOrEdge(Site{st, b.Succs[1], -1, nil}, func(in ssa.Instruction) bool {
				_, is := CallTo(in, "bufio.(*Reader).Discard")
				return is
			}, chunkEdge)
			r.ObSite("R29c", Site{st, b, len(b.Instrs) - 1, iff}, "trailer-always-consumed", okT, "after a string header (other than the null string) every path discards the trailer before returning; only the chunk terminator `;0` has none. An unread CRLF corrupts the framing of the next reply on that connection")
		}
		r.Anchor("R29c", "null-length test in streamTo", n >= 1)
		for _, s := range CallSites(st, "bufio.(*Reader).Discard") {
			arg := s.Call().Common().Args[1]
			d := DescDeep(arg)
			ok := strings.Contains(d, " + 2) - ")
			r.ObSite("R29c", s, "trailer-length", ok, "the trailer discarded is (declared length + 2) - bytes copied; got "+Desc(arg))
		}
	}
	// R29d = R24c stream ownership
	for _, name := range []string{"rueidis.(*mux).DoStream", "rueidis.(*mux).DoMultiStream"} {
		fn := r.FnAnchor("R29d", name)
		if fn == nil {
			continue
		}
		acq := CallSites(fn, "rueidis.(*pool).Acquire")
		ok := len(acq) == 1
		if ok {
			w := acq[0].Instr.(ssa.Value)
			okp, _ := MustPass(acq[0], func(in ssa.Instruction) bool {
				c, is := in.(*ssa.Call)
				return is && (CalleeName(c) == "iface:rueidis.wire.DoStream" || CalleeName(c) == "iface:rueidis.wire.DoMultiStream") && c.Call.Value == w
			})
			ok = okp
		}
		r.Ob("R29d", fn, "acquired-wire-handed-to-stream", fn.Pos(), ok, "the wire acquired for a streaming call is handed to the wire's stream method on every path")
	}
	for _, name := range []string{"rueidis.(*pipe).DoStream", "rueidis.(*pipe).DoMultiStream"} {
		fn := r.FnAnchor("R29d", name)
		if fn == nil {
			continue
		}
		var poolParam *ssa.Parameter
		for _, prm := range fn.Params {
			if shortType(prm.Type()) == "*rueidis.pool" {
				poolParam = prm
			}
		}
		if poolParam == nil {
			continue
		}
		isStore := func(in ssa.Instruction) bool {
			c, ok := CallTo(in, "rueidis.(*pool).Store")
			return ok && c.Common().Args[0] == ssa.Value(poolParam) && Strip(c.Common().Args[1]) == ssa.Value(fn.Params[0])
		}
		bad := ReturnsAvoiding(fn, isStore)
		for _, b := range fn.Blocks {
			ret, ok := b.Instrs[len(b.Instrs)-1].(*ssa.Return)
			if !ok {
				continue
			}
			unstored := false
			for _, x := range bad {
				if x == ret {
					unstored = true
				}
			}
			owns := streamOwns(ret.Results[0], poolParam, fn.Params[0])
			r.ObSite("R29d", Site{fn, b, len(b.Instrs) - 1, ret}, "stream-return", owns == unstored, "a return either owns (pool, wire) in the stream without having stored the wire, or has stored the wire on every path to it")
		}
	}
	_ = p
}

// cleanFlagRule (R29e): streamTo's `clean` result tells the stream whether the connection is still
// at a reply boundary and may be reused. It is never reported true together with the error of a
// read from the connection (ReadByte, readI, readNextMessage): such an error means the reply was
// not (completely) taken off the wire.
func cleanFlagRule(r *Report) {
	fn := r.FnAnchor("R29e", "rueidis.streamTo")
	if fn == nil {
		return
	}
	n := 0
	for _, b := range fn.Blocks {
		ret, ok := b.Instrs[len(b.Instrs)-1].(*ssa.Return)
		if !ok || len(ret.Results) != 3 {
			continue
		}
		c, isc := ret.Results[2].(*ssa.Const)
		if !isc || c.Value == nil || c.Value.String() != "true" {
			continue
		}
		n++
		bad := ""
		if ex, isex := ret.Results[1].(*ssa.Extract); isex {
			if call, iscall := ex.Tuple.(*ssa.Call); iscall {
				knownNil := false
				for _, g := range DomGuards(b) {
					if x, op, y, cok := CmpGuard(g); cok && x == ret.Results[1] && IsNilConst(y) && op == token.EQL {
						knownNil = true
					}
				}
				switch CalleeName(call) {
				case "bufio.(*Reader).ReadByte", "rueidis.readI", "rueidis.readNextMessage":
					if !knownNil {
						bad = "clean=true is returned together with the error of " + CalleeName(call)
					}
				}
			}
		}
		r.ObSite("R29e", SiteOf(ret), "clean-only-without-a-read-error", bad == "", "a failed read from the connection is never reported as a clean reply boundary; "+bad)
	}
	r.Anchor("R29e", "streamTo: returns with clean=true (>= 4)", n >= 4)
}
