package rv

import (
	"fmt"
	"go/token"
	"strings"

	"golang.org/x/tools/go/ssa"
)

const compatPkg = "rueidis/rueidiscompat"

func init() {
	Registry["C41"] = RuleDef{Module: "rueidiscompat", Run: runC41,
		Technique:   "sibling-shape comparison of all pipeline wrappers, path-wise min/max counting of queued commands through callee summaries, index-correspondence rule on Exec",
		Explanation: "Decides for the go-redis adapter (R41a) that every command method of Pipeline calls the same-named Compat method exactly once with all its parameters in order, appends that call's result to the pipeline's result list exactly once on every path and returns it; (R41b) that every such Compat method, with the pipeline-only branch selected, executes exactly one client.Do (one queued command per queued result) on every non-panicking path and reaches no other client request method; (R41c) that Pipeline.Exec and TxPipeline.Exec fill result i from reply i (transaction: EXEC element i with the transport error of reply i+1), keep the first error, map a Nil EXEC to TxFailedErr, place MULTI first and EXEC last around the queued commands, and that Discard clears both queues; (R41d) a pipeline method that queues by hand (Do) adds a result holder exactly when it adds a command, on every path.",
		NotDecided:  "that each adapter method builds the right Redis command (C42, no oracle); the element rotation inside TxPipeline.Exec beyond the append of MULTI and EXEC."}
}

type doCount struct{ min, max int }

const manyDo = 1 << 20

type doSummarizer struct {
	memo   map[*ssa.Function]*doCount
	inprog map[*ssa.Function]bool
	other  map[*ssa.Function][]string
	pkg    *ssa.Package
}

func clientReq(c ssa.CallInstruction) (string, bool) {
	if !c.Common().IsInvoke() {
		return "", false
	}
	t := shortType(c.Common().Value.Type())
	if t != "rueidis.Client" && t != "rueidis.CoreClient" && t != "rueidis.DedicatedClient" {
		return "", false
	}
	switch n := c.Common().Method.Name(); n {
	case "Do", "DoMulti", "DoCache", "DoMultiCache", "Receive", "Dedicate", "Dedicated", "Nodes", "DoStream", "DoMultiStream":
		return n, true
	}
	return "", false
}

func (d *doSummarizer) summarize(fn *ssa.Function) doCount {
	if m, ok := d.memo[fn]; ok {
		return *m
	}
	if d.inprog[fn] || fn.Blocks == nil {
		return doCount{}
	}
	d.inprog[fn] = true
	defer func() { d.inprog[fn] = false }()
	bmin := map[*ssa.BasicBlock]int{}
	bmax := map[*ssa.BasicBlock]int{}
	// blocks reachable once the pipeline-only arm is selected
	live := map[*ssa.BasicBlock]bool{}
	var mark func(b *ssa.BasicBlock)
	mark = func(b *ssa.BasicBlock) {
		if live[b] {
			return
		}
		live[b] = true
		succs := b.Succs
		if iff, ok := b.Instrs[len(b.Instrs)-1].(*ssa.If); ok {
			g := normGuard(Guard{iff.Cond, true, b})
			if IsFieldLoad(g.Cond, compatPkg+".Compat", "pOnly") {
				if g.Pol {
					succs = []*ssa.BasicBlock{b.Succs[0]}
				} else {
					succs = []*ssa.BasicBlock{b.Succs[1]}
				}
			}
		}
		for _, sc := range succs {
			mark(sc)
		}
	}
	mark(fn.Blocks[0])
	for _, b := range fn.Blocks {
		if !live[b] {
			continue
		}
		for _, in := range b.Instrs {
			c, ok := in.(ssa.CallInstruction)
			if !ok {
				continue
			}
			if _, isGo := in.(*ssa.Go); isGo {
				continue
			}
			if n, ok := clientReq(c); ok {
				if n == "Do" {
					bmin[b]++
					bmax[b]++
				} else {
					d.other[fn] = append(d.other[fn], n)
				}
				continue
			}
			if callee := c.Common().StaticCallee(); callee != nil && callee.Pkg == d.pkg {
				s := d.summarize(callee)
				bmin[b] += s.min
				bmax[b] += s.max
				d.other[fn] = append(d.other[fn], d.other[callee]...)
			}
			for _, a := range c.Common().Args {
				if mc, ok := a.(*ssa.MakeClosure); ok {
					s := d.summarize(mc.Fn.(*ssa.Function))
					bmin[b] += s.min
					bmax[b] += s.max
					d.other[fn] = append(d.other[fn], d.other[mc.Fn.(*ssa.Function)]...)
				}
			}
		}
	}
	isBack := func(u, v *ssa.BasicBlock) bool { return v.Dominates(u) }
	inLoop := map[*ssa.BasicBlock]bool{}
	for _, u := range fn.Blocks {
		for _, v := range u.Succs {
			if isBack(u, v) {
				stack := []*ssa.BasicBlock{u}
				seen := map[*ssa.BasicBlock]bool{v: true, u: true}
				for len(stack) > 0 {
					x := stack[len(stack)-1]
					stack = stack[:len(stack)-1]
					for _, p := range x.Preds {
						if !seen[p] {
							seen[p] = true
							stack = append(stack, p)
						}
					}
				}
				for x := range seen {
					inLoop[x] = true
				}
			}
		}
	}
	mn := map[*ssa.BasicBlock]int{}
	mx := map[*ssa.BasicBlock]int{}
	done := map[*ssa.BasicBlock]bool{}
	var rec func(b *ssa.BasicBlock) (int, int, bool)
	rec = func(b *ssa.BasicBlock) (int, int, bool) {
		if done[b] {
			return mn[b], mx[b], mn[b] >= 0
		}
		done[b] = true
		mn[b], mx[b] = -1, -1
		cmin, cmax := bmin[b], bmax[b]
		if inLoop[b] && cmax > 0 {
			cmax = manyDo
		}
		last := b.Instrs[len(b.Instrs)-1]
		switch last.(type) {
		case *ssa.Return:
			mn[b], mx[b] = cmin, cmax
			return cmin, cmax, true
		case *ssa.Panic:
			return 0, 0, false
		}
		succs := b.Succs
		// the pipeline is built with pOnly: only the pipeline-only arm is taken
		if iff, ok := last.(*ssa.If); ok {
			g := normGuard(Guard{iff.Cond, true, b})
			if IsFieldLoad(g.Cond, compatPkg+".Compat", "pOnly") {
				if g.Pol {
					succs = []*ssa.BasicBlock{b.Succs[0]}
				} else {
					succs = []*ssa.BasicBlock{b.Succs[1]}
				}
			}
		}
		best, worst, any := manyDo*2, -1, false
		for _, s := range succs {
			if isBack(b, s) {
				continue
			}
			a, z, ok := rec(s)
			if !ok {
				continue
			}
			any = true
			if a < best {
				best = a
			}
			if z > worst {
				worst = z
			}
		}
		if !any {
			return 0, 0, false
		}
		mn[b], mx[b] = cmin+best, cmax+worst
		if mx[b] > manyDo {
			mx[b] = manyDo
		}
		return mn[b], mx[b], true
	}
	a, z, ok := rec(fn.Blocks[0])
	if !ok {
		a, z = 0, 0
	}
	m := &doCount{a, z}
	d.memo[fn] = m
	return *m
}

func runC41(r *Report) {
	p := r.P
	var pkg *ssa.Package
	for _, sp := range p.SSA.AllPackages() {
		if sp.Pkg.Path() == ModPath+"/rueidiscompat" {
			pkg = sp
		}
	}
	if !r.Anchor("R41", "package rueidiscompat", pkg != nil) {
		return
	}
	d := &doSummarizer{memo: map[*ssa.Function]*doCount{}, inprog: map[*ssa.Function]bool{}, other: map[*ssa.Function][]string{}, pkg: pkg}
	nWrap, nOne := 0, 0
	for _, typ := range []string{"Pipeline", "TxPipeline"} {
		for _, fn := range p.Funcs(compatPkg + ".(*" + typ + ").") {
			if fn.Parent() != nil {
				continue
			}
			name := fn.Name()
			target := p.Fn(compatPkg + ".(*Compat)." + name)
			if target == nil {
				balancedQueueRule(r, fn)
				continue
			}
			calls := CallSites(fn, compatPkg+".(*Compat)."+name)
			if len(calls) == 0 {
				// not a delegating wrapper (Exec, Pipelined, Do ...): if it queues by hand, every path
				// queues as many results as commands
				balancedQueueRule(r, fn)
				continue
			}
			nWrap++
			// R41a
			okShape := len(calls) == 1
			why := fmt.Sprintf("%d calls of Compat.%s", len(calls), name)
			if okShape {
				call := calls[0].Instr.(*ssa.Call)
				args := call.Call.Args
				// receiver is &c.comp, then all parameters in order
				np := len(fn.Params) - 1
				if len(args)-1 != np {
					okShape, why = false, "parameter count differs"
				} else {
					for i := 0; i < np; i++ {
						if Strip(args[1+i]) != ssa.Value(fn.Params[1+i]) {
							okShape, why = false, fmt.Sprintf("argument %d is not the wrapper's parameter %d", i+1, i+1)
						}
					}
				}
				// appended to rets exactly once on every path, and returned
				appends := Sites(fn, func(in ssa.Instruction) bool {
					st, ok := in.(*ssa.Store)
					if !ok || !IsFieldAddr(st.Addr, compatPkg+"."+typ, "rets") && !strings.HasSuffix(Desc(st.Addr), ".rets") {
						return false
					}
					c, isc := st.Val.(*ssa.Call)
					return isc && CalleeName(c) == "builtin.append"
				})
				if len(appends) != 1 {
					okShape, why = false, fmt.Sprintf("result list appended %d times", len(appends))
				} else {
					els := variadicElems(appends[0].Instr.(*ssa.Store).Val.(*ssa.Call).Call.Args[1])
					if len(els) != 1 || Strip(els[0]) != ssa.Value(call) {
						okShape, why = false, "the value appended to the result list is not the Compat call's result"
					}
					if ok, _ := MustPassFromEntry(fn, func(in ssa.Instruction) bool { return in == appends[0].Instr }); !ok {
						okShape, why = false, "a path returns without recording the result"
					}
				}
				for _, b := range fn.Blocks {
					if ret, isret := b.Instrs[len(b.Instrs)-1].(*ssa.Return); isret && len(ret.Results) == 1 {
						if Strip(ret.Results[0]) != ssa.Value(call) {
							okShape, why = false, "the wrapper does not return the Compat call's result"
						}
					}
				}
			}
			r.Ob("R41a", fn, "wrapper-shape", fn.Pos(), okShape, typ+"."+name+" must call Compat."+name+" once with its parameters in order, record the result once on every path and return it; "+why)
			// R41b
			if typ == "Pipeline" {
				s := d.summarize(target)
				oth := d.other[target]
				ok := s.min == 1 && s.max == 1 && len(oth) == 0
				if ok {
					nOne++
				}
				mx := fmt.Sprint(s.max)
				if s.max >= manyDo {
					mx = "unbounded"
				}
				r.Ob("R41b", target, "one-command-per-result", target.Pos(), ok, fmt.Sprintf("Compat.%s queues between %d and %s commands on its non-panicking paths (other client methods reached: %v); the pipeline records exactly one result for it, so any other count shifts every later result", name, s.min, mx, oth))
			}
		}
	}
	r.Anchor("R41a", "delegating pipeline wrappers", nWrap >= 400)
	r.Extra["wrappers"] = nWrap
	r.Extra["wrappers_exactly_one_command"] = nOne

	// R41c: methods that run the queue must be declared on TxPipeline itself (method promotion is
	// not virtual dispatch: a promoted Pipelined would call Pipeline.Exec and skip MULTI/EXEC)
	for _, fn := range p.Funcs(compatPkg + ".(*Pipeline).") {
		if fn.Parent() != nil || len(CallSites(fn, compatPkg+".(*Pipeline).Exec")) == 0 {
			continue
		}
		tx := p.Fn(compatPkg + ".(*TxPipeline)." + fn.Name())
		ok := tx != nil && tx.Blocks != nil && len(CallSites(tx, compatPkg+".(*TxPipeline).Exec")) >= 1
		r.Ob("R41c", fn, "tx-overrides:"+fn.Name(), fn.Pos(), ok, "Pipeline."+fn.Name()+" runs the queue through Exec; TxPipeline must declare its own "+fn.Name()+" calling TxPipeline.Exec, otherwise the promoted method sends the batch without MULTI/EXEC and WATCH aborts are never reported")
	}
	for _, name := range []string{"TxPipelined"} {
		if tx := p.Fn(compatPkg + ".(*TxPipeline)." + name); tx != nil {
			reach := len(CallSites(tx, compatPkg+".(*TxPipeline).Exec")) + len(CallSites(tx, compatPkg+".(*TxPipeline).Pipelined"))
			r.Ob("R41c", tx, "tx-closure-form-runs-transaction", tx.Pos(), reach >= 1, "TxPipeline."+name+" runs the transactional Exec")
		} else {
			r.Ob("R41c", nil, "tx-closure-form-runs-transaction", 0, false, "TxPipeline."+name+" is not declared on TxPipeline (promoted from Pipeline: no MULTI/EXEC)")
		}
	}

	// R41c Exec mapping
	for _, typ := range []string{"Pipeline", "TxPipeline"} {
		fn := r.FnAnchor("R41c", compatPkg+".(*"+typ+").Exec")
		if fn == nil {
			continue
		}
		// rets[i].from(x): i is the position of x's source in the reply sequence
		nFrom := 0
		for _, b := range fn.Blocks {
			for i, in := range b.Instrs {
				c, ok := in.(*ssa.Call)
				if !ok || !c.Call.IsInvoke() || c.Call.Method.Name() != "from" {
					continue
				}
				nFrom++
				recvIdx := indexOf(c.Call.Value)
				arg := c.Call.Args[0]
				srcIdx := indexOfDeep(arg)
				okIdx := recvIdx != nil && srcIdx != nil
				detail := ""
				if okIdx {
					if typ == "Pipeline" {
						okIdx = Same(recvIdx, srcIdx)
					} else {
						// NewResult(r, resp[i+1].NonRedisError()): element i of EXEC, transport error of reply i+1
						okIdx = false
						if nr, isc := arg.(*ssa.Call); isc && CalleeName(nr) == "rueidis.NewResult" {
							el := indexOfDeep(nr.Call.Args[0])
							er := indexOfDeep(nr.Call.Args[1])
							plus1 := false
							if bo, isb := er.(*ssa.BinOp); isb && bo.Op == token.ADD {
								if k, isk := ConstInt(bo.Y); isk && k == 1 && Same(bo.X, recvIdx) {
									plus1 = true
								}
							}
							okIdx = el != nil && Same(el, recvIdx) && plus1
							detail = fmt.Sprintf(" (element index %s, error index %s)", descV(el), descV(er))
						}
					}
				}
				r.ObSite("R41c", Site{fn, b, i, in}, "result-i-from-reply-i", okIdx, typ+".Exec must fill queued result i from reply i"+detail)
			}
		}
		r.Anchor("R41c", typ+".Exec: result filling", nFrom == 1)
		// first error kept
		kept := false
		for _, b := range fn.Blocks {
			for _, g := range DomGuards(b) {
				x, op, y, ok := CmpGuard(g)
				if ok && op == token.EQL && IsNilConst(y) && shortType(x.Type()) == "error" {
					for _, in := range b.Instrs {
						if c, isc := in.(*ssa.Call); isc && c.Call.IsInvoke() && c.Call.Method.Name() == "Err" {
							kept = true
						}
					}
				}
			}
		}
		r.Ob("R41c", fn, "first-error-kept", fn.Pos(), kept, "the error returned by Exec is the first command error (assigned only while no error has been recorded)")
		// queues are detached before sending
		cleared := 0
		for _, b := range fn.Blocks {
			for _, in := range b.Instrs {
				if st, ok := in.(*ssa.Store); ok && IsNilConst(st.Val) {
					if _, f, _, isf := FieldRef(st.Addr); isf && (f == "rets" || f == "cmds") {
						cleared++
					}
				}
			}
		}
		r.Ob("R41c", fn, "queues-detached", fn.Pos(), cleared == 2, "Exec detaches both the queued commands and the queued results")
		if typ == "TxPipeline" {
			okTx := false
			isMultiExec := func(a, b ssa.Value) bool {
				return strings.Contains(Desc(a), "(Multi).Build") && strings.Contains(Desc(b), "(Exec).Build")
			}
			for _, b := range fn.Blocks {
				for _, in := range b.Instrs {
					c, ok := in.(*ssa.Call)
					if !ok {
						continue
					}
					if CalleeName(c) == "builtin.append" {
						els := variadicElemsOrdered(c.Call.Args[1])
						if len(els) == 2 && isMultiExec(els[0], els[1]) {
							okTx = true
						}
						continue
					}
					// or an unexported helper of the package that appends the two commands it is handed, in that order
					h := c.Call.StaticCallee()
					if h == nil || h.Blocks == nil || h.Pkg != fn.Pkg || isExportedName(h.Name()) {
						continue
					}
					for _, hs := range CallSites(h, "builtin.append") {
						els := variadicElemsOrdered(hs.Call().Common().Args[1])
						if len(els) != 2 {
							continue
						}
						var args [2]ssa.Value
						for k, prm := range h.Params {
							for e := 0; e < 2; e++ {
								if els[e] == ssa.Value(prm) && k < len(c.Call.Args) {
									args[e] = c.Call.Args[k]
								}
							}
						}
						if args[0] != nil && args[1] != nil && isMultiExec(args[0], args[1]) {
							okTx = true
						}
					}
				}
			}
			r.Ob("R41c", fn, "multi-exec-added", fn.Pos(), okTx, "TxPipeline.Exec adds MULTI and EXEC to the queued commands")
			txFailed := false
			for _, b := range fn.Blocks {
				for _, in := range b.Instrs {
					if u, ok := in.(*ssa.UnOp); ok && u.Op == token.MUL && strings.HasSuffix(Desc(u), "TxFailedErr") {
						txFailed = Guarded(b, func(g Guard) bool {
							c, ok := g.Cond.(*ssa.Call)
							if !ok || !g.Pol || CalleeName(c) != "rueidis.IsRedisNil" {
								return false
							}
							// the tested error is the EXEC reply's own decoding error, not an element's
							ex, isex := c.Call.Args[0].(*ssa.Extract)
							if !isex || ex.Index != 1 {
								return false
							}
							tc, istc := ex.Tuple.(*ssa.Call)
							return istc && CalleeName(tc) == "rueidis.(RedisResult).ToArray"
						})
					}
				}
			}
			r.Ob("R41c", fn, "nil-exec-is-txfailed", fn.Pos(), txFailed, "a Nil EXEC reply (WATCH abort) - and only the EXEC reply itself, not a null element of a committed transaction - is reported as TxFailedErr")
		}
		if typ != "Pipeline" {
			continue // TxPipeline embeds *Pipeline: Discard and the wrappers are promoted
		}
		if dfn := r.FnAnchor("R41c", compatPkg+".(*"+typ+").Discard"); dfn != nil {
			cl := 0
			for _, b := range dfn.Blocks {
				for _, in := range b.Instrs {
					if st, ok := in.(*ssa.Store); ok && IsNilConst(st.Val) {
						if _, f, _, isf := FieldRef(st.Addr); isf && (f == "rets" || f == "cmds") {
							cl++
						}
					}
				}
			}
			r.Ob("R41c", dfn, "discard-clears-both-queues", dfn.Pos(), cl == 2, "Discard drops the queued commands and the queued results")
		}
	}
}

func descV(v ssa.Value) string {
	if v == nil {
		return "<none>"
	}
	return Desc(v)
}

// balancedQueueRule (R41d): a pipeline method that appends to the result list or to the proxy's
// command list by hand appends to both the same number of times on every path (a result without a
// command shifts every later reply by one).
func balancedQueueRule(r *Report, fn *ssa.Function) {
	appendsTo := func(in ssa.Instruction, field string) bool {
		st, ok := in.(*ssa.Store)
		if !ok {
			return false
		}
		_, f, _, isf := FieldRef(st.Addr)
		if !isf || f != field {
			return false
		}
		c, isc := st.Val.(*ssa.Call)
		return isc && CalleeName(c) == "builtin.append"
	}
	touches := false
	for _, b := range fn.Blocks {
		for _, in := range b.Instrs {
			if appendsTo(in, "rets") || appendsTo(in, "cmds") {
				touches = true
			}
		}
	}
	if !touches {
		return
	}
	ok := true
	why := ""
	complete := EnumBlockPaths(fn, 2000, func(path []*ssa.BasicBlock) {
		nr, nc := 0, 0
		for _, b := range path {
			for _, in := range b.Instrs {
				if appendsTo(in, "rets") {
					nr++
				}
				if appendsTo(in, "cmds") {
					nc++
				}
			}
		}
		if nr != nc {
			ok, why = false, fmt.Sprintf("a path queues %d result(s) and %d command(s)", nr, nc)
		}
	})
	if !complete {
		ok, why = false, "too many paths to enumerate"
	}
	r.Ob("R41d", fn, "results-and-commands-queued-in-step", fn.Pos(), ok, "a hand-written queuing method adds a result holder exactly when it adds a command; "+why)
}
