package rv

import (
	"fmt"
	"go/ast"
	"go/constant"
	"go/token"
	"go/types"
	"sort"
	"strings"

	"golang.org/x/tools/go/ssa"
)

func init() {
	Registry["C17"] = RuleDef{Module: ".", Run: runC17,
		Technique:   "sibling agreement (sizer / writer / reader) on switch partitions and layout constants (go/types + AST), cursor-threading flow and bounds prover with an inductive cursor invariant on go/ssa",
		Explanation: "Decides (R17a) that cachesize, serialize and unmarshalView switch on the message type with identical case partitions (scalar / aggregate / default string class), that the per-node header size counted by the sizer equals the bytes emitted by the writer and the bytes consumed by the reader (1 type byte + 8 length bytes, same byte order object), that string classes are written and read with the same length operand, that aggregates recurse over their children threading the cursor, and that CacheSize, CacheMarshal and CacheUnmarshalView agree on the 7 expiry bytes; (R17b) that every index and slice of the buffer in unmarshalView / CacheUnmarshalView is in bounds on every path (under the inductive invariant cursor >= 0 and the writer-established assumption that stored sizes are non-negative), and that every failing length guard returns ErrCacheUnmarshal. (R17c) the deserialiser sets the payload of the message on every successful path of every type class (also for an aggregate with zero elements); (R17d) CacheMarshal appends to the caller's buffer and allocates only for a nil buffer.",
		NotDecided:  "value equality of the reconstructed tree; buffers that are corrupted rather than truncated (a negative or huge stored size)."}
}

// switchPartition extracts, from the first `switch <recv>.typ` of a function, the sorted list of
// case sets (as sorted constant values) plus "default" if present.
func switchPartition(pk *types.Info, fd *ast.FuncDecl) ([]string, bool) {
	var out []string
	found := false
	ast.Inspect(fd.Body, func(n ast.Node) bool {
		sw, ok := n.(*ast.SwitchStmt)
		if !ok || found || sw.Tag == nil {
			return true
		}
		if sel, ok := sw.Tag.(*ast.SelectorExpr); !ok || sel.Sel.Name != "typ" {
			return true
		}
		found = true
		for _, st := range sw.Body.List {
			cc := st.(*ast.CaseClause)
			if cc.List == nil {
				out = append(out, "default")
				continue
			}
			var vals []string
			for _, e := range cc.List {
				if tv, ok := pk.Types[e]; ok && tv.Value != nil {
					v, _ := constant.Int64Val(tv.Value)
					vals = append(vals, fmt.Sprintf("%q", rune(v)))
				} else {
					vals = append(vals, "?"+types.ExprString(e))
				}
			}
			sort.Strings(vals)
			out = append(out, strings.Join(vals, ","))
		}
		return false
	})
	sort.Strings(out)
	return out, found
}

func runC17(r *Report) {
	payloadSetRule(r)
	p := r.P
	names := []string{"rueidis.(*RedisMessage).cachesize", "rueidis.(*RedisMessage).serialize", "rueidis.(*RedisMessage).unmarshalView"}
	parts := map[string][]string{}
	for _, n := range names {
		fd, pk := p.FuncDecl(n)
		if !r.Anchor("R17a", n, fd != nil) {
			continue
		}
		pt, ok := switchPartition(pk.TypesInfo, fd)
		if !ok {
			// the same classification written as an if / else-if chain
			pt, ok = ssaTypePartition(p.Fn(n))
		}
		r.Anchor("R17a", n+": switch on the message type", ok)
		parts[n] = pt
	}
	if len(parts) == 3 {
		ref := strings.Join(parts[names[1]], " | ")
		for _, n := range names {
			got := strings.Join(parts[n], " | ")
			r.Ob("R17a", p.Fn(n), "type-partition", p.Fn(n).Pos(), got == ref, "sizer, writer and reader must classify message types identically; writer: ["+ref+"], here: ["+got+"]")
		}
		hasDefault := false
		for _, s := range parts[names[1]] {
			if s == "default" {
				hasDefault = true
			}
		}
		r.Ob("R17a", p.Fn(names[1]), "default-class", p.Fn(names[1]).Pos(), hasDefault, "every type not listed is handled by the default (string) class in all three functions")
	}
	sizer, writer, reader := p.Fn(names[0]), p.Fn(names[1]), p.Fn(names[2])
	if sizer != nil && writer != nil && reader != nil {
		// header size: sizer's initial constant
		sizerHdr := int64(-1)
		for _, b := range sizer.Blocks {
			for _, in := range b.Instrs {
				if ph, ok := in.(*ssa.Phi); ok && isIntType(ph.Type()) {
					for _, e := range ph.Edges {
						if k, isc := ConstInt(e); isc && sizerHdr < 0 {
							sizerHdr = k
						}
					}
				}
				if ret, ok := in.(*ssa.Return); ok && sizerHdr < 0 {
					if k, isc := ConstInt(ret.Results[0]); isc {
						sizerHdr = k
					}
				}
			}
		}
		// writer: one WriteByte + array length of the length buffer, written on every path
		wByte := len(CallSites(writer, "bytes.(*Buffer).WriteByte"))
		wLen := int64(-1)
		for _, b := range writer.Blocks {
			for _, in := range b.Instrs {
				if al, ok := in.(*ssa.Alloc); ok {
					if arr, ok := al.Type().Underlying().(*types.Pointer).Elem().Underlying().(*types.Array); ok {
						wLen = arr.Len()
					}
				}
			}
		}
		okHdrWrites, _ := MustPassFromEntry(writer, func(in ssa.Instruction) bool { _, is := CallTo(in, "bytes.(*Buffer).Write"); return is })
		// reader: the guard constant and the cursor increments
		readerGuard := int64(-1)
		var incs []int64
		for _, b := range reader.Blocks {
			for _, in := range b.Instrs {
				bo, ok := in.(*ssa.BinOp)
				if !ok || bo.Op != token.ADD {
					continue
				}
				k, isc := ConstInt(bo.Y)
				if !isc {
					continue
				}
				if bo.X == ssa.Value(reader.Params[1]) {
					// c + K directly on the parameter: either the guard or the first increment
					used := false
					for _, ref := range *bo.Referrers() {
						if cmp, isb := ref.(*ssa.BinOp); isb && cmp.Op == token.LSS {
							readerGuard = k
							used = true
						}
					}
					if !used {
						incs = append(incs, k)
					}
				} else if DependsOn(bo.X, func(v ssa.Value) bool { return v == ssa.Value(reader.Params[1]) }) {
					if _, isSlice := firstSliceUser(bo); !isSlice {
						incs = append(incs, k)
					}
				}
			}
		}
		sum := int64(0)
		for _, k := range incs {
			sum += k
		}
		detail := fmt.Sprintf("sizer counts %d header bytes per node; writer emits %d type byte(s) + %d length bytes (on every path: %v); reader guards for %d bytes and advances the cursor by %v", sizerHdr, wByte, wLen, okHdrWrites, readerGuard, incs)
		okHdr := sizerHdr > 0 && int64(wByte)+wLen == sizerHdr && readerGuard == sizerHdr && okHdrWrites
		r.Ob("R17a", reader, "header-layout-agreement", reader.Pos(), okHdr, "the per-node header must have the same size in the sizer, the writer and the reader: "+detail)
		// same byte order object on both sides
		bo := func(fn *ssa.Function) string {
			for _, b := range fn.Blocks {
				for _, in := range b.Instrs {
					if c, ok := in.(*ssa.Call); ok {
						n := CalleeName(c)
						if strings.HasPrefix(n, "encoding/binary.") && (strings.Contains(n, "PutUint64") || strings.Contains(n, "Uint64")) {
							return n[:strings.LastIndex(n, ".")]
						}
					}
				}
			}
			return ""
		}
		r.Ob("R17a", reader, "byte-order-agreement", reader.Pos(), bo(writer) != "" && bo(writer) == bo(reader), "writer uses "+bo(writer)+", reader uses "+bo(reader))
		// string class: the length written is len of the very string written
		okStr := false
		for _, s := range CallSites(writer, "bytes.(*Buffer).WriteString") {
			str := s.Call().Common().Args[1]
			for _, ps := range CallSites(writer) {
				_ = ps
			}
			for _, b := range writer.Blocks {
				for _, in := range b.Instrs {
					if c, ok := in.(*ssa.Call); ok && strings.HasSuffix(CalleeName(c), "PutUint64") && b == s.Block {
						if DependsOn(c.Call.Args[len(c.Call.Args)-1], func(v ssa.Value) bool {
							l, ok := v.(*ssa.Call)
							return ok && CalleeName(l) == "builtin.len" && Same(l.Call.Args[0], str)
						}) {
							okStr = true
						}
					}
				}
			}
		}
		r.Ob("R17a", writer, "string-length-is-len-of-payload", writer.Pos(), okStr, "the length written before a string payload is len() of that same string")
		// reader: string slice is buf[c:c+size] and the cursor advances by size
		okRead := false
		for _, b := range reader.Blocks {
			for _, in := range b.Instrs {
				if sl, ok := in.(*ssa.Slice); ok && sl.X == ssa.Value(reader.Params[2]) && sl.High != nil && sl.Low != nil {
					if hb, ok := sl.High.(*ssa.BinOp); ok && hb.Op == token.ADD && hb.X == sl.Low {
						size := hb.Y
						if DependsOn(size, func(v ssa.Value) bool {
							c, ok := v.(*ssa.Call)
							return ok && strings.HasSuffix(CalleeName(c), ".Uint64")
						}) {
							// cursor advance by the same size in the same block
							for _, in2 := range b.Instrs {
								if ab, ok := in2.(*ssa.BinOp); ok && ab.Op == token.ADD && ab.X == sl.Low && ab.Y == size {
									okRead = true
								}
							}
						}
					}
				}
			}
		}
		r.Ob("R17a", reader, "string-read-exactly-size", reader.Pos(), okRead, "the reader takes buf[c:c+size] for a string and advances the cursor by the same size that was read from the header")
		// aggregates: recursion threads the cursor
		rec := CallSites(reader, names[2])
		okThread := len(rec) >= 1
		for _, s := range rec {
			arg := s.Call().Common().Args[1]
			if !DependsOn(arg, func(v ssa.Value) bool {
				ex, ok := v.(*ssa.Extract)
				return ok && ex.Index == 0 && ex.Tuple == s.Instr.(ssa.Value)
			}) {
				okThread = false
			}
		}
		r.Ob("R17a", reader, "cursor-threaded-through-children", reader.Pos(), okThread, "each child is read at the cursor returned by the previous child")
		wrec := CallSites(writer, names[1])
		srec := CallSites(sizer, names[0])
		r.Ob("R17a", writer, "aggregates-recurse", writer.Pos(), len(wrec) >= 1 && len(srec) >= 1, "writer and sizer recurse over the children of aggregates")
	}
	// ttl bytes
	ttl := map[string]int64{}
	if fn := r.FnAnchor("R17a", "rueidis.(*RedisMessage).CacheSize"); fn != nil {
		for _, b := range fn.Blocks {
			for _, in := range b.Instrs {
				if bo, ok := in.(*ssa.BinOp); ok && bo.Op == token.ADD {
					if k, isc := ConstInt(bo.Y); isc {
						ttl["CacheSize"] = k
					}
				}
			}
		}
	}
	sliceHigh := func(name string, what func(*ssa.Slice) bool) {
		if fn := r.FnAnchor("R17a", "rueidis.(*RedisMessage)."+name); fn != nil {
			for _, b := range fn.Blocks {
				for _, in := range b.Instrs {
					if sl, ok := in.(*ssa.Slice); ok && sl.High != nil && what(sl) {
						if k, isc := ConstInt(sl.High); isc {
							ttl[name] = k
						}
					}
				}
			}
		}
	}
	sliceHigh("CacheMarshal", func(sl *ssa.Slice) bool { return strings.Contains(Desc(sl.X), ".ttl") })
	sliceHigh("CacheUnmarshalView", func(sl *ssa.Slice) bool { return strings.Contains(Desc(sl.X), ".ttl") })
	okTTL := ttl["CacheSize"] > 0 && ttl["CacheSize"] == ttl["CacheMarshal"] && ttl["CacheMarshal"] == ttl["CacheUnmarshalView"]
	r.Ob("R17a", nil, "expiry-bytes-agreement", token.NoPos, okTTL, fmt.Sprintf("CacheSize adds %d, CacheMarshal writes ttl[:%d], CacheUnmarshalView reads ttl[:%d]", ttl["CacheSize"], ttl["CacheMarshal"], ttl["CacheUnmarshalView"]))
	if cu := p.Fn("rueidis.(*RedisMessage).CacheUnmarshalView"); cu != nil && reader != nil {
		for _, s := range CallSites(cu, names[2]) {
			k, isc := ConstInt(s.Call().Common().Args[1])
			r.ObSite("R17a", s, "payload-starts-after-expiry-bytes", isc && k == ttl["CacheMarshal"], "the reader starts at the offset right after the expiry bytes")
		}
	}

	// R17b truncation safety
	if reader != nil {
		assume := func(c *BCtx) {
			c.Lower[reader.Params[1].Name()] = 0 // inductive hypothesis: cursor >= 0
			for _, b := range reader.Blocks {
				for _, in := range b.Instrs {
					if ex, ok := in.(*ssa.Extract); ok && ex.Index == 0 {
						if call, ok := ex.Tuple.(*ssa.Call); ok && CalleeName(call) == names[2] {
							c.Lower[ex.Name()] = 0 // inductive hypothesis on the recursive result
						}
					}
					// sizes were written by serialize as uint64(len(...)): non-negative (R17a)
					if cv, ok := in.(*ssa.Convert); ok {
						if call, ok := cv.X.(*ssa.Call); ok && strings.HasSuffix(CalleeName(call), ".Uint64") {
							c.Lower[c.Lin(cv).String()] = 0
							for a := range c.Lin(cv).C {
								c.Lower[a] = 0
							}
						}
					}
				}
			}
		}
		boundsObligations(r, "R17b", reader, assume, nil)
		// inductive steps: returns and recursive arguments are >= 0
		c := NewBCtx(reader)
		assume(c)
		c.induction()
		for _, b := range reader.Blocks {
			for i, in := range b.Instrs {
				switch x := in.(type) {
				case *ssa.Return:
					r.ObSite("R17b", Site{reader, b, i, in}, "cursor-invariant:return", c.ProveAt(b, c.Lin(x.Results[0])), "the returned cursor is >= 0 (inductive step of the cursor invariant)")
				case *ssa.Call:
					if CalleeName(x) == names[2] {
						r.ObSite("R17b", Site{reader, b, i, in}, "cursor-invariant:recursive-argument", c.ProveAt(b, c.Lin(x.Call.Args[1])), "the cursor passed to a child is >= 0 (inductive step)")
					}
				}
			}
		}
		// failing guards return ErrCacheUnmarshal
		nG := 0
		for _, fn := range []*ssa.Function{reader, p.Fn("rueidis.(*RedisMessage).CacheUnmarshalView")} {
			if fn == nil {
				continue
			}
			if fn != reader {
				boundsObligations(r, "R17b", fn, nil, nil)
			}
			for _, b := range fn.Blocks {
				iff, ok := b.Instrs[len(b.Instrs)-1].(*ssa.If)
				if !ok {
					continue
				}
				x, op, _, cok := CmpGuard(normGuard(Guard{iff.Cond, true, b}))
				if !cok || op != token.LSS || !strings.Contains(Desc(x), "builtin.len(") {
					continue
				}
				nG++
				fail := b.Succs[0]
				okE := false
				if ret, ok := fail.Instrs[len(fail.Instrs)-1].(*ssa.Return); ok {
					if Desc(ret.Results[len(ret.Results)-1]) == "*@rueidis.ErrCacheUnmarshal" {
						okE = true
					}
				}
				r.ObSite("R17b", Site{fn, b, len(b.Instrs) - 1, iff}, "short-buffer-arm", okE, "a buffer that is too short must yield ErrCacheUnmarshal")
			}
		}
		r.Anchor("R17b", "length guards in the reader", nG >= 3)
	}
}

func firstSliceUser(v ssa.Value) (*ssa.Slice, bool) {
	if v.Referrers() == nil {
		return nil, false
	}
	for _, ref := range *v.Referrers() {
		if sl, ok := ref.(*ssa.Slice); ok {
			return sl, true
		}
		if b, ok := ref.(*ssa.BinOp); ok && b.Op == token.LSS {
			return nil, true
		}
	}
	return nil, false
}

// payloadSetRule (R17c): the cache deserialiser overwrites the payload of the message it fills on
// every successful path of every type class (integer-like: intlen; aggregates: setValues, also for
// zero elements; everything else: setString), so a decoded message never keeps parts of what the
// receiver held before. (R17d) CacheMarshal appends to the caller's buffer: it substitutes a fresh
// buffer only when the caller passed nil.
func payloadSetRule(r *Report) {
	if fn := r.FnAnchor("R17c", "rueidis.(*RedisMessage).unmarshalView"); fn != nil {
		isSetter := func(in ssa.Instruction) bool {
			if _, ok := CallTo(in, "rueidis.(*RedisMessage).setValues", "rueidis.(*RedisMessage).setString"); ok {
				return true
			}
			if st, ok := in.(*ssa.Store); ok {
				if _, f, base, isf := FieldRef(st.Addr); isf && f == "intlen" && Desc(base) == "p0" {
					return true
				}
			}
			return false
		}
		n := 0
		for _, ret := range ReturnsAvoiding(fn, isSetter) {
			n++
			rv := RetVals(ret)
			e := rv[len(rv)-1]
			isErr := strings.HasSuffix(Desc(e), "ErrCacheUnmarshal")
			r.ObSite("R17c", SiteOf(ret), "payload-set-on-every-successful-path", isErr, "a return that is reachable without setting the message's payload must be the format error")
		}
		r.Ob("R17c", fn, "payload-setters", fn.Pos(), len(Sites(fn, isSetter)) >= 3, fmt.Sprintf("one payload setter per type class; %d returns bypass them (all must be format errors)", n))
	}
	if fn := r.FnAnchor("R17d", "rueidis.(*RedisMessage).CacheMarshal"); fn != nil {
		ok := false
		why := "no bytes.NewBuffer call"
		for _, s := range CallSites(fn, "bytes.NewBuffer") {
			v := s.Call().Common().Args[0]
			ok, why = true, ""
			edges := []ssa.Value{v}
			var preds []*ssa.BasicBlock
			if ph, isphi := v.(*ssa.Phi); isphi {
				edges = ph.Edges
				preds = ph.Block().Preds
			}
			for i, e := range edges {
				if Desc(e) == "p1" {
					continue
				}
				if _, isms := Strip(e).(*ssa.MakeSlice); isms && preds != nil {
					nilGuard := false
					for _, g := range append(DomGuards(preds[i]), edgeGuards(preds[i], v.(*ssa.Phi).Block())...) {
						if x, op, y, cok := CmpGuard(g); cok && op == token.EQL && IsNilConst(y) && Desc(x) == "p1" {
							nilGuard = true
						}
					}
					if nilGuard {
						continue
					}
					ok, why = false, "the caller's buffer is replaced although it is not nil (its content is dropped)"
					continue
				}
				ok, why = false, "unexpected buffer origin "+Desc(e)
			}
		}
		r.Ob("R17d", fn, "appends-to-the-callers-buffer", fn.Pos(), ok, "CacheMarshal writes behind the content of the buffer it is given and allocates only for a nil buffer; "+why)
	}
}

// ssaTypePartition derives the classification of message types from the comparisons `m.typ == K`
// of a function: constants whose true edge leads to the same block form one class; the path on
// which every comparison fails is the default class when it does some work.
func ssaTypePartition(fn *ssa.Function) ([]string, bool) {
	if fn == nil {
		return nil, false
	}
	follow := func(b *ssa.BasicBlock) *ssa.BasicBlock {
		for k := 0; k < 4 && len(b.Instrs) == 1 && len(b.Succs) == 1; k++ {
			if _, isj := b.Instrs[0].(*ssa.Jump); !isj {
				break
			}
			b = b.Succs[0]
		}
		return b
	}
	classes := map[*ssa.BasicBlock][]string{}
	cmpBlocks := map[*ssa.BasicBlock]bool{}
	var last *ssa.BasicBlock
	n := 0
	for _, b := range fn.Blocks {
		iff, ok := b.Instrs[len(b.Instrs)-1].(*ssa.If)
		if !ok {
			continue
		}
		bo, ok := iff.Cond.(*ssa.BinOp)
		if !ok || bo.Op != token.EQL || !IsFieldLoad(bo.X, "rueidis.RedisMessage", "typ") {
			continue
		}
		k, isc := ConstInt(bo.Y)
		if !isc {
			continue
		}
		n++
		cmpBlocks[b] = true
		t := follow(b.Succs[0])
		classes[t] = append(classes[t], fmt.Sprintf("%q", rune(k)))
	}
	if n < 3 {
		return nil, false
	}
	for b := range cmpBlocks {
		f := follow(b.Succs[1])
		if !cmpBlocks[f] && classes[f] == nil {
			last = f
		}
	}
	var out []string
	for _, vals := range classes {
		sort.Strings(vals)
		out = append(out, strings.Join(vals, ","))
	}
	if last != nil {
		work := false
		for _, in := range last.Instrs {
			switch in.(type) {
			case *ssa.Jump, *ssa.Phi:
			case *ssa.Return:
				if r := in.(*ssa.Return); len(r.Results) > 0 {
					if _, isphi := r.Results[0].(*ssa.Phi); !isphi {
						if _, isc := r.Results[0].(*ssa.Const); !isc {
							work = true
						}
					}
				}
			default:
				work = true
			}
		}
		if work {
			out = append(out, "default")
		}
	}
	sort.Strings(out)
	return out, true
}
