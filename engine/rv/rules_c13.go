package rv

import (
	"fmt"
	"go/token"
	"sort"
	"strings"

	"golang.org/x/tools/go/ssa"
)

func init() {
	Registry["C13"] = RuleDef{Module: ".", Run: runC13,
		Technique:   "source-to-sink flow of peer-declared lengths with bounds-prover sanitisers; bounds prover and panic-source rules over the decode call-graph closure",
		Explanation: "Decides for the RESP decoder (R13a) that every value derived from a length declared by the peer (first result of readI, followed through parameters of the decoder's helpers) that reaches an allocation size (make, Grow), or a multiplication feeding one, is proved non-negative and bounded above by a constant independent of the peer on every path to that sink; (R13b) that in the call-graph closure of readNextMessage, syncRead and streamTo every index/slice expression is in bounds on every path, no explicit panic is reachable, every single-value type assertion is on a sync.Pool value and no integer division by a non-constant occurs.",
		NotDecided:  "panics and allocations inside the standard library (bufio, io.CopyN growth follows received data); memory retained by bufio; 32-bit truncation of int(length)."}
}

const allocCap = int64(1) << 26 // any constant cap up to 64 Mi elements/bytes is accepted as 'bounded'

func decodeClosure(p *Prog) []*ssa.Function {
	seen := map[*ssa.Function]bool{}
	var work []*ssa.Function
	for _, n := range []string{"rueidis.readNextMessage", "rueidis.syncRead", "rueidis.streamTo"} {
		if fn := p.Fn(n); fn != nil {
			work = append(work, fn)
		}
	}
	// the readers table is dispatched dynamically: include every function stored in it
	for _, fn := range p.ModuleFuncs() {
		n := FuncName(fn)
		if strings.HasPrefix(n, "rueidis.read") && fn.Parent() == nil {
			sig := fn.Signature
			if sig.Params().Len() >= 1 && strings.HasSuffix(shortType(sig.Params().At(0).Type()), "bufio.Reader") {
				work = append(work, fn)
			}
		}
	}
	for len(work) > 0 {
		fn := work[len(work)-1]
		work = work[:len(work)-1]
		if seen[fn] {
			continue
		}
		seen[fn] = true
		for _, f := range WithAnons(fn) {
			for _, b := range f.Blocks {
				for _, in := range b.Instrs {
					if c, ok := in.(ssa.CallInstruction); ok {
						if callee := c.Common().StaticCallee(); callee != nil && callee.Blocks != nil && p.InModule(callee) && !seen[callee] {
							work = append(work, callee)
						}
					}
				}
			}
		}
	}
	var out []*ssa.Function
	for fn := range seen {
		out = append(out, WithAnons(fn)...)
	}
	sort.Slice(out, func(i, j int) bool { return FuncName(out[i]) < FuncName(out[j]) })
	return out
}

func runC13(r *Report) {
	p := r.P
	closure := decodeClosure(p)
	r.Anchor("R13", "decode closure (readNextMessage, syncRead, streamTo, readers)", len(closure) >= 12)
	inClosure := map[*ssa.Function]bool{}
	for _, fn := range closure {
		inClosure[fn] = true
	}
	// tainted parameters: fixpoint over call sites inside the closure
	taintedParam := map[*ssa.Parameter]bool{}
	isTainted := func(v ssa.Value) bool {
		return DependsOn(v, func(x ssa.Value) bool {
			if ex, ok := x.(*ssa.Extract); ok && ex.Index == 0 {
				if c, ok := ex.Tuple.(*ssa.Call); ok && CalleeName(c) == "rueidis.readI" {
					return true
				}
			}
			if prm, ok := x.(*ssa.Parameter); ok && taintedParam[prm] {
				return true
			}
			return false
		})
	}
	for changed := true; changed; {
		changed = false
		for _, fn := range closure {
			for _, b := range fn.Blocks {
				for _, in := range b.Instrs {
					c, ok := in.(*ssa.Call)
					if !ok {
						continue
					}
					callee := c.Call.StaticCallee()
					if callee == nil || !inClosure[callee] {
						continue
					}
					for i, a := range c.Call.Args {
						if i < len(callee.Params) && isIntType(a.Type()) && !taintedParam[callee.Params[i]] && isTainted(a) {
							taintedParam[callee.Params[i]] = true
							changed = true
						}
					}
				}
			}
		}
	}
	nSinks := 0
	for _, fn := range closure {
		c := NewBCtx(fn)
		// lower bounds of tainted parameters come from the call sites (one level)
		for _, prm := range fn.Params {
			if !taintedParam[prm] {
				continue
			}
			idx := -1
			for i, q := range fn.Params {
				if q == prm {
					idx = i
				}
			}
			allNonNeg := true
			for _, cs := range p.Callers(FuncName(fn)) {
				cc := NewBCtx(cs.Fn)
				if !cc.ProveAt(cs.Block, cc.Lin(cs.Call().Common().Args[idx])) {
					allNonNeg = false
				}
			}
			if allNonNeg {
				c.Lower[prm.Name()] = 0
			}
		}
		sink := func(s Site, what string, size ssa.Value) {
			if !isTainted(size) {
				return
			}
			nSinks++
			l := c.Lin(size)
			lb := c.ProveAt(s.Block, l)
			ub := c.ProveAt(s.Block, konst(allocCap).Add(l, -1))
			r.ObSite("R13a", s, what+":LB", lb, "a length declared by the peer reaches "+what+" without being proved >= 0: a negative declared length panics (makeslice: len out of range / Grow: negative count)")
			r.ObSite("R13a", s, what+":UB", ub, "a length declared by the peer reaches "+what+" without a constant upper bound: memory is allocated for the declared length before the payload arrives (a few header bytes can exhaust memory or panic)")
		}
		for _, b := range fn.Blocks {
			for i, in := range b.Instrs {
				s := Site{fn, b, i, in}
				switch x := in.(type) {
				case *ssa.MakeSlice:
					sink(s, "make-len", x.Len)
					if x.Cap != x.Len {
						sink(s, "make-cap", x.Cap)
					}
				case *ssa.Call:
					n := CalleeName(x)
					if n == "strings.(*Builder).Grow" || n == "bytes.(*Buffer).Grow" || strings.HasSuffix(n, ".Grow") {
						sink(s, "grow", x.Call.Args[len(x.Call.Args)-1])
					}
				case *ssa.BinOp:
					if (x.Op == token.MUL || x.Op == token.SHL) && isIntType(x.Type()) && (isTainted(x.X) || isTainted(x.Y)) {
						nSinks++
						op := x.X
						if !isTainted(op) {
							op = x.Y
						}
						l := c.Lin(op)
						ok := c.ProveAt(b, l) && c.ProveAt(b, konst(int64(1)<<62-1).Add(l, -1))
						r.ObSite("R13a", s, "multiply-declared-length", ok, "a declared length is multiplied without being proved within [0, 2^62): the product can wrap around and defeat a later sign or size check")
					}
				}
			}
		}
	}
	r.Anchor("R13a", "allocation sinks fed by declared lengths", nSinks >= 4)
	r.Extra["declared_length_sinks"] = nSinks
	var tp []string
	for prm := range taintedParam {
		tp = append(tp, FuncName(prm.Parent())+"#"+prm.Name())
	}
	sort.Strings(tp)
	r.Extra["tainted_parameters"] = tp

	// R13b
	total, proved := 0, 0
	reviewed := map[string]string{}
	for _, fn := range closure {
		t, pr := boundsObligations(r, "R13b", fn, nil, reviewed)
		total += t
		proved += pr
		for _, b := range fn.Blocks {
			for i, in := range b.Instrs {
				s := Site{fn, b, i, in}
				switch x := in.(type) {
				case *ssa.Panic:
					r.ObSite("R13b", s, "panic", false, "an explicit panic is reachable while decoding peer input")
				case *ssa.TypeAssert:
					if !x.CommaOk {
						ok := false
						if c, isc := x.X.(*ssa.Call); isc && strings.Contains(CalleeName(c), "sync.(*Pool).Get") {
							ok = true
						}
						r.ObSite("R13b", s, "type-assert:"+shortType(x.AssertedType), ok, "a single-value type assertion panics on a mismatch; only pool values are accepted")
					}
				case *ssa.BinOp:
					if (x.Op == token.QUO || x.Op == token.REM) && isIntType(x.Type()) {
						if _, isc := ConstInt(x.Y); !isc {
							c := NewBCtx(fn)
							r.ObSite("R13b", s, "divisor", c.ProveAtIdx(b, s.Idx, c.Lin(x.Y).Add(konst(1), -1)), "integer division by a value not proved >= 1")
						}
					}
				}
			}
		}
	}
	r.Extra["index_sites"] = total
	r.Extra["index_sites_proved"] = proved
	r.Min("R13b", 12)
	_ = fmt.Sprint
}
