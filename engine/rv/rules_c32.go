package rv

import (
	"golang.org/x/tools/go/ssa"
	"fmt"
	"go/ast"
	"go/constant"
	"go/token"
	"go/types"
	"sort"
	"strings"
)

func init() {
	Registry["C32"] = RuleDef{Module: ".", Run: runC32,
		Technique:   "exhaustive evaluation of builder flag constants over the builder type graph (go/types), compared with embedded Redis command-flag tables",
		Explanation: "Decides over every root builder of internal/cmds (R32a) that a root from which a type with a Cache() method is reachable through method return types carries all read-only flag bits; (R32b) that every method appending the token BLOCK ors in the blocking flag, and every root whose command Redis flags as blocking carries it; (R32c) that the SUBSCRIBE family roots carry the no-reply flag, the UNSUBSCRIBE family and the predefined unsubscribe commands the unsubscribe flag, and the flag algebra (unsub ⊇ noRet ⊇ readonly ⊇ retryable; mtGet, scrRo ⊇ readonly) holds; (R32d) that no root flagged read-only is a command Redis or its modules document with the `write` flag (embedded table; incomplete tables can only miss); (R32f) that Arbitrary refuses to complete any command whose name ends in SUBSCRIBE (case-insensitively) and that all its completing methods go through that guard; (R32e) that the only flag mutation in generated methods is `|= blockTag` and Build/Cache copy the flags unchanged.",
		NotDecided:  "semantics of commands absent from the embedded tables; server-side behaviour of scripts and functions flagged read-only by their _RO variants."}
}

// Redis commands carrying the `blocking` flag (COMMAND INFO / commands.json of Redis 7.x).
var blockingCommands = []string{"BLPOP", "BRPOP", "BRPOPLPUSH", "BLMOVE", "BLMPOP", "BZPOPMIN", "BZPOPMAX", "BZMPOP", "WAIT", "WAITAOF"}

// Commands documented with the `write` flag (Redis 7.x commands.json; RedisJSON, RedisBloom,
// RedisTimeSeries, RediSearch, RedisGraph, RedisAI and RedisGears command references). A root whose
// leading tokens equal one of these must not be flagged read-only.
var writeCommands = []string{
	"APPEND", "BITFIELD", "BITOP", "BLMOVE", "BLMPOP", "BLPOP", "BRPOP", "BRPOPLPUSH", "BZMPOP", "BZPOPMAX", "BZPOPMIN", "COPY", "DECR", "DECRBY", "DEL",
	"EXPIRE", "EXPIREAT", "FLUSHALL", "FLUSHDB", "GEOADD", "GEORADIUS", "GEORADIUSBYMEMBER", "GEOSEARCHSTORE", "GETDEL", "GETEX", "GETSET",
	"HDEL", "HEXPIRE", "HEXPIREAT", "HPEXPIRE", "HPEXPIREAT", "HPERSIST", "HGETDEL", "HGETEX", "HSETEX", "HINCRBY", "HINCRBYFLOAT", "HMSET", "HSET", "HSETNX",
	"INCR", "INCRBY", "INCRBYFLOAT", "LINSERT", "LMOVE", "LMPOP", "LPOP", "LPUSH", "LPUSHX", "LREM", "LSET", "LTRIM", "MIGRATE", "MOVE", "MSET", "MSETNX", "MSETEX",
	"PERSIST", "PEXPIRE", "PEXPIREAT", "PFADD", "PFMERGE", "PSETEX", "RENAME", "RENAMENX", "RESTORE", "RPOP", "RPOPLPUSH", "RPUSH", "RPUSHX",
	"SADD", "SDIFFSTORE", "SET", "SETBIT", "SETEX", "SETNX", "SETRANGE", "SINTERSTORE", "SMOVE", "SORT", "SPOP", "SREM", "SUNIONSTORE", "SWAPDB", "UNLINK",
	"XACK", "XADD", "XAUTOCLAIM", "XCLAIM", "XDEL", "XGROUP CREATE", "XGROUP CREATECONSUMER", "XGROUP DELCONSUMER", "XGROUP DESTROY", "XGROUP SETID", "XREADGROUP", "XSETID", "XTRIM", "XACKDEL", "XDELEX",
	"ZADD", "ZDIFFSTORE", "ZINCRBY", "ZINTERSTORE", "ZMPOP", "ZPOPMAX", "ZPOPMIN", "ZRANGESTORE", "ZREM", "ZREMRANGEBYLEX", "ZREMRANGEBYRANK", "ZREMRANGEBYSCORE", "ZUNIONSTORE",
	"EVAL", "EVALSHA", "FCALL", "FUNCTION LOAD", "FUNCTION DELETE", "FUNCTION FLUSH", "FUNCTION RESTORE", "SCRIPT FLUSH", "PUBLISH", "SPUBLISH",
	"JSON.SET", "JSON.MSET", "JSON.MERGE", "JSON.DEL", "JSON.FORGET", "JSON.CLEAR", "JSON.TOGGLE", "JSON.NUMINCRBY", "JSON.NUMMULTBY", "JSON.STRAPPEND", "JSON.ARRAPPEND", "JSON.ARRINSERT", "JSON.ARRPOP", "JSON.ARRTRIM",
	"BF.ADD", "BF.MADD", "BF.INSERT", "BF.RESERVE", "BF.LOADCHUNK", "CF.ADD", "CF.ADDNX", "CF.INSERT", "CF.INSERTNX", "CF.DEL", "CF.RESERVE", "CF.LOADCHUNK",
	"CMS.INCRBY", "CMS.INITBYDIM", "CMS.INITBYPROB", "CMS.MERGE", "TOPK.ADD", "TOPK.INCRBY", "TOPK.RESERVE", "TDIGEST.ADD", "TDIGEST.CREATE", "TDIGEST.MERGE", "TDIGEST.RESET",
	"TS.ADD", "TS.MADD", "TS.INCRBY", "TS.DECRBY", "TS.CREATE", "TS.ALTER", "TS.DEL", "TS.CREATERULE", "TS.DELETERULE",
	"FT.CREATE", "FT.ALTER", "FT.DROPINDEX", "FT.ALIASADD", "FT.ALIASDEL", "FT.ALIASUPDATE", "FT.DICTADD", "FT.DICTDEL", "FT.SUGADD", "FT.SUGDEL", "FT.SYNUPDATE", "FT.CONFIG SET",
	"GRAPH.QUERY", "GRAPH.DELETE", "GRAPH.CONFIG SET",
	"AI.TENSORSET", "AI.MODELSTORE", "AI.MODELSET", "AI.MODELDEL", "AI.MODELEXECUTE", "AI.MODELRUN", "AI.SCRIPTSTORE", "AI.SCRIPTSET", "AI.SCRIPTDEL", "AI.SCRIPTEXECUTE", "AI.SCRIPTRUN", "AI.DAGEXECUTE", "AI.DAGRUN",
	"RG.PYEXECUTE", "RG.TRIGGER", "RG.ABORTEXECUTION", "RG.DROPEXECUTION", "RG.UNREGISTER", "TFUNCTION LOAD", "TFUNCTION DELETE", "TFCALL", "TFCALLASYNC",
}

func runC32(r *Report) {
	pk := r.P.Pkg("rueidis/internal/cmds")
	if !r.Anchor("R32", "package internal/cmds", pk != nil) {
		return
	}
	scope := pk.Types.Scope()
	cval := func(n string) (uint64, bool) {
		c, ok := scope.Lookup(n).(*types.Const)
		if !ok {
			return 0, false
		}
		v, _ := constant.Uint64Val(c.Val())
		return v, true
	}
	flags := map[string]uint64{}
	for _, n := range []string{"readonly", "blockTag", "noRetTag", "unsubTag", "retryableTag", "mtGetTag", "scrRoTag", "pipeTag", "optInTag"} {
		v, ok := cval(n)
		r.Anchor("R32c", "flag constant "+n, ok)
		flags[n] = v
	}
	sup := func(a, b string) {
		r.Ob("R32c", nil, "flag-algebra:"+a+">="+b, token.NoPos, flags[a]&flags[b] == flags[b] && flags[b] != 0, fmt.Sprintf("%s (%#x) must contain every bit of %s (%#x)", a, flags[a], b, flags[b]))
	}
	sup("unsubTag", "noRetTag")
	sup("noRetTag", "readonly")
	sup("readonly", "retryableTag")
	sup("mtGetTag", "readonly")
	sup("scrRoTag", "readonly")
	distinct := flags["blockTag"]&flags["readonly"] == 0 && flags["blockTag"]&flags["optInTag"] == 0
	r.Ob("R32c", nil, "flag-algebra:blockTag-disjoint", token.NoPos, distinct, "the blocking bit is disjoint from the read-only and opt-in bits")

	builderObj := scope.Lookup("Builder")
	if !r.Anchor("R32", "type Builder", builderObj != nil) {
		return
	}
	builder := builderObj.Type()
	type root struct {
		name string
		cf   uint64
		toks []string
		pos  token.Pos
	}
	var roots []root
	nGenMethods, nBlockMethods := 0, 0
	for _, f := range pk.Syntax {
		fname := r.P.Fset.Position(f.Pos()).Filename
		gen := strings.Contains(fname, "/gen_")
		for _, d := range f.Decls {
			fd, ok := d.(*ast.FuncDecl)
			if !ok || fd.Recv == nil || len(fd.Recv.List) != 1 || fd.Body == nil {
				continue
			}
			rt := pk.TypesInfo.TypeOf(fd.Recv.List[0].Type)
			if types.Identical(rt, builder) {
				res := fd.Type.Results
				if res == nil || len(res.List) != 1 {
					continue
				}
				retT, ok := pk.TypesInfo.TypeOf(res.List[0].Type).(*types.Named)
				if !ok || !gen {
					continue
				}
				rr := root{name: retT.Obj().Name(), pos: fd.Pos()}
				ast.Inspect(fd.Body, func(n ast.Node) bool {
					if kv, ok := n.(*ast.KeyValueExpr); ok {
						if id, ok := kv.Key.(*ast.Ident); ok && id.Name == "cf" {
							if tv, ok := pk.TypesInfo.Types[kv.Value]; ok && tv.Value != nil {
								i, _ := constant.Int64Val(tv.Value)
								rr.cf = uint64(uint16(i))
							}
						}
					}
					if ce, ok := n.(*ast.CallExpr); ok {
						if id, ok := ce.Fun.(*ast.Ident); ok && id.Name == "append" {
							for _, a := range ce.Args[1:] {
								if tv, ok := pk.TypesInfo.Types[a]; ok && tv.Value != nil && tv.Value.Kind() == constant.String {
									rr.toks = append(rr.toks, constant.StringVal(tv.Value))
								}
							}
						}
					}
					return true
				})
				roots = append(roots, rr)
				continue
			}
			if !gen {
				continue
			}
			nGenMethods++
			// R32b/R32e: flag mutations and the BLOCK token
			recvName := ""
			if len(fd.Recv.List[0].Names) > 0 {
				recvName = fd.Recv.List[0].Names[0].Name
			}
			appendsBlock, orsBlock := false, false
			ast.Inspect(fd.Body, func(n ast.Node) bool {
				switch x := n.(type) {
				case *ast.AssignStmt:
					lhs := types.ExprString(x.Lhs[0])
					if lhs == recvName+".cf" {
						ok := x.Tok == token.OR_ASSIGN && strings.Contains(types.ExprString(x.Rhs[0]), "blockTag")
						if ok {
							// only an unconditional statement of the method body marks every use of the
							// option (BLOCK 0 = wait forever is the most blocking form)
							for _, st := range fd.Body.List {
								if st == ast.Stmt(x) {
									orsBlock = true
								}
							}
						} else {
							r.Ob("R32e", nil, "flag-mutation:"+types.ExprString(fd.Recv.List[0].Type)+"."+fd.Name.Name, x.Pos(), false, "a generated method changes the command flags other than by `|= blockTag`: "+types.ExprString(x.Lhs[0])+" "+x.Tok.String()+" "+types.ExprString(x.Rhs[0]))
						}
					}
					if lhs == recvName+".cs.s" {
						if ce, ok := x.Rhs[0].(*ast.CallExpr); ok && len(ce.Args) > 1 {
							if bl, ok := ce.Args[1].(*ast.BasicLit); ok && bl.Value == `"BLOCK"` && len(ce.Args) > 2 {
								appendsBlock = true // BLOCK <milliseconds>
							}
						}
					}
				case *ast.CompositeLit:
					// Build()/Cache(): flags copied unchanged
					tn := types.ExprString(x.Type)
					if tn == "Completed" || tn == "Cacheable" {
						for _, e := range x.Elts {
							if kv, ok := e.(*ast.KeyValueExpr); ok && types.ExprString(kv.Key) == "cf" {
								v := types.ExprString(kv.Value)
								if v != "uint16("+recvName+".cf)" {
									r.Ob("R32e", nil, "flags-copied:"+types.ExprString(fd.Recv.List[0].Type)+"."+fd.Name.Name, x.Pos(), false, "Build/Cache must copy the accumulated flags unchanged; got cf: "+v)
								}
							}
						}
					}
				}
				return true
			})
			if appendsBlock {
				nBlockMethods++
				r.Ob("R32b", nil, "block-option:"+types.ExprString(fd.Recv.List[0].Type)+"."+fd.Name.Name, fd.Pos(), orsBlock, "a method that appends the BLOCK <ms> option must mark the command blocking unconditionally (also for 0 = wait forever), otherwise it waits on the shared pipeline")
			} else if orsBlock {
				nBlockMethods++
			}
		}
	}
	// R32f: a hand-assembled command (Arbitrary) cannot be completed as an ordinary command when its
	// name ends in SUBSCRIBE (in any letter case: SUBSCRIBE, PSUBSCRIBE, SSUBSCRIBE and the three
	// UNSUBSCRIBE forms), because it would leave the builder without the Pub/Sub flags; every
	// completing method funnels through Build, whose guard is the suffix test
	if fn := r.FnAnchor("R32f", "rueidis/internal/cmds.(Arbitrary).Build"); fn != nil {
		guarded := false
		for _, s := range Sites(fn, func(in ssa.Instruction) bool { _, ok := in.(*ssa.Panic); return ok }) {
			for _, g := range DomGuards(s.Block) {
				c, ok := g.Cond.(*ssa.Call)
				if !ok || !g.Pol || CalleeName(c) != "strings.HasSuffix" {
					continue
				}
				suf, iss := ConstString(c.Call.Args[1])
				up, isu := c.Call.Args[0].(*ssa.Call)
				if iss && suf == "SUBSCRIBE" && isu && CalleeName(up) == "strings.ToUpper" && strings.Contains(DescDeep(up.Call.Args[0]), ".cs.s[0]") {
					guarded = true
				}
			}
		}
		r.Ob("R32f", fn, "arbitrary-refuses-the-subscribe-family", fn.Pos(), guarded, "Arbitrary.Build panics for every command name that ends in SUBSCRIBE, case-insensitively (all six Pub/Sub commands)")
		for _, m := range []string{"Blocking", "ReadOnly", "MultiGet"} {
			f := r.FnAnchor("R32f", "rueidis/internal/cmds.(Arbitrary)."+m)
			if f == nil {
				continue
			}
			viaBuild := true
			for _, b := range f.Blocks {
				if ret, isr := b.Instrs[len(b.Instrs)-1].(*ssa.Return); isr {
					c, isc := ret.Results[0].(*ssa.Call)
					if !isc || CalleeName(c) != "rueidis/internal/cmds.(Arbitrary).Build" {
						viaBuild = false
					}
				}
			}
			r.Ob("R32f", f, "completes-through-Build", f.Pos(), viaBuild, "Arbitrary."+m+" completes the command through Build (and therefore through its Pub/Sub guard)")
		}
	}
	r.Anchor("R32", "generated builder roots", len(roots) >= 400)
	r.Anchor("R32b", "methods appending BLOCK", nBlockMethods >= 4)
	r.Ob("R32e", nil, "generated-methods-scanned", token.NoPos, nGenMethods >= 5000, fmt.Sprintf("%d generated methods scanned for flag mutations", nGenMethods))

	// type graph reachability of Cache()
	reachCache := func(rootName string) bool {
		seen := map[string]bool{}
		found := false
		var walk func(t *types.Named)
		walk = func(t *types.Named) {
			if seen[t.Obj().Name()] || found {
				return
			}
			seen[t.Obj().Name()] = true
			for i := 0; i < t.NumMethods(); i++ {
				m := t.Method(i)
				if m.Name() == "Cache" {
					found = true
					return
				}
				sig := m.Type().(*types.Signature)
				if sig.Results().Len() == 1 {
					if nt, ok := sig.Results().At(0).Type().(*types.Named); ok && nt.Obj().Pkg() == pk.Types {
						if nt.Obj().Name() != "Completed" && nt.Obj().Name() != "Cacheable" {
							walk(nt)
						}
					}
				}
			}
		}
		if o, ok := scope.Lookup(rootName).(*types.TypeName); ok {
			if nt, ok := o.Type().(*types.Named); ok {
				walk(nt)
			}
		}
		return found
	}
	sort.Slice(roots, func(i, j int) bool { return roots[i].name < roots[j].name })
	isBlocking := map[string]bool{}
	for _, c := range blockingCommands {
		isBlocking[c] = true
	}
	isWrite := map[string]bool{}
	for _, c := range writeCommands {
		isWrite[c] = true
	}
	ro, cacheable, blocking := 0, 0, 0
	foundBlocking := map[string]bool{}
	for _, rt := range roots {
		cmd1 := ""
		cmd2 := ""
		if len(rt.toks) > 0 {
			cmd1 = strings.ToUpper(rt.toks[0])
		}
		if len(rt.toks) > 1 {
			cmd2 = cmd1 + " " + strings.ToUpper(rt.toks[1])
		}
		label := strings.Join(rt.toks, " ")
		isRO := rt.cf&flags["readonly"] == flags["readonly"]
		if reachCache(rt.name) {
			cacheable++
			r.Ob("R32a", nil, "cacheable-root:"+rt.name, rt.pos, isRO, "command "+label+" offers Cache() but its root is not flagged read-only")
		}
		if isRO {
			ro++
			w := isWrite[cmd1] || (cmd2 != "" && isWrite[cmd2])
			r.Ob("R32d", nil, "readonly-root:"+rt.name, rt.pos, !w, "command "+label+" is flagged read-only (auto-retried, replica-eligible"+map[bool]string{true: ", cacheable", false: ""}[reachCache(rt.name)]+") but is documented with the `write` flag")
		}
		if isBlocking[cmd1] {
			foundBlocking[cmd1] = true
			blocking++
			r.Ob("R32b", nil, "blocking-root:"+rt.name, rt.pos, rt.cf&flags["blockTag"] != 0, "command "+label+" carries Redis' blocking flag and must be marked blocking")
		}
		switch cmd1 {
		case "SUBSCRIBE", "PSUBSCRIBE", "SSUBSCRIBE":
			r.Ob("R32c", nil, "subscribe-root:"+rt.name, rt.pos, rt.cf&flags["noRetTag"] == flags["noRetTag"], label+" must carry the no-reply (Pub/Sub) flag")
		case "UNSUBSCRIBE", "PUNSUBSCRIBE", "SUNSUBSCRIBE":
			r.Ob("R32c", nil, "unsubscribe-root:"+rt.name, rt.pos, rt.cf&flags["unsubTag"] == flags["unsubTag"], label+" must carry the unsubscribe flag")
		}
	}
	for _, c := range blockingCommands {
		if !foundBlocking[c] {
			// not offered by the builder: nothing to check, recorded for transparency
			r.Ob("R32b", nil, "blocking-command-not-in-builder:"+c, token.NoPos, true, c+" has no root builder")
		}
	}
	// predefined Pub/Sub commands
	for _, f := range pk.Syntax {
		ast.Inspect(f, func(n ast.Node) bool {
			vs, ok := n.(*ast.ValueSpec)
			if !ok || len(vs.Names) != 1 || len(vs.Values) != 1 {
				return true
			}
			name := vs.Names[0].Name
			cl, ok := vs.Values[0].(*ast.CompositeLit)
			if !ok || types.ExprString(cl.Type) != "Completed" {
				return true
			}
			var cf uint64
			for _, e := range cl.Elts {
				if kv, ok := e.(*ast.KeyValueExpr); ok && types.ExprString(kv.Key) == "cf" {
					if tv, ok := pk.TypesInfo.Types[kv.Value]; ok && tv.Value != nil {
						cf, _ = constant.Uint64Val(tv.Value)
					}
				}
			}
			switch {
			case strings.HasSuffix(name, "UnsubscribeCmd") || strings.HasSuffix(name, "UnSubscribe"):
				r.Ob("R32c", nil, "predefined:"+name, vs.Pos(), cf&flags["unsubTag"] == flags["unsubTag"], "predefined "+name+" must carry the unsubscribe flag")
			case strings.HasSuffix(name, "SentinelSubscribe"):
				r.Ob("R32c", nil, "predefined:"+name, vs.Pos(), cf&flags["noRetTag"] == flags["noRetTag"], "predefined "+name+" must carry the no-reply flag")
			}
			return true
		})
	}
	r.Extra["roots"] = len(roots)
	r.Extra["readonly_roots"] = ro
	r.Extra["cacheable_roots"] = cacheable
	r.Extra["blocking_roots"] = blocking
	r.Min("R32a", 50)
	r.Min("R32d", 100)
}
