package rv

import (
	"go/ast"
	"sort"
	"strings"

	"golang.org/x/tools/go/ssa"
)

// Lock-set analysis (A4 for mutexes): a forward must-analysis over the CFG of one function. A lock
// is identified by the structural descriptor of the mutex value (Desc of the receiver of
// Lock/Unlock, e.g. "&p0.mu" or "p0.cond.L"), suffixed with ":r" for read locks.

var lockCalls = map[string]string{
	"sync.(*Mutex).Lock":      "lock",
	"sync.(*Mutex).Unlock":    "unlock",
	"sync.(*RWMutex).Lock":    "lock",
	"sync.(*RWMutex).Unlock":  "unlock",
	"sync.(*RWMutex).RLock":   "rlock",
	"sync.(*RWMutex).RUnlock": "runlock",
	"iface:sync.Locker.Lock":   "lock",
	"iface:sync.Locker.Unlock": "unlock",
}

// LockOp classifies a call instruction as a lock operation and returns the lock descriptor.
func LockOp(in ssa.Instruction) (op, lock string, ok bool) {
	c, isCall := in.(*ssa.Call)
	if !isCall {
		return "", "", false
	}
	k, ok := lockCalls[CalleeName(c)]
	if !ok {
		return "", "", false
	}
	args := CallArgs(c)
	if len(args) == 0 {
		return "", "", false
	}
	return k, DescDeep(args[0]), true
}

// LockSets holds, for every instruction of a function, the set of locks held just before it.
type LockSets struct {
	Fn    *ssa.Function
	in    map[*ssa.BasicBlock]map[string]bool
	Entry map[string]bool
}

// ComputeLockSets runs the analysis with the given set of locks assumed held at entry.
func ComputeLockSets(fn *ssa.Function, entry map[string]bool) *LockSets {
	ls := &LockSets{Fn: fn, in: map[*ssa.BasicBlock]map[string]bool{}, Entry: entry}
	if len(fn.Blocks) == 0 {
		return ls
	}
	// optimistic initialisation: unknown = nil (top); entry = given
	ls.in[fn.Blocks[0]] = copySet(entry)
	work := []*ssa.BasicBlock{fn.Blocks[0]}
	for len(work) > 0 {
		b := work[0]
		work = work[1:]
		out := copySet(ls.in[b])
		for _, in := range b.Instrs {
			transferLock(in, out)
		}
		for _, s := range b.Succs {
			old, seen := ls.in[s]
			var nw map[string]bool
			if !seen {
				nw = copySet(out)
			} else {
				nw = intersect(old, out)
			}
			if !seen || len(nw) != len(old) {
				ls.in[s] = nw
				work = append(work, s)
			}
		}
	}
	return ls
}

func transferLock(in ssa.Instruction, set map[string]bool) {
	// `defer mu.Unlock()`: the deferred unlocks whose defer statement dominates this point run here
	if rd, isrd := in.(*ssa.RunDefers); isrd {
		for _, b := range rd.Parent().Blocks {
			for _, x := range b.Instrs {
				d, isd := x.(*ssa.Defer)
				if !isd || !b.Dominates(rd.Block()) {
					continue
				}
				k, known := lockCalls[CalleeName(d)]
				args := CallArgs(d)
				if !known || len(args) == 0 {
					continue
				}
				switch k {
				case "unlock":
					delete(set, DescDeep(args[0]))
				case "runlock":
					delete(set, DescDeep(args[0])+":r")
				}
			}
		}
		return
	}
	op, l, ok := LockOp(in)
	if !ok {
		return
	}
	switch op {
	case "lock":
		set[l] = true
	case "rlock":
		set[l+":r"] = true
	case "unlock":
		delete(set, l)
	case "runlock":
		delete(set, l+":r")
	}
}

// At returns the locks held just before the instruction at site s.
func (ls *LockSets) At(s Site) map[string]bool {
	set := copySet(ls.in[s.Block])
	for i := 0; i < s.Idx && i < len(s.Block.Instrs); i++ {
		transferLock(s.Block.Instrs[i], set)
	}
	return set
}

// AtReturn gives the lock set at each return instruction.
func (ls *LockSets) AtReturn() []map[string]bool {
	var out []map[string]bool
	for _, b := range ls.Fn.Blocks {
		if len(b.Instrs) == 0 {
			continue
		}
		if _, ok := b.Instrs[len(b.Instrs)-1].(*ssa.Return); ok {
			if _, reach := ls.in[b]; !reach {
				continue
			}
			out = append(out, ls.At(Site{ls.Fn, b, len(b.Instrs) - 1, b.Instrs[len(b.Instrs)-1]}))
		}
	}
	return out
}

func copySet(m map[string]bool) map[string]bool {
	o := make(map[string]bool, len(m))
	for k := range m {
		o[k] = true
	}
	return o
}

func intersect(a, b map[string]bool) map[string]bool {
	o := map[string]bool{}
	for k := range a {
		if b[k] {
			o[k] = true
		}
	}
	return o
}

func setString(m map[string]bool) string {
	var ks []string
	for k := range m {
		ks = append(ks, k)
	}
	sort.Strings(ks)
	return "{" + strings.Join(ks, ",") + "}"
}

// LockSetsWithCallers computes lock sets for fn, deriving the entry set from its callers inside
// the module when fn is unexported and has at least one static caller: a lock "&<argI>.rest"
// held at every call site becomes "&p<I>.rest" at entry (one level, no recursion into callers'
// callers beyond the given depth).
func (p *Prog) LockSetsWithCallers(fn *ssa.Function, depth int) *LockSets {
	if depth == 2 {
		if p.lsMemo == nil {
			p.lsMemo = map[*ssa.Function]*LockSets{}
		}
		if ls, ok := p.lsMemo[fn]; ok {
			return ls
		}
		ls := p.lockSetsWithCallers(fn, depth)
		p.lsMemo[fn] = ls
		return ls
	}
	return p.lockSetsWithCallers(fn, depth)
}

func (p *Prog) lockSetsWithCallers(fn *ssa.Function, depth int) *LockSets {
	entry := map[string]bool{}
	if depth > 0 && fn.Parent() == nil && !ast.IsExported(fn.Name()) {
		callers := p.Callers(FuncName(fn))
		first := true
		for _, cs := range callers {
			if _, isGo := cs.Instr.(*ssa.Go); isGo {
				entry = map[string]bool{}
				first = false
				break
			}
			cls := p.LockSetsWithCallers(cs.Fn, depth-1)
			held := cls.At(cs)
			tr := map[string]bool{}
			args := CallArgs(cs.Call())
			for l := range held {
				for i, a := range args {
					d := DescDeep(a)
					for _, pre := range []string{"&" + d + ".", d + "."} {
						if strings.HasPrefix(l, pre) {
							tr[strings.Replace(l, d, "p"+itoa(i), 1)] = true
						}
					}
				}
			}
			if first {
				entry = tr
				first = false
			} else {
				entry = intersect(entry, tr)
			}
		}
	}
	return ComputeLockSets(fn, entry)
}

func itoa(i int) string {
	if i == 0 {
		return "0"
	}
	s := ""
	for i > 0 {
		s = string(rune('0'+i%10)) + s
		i /= 10
	}
	return s
}

// FieldLockCheck verifies that every access of typ.field inside the given functions happens with
// the lock stored in the sibling field lockField of the same base object held (a read lock is
// enough for loads). Accesses through a freshly allocated object (constructor) are exempt.
func (r *Report) FieldLockCheck(rule, typ, field, lockField string, fns []*ssa.Function) int {
	n := 0
	for _, fn := range fns {
		accs := FieldAccessesIn(fn, typ, field)
		if len(accs) == 0 {
			continue
		}
		ls := r.P.LockSetsWithCallers(fn, 2)
		for _, a := range accs {
			n++
			var base ssa.Value
			switch x := a.Instr.(type) {
			case *ssa.Store:
				_, _, base, _ = FieldRef(x.Addr)
			case *ssa.UnOp:
				_, _, base, _ = FieldRef(x.X)
			case *ssa.Field:
				base = x.X
			case ssa.CallInstruction:
				for _, arg := range CallArgs(x) {
					if IsFieldAddr(arg, typ, field) {
						_, _, base, _ = FieldRef(arg)
					}
				}
			}
			if _, fresh := Strip(base).(*ssa.Alloc); fresh {
				r.ObSite(rule, a.Site, "access:"+typ+"."+field+"(fresh)", true, "object under construction, not yet shared")
				continue
			}
			held := ls.At(a.Site)
			bd := DescDeep(base)
			ok := false
			for l := range held {
				core := strings.TrimSuffix(l, ":r")
				if core == "&"+bd+"."+lockField || core == bd+"."+lockField {
					if !strings.HasSuffix(l, ":r") || !a.Write {
						ok = true
					}
				}
			}
			kind := "load"
			if a.Write {
				kind = "store"
			}
			r.ObSite(rule, a.Site, kind+":"+typ+"."+field, ok,
				kind+" of "+typ+"."+field+" requires "+bd+"."+lockField+" held; held here: "+setString(held))
		}
	}
	return n
}
