package rv

import (
	"fmt"
	"go/token"
	"strings"

	"golang.org/x/tools/go/ssa"
)

func init() {
	Registry["C31"] = RuleDef{Module: ".", Run: runC31,
		Technique:   "same-index correspondence rule (key operand and reply operand of every result-map store share the loop index; offset 1 for keys read back from a command's argv, checked against the number of tokens the root builder emits), argument-identity rule for the key list, error-arm must-return rule",
		Explanation: "Decides the mapping skeleton of the multi-key helpers: (R31a) every store into the returned map pairs a key and a reply by position - arrayToKV keys[i] with arr[i]; doMultiSet argv[1] of cmds[i] with resps[i] (the key is the argument right after the single command token of SET/DEL/JSON.SET, read from the builders); doMultiCache keys[i] with resps[i]; clusterMGet/clusterJsonMGet argv[j+1] of cmds.s[i] with element j of the array decoded from resps[i] (the root emits one token, keys are appended next); (R31b) the single-command modes store the one reply under every key of the very collection the command was built from, and hand the same key list to the command builder and to the mapper; the per-key command builders (MGetCache, JsonMGetCache, MDel) build command i from keys[i] and pass the same key list on; (R31c) a failed group's error is returned before the next group is examined.",
		NotDecided:  "duplicate keys (map semantics), the server's per-key replies, slot grouping correctness (covered structurally by R31a only through the read-back of keys from the commands themselves)."}
}

func runC31(r *Report) {
	p := r.P
	mapStores := func(fn *ssa.Function) []Site {
		var out []Site
		fs := WithAnons(fn)
		// an unexported helper of the package that is handed the result map fills it on the caller's behalf
		for _, cs := range Sites(fn, func(in ssa.Instruction) bool { _, ok := in.(*ssa.Call); return ok }) {
			c := cs.Instr.(*ssa.Call)
			h := c.Call.StaticCallee()
			if h == nil || h.Blocks == nil || h.Pkg != fn.Pkg || isExportedName(h.Name()) || h == fn {
				continue
			}
			for _, a := range c.Call.Args {
				if t := shortType(a.Type()); t == "map[string]rueidis.RedisMessage" || t == "map[string]error" {
					fs = append(fs, h)
					break
				}
			}
		}
		for _, f := range fs {
			out = append(out, Sites(f, func(in ssa.Instruction) bool {
				mu, ok := in.(*ssa.MapUpdate)
				if !ok {
					return false
				}
				t := shortType(mu.Map.Type())
				return t == "map[string]rueidis.RedisMessage" || t == "map[string]error"
			})...)
		}
		return out
	}
	// R31a positional stores
	for _, name := range []string{"rueidis.arrayToKV", "rueidis.doMultiCache", "rueidis.doMultiSet"} {
		fn := r.FnAnchor("R31a", name)
		if fn == nil {
			continue
		}
		n := 0
		for _, s := range mapStores(fn) {
			n++
			mu := s.Instr.(*ssa.MapUpdate)
			_, kk, kok := elemOfDeep(mu.Key)
			_, vk, vok := elemOfDeep(mu.Value)
			ok := kok && vok && kk == vk
			why := fmt.Sprintf("key %s, value %s", DescDeep(mu.Key), DescDeep(mu.Value))
			if ok && name == "rueidis.doMultiSet" {
				// the key is argv[1]
				sl, idx, isel := elemOf(mu.Key)
				c, isc := sl.(*ssa.Call)
				k, isk := ConstInt(idx)
				if !isel || !isc || !strings.HasSuffix(CalleeName(c), ").Commands") || !isk || k != 1 {
					ok, why = false, "the key is not argv[1] of the command at the reply's position"
				}
			}
			r.ObSite("R31a", s, "key-and-reply-share-index", ok, "the entry stored for a reply uses the key at the reply's own position; "+why)
		}
		r.Anchor("R31a", name+": result map stores", n == 1)
	}
	// key is the first argument after one command token for the builders used with doMultiSet / cluster MGET
	for _, root := range []string{"Set", "Del", "JsonSet", "Mget"} {
		fn := r.FnAnchor("R31a", "rueidis/internal/cmds.(Builder)."+root)
		if fn == nil {
			continue
		}
		toks := 0
		for _, s := range CallSites(fn, "builtin.append") {
			for _, e := range variadicElemsOrdered(s.Call().Common().Args[1]) {
				if _, ok := ConstString(e); ok {
					toks++
				} else {
					toks += 100
				}
			}
		}
		r.Ob("R31a", fn, "root-emits-one-token", fn.Pos(), toks == 1, fmt.Sprintf("the %s root emits exactly one token, so argv[1] is the first key (found %d)", root, toks))
		kf := r.FnAnchor("R31a", "rueidis/internal/cmds.("+root+").Key")
		if kf != nil {
			first := false
			for _, s := range CallSites(kf, "builtin.append") {
				c := s.Call().Common()
				if shortType(c.Args[0].Type()) == "[]string" {
					d := Desc(c.Args[1])
					if d == "p1" {
						first = true
					} else {
						for _, e := range variadicElemsOrdered(c.Args[1]) {
							first = Desc(e) == "p1"
							break
						}
					}
				}
			}
			r.Ob("R31a", kf, "key-appended-right-after-root", kf.Pos(), first, "Key appends the key argument(s) to the argv")
		}
	}
	// cluster MGET family: argv[j+1] of cmds.s[i] with arr[j] of resps[i]
	for _, name := range []string{"rueidis.clusterMGet", "rueidis.clusterJsonMGet"} {
		fn := r.FnAnchor("R31a", name)
		if fn == nil {
			continue
		}
		n := 0
		for _, s := range mapStores(fn) {
			n++
			mu := s.Instr.(*ssa.MapUpdate)
			ksl, kidx, kok := elemOf(mu.Key)
			vsl, vidx, vok := elemOf(mu.Value)
			ok := kok && vok
			why := fmt.Sprintf("key %s, value %s", DescDeep(mu.Key), DescDeep(mu.Value))
			if ok {
				bo, isb := kidx.(*ssa.BinOp)
				c, isc := ksl.(*ssa.Call)
				switch {
				case !isb || bo.Op != token.ADD || bo.X != vidx:
					ok, why = false, "inner positions differ: "+why
				case !isc || !strings.HasSuffix(CalleeName(c), ").Commands"):
					ok, why = false, "the key is not read back from the command's argv"
				default:
					if k, isk := ConstInt(bo.Y); !isk || k != 1 {
						ok, why = false, "the key offset is not the single command token"
					}
				}
				if ok {
					// outer: the command is cmds.s[i] and arr comes from resps[i]
					_, oi, ook := elemOfDeep(c.Call.Args[0])
					_, ai, aok := elemOfDeep(vsl)
					if !ook || !aok || oi != ai {
						ok, why = false, "the argv and the reply array belong to different groups"
					}
				}
			}
			r.ObSite("R31a", s, "group-key-and-reply-share-index", ok, "within group i, reply element j is stored under argv[j+1] of command i; "+why)
		}
		r.Anchor("R31a", name+": result map stores", n == 1)
		// keys enter the group commands only through the builder / AppendCompleted, each key exactly once
		loopKeys := rangeLoopOver(fn, "p2")
		if r.Anchor("R31a", name+": key loop", loopKeys != nil) {
			filed := loopBodyAlways(fn, loopKeys, func(in ssa.Instruction) bool {
				c, ok := in.(ssa.CallInstruction)
				if !ok {
					return false
				}
				n := CalleeName(c)
				if n == "rueidis/internal/cmds.AppendCompleted" {
					_, _, isel := elemOf(c.Common().Args[1])
					return isel
				}
				return strings.HasSuffix(n, ").Key") || strings.HasSuffix(n, ").Keys")
			})
			r.Ob("R31a", fn, "every-key-filed-into-a-group", fn.Pos(), filed, "each input key is appended to exactly one group command (new group or existing one)")
		}
		// R31c error arm
		for _, s := range Sites(fn, func(in ssa.Instruction) bool {
			c, ok := in.(ssa.CallInstruction)
			return ok && CalleeName(c) == "rueidis.(RedisResult).ToArray"
		}) {
			errv := extractOf(s.Instr.(*ssa.Call), 1)
			ok := errv != nil
			if ok {
				// the true edge of `err != nil` leads to a return of that error before any loop header
				var arm *ssa.BasicBlock
				for _, u := range Uses(errv) {
					if bo, isb := u.(*ssa.BinOp); isb && bo.Op == token.NEQ && IsNilConst(bo.Y) {
						for _, uu := range Uses(bo) {
							if iff, isif := uu.(*ssa.If); isif {
								arm = iff.Block().Succs[0]
							}
						}
					}
				}
				ok = arm != nil
				if ok {
					WalkFrom(Site{fn, arm, -1, nil}, func(w Site) bool {
						if ret, isr := w.Instr.(*ssa.Return); isr {
							rv := RetVals(ret)
							if len(rv) != 2 || rv[1] != errv {
								ok = false
							}
							return false
						}
						if IsLoopHeader(w.Block) && w.Idx == 0 {
							ok = false
							return false
						}
						return true
					})
				}
			}
			r.ObSite("R31c", s, "group-error-returned-immediately", ok, "when a group's reply cannot be decoded the helper returns that error; it does not go on to other groups (whose success would mask it)")
		}
	}
	// R31b single-command modes
	for _, name := range []string{"rueidis.clientMSet", "rueidis.clientJSONMSet", "rueidis.clientMDel"} {
		fn := r.FnAnchor("R31b", name)
		if fn == nil {
			continue
		}
		n := 0
		for _, s := range mapStores(fn) {
			n++
			mu := s.Instr.(*ssa.MapUpdate)
			// key comes from ranging the collection parameter; the command is built from the same parameter
			var coll ssa.Value
			DependsOn(mu.Key, func(v ssa.Value) bool {
				switch x := v.(type) {
				case *ssa.Range:
					coll = x.X
					return true
				case *ssa.IndexAddr:
					coll = x.X
					return true
				}
				return false
			})
			_, isParam := coll.(*ssa.Parameter)
			built := false
			if isParam {
				for _, cs := range Sites(fn, func(in ssa.Instruction) bool {
					c, ok := in.(ssa.CallInstruction)
					if !ok {
						return false
					}
					n := CalleeName(c)
					return strings.HasSuffix(n, ").Args") || strings.HasSuffix(n, ").Key")
				}) {
					for _, a := range CallArgs(cs.Call())[1:] {
						if a == coll || DependsOn(a, func(v ssa.Value) bool {
							switch x := v.(type) {
							case *ssa.Range:
								return x.X == coll
							case *ssa.IndexAddr:
								return x.X == coll
							}
							return false
						}) {
							built = true
						}
					}
				}
			}
			// the value is the command's single result
			one := DependsOn(mu.Value, func(v ssa.Value) bool {
				c, ok := v.(*ssa.Call)
				return ok && strings.HasPrefix(CalleeName(c), "iface:rueidis.Client.Do")
			}) || strings.Contains(DescDeep(mu.Value), "ErrMSetNXNotSet")
			r.ObSite("R31b", s, "one-reply-under-every-input-key", isParam && built && one, fmt.Sprintf("keys of the stored entries range over the collection the command was built from (%v/%v) and carry the command's reply (%v)", isParam, built, one))
		}
		r.Anchor("R31b", name+": result map stores", n == 1)
	}
	// same key list for command and mapper
	for _, name := range []string{"rueidis.MGet", "rueidis.JsonMGet"} {
		fn := r.FnAnchor("R31b", name)
		if fn == nil {
			continue
		}
		n := 0
		for _, s := range CallSites(fn, "rueidis.clientMGet") {
			n++
			args := s.Call().Common().Args
			keys := args[3]
			_, isParam := keys.(*ssa.Parameter)
			built := DependsOn(args[2], func(v ssa.Value) bool {
				c, ok := v.(*ssa.Call)
				if !ok || !strings.HasSuffix(CalleeName(c), ").Key") {
					return false
				}
				for _, a := range CallArgs(c)[1:] {
					if a == keys {
						return true
					}
				}
				return false
			})
			r.ObSite("R31b", s, "same-keys-for-command-and-mapper", isParam && built, "the key list given to the command builder is the key list used to label the replies")
		}
		r.Anchor("R31b", name+": single-command arm", n == 1)
	}
	for _, name := range []string{"rueidis.MGetCache", "rueidis.JsonMGetCache", "rueidis.MDel"} {
		perKeyCommandRule(r, "R31b", name)
	}
	_ = p
}

// perKeyCommandRule: a helper that builds one command per key stores the command built from keys[i]
// at position i and hands the same key list to the mapper.
func perKeyCommandRule(r *Report, rule, name string) {
	fn := r.FnAnchor(rule, name)
	if fn == nil {
		return
	}
	n := 0
	for _, s := range Sites(fn, func(in ssa.Instruction) bool {
		st, ok := in.(*ssa.Store)
		if !ok {
			return false
		}
		_, isia := st.Addr.(*ssa.IndexAddr)
		t := shortType(st.Val.Type())
		return isia && (strings.HasSuffix(t, ".CacheableTTL") || strings.HasSuffix(t, ".Completed"))
	}) {
		n++
		st := s.Instr.(*ssa.Store)
		slot := st.Addr.(*ssa.IndexAddr).Index
		_, ki, kok := elemOfDeep(st.Val)
		r.ObSite(rule, s, "command-i-built-from-key-i", kok && ki == slot, "the command stored at position i is built from keys[i]")
	}
	r.Anchor(rule, name+": per-key command stores", n == 1)
	// the mapper receives the same key list (cached variants)
	for _, s := range CallSites(fn, "rueidis.doMultiCache") {
		k := s.Call().Common().Args[3]
		_, isParam := k.(*ssa.Parameter)
		r.ObSite(rule, s, "same-keys-for-commands-and-mapper", isParam && shortType(k.Type()) == "[]string", "doMultiCache labels replies with the key list the commands were built from")
	}
}
