package rv

// RuleDef describes the check of one property.
type RuleDef struct {
	Module      string // module directory relative to the repository root ("." = root module)
	Run         func(r *Report)
	Explanation string // the structural clause decided
	NotDecided  string // what part of the property is not decided
	Technique   string
}

// Registry maps property ids to their checks; filled by init functions in rules_cNN.go.
var Registry = map[string]RuleDef{}
