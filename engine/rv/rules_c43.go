package rv

import (
	"fmt"
	"go/types"
	"strings"

	"golang.org/x/tools/go/ssa"
)

func init() {
	Registry["C43"] = RuleDef{Module: "rueidishook", Run: runC43,
		Technique:   "sibling-shape comparison of the delegating wrappers and a taint rule (inner client must not escape unwrapped) on go/ssa",
		Explanation: "Decides for rueidishook (R43a) that every request method the Hook interface lists (Do, DoMulti, DoCache, DoMultiCache, Receive, DoStream, DoMultiStream) on hookclient and on the dedicated wrapper calls the same-named Hook method exactly once on every path, passes the inner client and every parameter unchanged in order, returns the hook's result unchanged, and never calls a request method of the inner client directly; (R43b) in Dedicated, Dedicate and Nodes no client obtained from the inner client reaches the caller (callback argument, return value, map value) unless wrapped in a hookclient/dedicated value; (R43c) every wrapper value constructed carries the hook of its parent (or WithHook's argument). (R43d) every core client's Nodes() returns a map built for that call, which is what allows the hook wrapper to rewrite it in place. (R43e) the hook and the wrapped client of a wrapper are written only into a freshly allocated wrapper: wrappers are never re-initialised (a pooled or reset wrapper can be held by two owners, whose commands then run each other's hook).",
		NotDecided:  "what the user's Hook implementation does; clients reachable through other packages."}
}

const hookPkg = "rueidis/rueidishook"

func runC43(r *Report) {
	freshNodesMapRule(r)
	p := r.P
	pk := p.Pkg(hookPkg)
	if !r.Anchor("R43", "package "+hookPkg, pk != nil) {
		return
	}
	hookObj := pk.Types.Scope().Lookup("Hook")
	if !r.Anchor("R43", "interface Hook", hookObj != nil) {
		return
	}
	hookIface, _ := hookObj.Type().Underlying().(*types.Interface)
	if !r.Anchor("R43", "Hook is an interface", hookIface != nil) {
		return
	}
	reqMethods := map[string]bool{}
	for i := 0; i < hookIface.NumMethods(); i++ {
		reqMethods[hookIface.Method(i).Name()] = true
	}
	for _, m := range []string{"Do", "DoMulti", "DoCache", "DoMultiCache", "Receive", "DoStream", "DoMultiStream"} {
		r.Anchor("R43a", "Hook."+m, reqMethods[m])
	}
	wrappers := []string{"hookclient", "dedicated"}
	nWrap := 0
	for _, w := range wrappers {
		wobj := pk.Types.Scope().Lookup(w)
		if !r.Anchor("R43a", "type "+w, wobj != nil) {
			continue
		}
		ms := types.NewMethodSet(types.NewPointer(wobj.Type()))
		for m := range reqMethods {
			if ms.Lookup(pk.Types, m) == nil {
				continue // the wrapped interface does not have this method (DedicatedClient has no DoCache)
			}
			fn := p.Fn(hookPkg + ".(*" + w + ")." + m)
			if fn == nil || fn.Blocks == nil {
				// promoted from an embedded value: the request would bypass the hook
				r.Ob("R43a", nil, w+"."+m, wobj.Pos(), false, "method "+m+" of "+w+" is not declared on the wrapper (promoted from an embedded client): the call bypasses the hook")
				continue
			}
			nWrap++
			checkHookWrapper(r, fn, m, hookIface.Method(indexOfMethod(hookIface, m)))
		}
	}
	r.Extra["wrappers_checked"] = nWrap

	// R43b: inner clients must not escape unwrapped.
	for _, name := range []string{"Dedicated", "Dedicate", "Nodes"} {
		fn := r.FnAnchor("R43b", hookPkg+".(*hookclient)."+name)
		if fn == nil {
			continue
		}
		for _, f := range WithAnons(fn) {
			checkNoUnwrappedEscape(r, f)
		}
	}
	// R43c: wrappers carry the hook
	for _, fn := range p.ModuleFuncs() {
		for _, s := range Sites(fn, func(in ssa.Instruction) bool {
			a, ok := in.(*ssa.Alloc)
			if !ok {
				return false
			}
			t := shortType(a.Type())
			return t == "*"+hookPkg+".hookclient" || t == "*"+hookPkg+".dedicated"
		}) {
			al := s.Instr.(*ssa.Alloc)
			okHook, okClient := false, false
			why := "wrapper constructed without a hook"
			for _, ref := range *al.Referrers() {
				fa, isfa := ref.(*ssa.FieldAddr)
				if !isfa {
					continue
				}
				_, f, _, _ := FieldRef(fa)
				for _, rr := range *fa.Referrers() {
					st, isst := rr.(*ssa.Store)
					if !isst || st.Addr != fa {
						continue
					}
					if f == "hook" {
						d := Desc(st.Val)
						// parent's hook, or the hook parameter of WithHook
						if strings.HasSuffix(d, ".hook") || strings.HasPrefix(d, "p") {
							okHook = !IsNilConst(st.Val)
							// a constructor helper's hook parameter: every caller hands it its own hook
							if vals, _, okp := paramArgs(r.P, st.Val); okp {
								for _, v := range vals {
									dv := Desc(v)
									if IsNilConst(v) || !(strings.HasSuffix(dv, ".hook") || strings.HasPrefix(dv, "p")) {
										okHook = false
									}
								}
							} else {
								okHook = false
							}
						}
						why = "hook field set from " + d
					}
					if f == "client" && !IsNilConst(st.Val) {
						okClient = true
					}
				}
			}
			r.ObSite("R43c", s, "wrapper-literal:"+shortType(al.Type()), okHook && okClient, why)
		}
	}
	// R43e: a wrapper's hook and wrapped client are fixed at construction: they are written only into
	// an object allocated right there. A wrapper that is re-initialised (pooled, reset) can be in the
	// hands of two owners, whose commands then run each other's hook - or none.
	nInit := 0
	for _, fn := range r.P.ModuleFuncs() {
		if !strings.HasPrefix(FuncName(fn), hookPkg+".") {
			continue
		}
		for _, st := range Sites(fn, func(in ssa.Instruction) bool { _, ok := in.(*ssa.Store); return ok }) {
			t, f, base, ok := FieldRef(st.Instr.(*ssa.Store).Addr)
			if !ok {
				continue
			}
			isWrapperField := (t == hookPkg+".hookclient" || t == hookPkg+".dedicated") && (f == "hook" || f == "client") || t == hookPkg+".extended" && f == "DedicatedClient"
			if !isWrapperField {
				continue
			}
			nInit++
			_, fresh := base.(*ssa.Alloc)
			r.ObSite("R43e", st, "wrapper-field-set-only-at-construction:"+f, fresh, "the hook / wrapped client of a wrapper is written only into a freshly allocated wrapper (never into one obtained from a pool or handed in)")
		}
	}
	r.Anchor("R43e", "wrapper field initialisations (>= 4)", nInit >= 4)
	r.Min("R43a", 10)
	r.Min("R43b", 3)
	r.Min("R43c", 2)
}

func indexOfMethod(it *types.Interface, name string) int {
	for i := 0; i < it.NumMethods(); i++ {
		if it.Method(i).Name() == name {
			return i
		}
	}
	return 0
}

func checkHookWrapper(r *Report, fn *ssa.Function, m string, hm *types.Func) {
	want := "iface:" + hookPkg + ".Hook." + m
	sites := CallSites(fn, want)
	r.Ob("R43a", fn, "hook-call-count", fn.Pos(), len(sites) == 1, fmt.Sprintf("wrapper must call Hook.%s exactly once; found %d call site(s)", m, len(sites)))
	// no direct request on the inner client, no other hook method
	for _, s := range Sites(fn, func(in ssa.Instruction) bool {
		c, ok := in.(ssa.CallInstruction)
		if !ok {
			return false
		}
		n := CalleeName(c)
		if n == want {
			return false
		}
		if strings.HasPrefix(n, "iface:"+hookPkg+".Hook.") {
			return true
		}
		if strings.HasPrefix(n, "iface:rueidis.Client.") || strings.HasPrefix(n, "iface:rueidis.DedicatedClient.") || strings.HasPrefix(n, hookPkg+".(*extended).") {
			i := strings.LastIndex(n, ".")
			switch n[i+1:] {
			case "Do", "DoMulti", "DoCache", "DoMultiCache", "Receive", "DoStream", "DoMultiStream":
				return true
			}
		}
		return false
	}) {
		r.ObSite("R43a", s, "bypass:"+CalleeName(s.Call()), false, "request method called without going through Hook."+m+": "+CalleeName(s.Call()))
	}
	if len(sites) != 1 {
		return
	}
	s := sites[0]
	onAll, _ := MustPassFromEntry(fn, func(in ssa.Instruction) bool { return in == s.Instr })
	r.ObSite("R43a", s, "hook-call-on-every-path", onAll, "Hook."+m+" must be called on every path to return")
	args := CallArgs(s.Call())
	// receiver: load of p0.hook
	recvOK := Desc(args[0]) == "p0.hook"
	r.ObSite("R43a", s, "hook-receiver", recvOK, "hook method must be invoked on the wrapper's own hook field; got "+Desc(args[0]))
	clientOK := len(args) > 1 && Desc(args[1]) == "p0.client"
	r.ObSite("R43a", s, "inner-client-arg", clientOK, "first argument must be the wrapper's inner client (p0.client); got "+descOr(args, 1))
	// remaining: parameters in order
	np := len(fn.Params) - 1
	okArgs := len(args)-2 == np
	why := fmt.Sprintf("hook receives %d forwarded args, wrapper has %d parameters", len(args)-2, np)
	if okArgs {
		for i := 0; i < np; i++ {
			if Strip(args[2+i]) != ssa.Value(fn.Params[1+i]) {
				okArgs = false
				why = fmt.Sprintf("argument %d of the hook call is %s, expected the wrapper's parameter %d unchanged", i+1, Desc(args[2+i]), i+1)
			}
		}
	}
	r.ObSite("R43a", s, "params-forwarded-in-order", okArgs, why)
	// result returned unchanged
	call, _ := s.Instr.(*ssa.Call)
	retOK := call != nil
	nret := 0
	for _, b := range fn.Blocks {
		if ret, ok := b.Instrs[len(b.Instrs)-1].(*ssa.Return); ok {
			nret++
			if len(ret.Results) != 1 || Strip(ret.Results[0]) != ssa.Value(call) {
				retOK = false
			}
		}
	}
	r.ObSite("R43a", s, "result-returned-unchanged", retOK && nret > 0, "every return must return the hook call's result itself")
}

func descOr(args []ssa.Value, i int) string {
	if i < len(args) {
		return Desc(args[i])
	}
	return "<missing>"
}

func isClientType(t types.Type) bool {
	s := shortType(t)
	return s == "rueidis.Client" || s == "rueidis.DedicatedClient" || s == "map[string]rueidis.Client"
}

// checkNoUnwrappedEscape: values of client type that originate from the inner client must not
// flow (without being wrapped) into a return, a map update or a call of a function value.
func checkNoUnwrappedEscape(r *Report, fn *ssa.Function) {
	tainted := map[ssa.Value]bool{}
	// sources
	if fn.Parent() != nil {
		// closure passed to the inner client's Dedicated: its parameters come from the inner client
		for _, prm := range fn.Params {
			if isClientType(prm.Type()) {
				tainted[prm] = true
			}
		}
	}
	for _, b := range fn.Blocks {
		for _, in := range b.Instrs {
			if c, ok := in.(*ssa.Call); ok {
				n := CalleeName(c)
				if strings.HasPrefix(n, "iface:rueidis.Client.") || strings.HasPrefix(n, "iface:rueidis.DedicatedClient.") {
					if strings.Contains(shortType(c.Type()), "rueidis.Client") || strings.Contains(shortType(c.Type()), "rueidis.DedicatedClient") {
						tainted[c] = true
					}
				}
			}
		}
	}
	// propagate
	changed := true
	for changed {
		changed = false
		for _, b := range fn.Blocks {
			for _, in := range b.Instrs {
				v, ok := in.(ssa.Value)
				if !ok || tainted[v] {
					continue
				}
				switch x := in.(type) {
				case *ssa.Extract:
					if tainted[x.Tuple] && (isClientType(x.Type()) || strings.Contains(shortType(x.Type()), "Client")) {
						tainted[v], changed = true, true
					}
				case *ssa.MakeInterface, *ssa.ChangeInterface, *ssa.ChangeType, *ssa.Phi, *ssa.Range, *ssa.Next, *ssa.Lookup, *ssa.TypeAssert:
					for _, op := range in.Operands(nil) {
						if *op != nil && tainted[*op] {
							tainted[v], changed = true, true
						}
					}
				}
			}
		}
	}
	n := 0
	for _, b := range fn.Blocks {
		for i, in := range b.Instrs {
			s := Site{fn, b, i, in}
			switch x := in.(type) {
			case *ssa.Return:
				for _, res := range x.Results {
					if !tainted[res] {
						continue
					}
					n++
					if strings.HasPrefix(shortType(res.Type()), "map[") {
						ok := mapFullyRewrapped(fn, res)
						r.ObSite("R43b", s, "return-map-of-inner-clients", ok, "a map obtained from the inner client may be returned only after every entry was overwritten with a hook wrapper inside a range loop over that map")
					} else {
						r.ObSite("R43b", s, "return-inner-client", false, "client obtained from the inner client is returned unwrapped: "+Desc(res))
					}
				}
			case *ssa.MapUpdate:
				if tainted[x.Value] && isClientType(x.Value.Type()) {
					n++
					r.ObSite("R43b", s, "map-value-inner-client", false, "client obtained from the inner client is stored unwrapped into a map handed to the caller")
				}
			case *ssa.Call:
				if x.Call.StaticCallee() == nil && !x.Call.IsInvoke() {
					for _, a := range x.Call.Args {
						if tainted[a] && isClientType(a.Type()) {
							n++
							r.ObSite("R43b", s, "callback-arg-inner-client", false, "client obtained from the inner client is passed unwrapped to the user's callback")
						}
					}
					n++
					r.ObSite("R43b", s, "callback-call", true, "callback invoked without an unwrapped inner client among its arguments")
				}
			}
		}
	}
	// positive obligations so the rule is never vacuous: every tainted client must be used only as
	// the field of a wrapper literal or as receiver of non-request methods
	for v := range tainted {
		if _, isMap := v.Type().Underlying().(*types.Map); isMap {
			continue
		}
		if !isClientType(v.Type()) {
			continue
		}
		refs := v.Referrers()
		if refs == nil {
			continue
		}
		for _, ref := range *refs {
			if st, ok := ref.(*ssa.Store); ok && st.Val == v {
				t, f, _, isf := FieldRef(st.Addr)
				ok2 := isf && (t == hookPkg+".extended" || t == hookPkg+".hookclient" || t == hookPkg+".dedicated")
				r.ObSite("R43b", SiteOf(st), "inner-client-stored:"+t+"."+f, ok2, "inner client may only be stored inside a hook wrapper")
			}
		}
	}
	_ = n
}

// mapFullyRewrapped: m is ranged over, and on every path through the loop body m[key] is
// overwritten with a freshly allocated wrapper.
func mapFullyRewrapped(fn *ssa.Function, m ssa.Value) bool {
	for _, b := range fn.Blocks {
		for _, in := range b.Instrs {
			rg, ok := in.(*ssa.Range)
			if !ok || rg.X != m {
				continue
			}
			for _, ref := range *rg.Referrers() {
				nx, ok := ref.(*ssa.Next)
				if !ok {
					continue
				}
				hdr := nx.Block()
				iff, ok := hdr.Instrs[len(hdr.Instrs)-1].(*ssa.If)
				if !ok {
					return false
				}
				_ = iff
				body := hdr.Succs[0]
				good := true
				hit := func(x ssa.Instruction) bool {
					mu, ok := x.(*ssa.MapUpdate)
					if !ok || mu.Map != m {
						return false
					}
					k, isx := mu.Key.(*ssa.Extract)
					if !isx || k.Tuple != ssa.Value(nx) || k.Index != 1 {
						return false
					}
					_, isAlloc := Strip(mu.Value).(*ssa.Alloc)
					return isAlloc
				}
				WalkFrom(Site{fn, body, -1, nil}, func(x Site) bool {
					if hit(x.Instr) {
						return false
					}
					if x.Block == hdr {
						good = false
						return false
					}
					if _, isret := x.Instr.(*ssa.Return); isret {
						good = false
						return false
					}
					return true
				})
				return good
			}
		}
	}
	return false
}

// freshNodesMapRule (R43d): hookclient.Nodes() wraps the node clients by rewriting, in place, the
// map it got from the underlying client. That is only sound if every core client's Nodes() hands
// out a map built for that call; a cached map would be wrapped again on every call (the hook runs
// n times) and would leak hooked clients to users of the unhooked client.
func freshNodesMapRule(r *Report) {
	n := 0
	for _, t := range []string{"singleClient", "sentinelClient", "clusterClient", "standalone"} {
		fn := r.P.Fn("rueidis.(*" + t + ").Nodes")
		if fn == nil || fn.Blocks == nil {
			continue
		}
		n++
		ok := true
		for _, b := range fn.Blocks {
			ret, isr := b.Instrs[len(b.Instrs)-1].(*ssa.Return)
			if !isr {
				continue
			}
			v := RetVals(ret)[0]
			fresh := func(x ssa.Value) bool { _, is := Strip(x).(*ssa.MakeMap); return is }
			if ph, isphi := v.(*ssa.Phi); isphi {
				for _, e := range ph.Edges {
					if !fresh(e) {
						ok = false
					}
				}
			} else if !fresh(v) {
				ok = false
			}
		}
		r.Ob("R43d", fn, "nodes-map-built-per-call", fn.Pos(), ok, "Nodes() returns a map made in this call (the hook wrapper rewrites the map it receives)")
	}
	r.Anchor("R43d", "core Nodes() implementations (>= 3)", n >= 3)
}
