package rv

import (
	"fmt"
	"go/token"
	"sort"
	"strings"

	"golang.org/x/tools/go/ssa"
)

func init() {
	Registry["C44"] = RuleDef{Module: ".", Run: runC44,
		Technique:   "table comparison: URL parameter -> ClientOption field, by data and control dependence on go/ssa of ParseURL",
		Explanation: "Decides for ParseURL (R44a) that every store into a ClientOption field that depends (by data flow of the stored value or by its dominating conditions) on a query parameter depends on exactly one parameter and writes the field the property's table assigns to it (db->SelectDB, dial_timeout->Dialer.Timeout, write_timeout->ConnWriteTimeout, addr->InitAddress, protocol->AlwaysRESP2, client_cache->DisableCache, client_name->ClientName, max_retries->DisableRetry, master_set->Sentinel.MasterSet, skip_verify->TLSConfig.InsecureSkipVerify; userinfo->Username/Password; path->SelectDB or socket path); (R44b) every table row has such a store; (R44c) every failing parse (Atoi, ParseDuration, ParseBool, url.Parse) is checked and its failure arm returns a non-nil error. (R44d) host and port taken apart with SplitHostPort are joined with JoinHostPort; (R44e) option values come from the URL's decoded accessors, never from a percent-encoded rendering, and the credentials from Username()/Password(); (R44f) the path database number is honoured for every network scheme.",
		NotDecided:  "the parsing functions' own semantics and the host/port defaulting arithmetic."}
}

// urlParamTable is taken from the statement of C44.
var urlParamTable = map[string][]string{
	"db":            {"SelectDB"},
	"dial_timeout":  {"Dialer.Timeout"},
	"write_timeout": {"ConnWriteTimeout"},
	"addr":          {"InitAddress"},
	"protocol":      {"AlwaysRESP2"},
	"client_cache":  {"DisableCache"},
	"client_name":   {"ClientName"},
	"max_retries":   {"DisableRetry"},
	"master_set":    {"Sentinel.MasterSet"},
	"skip_verify":   {"TLSConfig.InsecureSkipVerify"},
	"@userinfo":     {"Username", "Password"},
	"@path":         {"SelectDB", "InitAddress"},
}

// urlSource classifies a value as a read of a URL part: a query parameter name, "@userinfo",
// "@path", or "".
func urlSource(v ssa.Value) string {
	switch x := v.(type) {
	case *ssa.Call:
		n := CalleeName(x)
		if n == "net/url.(Values).Get" || n == "net/url.(Values).Has" {
			if k, ok := ConstString(x.Call.Args[1]); ok {
				return k
			}
			return "?dynamic-key"
		}
		if strings.HasPrefix(n, "net/url.(*Userinfo).") {
			return "@userinfo"
		}
	case *ssa.Lookup:
		if strings.HasSuffix(shortType(x.X.Type()), "net/url.Values") {
			if k, ok := ConstString(x.Index); ok {
				return k
			}
			return "?dynamic-key"
		}
	case *ssa.UnOp:
		if t, f, _, ok := FieldRef(x.X); ok && x.Op == token.MUL && t == "net/url.URL" {
			switch f {
			case "Path":
				return "@path"
			case "User":
				return "@userinfo"
			}
		}
	}
	return ""
}

func urlSources(v ssa.Value) map[string]bool {
	out := map[string]bool{}
	DependsOn(v, func(x ssa.Value) bool {
		if s := urlSource(x); s != "" {
			out[s] = true
		}
		return false
	})
	return out
}

// optFieldPath returns the field path of an address rooted at the ClientOption result of fn
// ("Dialer.Timeout", "TLSConfig.InsecureSkipVerify"), or "".
func optFieldPath(addr ssa.Value) string {
	var parts []string
	v := addr
	for {
		switch x := v.(type) {
		case *ssa.FieldAddr:
			_, f, base, _ := FieldRef(x)
			parts = append([]string{f}, parts...)
			v = base
			continue
		case *ssa.UnOp: // pointer-typed field (TLSConfig)
			if x.Op == token.MUL {
				v = x.X
				continue
			}
		case *ssa.Alloc:
			if strings.HasSuffix(shortType(x.Type()), "rueidis.ClientOption") {
				return strings.Join(parts, ".")
			}
		}
		return ""
	}
}

func runC44(r *Report) {
	fn := r.FnAnchor("R44", "rueidis.ParseURL")
	if fn == nil {
		return
	}
	// R44d: what net.SplitHostPort took apart is put together again with net.JoinHostPort (plain
	// concatenation loses the brackets of an IPv6 literal)
	nJoin := 0
	scope := WithAnons(fn)
	// plus the unexported helpers of the package that ParseURL (or its closures) calls directly
	for _, f := range WithAnons(fn) {
		for _, cs := range Sites(f, func(in ssa.Instruction) bool { _, ok := in.(*ssa.Call); return ok }) {
			h := cs.Call().Common().StaticCallee()
			if h != nil && h.Blocks != nil && h.Pkg == fn.Pkg && !isExportedName(h.Name()) && h.Parent() == nil && len(CallSites(h, "net.SplitHostPort", "net.JoinHostPort")) > 0 {
				dup := false
				for _, g := range scope {
					dup = dup || g == h
				}
				if !dup {
					scope = append(scope, h)
				}
			}
		}
	}
	for _, f := range scope {
		var parts []ssa.Value
		for _, s := range CallSites(f, "net.SplitHostPort") {
			c := s.Instr.(*ssa.Call)
			for i := 0; i < 2; i++ {
				if e := extractOf(c, i); e != nil {
					parts = append(parts, e)
				}
			}
		}
		nJoin += len(CallSites(f, "net.JoinHostPort"))
		if len(parts) == 0 {
			continue
		}
		for _, b := range f.Blocks {
			for _, in := range b.Instrs {
				bo, ok := in.(*ssa.BinOp)
				if !ok || bo.Op != token.ADD || shortType(bo.Type()) != "string" {
					continue
				}
				fromSplit := false
				for _, op := range []ssa.Value{bo.X, bo.Y} {
					if DependsOn(op, func(v ssa.Value) bool {
						for _, p := range parts {
							if v == p {
								return true
							}
						}
						return false
					}) {
						fromSplit = true
					}
				}
				if fromSplit {
					r.ObSite("R44d", SiteOf(in), "host-port-joined-by-concatenation", false, "a host taken apart with net.SplitHostPort is re-assembled by plain concatenation: an IPv6 literal loses its brackets and the resulting address cannot be dialled")
				}
			}
		}
	}
	r.Ob("R44d", fn, "addresses-built-with-JoinHostPort", fn.Pos(), nJoin >= 1, "InitAddress entries are assembled with net.JoinHostPort")
	// R44e: option values are taken from the URL's decoded accessors (Username(), Password(), Path,
	// Query()); the percent-encoded renderings (Userinfo.String, URL.String, EscapedPath, RequestURI,
	// RawQuery, RawPath, Opaque) are never a source of a value - a credential with an escaped
	// character would be stored still encoded
	encoded := func(v ssa.Value) string {
		switch x := v.(type) {
		case *ssa.Call:
			switch CalleeName(x) {
			case "net/url.(*Userinfo).String", "net/url.(*URL).String", "net/url.(*URL).EscapedPath", "net/url.(*URL).RequestURI", "net/url.(*URL).EscapedFragment", "net/url.(*URL).Redacted":
				return CalleeName(x)
			}
		case *ssa.UnOp:
			if t, f, _, ok := FieldRef(x.X); ok && x.Op == token.MUL && t == "net/url.URL" {
				switch f {
				case "RawQuery", "RawPath", "Opaque", "RawFragment":
					return "URL." + f
				}
			}
		}
		return ""
	}
	for _, f := range WithAnons(fn) {
		for _, s := range Sites(f, func(in ssa.Instruction) bool { _, ok := in.(*ssa.Store); return ok }) {
			st := s.Instr.(*ssa.Store)
			path := optFieldPath(st.Addr)
			if path == "" {
				continue
			}
			src := ""
			DependsOn(st.Val, func(x ssa.Value) bool {
				if e := encoded(x); e != "" {
					src = e
				}
				return false
			})
			if src != "" {
				r.ObSite("R44e", s, "value-from-encoded-rendering:"+path, false, "option "+path+" is derived from the percent-encoded rendering "+src+"; escaped characters stay encoded")
			}
			// credentials: the decoded accessors
			if path == "Username" || path == "Password" {
				want := "net/url.(*Userinfo)." + path
				ok := DependsOn(st.Val, func(x ssa.Value) bool {
					c, isc := x.(*ssa.Call)
					return isc && CalleeName(c) == want
				})
				if DependsOn(st.Val, func(x ssa.Value) bool { return urlSource(x) == "@userinfo" }) {
					r.ObSite("R44e", s, "credential-from-decoded-accessor:"+path, ok, path+" is taken from Userinfo."+path+"() (decoded)")
				}
			}
		}
	}
	// R44f: the database number in the path applies to every network scheme: its store is not
	// confined to a subset of the accepted schemes
	for _, s := range Sites(fn, func(in ssa.Instruction) bool { _, ok := in.(*ssa.Store); return ok }) {
		st := s.Instr.(*ssa.Store)
		if optFieldPath(st.Addr) != "SelectDB" || !urlSources(st.Val)["@path"] {
			continue
		}
		schemes := map[string]bool{}
		anyUnrestricted := false
		for _, cj := range GuardDNF(s.Block, 6) {
			found := false
			for _, g := range cj {
				x, op, y, ok := CmpGuard(g)
				if !ok || op != token.EQL {
					continue
				}
				sv, iss := ConstString(y)
				if iss && strings.HasSuffix(Desc(x), ".Scheme") {
					schemes[sv] = true
					found = true
				}
			}
			if !found {
				anyUnrestricted = true
			}
		}
		ok := anyUnrestricted || (schemes["redis"] && schemes["rediss"] && schemes["valkey"] && schemes["valkeys"])
		var ss []string
		for k := range schemes {
			ss = append(ss, k)
		}
		sort.Strings(ss)
		r.ObSite("R44f", s, "path-database-for-every-network-scheme", ok, fmt.Sprintf("the database number of the URL path is honoured for all of redis, rediss, valkey and valkeys; the store is confined to %v", ss))
	}
	covered := map[string]map[string]bool{}
	for _, s := range Sites(fn, func(in ssa.Instruction) bool { _, ok := in.(*ssa.Store); return ok }) {
		st := s.Instr.(*ssa.Store)
		path := optFieldPath(st.Addr)
		if path == "" {
			continue
		}
		srcs := urlSources(st.Val)
		for _, g := range DomGuards(s.Block) {
			if DependsOn(g.Cond, func(x ssa.Value) bool {
				u, isu := x.(*ssa.UnOp)
				return isu && u.Op == token.MUL && optFieldPath(u.X) != ""
			}) {
				continue // a test of the option's own state (e.g. InitAddress == nil, TLSConfig != nil) is not a parameter source
			}
			if IsLoopHeader(g.Block) {
				inLoop := false
				for _, pr := range g.Block.Preds {
					if g.Block.Dominates(pr) && reachesBlock(s.Block, pr) {
						inLoop = true
					}
				}
				if !inLoop {
					continue
				}
			}
			for k := range urlSources(g.Cond) {
				srcs[k] = true
			}
		}
		params := []string{}
		for k := range srcs {
			params = append(params, k)
		}
		sort.Strings(params)
		if len(params) == 0 {
			continue // scheme / host derived, outside the table
		}
		// every URL part that influences this store must own the field written
		ok := true
		why := ""
		for _, k := range params {
			owns := false
			for _, f := range urlParamTable[k] {
				if f == path {
					owns = true
				}
			}
			if _, known := urlParamTable[k]; !known {
				ok = false
				why += "URL part " + k + " is not in the documented table; "
			} else if !owns {
				ok = false
				why += "URL part " + k + " must set " + strings.Join(urlParamTable[k], "/") + " but influences the store to " + path + " (one parameter overwriting another's option); "
			}
		}
		if ok {
			for _, k := range params {
				if covered[k] == nil {
					covered[k] = map[string]bool{}
				}
				covered[k][path] = true
			}
			why = strings.Join(params, ",") + " -> " + path
		}
		r.ObSite("R44a", s, "store:"+path+"<-"+strings.Join(params, ","), ok, why)
	}
	var keys []string
	for k := range urlParamTable {
		keys = append(keys, k)
	}
	sort.Strings(keys)
	for _, k := range keys {
		for _, f := range urlParamTable[k] {
			if k == "@path" && f == "InitAddress" {
				// unix socket path
			}
			r.Ob("R44b", fn, "row:"+k+"->"+f, fn.Pos(), covered[k][f], "documented mapping "+k+" -> "+f+" must be implemented by a store that depends on that URL part only")
		}
	}
	// R44c: failing parses
	parsers := []string{"strconv.Atoi", "time.ParseDuration", "strconv.ParseBool", "net/url.Parse"}
	for _, s := range CallSites(fn, parsers...) {
		call := s.Instr.(*ssa.Call)
		var errv ssa.Value
		for _, ref := range *call.Referrers() {
			if ex, ok := ref.(*ssa.Extract); ok && ex.Index == 1 {
				errv = ex
			}
		}
		ok := false
		why := "error result of " + CalleeName(call) + " is not checked"
		if errv != nil {
			for _, u := range Uses(errv) {
				b, isb := u.(*ssa.BinOp)
				if !isb || (b.Op != token.NEQ && b.Op != token.EQL) || !(IsNilConst(b.X) || IsNilConst(b.Y)) {
					continue
				}
				for _, u2 := range *b.Referrers() {
					iff, isif := u2.(*ssa.If)
					if !isif {
						continue
					}
					fail := iff.Block().Succs[0]
					if b.Op == token.EQL {
						fail = iff.Block().Succs[1]
					}
					// the failure arm must return a non-nil error on all its paths
					good := true
					WalkFrom(Site{fn, fail, -1, nil}, func(x Site) bool {
						if ret, isret := x.Instr.(*ssa.Return); isret {
							if len(ret.Results) != 2 || IsNilConst(ret.Results[1]) {
								good = false
							} else if ph, isphi := ret.Results[1].(*ssa.Phi); isphi {
								_ = ph
								good = false // merged with success paths: cannot tell
							}
							return false
						}
						return true
					})
					ok = good
					if !good {
						why = "failure arm of " + CalleeName(call) + " reaches a return whose error is nil or undetermined"
					} else {
						why = "failure arm returns a non-nil error"
					}
				}
			}
		}
		r.ObSite("R44c", s, "parse:"+CalleeName(call), ok, why)
	}
	r.Min("R44a", 10)
	r.Min("R44c", 5)
}

// reachesBlock reports whether block to is reachable from block from.
func reachesBlock(from, to *ssa.BasicBlock) bool {
	seen := map[*ssa.BasicBlock]bool{}
	var dfs func(b *ssa.BasicBlock) bool
	dfs = func(b *ssa.BasicBlock) bool {
		if b == to {
			return true
		}
		if seen[b] {
			return false
		}
		seen[b] = true
		for _, s := range b.Succs {
			if dfs(s) {
				return true
			}
		}
		return false
	}
	return dfs(from)
}
