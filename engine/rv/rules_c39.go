package rv

import (
	"fmt"
	"go/token"
	"strings"

	"golang.org/x/tools/go/ssa"
)

func init() {
	Registry["C39"] = RuleDef{Module: "rueidisaside", Run: runC39,
		Technique:   "guard rule on every value returned by Get (placeholder test on the returned value's own path), must-pass rules for lock release on the failure arms, def-use rules tying lock value, setkey and delkey arguments to one client id, ordering rule (waiter registered before the read), lock-set rule for the waiter table",
		Explanation: "Decides client-side necessary conditions: (R39a) every value Get returns with a possibly-nil error is the empty string or a value that was tested not to start with the lock placeholder prefix on that very path; (R39b) once the lock was taken, every path on which the loader or the conditional store failed executes the delete-if-mine script for the same key and client id, and the conditional store and the lock value use the id returned by keepalive; (R39c) when the lock holder's liveness key is gone the stale lock is released with the delete-if-equal script for (key, observed placeholder) and the read is retried; (R39d) in every retry round the waiter channel for the key is registered before the cached read is issued, the waiter for the holder's id before its liveness read, and Get then waits on both channels and the context; (R39e) waiter channels are closed only under the client's mutex and removed from the table in the same critical section (closed once); keepalive publishes a new client id only while holding the mutex and only when none is set; (R39g) keepalive returns the client's published id (read from c.id or stored into it on that path), the only id whose liveness key is refreshed; (R39f) no script of the package is built retryable with a non-idempotent command or read-only with a write.",
		NotDecided:  "that the loader runs once across clients (server-side SET NX and invalidation delivery), liveness-key expiry timing, the scripts' text."}
}

func runC39(r *Report) {
	publishedIdRule(r)
	A := "rueidis/rueidisaside."
	r.Anchor("R39f", "cache-aside scripts", scriptConstructorRule(r, "R39f", "rueidis/rueidisaside", "") >= 3)
	fn := r.FnAnchor("R39a", A+"(*Client).Get")
	if fn == nil {
		return
	}
	isScript := func(in ssa.Instruction, name string) (*ssa.Call, bool) {
		c, ok := in.(*ssa.Call)
		if !ok || CalleeName(c) != "rueidis.(*Lua).Exec" {
			return nil, false
		}
		return c, strings.HasSuffix(DescDeep(c.Call.Args[0]), "rueidisaside."+name)
	}
	// R39a
	nRet := 0
	for _, b := range fn.Blocks {
		ret, ok := b.Instrs[len(b.Instrs)-1].(*ssa.Return)
		if !ok || b.Comment == "recover" {
			continue
		}
		rv := RetVals(ret)
		if len(rv) != 2 {
			continue
		}
		nRet++
		good := true
		why := ""
		type leaf struct {
			v        ssa.Value
			from, to *ssa.BasicBlock
		}
		var ls []leaf
		wholeTested := false
		for _, g := range DomGuards(b) {
			if c, isc := g.Cond.(*ssa.Call); isc && !g.Pol && CalleeName(c) == "strings.HasPrefix" && c.Call.Args[0] == rv[0] {
				if sv, iss := ConstString(c.Call.Args[1]); iss && strings.HasPrefix(sv, "rueidisid") {
					wholeTested = true
				}
			}
		}
		if wholeTested {
			ls = nil
		} else if ph, isphi := rv[0].(*ssa.Phi); isphi {
			for i, e := range ph.Edges {
				ls = append(ls, leaf{e, ph.Block().Preds[i], ph.Block()})
			}
		} else {
			ls = append(ls, leaf{rv[0], b, nil})
		}
		for _, l := range ls {
			if sv, iss := ConstString(l.v); iss && sv == "" {
				continue
			}
			gs := append([]Guard{}, DomGuards(b)...)
			gs = append(gs, DomGuards(l.from)...)
			if l.to != nil {
				gs = append(gs, edgeGuards(l.from, l.to)...)
			}
			okLeaf := false
			for _, g := range gs {
				// error return: err != nil for the error being returned
				if x, op, y, cok := CmpGuard(g); cok && op == token.NEQ && IsNilConst(y) && shortType(x.Type()) == "error" {
					if x == rv[1] || isPhiEdgeOf(rv[1], x) {
						okLeaf = true
					}
				}
				if c, isc := g.Cond.(*ssa.Call); isc && !g.Pol && CalleeName(c) == "strings.HasPrefix" && c.Call.Args[0] == l.v {
					if sv, iss := ConstString(c.Call.Args[1]); iss && strings.HasPrefix(sv, "rueidisid") {
						okLeaf = true
					}
				}
			}
			if !okLeaf {
				good, why = false, "a value that was not tested against the placeholder prefix can be returned: "+Desc(l.v)
			}
		}
		r.ObSite("R39a", SiteOf(ret), "returned-value-is-not-the-placeholder", good, "Get returns \"\" , an error, or a value tested not to carry the lock placeholder prefix; "+why)
	}
	r.Anchor("R39a", "Get: returns (>= 3)", nRet >= 3)

	// ids
	var idV ssa.Value
	for _, s := range CallSites(fn, A+"(*Client).keepalive") {
		idV = extractOf(s.Instr.(*ssa.Call), 0)
	}
	r.Anchor("R39b", "Get: client id from keepalive", idV != nil)
	// the loader call
	var loader *Site
	for _, s := range Sites(fn, func(in ssa.Instruction) bool {
		c, ok := in.(*ssa.Call)
		return ok && Desc(c.Call.Value) == "p4"
	}) {
		s := s
		loader = &s
	}
	if r.Anchor("R39b", "Get: loader call", loader != nil) {
		okRelease := MustPassOrEdge(*loader, func(in ssa.Instruction) bool {
			c, is := isScript(in, "delkey")
			if !is {
				return false
			}
			keys := variadicElemsOrdered(c.Call.Args[3])
			args := variadicElemsOrdered(c.Call.Args[4])
			return len(keys) == 1 && Desc(keys[0]) == "p3" && len(args) == 1 && args[0] == idV
		}, func(from *ssa.BasicBlock, succ int) bool {
			iff, ok := from.Instrs[len(from.Instrs)-1].(*ssa.If)
			if !ok {
				return false
			}
			x, op, y, cok := CmpGuard(normGuard(Guard{iff.Cond, succ == 0, from}))
			if !cok || op != token.EQL || !IsNilConst(y) || shortType(x.Type()) != "error" {
				return false
			}
			// the error of the loader / conditional store
			return DependsOn(x, func(v ssa.Value) bool {
				if c, isc := v.(*ssa.Call); isc {
					if c == loader.Instr.(*ssa.Call) {
						return true
					}
					if _, is := isScript(c, "setkey"); is {
						return true
					}
				}
				return false
			}) && from.Dominates(from) && loader.Block.Dominates(from)
		})
		r.ObSite("R39b", *loader, "lock-released-when-population-fails", okRelease, "after the lock was taken, every path on which the loader or the conditional store failed runs delkey(key, id)")
		// loader runs only under the lock: guarded by IsRedisNil(err) of the lock request
		locked := false
		isLockReq := func(v ssa.Value) bool {
			if cc, is := v.(*ssa.Call); is {
				if _, isl := isScript(cc, "acquireLock"); isl {
					return true
				}
				n := CalleeName(cc)
				return strings.HasSuffix(n, ").Nx") || strings.HasSuffix(n, ".Nx")
			}
			return false
		}
		for _, g := range DomGuards(loader.Block) {
			if c, isc := g.Cond.(*ssa.Call); isc && g.Pol && CalleeName(c) == "rueidis.IsRedisNil" {
				if DependsOn(c.Call.Args[0], func(v ssa.Value) bool {
					if isLockReq(v) {
						return true
					}
					// the lock request made by an unexported helper of the client: every error it returns comes from one
					if cc, is := v.(*ssa.Call); is {
						h := cc.Call.StaticCallee()
						if h == nil || h.Blocks == nil || h.Pkg != fn.Pkg || isExportedName(h.Name()) {
							return false
						}
						n, all := 0, true
						for _, hb := range h.Blocks {
							if ret, isr := hb.Instrs[len(hb.Instrs)-1].(*ssa.Return); isr && len(ret.Results) == 2 {
								n++
								if !DependsOn(ret.Results[1], isLockReq) {
									all = false
								}
							}
						}
						return n > 0 && all
					}
					return false
				}) {
					locked = true
				}
			}
		}
		r.ObSite("R39b", *loader, "loader-runs-only-with-the-lock", locked, "the loader is called only when the NX lock request reported that the key was free")
	}
	// setkey / lock value use the id
	nSet := 0
	for _, s := range Sites(fn, func(in ssa.Instruction) bool { _, is := isScript(in, "setkey"); return is }) {
		nSet++
		c := s.Instr.(*ssa.Call)
		keys := variadicElemsOrdered(c.Call.Args[3])
		args := variadicElemsOrdered(c.Call.Args[4])
		ok := len(keys) == 1 && Desc(keys[0]) == "p3" && len(args) == 3 && args[0] == idV && loader != nil && args[1] == extractOf(loader.Instr.(*ssa.Call), 0)
		r.ObSite("R39b", s, "conditional-store-with-own-id-and-loaded-value", ok, "the value produced by the loader is stored only if the key still holds this client's id")
	}
	r.Anchor("R39b", "Get: setkey call", nSet == 1)
	nLock := 0
	isLockSite := func(in ssa.Instruction) bool {
		if _, is := isScript(in, "acquireLock"); is {
			return true
		}
		c, ok := in.(*ssa.Call)
		return ok && strings.HasSuffix(CalleeName(c), "SetKey).Value")
	}
	// Get itself, and unexported helpers it hands the id to
	type lockScope struct {
		f  *ssa.Function
		id ssa.Value
	}
	scopes := []lockScope{{fn, idV}}
	for _, cs := range Sites(fn, func(in ssa.Instruction) bool { _, ok := in.(*ssa.Call); return ok }) {
		c := cs.Instr.(*ssa.Call)
		h := c.Call.StaticCallee()
		if h == nil || h.Blocks == nil || h.Pkg != fn.Pkg || isExportedName(h.Name()) || len(Sites(h, isLockSite)) == 0 {
			continue
		}
		for k, a := range c.Call.Args {
			if a == idV && k < len(h.Params) {
				scopes = append(scopes, lockScope{h, h.Params[k]})
			}
		}
	}
	for _, sc := range scopes {
		for _, s := range Sites(sc.f, isLockSite) {
			nLock++
			c := s.Instr.(*ssa.Call)
			ok := false
			if _, is := isScript(c, "acquireLock"); is {
				args := variadicElemsOrdered(c.Call.Args[4])
				ok = len(args) == 2 && args[0] == sc.id
			} else {
				ok = c.Call.Args[1] == sc.id
			}
			r.ObSite("R39b", s, "lock-value-is-own-id", ok, "the lock placed on the key is this client's id")
		}
	}
	r.Anchor("R39b", "Get: lock requests (2 variants)", nLock == 2)

	// R39c stale lock
	nStale := 0
	for _, s := range Sites(fn, func(in ssa.Instruction) bool { _, is := isScript(in, "delkey"); return is }) {
		c := s.Instr.(*ssa.Call)
		args := variadicElemsOrdered(c.Call.Args[4])
		if len(args) == 1 && args[0] == idV {
			continue
		}
		nStale++
		keys := variadicElemsOrdered(c.Call.Args[3])
		// guarded by IsRedisNil(liveness read of the same value) and by HasPrefix(value)
		var holder ssa.Value
		if len(args) == 1 {
			holder = args[0]
		}
		gNil, gPref := false, false
		for _, g := range DomGuards(s.Block) {
			cc, isc := g.Cond.(*ssa.Call)
			if !isc || !g.Pol {
				continue
			}
			switch CalleeName(cc) {
			case "rueidis.IsRedisNil":
				gNil = DependsOn(cc.Call.Args[0], func(v ssa.Value) bool {
					k, is := v.(*ssa.Call)
					return is && strings.HasSuffix(CalleeName(k), "Get).Key") && k.Call.Args[1] == holder
				})
			case "strings.HasPrefix":
				gPref = cc.Call.Args[0] == holder
			}
		}
		retry := false
		for _, sc := range s.Block.Succs {
			if sc.Comment == "retry" || IsLoopHeader(sc) {
				retry = true
			}
		}
		r.ObSite("R39c", s, "stale-lock-released-and-retried", holder != nil && len(keys) == 1 && Desc(keys[0]) == "p3" && gNil && gPref && retry,
			fmt.Sprintf("a lock whose holder's liveness key is gone (%v) is deleted if it still equals the observed placeholder (%v) and the read is retried (%v)", gNil, gPref, retry))
	}
	r.Anchor("R39c", "Get: stale-lock release", nStale == 1)

	// R39d ordering
	regKey, regHolder := false, false
	var chans []ssa.Value
	for _, s := range CallSites(fn, A+"(*Client).register") {
		arg := s.Call().Common().Args[1]
		chans = append(chans, s.Instr.(*ssa.Call))
		// the next DoCache in the same block reads that key
		for _, in := range s.Block.Instrs[s.Idx+1:] {
			c, ok := in.(*ssa.Call)
			if !ok || !strings.HasSuffix(CalleeName(c), ".DoCache") {
				continue
			}
			reads := builderKeyIs(c.Call.Args[1], arg)
			if reads && Desc(arg) == "p3" {
				regKey = true
			} else if reads {
				regHolder = true
			}
			break
		}
	}
	r.Ob("R39d", fn, "waiter-registered-before-read", fn.Pos(), regKey && regHolder, fmt.Sprintf("the waiter for the key (%v) and for the holder id (%v) is registered before the corresponding cached read, so an invalidation between read and wait is not missed", regKey, regHolder))
	selOK := false
	for _, b := range fn.Blocks {
		for _, in := range b.Instrs {
			if sel, ok := in.(*ssa.Select); ok && sel.Blocking {
				got := 0
				done := false
				for _, st := range sel.States {
					for _, ch := range chans {
						if st.Chan == ch {
							got++
						}
					}
					if c, isc := st.Chan.(*ssa.Call); isc && CalleeName(c) == "iface:context.Context.Done" {
						done = true
					}
				}
				selOK = got == 2 && done
			}
		}
	}
	r.Ob("R39d", fn, "waits-on-both-waiters-and-context", fn.Pos(), selOK, "while another client loads, Get waits for the key's invalidation, the holder's disappearance or the context")

	// R39e waiter table
	if oi := r.FnAnchor("R39e", A+"(*Client).onInvalidation"); oi != nil {
		ls := ComputeLockSets(oi, nil)
		n := 0
		for _, s := range CallSites(oi, "builtin.close") {
			n++
			held := ls.At(s)
			locked := false
			for l := range held {
				if strings.HasSuffix(l, ".mu") {
					locked = true
				}
			}
			// removed: delete in the same block, or the table is replaced before unlocking
			removed := false
			for _, in := range s.Block.Instrs[s.Idx+1:] {
				if c, ok := CallTo(in, "builtin.delete"); ok && strings.HasSuffix(DescDeep(c.Common().Args[0]), ".waits") {
					removed = true
				}
			}
			if !removed {
				ok, _ := MustPass(s, func(in ssa.Instruction) bool {
					st, isst := in.(*ssa.Store)
					if !isst {
						return false
					}
					_, f, _, isf := FieldRef(st.Addr)
					_, fresh := st.Val.(*ssa.MakeMap)
					return isf && f == "waits" && fresh && func() bool {
						for l := range ls.At(SiteOf(in)) {
							if strings.HasSuffix(l, ".mu") {
								return true
							}
						}
						return false
					}()
				})
				removed = ok
			}
			r.ObSite("R39e", s, "waiter-closed-under-mutex-and-removed", locked && removed, "a waiter channel is closed under the mutex and leaves the table in the same critical section")
		}
		r.Anchor("R39e", "onInvalidation: closes (2)", n == 2)
	}
	if reg := r.FnAnchor("R39e", A+"(*Client).register"); reg != nil {
		ls := ComputeLockSets(reg, nil)
		ok := true
		n := 0
		for _, b := range reg.Blocks {
			for _, in := range b.Instrs {
				switch in.(type) {
				case *ssa.MapUpdate, *ssa.Lookup:
					n++
					locked := false
					for l := range ls.At(SiteOf(in)) {
						if strings.HasSuffix(l, ".mu") {
							locked = true
						}
					}
					ok = ok && locked
				}
			}
		}
		r.Ob("R39e", reg, "table-accessed-under-mutex", reg.Pos(), ok && n >= 2, "register reads and extends the waiter table under the mutex")
	}
	if ka := r.FnAnchor("R39e", A+"(*Client).keepalive"); ka != nil {
		ls := ComputeLockSets(ka, nil)
		n := 0
		for _, s := range Sites(ka, func(in ssa.Instruction) bool {
			st, ok := in.(*ssa.Store)
			if !ok {
				return false
			}
			_, f, _, isf := FieldRef(st.Addr)
			return isf && f == "id"
		}) {
			n++
			locked := false
			for l := range ls.At(s) {
				if strings.HasSuffix(l, ".mu") {
					locked = true
				}
			}
			empty := false
			for _, g := range DomGuards(s.Block) {
				if x, op, y, ok := CmpGuard(g); ok && op == token.EQL && strings.HasSuffix(Desc(x), ".id") {
					if sv, iss := ConstString(y); iss && sv == "" {
						empty = true
					}
				}
			}
			r.ObSite("R39e", s, "id-published-once-under-mutex", locked && empty, "a client id is published under the mutex and only when none is set (one liveness key, one refresher)")
		}
		r.Anchor("R39e", "keepalive: id store", n == 1)
	}
}

func isPhiEdgeOf(phi ssa.Value, v ssa.Value) bool {
	ph, ok := phi.(*ssa.Phi)
	if !ok {
		return false
	}
	for _, e := range ph.Edges {
		if e == v {
			return true
		}
	}
	return false
}

// builderKeyIs follows the receiver chain of a command builder expression (X.Key(k).Cache() ...)
// and reports whether its Key argument is k.
func builderKeyIs(cmd ssa.Value, k ssa.Value) bool {
	v := cmd
	for i := 0; i < 8; i++ {
		c, ok := v.(*ssa.Call)
		if !ok || len(c.Call.Args) == 0 {
			return false
		}
		if strings.HasSuffix(CalleeName(c), ").Key") && len(c.Call.Args) >= 2 {
			return c.Call.Args[1] == k
		}
		v = c.Call.Args[0]
	}
	return false
}

// publishedIdRule (R39g): the id keepalive returns on success is the client's published id - the
// one the refresher keeps alive: either the value read from c.id, or the fresh id on a path that
// stored it into c.id. A caller that locks a key with an unpublished id holds a lock whose
// liveness key is never refreshed; other clients take the live holder for dead.
func publishedIdRule(r *Report) {
	fn := r.FnAnchor("R39g", "rueidis/rueidisaside.(*Client).keepalive")
	if fn == nil {
		return
	}
	ok := true
	why := ""
	nSucc := 0
	complete := EnumBlockPaths(fn, 2000, func(path []*ssa.BasicBlock) {
		ret := path[len(path)-1].Instrs[len(path[len(path)-1].Instrs)-1].(*ssa.Return)
		rv := RetVals(ret)
		if len(rv) != 2 {
			return
		}
		id := ResolveOnPath(rv[0], path)
		// paths on which the registration request failed return its error: not a success
		failed := false
		for i := 0; i+1 < len(path); i++ {
			if iff, isif := path[i].Instrs[len(path[i].Instrs)-1].(*ssa.If); isif {
				x, op, y, cok := CmpGuard(normGuard(Guard{iff.Cond, path[i+1] == path[i].Succs[0], path[i]}))
				if cok && op == token.NEQ && IsNilConst(y) && shortType(x.Type()) == "error" {
					failed = true
				}
			}
		}
		if failed {
			return
		}
		nSucc++
		if u, isu := id.(*ssa.UnOp); isu && u.Op == token.MUL {
			if _, f, _, isf := FieldRef(u.X); isf && f == "id" {
				return // the published id
			}
		}
		for _, b := range path {
			for _, in := range b.Instrs {
				if st, isst := in.(*ssa.Store); isst {
					if _, f, _, isf := FieldRef(st.Addr); isf && f == "id" && st.Val == id {
						return // published on this path
					}
				}
			}
		}
		ok, why = false, "a successful path returns "+Desc(id)+", which is neither read from c.id nor stored into it on that path"
	})
	r.Ob("R39g", fn, "returned-id-is-the-published-id", fn.Pos(), ok && complete && nSucc >= 2, "keepalive returns the id that is (or has just been) published in c.id, the only one the refresher keeps alive; "+why)
}
