package rv

import (
	"fmt"
	"os"
	"os/exec"
	"path/filepath"
	"sort"
	"strings"
	"sync"
)

// Sensitivity (thorough tier) measures what the rules of one property can see: every change of
// the property's corpus - hand-written mutants (selftest/mutants/<Cnn>-*.diff), the confirmed
// changes seeded by independent sub-agents (seeded/<Cnn>-*/patch.diff), and the reverse of every
// fix commit recorded for the property (selftest/fixes/<commit>.diff) - is applied to a scratch
// copy of the *current* /repo tree and the quick check is run on it in a child process; benign
// variants (selftest/benign) must stay silent. The outcome is recorded in the evidence; it never
// changes the verdict on the unchanged tree (a corpus entry that no longer applies is reported as
// such).
var Sensitivity = func(r *Report, prop, repo, verif string) { runSensitivity(r, prop, repo, verif) }

type sensCase struct {
	Name    string `json:"name"`
	Kind    string `json:"kind"` // mutant | seeded | reverted-fix | benign
	Outcome string `json:"outcome"`
	patch   string
	reverse bool
}

func runSensitivity(r *Report, prop, repo, verif string) {
	var cases []*sensCase
	add := func(kind, pattern string, reverse bool) {
		ms, _ := filepath.Glob(pattern)
		sort.Strings(ms)
		for _, m := range ms {
			name := filepath.Base(m)
			if name == "patch.diff" {
				name = filepath.Base(filepath.Dir(m))
			}
			cases = append(cases, &sensCase{Name: name, Kind: kind, patch: m, reverse: reverse})
		}
	}
	add("mutant", filepath.Join(verif, "selftest", "mutants", prop+"-*.diff"), false)
	add("seeded", filepath.Join(verif, "seeded", prop+"-*", "patch.diff"), false)
	add("benign", filepath.Join(verif, "selftest", "benign", prop+"-*.diff"), false)
	if known, err := loadKnown(filepath.Join(verif, "known_findings.json")); err == nil {
		seen := map[string]bool{}
		for _, k := range known {
			if k.Property == prop && k.Status == "fixed" && k.Commit != "" && !seen[k.Commit] {
				seen[k.Commit] = true
				add("reverted-fix", filepath.Join(verif, "selftest", "fixes", k.Commit+".diff"), true)
			}
		}
	}
	if len(cases) == 0 {
		r.Extra["sensitivity"] = "no corpus for this property"
		return
	}
	self, err := os.Executable()
	if err != nil {
		r.Extra["sensitivity"] = "cannot locate the checker binary: " + err.Error()
		return
	}
	sem := make(chan struct{}, 4)
	var wg sync.WaitGroup
	for _, c := range cases {
		wg.Add(1)
		go func(c *sensCase) {
			defer wg.Done()
			sem <- struct{}{}
			defer func() { <-sem }()
			c.Outcome = runCase(self, prop, repo, verif, c)
		}(c)
	}
	wg.Wait()
	sum := map[string]int{}
	var missed, noapply, noisy []string
	for _, c := range cases {
		sum[c.Kind+":"+c.Outcome]++
		switch {
		case c.Outcome == "does-not-apply" || strings.HasPrefix(c.Outcome, "error"):
			noapply = append(noapply, c.Name)
		case c.Kind == "benign" && c.Outcome == "flagged":
			noisy = append(noisy, c.Name)
		case c.Kind != "benign" && c.Outcome == "silent":
			missed = append(missed, c.Name)
		}
	}
	r.Extra["sensitivity"] = map[string]any{
		"what":                   "each corpus change applied to a scratch copy of the current tree, quick check run on it in a child process",
		"cases":                  cases,
		"summary":                sum,
		"changes_not_flagged":    missed,
		"benign_flagged":         noisy,
		"not_applicable_anymore": noapply,
	}
	fmt.Printf("%s sensitivity: %d corpus changes, %d not flagged %v, %d benign flagged %v, %d not applicable %v\n", prop, len(cases), len(missed), missed, len(noisy), noisy, len(noapply), noapply)
}

func runCase(self, prop, repo, verif string, c *sensCase) string {
	scratch, err := os.MkdirTemp("", "rvsens.")
	if err != nil {
		return "error: " + err.Error()
	}
	defer os.RemoveAll(scratch)
	sr, sv := filepath.Join(scratch, "repo"), filepath.Join(scratch, "verif")
	if out, err := exec.Command("rsync", "-a", "--exclude", ".git", repo+"/", sr+"/").CombinedOutput(); err != nil {
		return "error: copy: " + string(out)
	}
	os.MkdirAll(sv, 0o755)
	if b, err := os.ReadFile(filepath.Join(verif, "known_findings.json")); err == nil {
		os.WriteFile(filepath.Join(sv, "known_findings.json"), b, 0o644)
	}
	args := []string{"-p1", "-s", "-f", "-i", c.patch}
	if c.reverse {
		args = append(args, "-R")
	}
	pc := exec.Command("patch", args...)
	pc.Dir = sr
	if err := pc.Run(); err != nil {
		return "does-not-apply"
	}
	cmd := exec.Command(self, "-prop", prop, "-tier", "quick", "-repo", sr, "-verif", sv)
	cmd.Env = append(os.Environ(), "GOWORK=off")
	out, err := cmd.CombinedOutput()
	if err == nil {
		return "silent"
	}
	if _, isExit := err.(*exec.ExitError); !isExit {
		return "error: " + err.Error()
	}
	if strings.Contains(string(out), "reason=checker-error") && !strings.Contains(string(out), "violated R") {
		// a change that does not type-check is flagged by construction, but say so
		return "flagged(load-error)"
	}
	return "flagged"
}
