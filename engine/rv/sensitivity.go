package rv

// Sensitivity is filled in by sensitivity_run.go (thorough tier): apply each mutant of the
// property's corpus to a scratch copy of the current tree and record how many are flagged.
var Sensitivity = func(r *Report, prop, repo, verif string) {}
