package rv

import (
	"go/token"
	"strings"

	"golang.org/x/tools/go/ssa"
)

func init() {
	Registry["C01"] = RuleDef{Module: ".", Run: runC01,
		Technique:   "who-may-call rule on the queue interface, must-pass / escape rules for enqueued slots and the in-flight counter, typestate rule on pooled buffers, guard rule on the synchronous fast path, value-provenance rules in the reader and writer loops",
		Explanation: "Decides structural necessary conditions of the FIFO hand-off on one connection: (R01a) the queue's consumer methods are called only by the single writer and the single reader/teardown goroutine, which are started only from _background, itself started under a compare-and-swap latch; (R01b) every slot a caller enqueues is received from on every path, or handed to a goroutine that receives from it when the caller abandons the call; (R01c) every increment of the in-flight counter is matched by a decrement on every path (directly, in the abandon goroutine, or by the stream that takes ownership); (R01e) a pooled buffer is never used after it was returned to its pool, and a result buffer handed to the queue is never returned to the caller that abandoned the call (the reader may still write late replies into it); (R01g) the synchronous fast path is taken only by a lone caller on a connection in synchronous state; (R01i) no method is called on the pipe's cache store where it can be nil (caching disabled): each call is behind a nil test or, in the reader, behind the opt-in marker that only the cache paths enqueue; (R01j) the flow-buffer queue hands a slot (and its result channel) back to the free list only after the reader finished with it; (R01h) the background reader is started only where no other caller can be inside a synchronous read of the socket (construction, the lone registered caller, after the caller's own exchange, after the caller closed the connection on its own I/O error); (R01f) the reader delivers exactly the reply it just read, stored at the fulfilment index which then advances by one; (R01d) the writer writes exactly the commands it dequeued, in slice order, before dequeuing again.",
		NotDecided:  "slot-to-reply matching across interleavings, push-frame skipping and cancellation races (the data-dependent heart of the property); see C02 for the queue's own state machine."}
}

func runC01(r *Report) {
	p := r.P
	const P = "rueidis.(*pipe)."
	// R01a
	whoMayCall(r, "R01a", "iface:rueidis.queue.NextWriteCmd", P+"_backgroundWrite", P+"_background")
	whoMayCall(r, "R01a", "iface:rueidis.queue.WaitForWrite", P+"_backgroundWrite")
	whoMayCall(r, "R01a", "iface:rueidis.queue.NextResultCh", P+"_backgroundRead", P+"_background")
	whoMayCall(r, "R01a", "iface:rueidis.queue.FinishResult", P+"_backgroundRead", P+"_background")
	whoMayCall(r, "R01a", P[:len(P)-1]+"._backgroundRead", P+"_background")
	whoMayCall(r, "R01a", P[:len(P)-1]+"._backgroundWrite", P+"_background")
	whoMayCall(r, "R01a", "iface:rueidis.queue.PutOne", P+"Do", P+"Close", P+"_background")
	whoMayCall(r, "R01a", "iface:rueidis.queue.PutMulti", P+"DoMulti")
	for _, s := range p.Callers(P[:len(P)-1] + "._background") {
		_, isGo := s.Instr.(*ssa.Go)
		latch := Guarded(s.Block, func(g Guard) bool {
			c, ok := g.Cond.(*ssa.Call)
			return ok && g.Pol && CalleeName(c) == "sync/atomic.CompareAndSwapInt32" && strings.HasSuffix(DescDeep(c.Call.Args[0]), ".bgState")
		})
		r.ObSite("R01a", s, "background-started-once", isGo && latch, "the background worker is started as a goroutine only by the caller that wins the bgState compare-and-swap (a second reader/writer pair would steal and reorder replies)")
	}
	// in _background the writer's queue is consumed by the teardown only after the writer exited
	if bg := p.Fn(P + "_background"); bg != nil {
		for _, s := range CallSites(bg, "iface:rueidis.queue.NextWriteCmd") {
			ok := false
			for _, g := range DomGuards(s.Block) {
				if ex, isx := g.Cond.(*ssa.BinOp); isx {
					_ = ex
				}
			}
			// select index == case of <-p.close
			ok = Guarded(s.Block, func(g Guard) bool {
				x, op, _, cok := CmpGuard(g)
				if !cok || op != token.EQL {
					return false
				}
				ex, isx := x.(*ssa.Extract)
				if !isx {
					return false
				}
				sel, iss := ex.Tuple.(*ssa.Select)
				if !iss {
					return false
				}
				for _, st := range sel.States {
					if strings.HasSuffix(DescDeep(st.Chan), ".close") {
						return true
					}
				}
				return false
			})
			r.ObSite("R01a", s, "teardown-dequeues-only-after-writer-exit", ok, "the teardown consumes the write side of the queue only on the `<-p.close` arm (the writer goroutine has exited)")
		}
	}

	// R01b drain
	nPut := 0
	for _, fn := range p.ModuleFuncs() {
		if !strings.HasPrefix(FuncName(TopFunc(fn)), P) {
			continue
		}
		for _, s := range CallSites(fn, "iface:rueidis.queue.PutOne", "iface:rueidis.queue.PutMulti") {
			nPut++
			call := s.Instr.(*ssa.Call)
			var ch, errv ssa.Value
			for _, ref := range *call.Referrers() {
				if ex, ok := ref.(*ssa.Extract); ok {
					if ex.Index == 0 {
						ch = ex
					} else {
						errv = ex
					}
				}
			}
			if ch == nil {
				r.ObSite("R01b", s, "slot-channel-unused", false, "the channel of an enqueued slot is discarded: the reader blocks on it forever and every later reply behind it is stuck")
				continue
			}
			usesCh := func(v ssa.Value) bool { return v == ch || Strip(v) == ch }
			var hitFor func(usesCh func(ssa.Value) bool, depth int) func(ssa.Instruction) bool
			hit := func(in ssa.Instruction) bool { return hitFor(usesCh, 1)(in) }
			hitFor = func(usesCh func(ssa.Value) bool, depth int) func(ssa.Instruction) bool {
				return func(in ssa.Instruction) bool {
					switch x := in.(type) {
					case *ssa.Call:
						// the abandon path may be an unexported pipe method that is handed the channel
						h := x.Call.StaticCallee()
						if depth == 0 || h == nil || h.Blocks == nil || isExportedName(h.Name()) || !strings.HasPrefix(FuncName(h), P) {
							return false
						}
						for k, a := range x.Call.Args {
							if usesCh(a) && k < len(h.Params) {
								prm := h.Params[k]
								return MustPassOrEdge(Site{h, h.Blocks[0], -1, nil}, hitFor(func(v ssa.Value) bool { return v == ssa.Value(prm) || Strip(v) == ssa.Value(prm) }, depth-1), nil)
							}
						}
						return false
					case *ssa.UnOp:
						return x.Op == token.ARROW && usesCh(x.X)
					case *ssa.Go:
						for _, a := range x.Call.Args {
							if usesCh(a) {
								return goroutineReceives(x, a)
							}
						}
						if mc, ok := x.Call.Value.(*ssa.MakeClosure); ok {
							for _, b := range mc.Bindings {
								if usesCh(b) {
									return true
								}
							}
						}
					}
					return false
				}
			}
			edge := func(from *ssa.BasicBlock, succ int) bool {
				iff, ok := from.Instrs[len(from.Instrs)-1].(*ssa.If)
				if !ok {
					return false
				}
				g := normGuard(Guard{iff.Cond, succ == 0, from})
				x, op, y, cok := CmpGuard(g)
				if !cok {
					return false
				}
				// the enqueue failed: nothing to drain
				if op == token.NEQ && IsNilConst(y) && errv != nil && x == errv {
					return true
				}
				// the select took the case receiving from ch
				if ex, isx := x.(*ssa.Extract); isx && op == token.EQL {
					if sel, iss := ex.Tuple.(*ssa.Select); iss && ex.Index == 0 {
						if k, isc := ConstInt(y); isc && int(k) < len(sel.States) && usesCh(sel.States[k].Chan) {
							return true
						}
					}
				}
				return false
			}
			ok := MustPassOrEdge(s, hit, edge)
			r.ObSite("R01b", s, "enqueued-slot-drained", ok, "on every path after a successful enqueue the caller receives from the slot's channel, or hands it to a goroutine that does (abandon path); otherwise the reader blocks on the unbuffered channel and every later reply is stuck behind it")
		}
	}
	r.Anchor("R01b", "enqueue sites", nPut >= 4)

	// R01c counter pairing
	isDecr := func(in ssa.Instruction) bool {
		_, ok := CallTo(in, P+"decrWaits", P+"decrWaitsAndIncrRecvs")
		return ok
	}
	nInc := 0
	for _, fn := range p.ModuleFuncs() {
		if !strings.HasPrefix(FuncName(TopFunc(fn)), P) {
			continue
		}
		for _, s := range CallSites(fn, P+"incrWaits") {
			nInc++
			hit := func(in ssa.Instruction) bool {
				if isDecr(in) {
					return true
				}
				if g, ok := in.(*ssa.Go); ok {
					var cl *ssa.Function
					if mc, ok := g.Call.Value.(*ssa.MakeClosure); ok {
						cl, _ = mc.Fn.(*ssa.Function)
					} else if f, ok := g.Call.Value.(*ssa.Function); ok {
						cl = f
					}
					if cl != nil && len(Sites(cl, isDecr)) > 0 {
						return true
					}
				}
				if ret, ok := in.(*ssa.Return); ok && len(ret.Results) == 1 && strings.Contains(shortType(ret.Results[0].Type()), "RedisResultStream") {
					// the stream takes ownership (WriteTo decrements when the last reply was read)
					if u, isu := ret.Results[0].(*ssa.UnOp); isu {
						if _, isal := u.X.(*ssa.Alloc); isal {
							return true
						}
					}
				}
				return false
			}
			ok, bad := MustPass(s, DeepHit(fn, hit, nil)) // the tail of a request may be split off into an unexported pipe method
			why := "the in-flight counter incremented here is decremented on every path"
			if !ok {
				why = "a path from this increment reaches the return at " + p.Pos(InstrPos(bad)) + " without a decrement: the teardown loop (`for loadWaits() != 0`) and everything waiting for the closed state spin forever"
			}
			r.ObSite("R01c", s, "in-flight-counter-paired", ok, why)
		}
	}
	r.Anchor("R01c", "in-flight counter increments", nInc >= 6)
	if fn := p.Fn("rueidis.(*RedisResultStream).WriteTo"); fn != nil {
		ok := len(CallSites(fn, P+"decrWaits")) == 1
		r.Ob("R01c", fn, "stream-releases-counter", fn.Pos(), ok, "the stream that took ownership decrements the in-flight counter when its last reply was consumed")
	}

	// R01e (i) no use after pool Put
	nPool := 0
	for _, fn := range p.ModuleFuncs() {
		if !strings.HasPrefix(FuncName(fn), "rueidis.") {
			continue
		}
		for _, s := range Sites(fn, func(in ssa.Instruction) bool {
			c, ok := in.(*ssa.Call)
			if !ok {
				return false
			}
			n := CalleeName(c)
			return strings.HasPrefix(n, "rueidis/internal/util.(*Pool") && strings.HasSuffix(n, ").Put")
		}) {
			nPool++
			v := s.Call().Common().Args[1]
			def, _ := v.(ssa.Instruction)
			found, at := Reaches(s, func(x Site) bool {
				if _, isret := x.Instr.(*ssa.Return); isret {
					// returning the (now pooled) buffer's slice is a use
				}
				for _, op := range x.Instr.Operands(nil) {
					if *op == v {
						if _, isPhi := x.Instr.(*ssa.Phi); isPhi {
							return false
						}
						return true
					}
				}
				return false
			}, func(x Site) bool { return def != nil && x.Instr == def })
			why := "no use of the buffer after it was returned to its pool"
			if found {
				why = "the buffer returned to its pool here is used again at " + p.Pos(InstrPos(at.Instr)) + ": another call may already own it"
			}
			r.ObSite("R01e", s, "no-use-after-pool-put", !found, why)
		}
	}
	r.Anchor("R01e", "pool Put sites", nPool >= 15)
	// R01e (ii) abandoned batch buffers stay with the drain goroutine
	if fn := r.FnAnchor("R01e", P+"DoMulti"); fn != nil {
		puts := CallSites(fn, "iface:rueidis.queue.PutMulti")
		if r.Anchor("R01e", "PutMulti in pipe.DoMulti", len(puts) == 1) {
			// the buffer whose .s was handed to the queue
			var buf ssa.Value
			for _, a := range puts[0].Call().Common().Args {
				if strings.Contains(shortType(a.Type()), "RedisResult") {
					if u, ok := a.(*ssa.UnOp); ok {
						if _, f, base, isf := FieldRef(u.X); isf && f == "s" {
							buf = base
						}
					}
				}
			}
			// the abandon event: the goroutine that takes over the buffer is started here, or by an
			// unexported pipe method that is handed the buffer and returns another one
			isAbandon := func(in ssa.Instruction) bool {
				if _, ok := in.(*ssa.Go); ok {
					return true
				}
				c, ok := in.(*ssa.Call)
				if !ok {
					return false
				}
				h := c.Call.StaticCallee()
				if h == nil || h.Blocks == nil || isExportedName(h.Name()) || !strings.HasPrefix(FuncName(h), P) {
					return false
				}
				var prm *ssa.Parameter
				for k, a := range c.Call.Args {
					same := buf != nil && (a == buf || Strip(a) == Strip(buf))
					if la, isl := a.(*ssa.UnOp); isl && la.Op == token.MUL && buf != nil {
						if lb, isb := buf.(*ssa.UnOp); isb && lb.Op == token.MUL && la.X == lb.X {
							same = true // another load of the same buffer variable
						}
					}
					if same && k < len(h.Params) {
						prm = h.Params[k]
					}
				}
				if prm == nil || len(Sites(h, func(x ssa.Instruction) bool { _, isgo := x.(*ssa.Go); return isgo })) == 0 {
					return false
				}
				for _, b := range h.Blocks {
					if ret, isr := b.Instrs[len(b.Instrs)-1].(*ssa.Return); isr {
						for _, rv := range ret.Results {
							if DependsOn(rv, func(v ssa.Value) bool { return v == ssa.Value(prm) }) {
								return false // hands the abandoned buffer back
							}
						}
					}
				}
				return true
			}
			gos := Sites(fn, isAbandon)
			okAll, n := buf != nil && len(gos) >= 1, 0
			EnumBlockPaths(fn, 50000, func(path []*ssa.BasicBlock) {
				abandon := false
				for _, b := range path {
					for _, g := range gos {
						if g.Block == b {
							abandon = true
						}
					}
				}
				if !abandon {
					return
				}
				n++
				last := path[len(path)-1]
				ret := last.Instrs[len(last.Instrs)-1].(*ssa.Return)
				v := ResolveOnPath(ret.Results[0], path)
				if buf != nil && (v == buf || Strip(v) == Strip(buf)) {
					okAll = false
				}
				// the buffer variable lives in a local (captured by a deferred closure): a fresh buffer
				// must be assigned to it after the abandon goroutine was started
				if bl, isld := buf.(*ssa.UnOp); isld && bl.Op == token.MUL {
					if al, isal := bl.X.(*ssa.Alloc); isal {
						// flatten the path into an instruction sequence
						var seq []ssa.Instruction
						for _, b := range path {
							seq = append(seq, b.Instrs...)
						}
						posOf := func(in ssa.Instruction) int {
							for i := len(seq) - 1; i >= 0; i-- {
								if seq[i] == in {
									return i
								}
							}
							return -1
						}
						cur := v
						for hop := 0; hop < 6; hop++ {
							ld, isl := cur.(*ssa.UnOp)
							if !isl || ld.Op != token.MUL {
								break
							}
							a2, isa := ld.X.(*ssa.Alloc)
							if !isa {
								break
							}
							at := posOf(ld)
							if a2 == al {
								goPos := -1
								for i, in := range seq {
									if isAbandon(in) {
										goPos = i
									}
								}
								fresh := false
								for i := goPos + 1; i < at && goPos >= 0; i++ {
									if st, isst := seq[i].(*ssa.Store); isst && st.Addr == ssa.Value(al) {
										if l2, isl2 := st.Val.(*ssa.UnOp); isl2 && l2.X == ssa.Value(al) {
											continue
										}
										fresh = true
									}
								}
								if !fresh {
									okAll = false
								}
								break
							}
							// another local (e.g. the spilled result): its last assignment before the load
							var w ssa.Value
							for i := 0; i < at; i++ {
								if st, isst := seq[i].(*ssa.Store); isst && st.Addr == ssa.Value(a2) {
									w = st.Val
								}
							}
							if w == nil {
								break
							}
							cur = w
						}
					}
				}
			})
			r.Ob("R01e", fn, "abandoned-batch-buffer-not-returned", fn.Pos(), okAll && n >= 1, "when a batch is abandoned its result buffer stays with the drain goroutine (the reader may still write late replies into it); the caller must get a fresh buffer")
			// and the drain goroutine recycles that buffer only after the completion receive
			// the go statements themselves: in DoMulti, or in the abandon helper it calls
			var goSites []Site
			for _, g := range gos {
				if _, isgo := g.Instr.(*ssa.Go); isgo {
					goSites = append(goSites, g)
				} else if c, isc := g.Instr.(*ssa.Call); isc && c.Call.StaticCallee() != nil {
					goSites = append(goSites, Sites(c.Call.StaticCallee(), func(x ssa.Instruction) bool { _, isgo := x.(*ssa.Go); return isgo })...)
				}
			}
			for _, g := range goSites {
				goi := g.Instr.(*ssa.Go)
				var cl *ssa.Function
				if mc, ok := goi.Call.Value.(*ssa.MakeClosure); ok {
					cl, _ = mc.Fn.(*ssa.Function)
				} else if f, ok := goi.Call.Value.(*ssa.Function); ok {
					cl = f
				}
				if cl == nil {
					continue
				}
				for _, ps := range Sites(cl, func(in ssa.Instruction) bool {
					c, ok := in.(*ssa.Call)
					return ok && strings.HasSuffix(CalleeName(c), ").Put") && strings.Contains(CalleeName(c), "util.(*Pool")
				}) {
					recvFirst := false
					for _, rs := range Sites(cl, func(in ssa.Instruction) bool { u, ok := in.(*ssa.UnOp); return ok && u.Op == token.ARROW }) {
						if Dominates(rs, ps) {
							recvFirst = true
						}
					}
					r.ObSite("R01e", ps, "recycle-after-completion", recvFirst, "the abandoned batch's buffer is returned to the pool only after the slot's completion was received")
				}
			}
		}
	}

	// the queue's slots are reset when they are handed to the reader (shared with C02): otherwise a
	// slot last used by a batch makes the writer re-send the old batch for the next single command
	slotResetRule(r, "R01e")

	// R01g synchronous fast path
	nSync := 0
	for _, fn := range p.Funcs(P) {
		for _, s := range CallSites(fn, P+"syncDo", P+"syncDoMulti") {
			nSync++
			state0 := Guarded(s.Block, func(g Guard) bool {
				x, op, y, ok := CmpGuard(g)
				k, isc := ConstInt(y)
				return ok && op == token.EQL && isc && k == 0 && strings.Contains(DescDeep(x), ".state")
			})
			lone := Guarded(s.Block, func(g Guard) bool {
				x, op, y, ok := CmpGuard(g)
				k, isc := ConstInt(y)
				c, iscall := Strip(x).(*ssa.Call)
				return ok && op == token.EQL && isc && k == 1 && iscall && CalleeName(c) == P+"incrWaits"
			})
			r.ObSite("R01g", s, "sync-only-for-lone-caller", state0 && lone, "the synchronous write+read is only taken in synchronous state by the only caller in flight (two callers doing blocking reads on one socket would receive each other's replies)")
			// afterwards, someone who arrived meanwhile triggers pipelining
			okBg := false
			if ok, _ := Reaches(s, func(x Site) bool { _, is := CallTo(x.Instr, P+"background"); return is }, nil); ok {
				okBg = true
			}
			r.ObSite("R01g", s, "latecomers-trigger-pipelining", okBg, "after the synchronous exchange the caller starts the background worker when others arrived meanwhile")
		}
	}
	r.Anchor("R01g", "synchronous fast-path sites", nSync >= 2)
	for _, n := range []string{"DoStream", "DoMultiStream"} {
		fn := p.Fn(P + n)
		if fn == nil {
			continue
		}
		for _, s := range CallSites(fn, "rueidis.writeCmd") {
			state0 := Guarded(s.Block, func(g Guard) bool {
				x, op, y, ok := CmpGuard(g)
				k, isc := ConstInt(y)
				return ok && op == token.EQL && isc && k == 0 && strings.Contains(DescDeep(x), ".state")
			})
			lone := Guarded(s.Block, func(g Guard) bool {
				x, op, y, ok := CmpGuard(g)
				k, isc := ConstInt(y)
				c, iscall := Strip(x).(*ssa.Call)
				return ok && (op == token.EQL) && isc && k == 1 && iscall && CalleeName(c) == P+"incrWaits"
			})
			r.ObSite("R01g", s, "stream-write-only-for-lone-caller", state0 && lone, "a streaming request writes to the socket only in synchronous state and as the only caller in flight")
		}
	}

	// R01h: the background reader is never started while another caller may still be reading its own
	// reply from the socket. Every start happens (a) while the pipe is under construction, (b) by
	// the only registered caller (incrWaits() == 1), (c) after the caller's own synchronous exchange
	// is over (its decrWaitsAndIncrRecvs dominates), or (d) right after the caller itself closed the
	// connection on an I/O error of its own synchronous exchange.
	nBg := 0
	for _, fn := range p.Funcs(P) {
		for _, s := range CallSites(fn, P+"background") {
			nBg++
			why := ""
			switch {
			case FuncName(fn) == "rueidis._newPipe":
				why = "construction"
			}
			if why == "" {
				for _, g := range DomGuards(s.Block) {
					x, op, y, ok := CmpGuard(g)
					k, isc := ConstInt(y)
					if c, iscall := Strip(x).(*ssa.Call); ok && op == token.EQL && isc && k == 1 && iscall && CalleeName(c) == P+"incrWaits" {
						why = "lone caller"
					}
				}
			}
			if why == "" {
				for _, d := range CallSites(fn, P+"decrWaitsAndIncrRecvs") {
					if Dominates(d, s) {
						why = "own exchange finished"
					}
				}
			}
			if why == "" {
				// preceded in the same block by the close of the connection
				for _, in := range s.Block.Instrs[:s.Idx] {
					if c, ok := in.(ssa.CallInstruction); ok && strings.HasSuffix(CalleeName(c), "net.Conn.Close") {
						why = "after closing the connection on the caller's own I/O error"
					}
				}
			}
			r.ObSite("R01h", s, "background-started-only-when-no-sync-reader", why != "", "the background reader is started only when no other caller can be in a synchronous read: construction, lone caller (incrWaits()==1), after the caller's own exchange, or after the caller closed the connection; here: "+why)
		}
	}
	if f := p.Fn("rueidis._newPipe"); f != nil {
		for _, s := range CallSites(f, P+"background") {
			nBg++
			r.ObSite("R01h", s, "background-started-only-when-no-sync-reader", true, "construction: the pipe is not shared yet")
		}
	}
	r.Anchor("R01h", "background() call sites (>= 10)", nBg >= 10)

	// R01i: the pipe's cache store is nil when client-side caching is disabled. Every method call on
	// it is justified by a dominating `p.cache != nil`, or - in the reader - by the batch being led by
	// the opt-in marker, which only the cache paths (all behind their own nil test) ever enqueue. A
	// nil call in the reader panics the reader goroutine and with it the process.
	nilTested := func(b *ssa.BasicBlock) bool {
		for _, g := range DomGuards(b) {
			if x, op, y, ok := CmpGuard(g); ok && op == token.NEQ && IsNilConst(y) && strings.HasSuffix(DescDeep(x), ".cache") {
				return true
			}
		}
		return false
	}
	// an unexported helper all of whose call sites are behind the nil test inherits it
	viaCallers := func(fn *ssa.Function) bool {
		if isExportedName(fn.Name()) || fn.Parent() != nil {
			return false
		}
		cs := p.Callers(FuncName(fn))
		if len(cs) == 0 {
			return false
		}
		for _, c := range cs {
			optIn := false
			for _, g := range DomGuards(c.Block) {
				if cc, isc := g.Cond.(*ssa.Call); isc && g.Pol && strings.HasSuffix(CalleeName(cc), ").IsOptIn") {
					optIn = true
				}
			}
			if !nilTested(c.Block) && !optIn {
				return false
			}
		}
		return true
	}
	nCache := 0
	for _, fn := range p.Funcs(P) {
		for _, s := range Sites(fn, func(in ssa.Instruction) bool {
			c, ok := in.(*ssa.Call)
			return ok && c.Call.IsInvoke() && strings.HasPrefix(CalleeName(c), "iface:rueidis.CacheStore.") && strings.HasSuffix(DescDeep(c.Call.Value), ".cache")
		}) {
			nCache++
			why := ""
			for _, g := range DomGuards(s.Block) {
				if x, op, y, ok := CmpGuard(g); ok && op == token.NEQ && IsNilConst(y) && strings.HasSuffix(DescDeep(x), ".cache") {
					why = "nil test"
				}
				if c, isc := g.Cond.(*ssa.Call); isc && g.Pol && strings.HasSuffix(CalleeName(c), ").IsOptIn") {
					why = "batch led by the opt-in marker"
				}
			}
			if why == "" && viaCallers(fn) {
				why = "every caller of this helper is behind the nil test or in a batch led by the opt-in marker"
			}
			r.ObSite("R01i", s, "cache-store-not-nil", why != "", "a method is called on the pipe's cache store only where the store is known to exist; here: "+why)
		}
	}
	r.Anchor("R01i", "cache store method calls (>= 10)", nCache >= 10)
	whoMayCall(r, "R01i", P+"optInCmd", P+"DoCache", P+"doCacheMGet", P+"DoMultiCache")
	for _, s := range p.Callers(P + "optInCmd") {
		ok := nilTested(s.Block) || viaCallers(s.Fn)
		r.ObSite("R01i", s, "opt-in-marker-only-with-a-cache", ok, "the opt-in marker is enqueued only behind the cache paths' own nil test")
	}

	// R01j: the alternative queue (flow buffer) frees a slot - and with it the slot's result channel -
	// only after the reader delivered the result (token cycle f->w->r->f; shared with C02/R02e)
	flowRulesAs(r, "R01j")

	// R01f reader delivers what it read
	if rd := r.FnAnchor("R01f", P+"_backgroundRead"); rd != nil {
		n := 0
		for _, s := range Sites(rd, func(in ssa.Instruction) bool { _, ok := in.(*ssa.Send); return ok }) {
			snd := s.Instr.(*ssa.Send)
			nr, ok := snd.X.(*ssa.Call)
			if !ok || CalleeName(nr) != "rueidis.NewResult" {
				continue
			}
			n++
			fromRead := DependsOn(nr.Call.Args[0], func(v ssa.Value) bool {
				c, ok := v.(*ssa.Call)
				return ok && CalleeName(c) == "rueidis.readNextMessage"
			})
			// the same result is stored at resps[ff] and ff advances by exactly one
			var idx ssa.Value
			for _, st := range Sites(rd, func(in ssa.Instruction) bool {
				x, ok := in.(*ssa.Store)
				return ok && x.Val == ssa.Value(nr)
			}) {
				if ia, isia := st.Instr.(*ssa.Store).Addr.(*ssa.IndexAddr); isia {
					idx = ia.Index
				}
			}
			adv := false
			if ld, isld := idx.(*ssa.UnOp); isld && ld.Op == token.MUL {
				// the index lives in a captured local: advance = store of (load + 1) into it
				for _, ref := range *ld.X.Referrers() {
					if st, isst := ref.(*ssa.Store); isst && st.Addr == ld.X {
						if bo, isb := st.Val.(*ssa.BinOp); isb && bo.Op == token.ADD {
							if k, isc := ConstInt(bo.Y); isc && k == 1 {
								if l2, isl := bo.X.(*ssa.UnOp); isl && l2.X == ld.X {
									adv = true
								}
							}
						}
					}
				}
			}
			if idx != nil {
				for _, b := range rd.Blocks {
					for _, in := range b.Instrs {
						if bo, isb := in.(*ssa.BinOp); isb && bo.Op == token.ADD && bo.X == idx {
							if k, isc := ConstInt(bo.Y); isc && k == 1 {
								adv = true
							}
						}
					}
				}
			}
			r.ObSite("R01f", s, "deliver-the-reply-just-read", fromRead && idx != nil && adv, "the result sent to the caller is built from the message returned by readNextMessage in this iteration, stored at the fulfilment index, which then advances by one")
		}
		r.Anchor("R01f", "delivery in the reader loop", n >= 1)
	}
	// R01d writer
	if wr := r.FnAnchor("R01d", P+"_backgroundWrite"); wr != nil {
		n := 0
		for _, s := range CallSites(wr, "rueidis.writeCmd") {
			arg := s.Call().Common().Args[1]
			if strings.Contains(DescDeep(arg), "PingCmd") {
				g := Guarded(s.Block, func(g Guard) bool {
					c, ok := g.Cond.(*ssa.Call)
					return ok && g.Pol && strings.HasSuffix(CalleeName(c), ").IsUnsub")
				})
				r.ObSite("R01d", s, "extra-ping-only-after-unsubscribe", g, "the writer adds a PING only behind an unsubscribe command")
				continue
			}
			n++
			fromQueue := DependsOn(arg, func(v ssa.Value) bool {
				c, ok := v.(*ssa.Call)
				return ok && (CalleeName(c) == "iface:rueidis.queue.NextWriteCmd" || CalleeName(c) == "iface:rueidis.queue.WaitForWrite")
			})
			inOrder := DependsOn(arg, func(v ssa.Value) bool {
				ia, ok := v.(*ssa.IndexAddr)
				if !ok {
					return false
				}
				bo, isb := ia.Index.(*ssa.BinOp)
				if !isb || bo.Op != token.ADD {
					return false
				}
				k, isc := ConstInt(bo.Y)
				_, isphi := bo.X.(*ssa.Phi)
				return isc && k == 1 && isphi
			})
			r.ObSite("R01d", s, "write-dequeued-commands-in-order", fromQueue && inOrder, "the writer writes the commands it dequeued, element by element in slice order")
		}
		r.Anchor("R01d", "command writes in the writer loop", n == 1)
	}
	whoMayCall(r, "R01d", "rueidis.writeCmd", P+"_backgroundWrite", P+"DoStream", P+"DoMultiStream", P+"syncDoMulti", "rueidis.flushCmd")
	whoMayCall(r, "R01d", "rueidis.flushCmd", P+"syncDo", P+"syncDoMulti")
}

// goroutineReceives: the goroutine started by g receives from its parameter bound to arg.
func goroutineReceives(g *ssa.Go, arg ssa.Value) bool {
	var cl *ssa.Function
	if mc, ok := g.Call.Value.(*ssa.MakeClosure); ok {
		cl, _ = mc.Fn.(*ssa.Function)
	} else if f, ok := g.Call.Value.(*ssa.Function); ok {
		cl = f
	}
	if cl == nil {
		return false
	}
	idx := -1
	for i, a := range g.Call.Args {
		if a == arg {
			idx = i
		}
	}
	if idx < 0 || idx >= len(cl.Params) {
		return false
	}
	prm := cl.Params[idx]
	for _, b := range cl.Blocks {
		for _, in := range b.Instrs {
			if u, ok := in.(*ssa.UnOp); ok && u.Op == token.ARROW && u.X == ssa.Value(prm) {
				return true
			}
		}
	}
	return false
}

// slotResetRule: the ring frees a slot (mark=0) only together with clearing one/multi/resps.
func slotResetRule(r *Report, rule string) {
	n := 0
	for _, fn := range ringScope(r.P) {
		for _, a := range FieldAccessesIn(fn, nodeT, "mark") {
			st, ok := a.Instr.(*ssa.Store)
			if !ok {
				continue
			}
			if k, isc := ConstInt(st.Val); !isc || k != 0 {
				continue
			}
			n++
			cleared := 0
			for _, in := range a.Block.Instrs {
				if s2, ok := in.(*ssa.Store); ok {
					for _, f := range []string{"one", "multi", "resps"} {
						if IsFieldAddr(s2.Addr, nodeT, f) {
							cleared++
						}
					}
				}
			}
			r.ObSite(rule, a.Site, "freed-slot-is-cleared", cleared == 3, "freeing a queue slot clears one/multi/resps: PutOne only writes `one` and PutMulti only `multi`/`resps`, so a stale field would be written to the wire and filled with another call's replies")
		}
	}
	r.Anchor(rule, "slot release in the ring", n >= 1)
}
