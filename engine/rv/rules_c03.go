package rv

import (
	"fmt"
	"go/constant"
	"go/token"
	"go/types"
	"sort"
	"strings"

	"golang.org/x/tools/go/ssa"
)

func init() {
	Registry["C03"] = RuleDef{Module: ".", Run: runC03,
		Technique:   "path-wise justification of every re-send edge (dominating/edge guards on go/ssa), retry-predicate shape, provenance of the transparent-resend marker",
		Explanation: "Decides (R03a) that in every client type every CFG path from one send of a command to another send of the same command (goto retry / recover loops, and the cluster work-list appends that feed the next round) carries a justification: the connection-lifetime marker errConnExpired on that send's result, a MOVED/ASK/REDIRECT proof, or the conjunction client-retry-enabled AND command-flag retryable (waived for Cacheable / subscribe payloads) AND the module's retryable-error predicate AND the retry policy's consent; (R03b) that the retryable-error predicates can answer yes only for transport errors with a live context/client or for LOADING (cluster: TRYAGAIN/CLUSTERDOWN) replies; (R03c) that the errConnExpired marker is only attached to commands that were not handed to the writer. (R03h-state) the connection state is written only by its owners - background (0->1), the workers' failure exit (1->2 on a lost connection), the worker's end (4) and Close (0->2/1->2) - and Close, when it moved the pipe to stopping, queues a PING behind the requests in flight and waits for it before closing the socket, so that a lifetime expiry or Close does not fail (and make the clients re-send) requests that were already written.",
		NotDecided:  "whether the server executed a command whose connection dropped mid-flight (the assumption behind retrying read-only commands); R03c is violated today by two delivery sites and recorded as a known finding."}
	Registry["C28"] = RuleDef{Module: ".", Run: runC28,
		Technique:   "path-wise justification of every retry edge, ordering-domain evaluation of the back-off decision, guard rules on the cluster work-list",
		Explanation: "Decides (R03a as R28a) that every automatic re-send path requires the client retry flag (so DisableRetry removes all of them), a read-only/retryable command, a retryable error and the retry policy's consent (WaitOrSkipRetry true, or in the cluster batch paths a non-negative RetryDelay before the command is queued for the next round); (R03b) the retryable-error predicates answer yes only for transport errors with live context and open client, LOADING, and for clusters TRYAGAIN/CLUSTERDOWN, never for Nil or other error replies; (R28d) the decision table of retryer.WaitOrSkipRetry: negative delay => no retry, zero => retry at once, positive => retry iff no deadline or remaining time > delay. (R28e) a dedicated client re-validates itself before every retry attempt (a client released during the back-off sends nothing more).",
		NotDecided:  "timing of the back-off; custom RetryDelayFn behaviour."}
}

var sendMethods = map[string]bool{"Do": true, "DoMulti": true, "DoCache": true, "DoMultiCache": true, "Receive": true}

// sendKind classifies a call as a send of commands to a connection and returns the method name.
func sendKind(in ssa.Instruction) (string, bool) {
	c, ok := in.(*ssa.Call)
	if !ok {
		return "", false
	}
	n := CalleeName(c)
	for _, pre := range []string{"iface:rueidis.conn.", "iface:rueidis.wire.", "rueidis.(*singleClient).", "iface:rueidis.Client."} {
		if strings.HasPrefix(n, pre) && sendMethods[n[len(pre):]] {
			return n[len(pre):], true
		}
	}
	switch n {
	case "rueidis.(*clusterClient).askingMulti":
		return "askingMulti", true
	case "rueidis.(*clusterClient).askingMultiCache":
		return "askingMultiCache", true
	}
	return "", false
}

func isCmdType(t types.Type) bool {
	s := shortType(t)
	return strings.Contains(s, "cmds.Completed") || strings.Contains(s, "cmds.Cacheable") || strings.Contains(s, "rueidis.CacheableTTL") ||
		strings.Contains(s, "rueidis.Completed") || strings.Contains(s, "rueidis.Cacheable")
}

// cmdRoots: provenance of the command operands of a send (parameters and struct fields).
func cmdRoots(c ssa.CallInstruction) map[string]bool {
	out := map[string]bool{}
	for _, a := range c.Common().Args {
		if isCmdType(a.Type()) {
			for k := range cmdValueRoots(a) {
				if k == "global:AskingCmd" {
					continue
				}
				if strings.HasPrefix(k, "param:") || strings.HasPrefix(k, "field:") || strings.HasPrefix(k, "free:") {
					out[k] = true
				}
			}
		}
	}
	// field roots that are merely the path to a parameter-held struct (e.g. re.commands) stay; the
	// receiver's own fields (c.cmd builder) are not commands
	return out
}

// cmdValueRoots is Roots, except that a load of a struct field is a root of its own (the struct
// that holds it is not followed): re.commands and re.cAskings are different command lists.
func cmdValueRoots(v ssa.Value) map[string]bool {
	out := map[string]bool{}
	seen := map[ssa.Value]bool{}
	var rec func(v ssa.Value)
	allocStores := func(x *ssa.Alloc) {
		for _, r := range *x.Referrers() {
			switch s := r.(type) {
			case *ssa.Store:
				if s.Addr == x {
					rec(s.Val)
				}
			case *ssa.IndexAddr:
				for _, rr := range *s.Referrers() {
					if st, ok := rr.(*ssa.Store); ok && st.Addr == s {
						rec(st.Val)
					}
				}
			}
		}
	}
	rec = func(v ssa.Value) {
		if v == nil || seen[v] {
			return
		}
		seen[v] = true
		switch x := v.(type) {
		case *ssa.Parameter:
			for i, prm := range x.Parent().Params {
				if prm == x {
					out[fmt.Sprintf("param:%d", i)] = true
				}
			}
		case *ssa.FreeVar:
			out["free:"+x.Name()] = true
		case *ssa.Global:
			out["global:"+x.Name()] = true
		case *ssa.UnOp:
			if t, f, _, ok := FieldRef(x.X); ok && x.Op == token.MUL {
				out["field:"+t+"."+f] = true
				return
			}
			rec(x.X)
		case *ssa.Field:
			t, f, _, _ := FieldRef(x)
			out["field:"+t+"."+f] = true
		case *ssa.FieldAddr:
			t, f, _, _ := FieldRef(x)
			out["field:"+t+"."+f] = true
		case *ssa.Alloc:
			allocStores(x)
		case *ssa.Slice:
			rec(x.X)
		case *ssa.IndexAddr:
			rec(x.X)
		case *ssa.Index:
			rec(x.X)
		case *ssa.Lookup:
			rec(x.X)
		case *ssa.Phi:
			for _, e := range x.Edges {
				rec(e)
			}
		case *ssa.Convert:
			rec(x.X)
		case *ssa.ChangeType:
			rec(x.X)
		case *ssa.MakeInterface:
			rec(x.X)
		case *ssa.ChangeInterface:
			rec(x.X)
		case *ssa.TypeAssert:
			rec(x.X)
		case *ssa.Extract:
			rec(x.Tuple)
		case *ssa.Next:
			rec(x.Iter)
		case *ssa.Range:
			rec(x.X)
		case *ssa.Call:
			if CalleeName(x) == "builtin.append" {
				for _, a := range x.Call.Args {
					rec(a)
				}
			} else if args := CallArgs(x); len(args) > 0 && isCmdType(args[0].Type()) && isCmdType(x.Type()) {
				rec(args[0]) // cmd.Pin() and the like: same command
			} else {
				out["call:"+CalleeName(x)] = true
			}
		}
	}
	rec(v)
	return out
}

func rootsIntersect(a, b map[string]bool) bool {
	for k := range a {
		if b[k] {
			return true
		}
	}
	return false
}

func cacheOrSubscribe(kind string) bool {
	return kind == "DoCache" || kind == "DoMultiCache" || kind == "Receive" || kind == "askingMultiCache"
}

type justCtx struct {
	redirectMove, redirectAsk, redirectRetry int64
}

func redirectConsts(p *Prog) (justCtx, bool) {
	pk := p.Pkg("rueidis")
	var j justCtx
	ok := true
	get := func(n string) int64 {
		o := pk.Types.Scope().Lookup(n)
		c, isc := o.(*types.Const)
		if !isc {
			ok = false
			return -1
		}
		v, _ := constant.Int64Val(c.Val())
		return v
	}
	j.redirectMove, j.redirectAsk, j.redirectRetry = get("RedirectMove"), get("RedirectAsk"), get("RedirectRetry")
	return j, ok
}

// modeGuard recognises `mode == K` where mode is result #1 of shouldRefreshRetry.
func modeGuard(g Guard) (k int64, eq bool, ok bool) {
	x, op, y, cok := CmpGuard(g)
	if !cok || (op != token.EQL && op != token.NEQ) {
		return 0, false, false
	}
	kv, isc := ConstInt(y)
	if !isc {
		kv, isc = ConstInt(x)
		x = y
	}
	if !isc {
		return 0, false, false
	}
	ex, isx := Strip(x).(*ssa.Extract)
	if !isx || ex.Index != 1 {
		return 0, false, false
	}
	c, isCall := ex.Tuple.(*ssa.Call)
	if !isCall || CalleeName(c) != "rueidis.(*clusterClient).shouldRefreshRetry" {
		return 0, false, false
	}
	return kv, op == token.EQL, true
}

var errPredicates = []string{"rueidis.(*singleClient).isRetryable", "rueidis.isRetryable", "rueidis.(*sentinelClient).isRetryable"}

// justify classifies the conditions of one re-send path. src is the earlier send (may be nil for
// work-list appends), payloadWaived tells that the command flag conjunct is not required.
func justify(j justCtx, conds []Guard, src ssa.Value, target ssa.CallInstruction, payloadWaived bool, strict bool) (string, string) {
	gs := ExpandGuards(conds)
	has := func(pred func(Guard) bool) bool {
		for _, g := range gs {
			if pred(g) {
				return true
			}
		}
		return false
	}
	// J1: lifetime marker on this send's result
	if has(func(g Guard) bool {
		other, eq, ok := IsErrCmp(g, "rueidis.errConnExpired")
		if !ok || !eq {
			return false
		}
		return src == nil || DependsOn(other, func(v ssa.Value) bool { return v == src })
	}) {
		return "J1", ""
	}
	// J2: redirect proof
	if has(func(g Guard) bool {
		k, eq, ok := modeGuard(g)
		return ok && eq && (k == j.redirectMove || k == j.redirectAsk)
	}) {
		return "J2", ""
	}
	notNone := has(func(g Guard) bool { k, eq, ok := modeGuard(g); return ok && !eq && k == 0 })
	notRetry := has(func(g Guard) bool { k, eq, ok := modeGuard(g); return ok && !eq && k == j.redirectRetry })
	if notNone && notRetry {
		return "J2", ""
	}
	if has(func(g Guard) bool {
		_, idx, ok := GuardCall(g, "rueidis.(*standalone).handleRedirect")
		return ok && idx == 1 && g.Pol
	}) {
		return "J2r", ""
	}
	// J3
	retryFlag := has(func(g Guard) bool {
		if !g.Pol {
			return false
		}
		u, ok := Strip(g.Cond).(*ssa.UnOp)
		if !ok || u.Op != token.MUL {
			return false
		}
		_, f, _, isf := FieldRef(u.X)
		return isf && f == "retry"
	})
	cmdFlag := payloadWaived || has(func(g Guard) bool {
		if !g.Pol {
			return false
		}
		c, ok := g.Cond.(*ssa.Call)
		if !ok {
			return false
		}
		n := CalleeName(c)
		if !(n == "rueidis.allRetryable" || strings.HasSuffix(n, "cmds.(*Completed).IsRetryable") || strings.HasSuffix(n, "cmds.(Completed).IsRetryable")) {
			return false
		}
		// the flag must be established for everything that is re-sent, not for a part of it
		return target == nil || coversOperand(CallArgs(c)[0], target)
	})
	errOK := has(func(g Guard) bool {
		if _, _, ok := GuardCall(g, errPredicates...); ok && g.Pol {
			return true
		}
		k, eq, ok := modeGuard(g)
		if ok && eq && k == j.redirectRetry {
			return true
		}
		return false
	})
	if !errOK && notNone {
		// `mode != RedirectNone` alone (Receive paths): MOVED/ASK or retryable error; both justify
		errOK = true
	}
	policy := has(func(g Guard) bool {
		if c, ok := g.Cond.(*ssa.Call); ok && g.Pol && strings.HasSuffix(CalleeName(c), "retryHandler.WaitOrSkipRetry") {
			return true
		}
		// cluster batch: retryDelay >= 0 where retryDelay comes from RetryDelay(...)
		x, op, y, ok := CmpGuard(g)
		if ok && (op == token.GEQ || op == token.GTR) {
			if k, isc := ConstInt(y); isc && (k == 0 && op == token.GEQ || k == -1 && op == token.GTR) {
				// the policy must have been asked in this iteration (for this command): a delay carried
				// over from an earlier command of the batch is not a consent for this one
				carried := false
				seenv := map[ssa.Value]bool{}
				var flow func(v ssa.Value)
				flow = func(v ssa.Value) {
					if v == nil || seenv[v] {
						return
					}
					seenv[v] = true
					switch y := v.(type) {
					case *ssa.Phi:
						if IsLoopHeader(y.Block()) {
							for k, pr := range y.Block().Preds {
								if y.Block().Dominates(pr) {
									if kk, isc := ConstInt(y.Edges[k]); !(isc && kk < 0) {
										carried = true
									}
								}
							}
						}
						for _, e := range y.Edges {
							flow(e)
						}
					case *ssa.Convert:
						flow(y.X)
					case *ssa.ChangeType:
						flow(y.X)
					case *ssa.Extract:
						flow(y.Tuple)
					}
				}
				flow(x)
				return !carried && DependsOn(x, func(v ssa.Value) bool {
					c, isc := v.(*ssa.Call)
					return isc && strings.HasSuffix(CalleeName(c), "retryHandler.RetryDelay")
				})
			}
		}
		return false
	})
	var miss []string
	if !strict {
		// C03 only asks that a command which is neither read-only nor marked retryable is not re-sent
		if cmdFlag {
			if payloadWaived {
				return "J3w", ""
			}
			return "J3", ""
		}
		return "", "a command that is not known to be read-only/retryable is re-sent without a lifetime-expiry marker or a redirect proof; missing: command flag (IsRetryable/allRetryable)"
	}
	if !retryFlag {
		miss = append(miss, "client retry flag (c.retry)")
	}
	if !cmdFlag {
		miss = append(miss, "command flag (IsRetryable/allRetryable)")
	}
	if !errOK {
		miss = append(miss, "retryable-error predicate")
	}
	if !policy {
		miss = append(miss, "retry policy consent (WaitOrSkipRetry / RetryDelay >= 0)")
	}
	if len(miss) == 0 {
		if payloadWaived {
			return "J3w", ""
		}
		return "J3", ""
	}
	return "", "path is neither a lifetime-expiry resend, nor a redirect, nor a full retry; missing: " + strings.Join(miss, ", ")
}

// coversOperand: the value tested by the command-flag predicate denotes the whole command operand
// of the re-send (same provenance, not a sub-slice of it).
func coversOperand(tested ssa.Value, send ssa.CallInstruction) bool {
	if hasSubSlice(tested) {
		return false
	}
	// the flag of one element says nothing about the rest of a batch that is re-sent whole
	if isElementAccess(tested) {
		for _, a := range send.Common().Args {
			if isCmdType(a.Type()) {
				if _, isSlice := a.Type().Underlying().(*types.Slice); isSlice {
					return false
				}
			}
		}
	}
	tr := cmdValueRoots(tested)
	for _, a := range send.Common().Args {
		if isCmdType(a.Type()) {
			ar := cmdValueRoots(a)
			for k := range ar {
				if !tr[k] {
					return false
				}
			}
		}
	}
	return true
}

// isElementAccess: the value is (the address of / a load of) one element of a slice.
func isElementAccess(v ssa.Value) bool {
	for i := 0; i < 6; i++ {
		switch x := v.(type) {
		case *ssa.IndexAddr:
			_, isSlice := x.X.Type().Underlying().(*types.Slice)
			return isSlice
		case *ssa.Index:
			return true
		case *ssa.UnOp:
			v = x.X
		case *ssa.ChangeType:
			v = x.X
		case *ssa.Alloc:
			// a local copy of an element (`cmd := multi[i]`)
			var src ssa.Value
			n := 0
			for _, r := range *x.Referrers() {
				if st, ok := r.(*ssa.Store); ok && st.Addr == ssa.Value(x) {
					n++
					src = st.Val
				}
			}
			if n != 1 {
				return false
			}
			v = src
		default:
			return false
		}
	}
	return false
}

func hasSubSlice(v ssa.Value) bool {
	found := false
	seen := map[ssa.Value]bool{}
	var rec func(v ssa.Value)
	rec = func(v ssa.Value) {
		if v == nil || seen[v] || found {
			return
		}
		seen[v] = true
		switch x := v.(type) {
		case *ssa.Slice:
			if x.Low != nil || x.High != nil {
				if _, isAlloc := x.X.(*ssa.Alloc); !isAlloc { // varargs backing array [:] is whole
					found = true
					return
				}
			}
			rec(x.X)
		case *ssa.Phi:
			for _, e := range x.Edges {
				rec(e)
			}
		case *ssa.UnOp:
			rec(x.X)
		case *ssa.ChangeType:
			rec(x.X)
		case *ssa.Convert:
			rec(x.X)
		}
	}
	rec(v)
	return found
}

// armsJustified: the lifetime-recovery idiom. The re-sent operand is a phi whose arms are the
// empty reslice x[:0] or slices assigned under `== errConnExpired`.
func armsJustified(c ssa.CallInstruction) bool {
	for _, a := range c.Common().Args {
		if !isCmdType(a.Type()) {
			continue
		}
		var arms []ssa.Value
		switch x := a.(type) {
		case *ssa.Phi:
			arms = x.Edges
		case *ssa.Call:
			// the tail to send again is computed by an unexported helper of the package: its returns are the arms
			h := x.Call.StaticCallee()
			if h == nil || h.Blocks == nil || isExportedName(h.Name()) || c.Parent() == nil || h.Pkg != c.Parent().Pkg {
				return false
			}
			for _, b := range h.Blocks {
				if ret, isr := b.Instrs[len(b.Instrs)-1].(*ssa.Return); isr && len(ret.Results) == 1 {
					arms = append(arms, ret.Results[0])
				}
			}
			if len(arms) == 0 {
				return false
			}
		default:
			return false
		}
		for _, e := range arms {
			if IsNilConst(e) {
				continue
			}
			sl, ok := e.(*ssa.Slice)
			if !ok {
				return false
			}
			if k, ok := ConstInt(sl.High); ok && k == 0 && sl.Low == nil {
				continue
			}
			good := false
			for _, g := range DomGuards(sl.Block()) {
				if _, eq, ok := IsErrCmp(g, "rueidis.errConnExpired"); ok && eq {
					good = true
				}
			}
			if !good {
				return false
			}
		}
		return true
	}
	return false
}

func lenPositive(conds []Guard, c ssa.CallInstruction) bool {
	for _, g := range conds {
		x, op, y, ok := CmpGuard(g)
		if !ok {
			continue
		}
		k, isc := ConstInt(y)
		if !isc || !((op == token.GTR && k == 0) || (op == token.NEQ && k == 0) || (op == token.GEQ && k == 1)) {
			continue
		}
		call, iscall := x.(*ssa.Call)
		if !iscall || CalleeName(call) != "builtin.len" {
			continue
		}
		for _, a := range c.Common().Args {
			if a == call.Call.Args[0] {
				return true
			}
		}
	}
	return false
}

// resendRules runs R03a over the whole root package and returns the number of paths examined.
func resendRules(r *Report, rule string, strict bool) {
	p := r.P
	j, ok := redirectConsts(p)
	r.Anchor(rule, "RedirectMove/RedirectAsk/RedirectRetry constants", ok)
	counts := map[string]int{}
	nPaths := 0
	nFuncs := 0
	type agg struct {
		fn    *ssa.Function
		pos   token.Pos
		n     int
		bad   int
		why   string
		first string
	}
	aggs := map[string]*agg{}
	var aggOrder []string
	record := func(fn *ssa.Function, desc string, pos token.Pos, ok bool, why string) {
		k := FuncName(fn) + "|" + desc + "|" + p.Pos(pos)
		a := aggs[k]
		if a == nil {
			a = &agg{fn: fn, pos: pos, first: desc}
			aggs[k] = a
			aggOrder = append(aggOrder, k)
		}
		a.n++
		if !ok {
			a.bad++
			if a.why == "" {
				a.why = why
			}
		}
	}
	defer func() {
		for _, k := range aggOrder {
			a := aggs[k]
			if a.bad > 0 {
				r.Ob(rule, a.fn, a.first, a.pos, false, fmt.Sprintf("%d of %d path(s) unjustified; first: %s", a.bad, a.n, a.why))
			} else {
				r.Ob(rule, a.fn, a.first, a.pos, true, fmt.Sprintf("%d path(s), all justified", a.n))
			}
		}
	}()
	for _, fn := range p.ModuleFuncs() {
		name := FuncName(fn)
		if !strings.HasPrefix(name, "rueidis.") || strings.HasPrefix(name, "rueidis.(*Lua)") || strings.HasPrefix(name, "rueidis.(*mux)") {
			// Lua.Exec is decided by R30 (EVALSHA -> EVAL is a different command); mux only
			// dispatches and never loops back
			continue
		}
		sends := Sites(fn, func(in ssa.Instruction) bool { _, ok := sendKind(in); return ok })
		if len(sends) == 0 {
			continue
		}
		isSend := func(s Site) bool { _, ok := sendKind(s.Instr); return ok }
		had := false
		for _, s := range sends {
			srcRoots := cmdRoots(s.Call())
			if len(srcRoots) == 0 {
				continue
			}
			complete := PathEnum(s, func(x Site) bool {
				return isSend(x) && rootsIntersect(srcRoots, cmdRoots(x.Call()))
			}, nil, 20000, func(conds []Guard, at Site) {
				nPaths++
				had = true
				kind, _ := sendKind(at.Instr)
				var tag, why string
				if armsJustified(at.Call()) && lenPositive(conds, at.Call()) {
					tag = "J1v"
				} else {
					tag, why = justify(j, conds, s.Instr.(ssa.Value), at.Call(), cacheOrSubscribe(kind), strict)
				}
				counts[tag]++
				desc := fmt.Sprintf("resend:%s->%s", CalleeName(s.Call()), CalleeName(at.Call()))
				if tag == "" {
					var cs []string
					for _, g := range conds {
						cs = append(cs, g.String())
					}
					if len(cs) > 12 {
						cs = cs[len(cs)-12:]
					}
					why += "; path conditions: " + strings.Join(cs, " ∧ ")
					if len(why) > 1500 {
						why = why[:1500] + "…"
					}
					record(fn, desc, InstrPos(at.Instr), false, "command sent at "+p.Pos(InstrPos(s.Instr))+" is sent again here; "+why)
				} else {
					record(fn, desc, InstrPos(at.Instr), true, "")
				}
			})
			if !complete {
				r.Ob(rule, fn, "resend-paths-from:"+CalleeName(s.Call()), InstrPos(s.Instr), false, "more than 20000 paths between sends: undecided")
			}
		}
		if had {
			nFuncs++
		}
	}
	// cluster batch: appends to the next round's work-list
	for _, fname := range []string{"rueidis.(*clusterClient).doresultfn", "rueidis.(*clusterClient).resultcachefn"} {
		fn := r.FnAnchor(rule, fname)
		if fn == nil {
			continue
		}
		waived := strings.HasSuffix(fname, "resultcachefn")
		starts := CallSites(fn, "rueidis.(*clusterClient).shouldRefreshRetry")
		r.Anchor(rule, fname+": shouldRefreshRetry call", len(starts) == 1)
		if len(starts) != 1 {
			continue
		}
		storeIsQueueAppend := func(in ssa.Instruction) bool {
			st, ok := in.(*ssa.Store)
			if !ok {
				return false
			}
			t, f, _, isf := FieldRef(st.Addr)
			if !isf || (t != "rueidis.retry" && t != "rueidis.retrycache") || (f != "commands" && f != "cAskings") {
				return false
			}
			c, isc := st.Val.(*ssa.Call)
			return isc && CalleeName(c) == "builtin.append"
		}
		isQueueAppend := func(s Site) bool {
			// a call of an unexported helper of the package that queues into the batch it is handed
			if c, isc := s.Instr.(*ssa.Call); isc {
				if h := c.Call.StaticCallee(); h != nil && h.Blocks != nil && h.Pkg == fn.Pkg && !isExportedName(h.Name()) && h != fn {
					for _, b := range h.Blocks {
						for _, in := range b.Instrs {
							if storeIsQueueAppend(in) {
								return true
							}
						}
					}
				}
				return false
			}
			st, ok := s.Instr.(*ssa.Store)
			if !ok {
				return false
			}
			t, f, _, isf := FieldRef(st.Addr)
			if !isf || (t != "rueidis.retry" && t != "rueidis.retrycache") || (f != "commands" && f != "cAskings") {
				return false
			}
			c, isc := st.Val.(*ssa.Call)
			return isc && CalleeName(c) == "builtin.append"
		}
		n := 0
		complete := PathEnum(starts[0], isQueueAppend, func(x Site) bool {
			// one loop iteration only: stop at the next shouldRefreshRetry
			_, again := CallTo(x.Instr, "rueidis.(*clusterClient).shouldRefreshRetry")
			return again
		}, 200000, func(conds []Guard, at Site) {
			n++
			nPaths++
			tag, why := justify(j, conds, nil, nil, waived, strict)
			if tag == "J1" {
				tag, why = "", "errConnExpired comparison does not justify queueing for the next round"
			}
			counts["queue:"+tag]++
			f := "via-helper"
			if st, isst := at.Instr.(*ssa.Store); isst {
				_, f, _, _ = FieldRef(st.Addr)
			}
			desc := "requeue:" + f
			if tag == "" {
				var cs []string
				for _, g := range conds {
					cs = append(cs, g.String())
				}
				if len(cs) > 14 {
					cs = cs[:14]
				}
				record(fn, desc, InstrPos(at.Instr), false, "command is queued for another round; "+why+"; path conditions: "+strings.Join(cs, " ∧ "))
			} else {
				record(fn, desc, InstrPos(at.Instr), true, "")
			}
		})
		if !complete {
			r.Ob(rule, fn, "requeue-paths", fn.Pos(), false, "too many paths: undecided")
		}
		r.Anchor(rule, fname+": work-list appends", n > 0)
	}
	var keys []string
	for k := range counts {
		keys = append(keys, k)
	}
	sort.Strings(keys)
	summary := map[string]int{}
	for _, k := range keys {
		kk := k
		if kk == "" {
			kk = "unjustified"
		}
		summary[kk] = counts[k]
	}
	r.Extra["resend_paths"] = nPaths
	r.Extra["resend_functions"] = nFuncs
	r.Extra["resend_justifications"] = summary
	r.Min(rule, 30)
}

func runC03(r *Report) {
	stateTransitionRule(r, "R03d")
	resendRules(r, "R03a", false)
	markerRule(r)
}

func runC28(r *Report) {
	recheckBeforeRetryRule(r, "R28e")
	resendRules(r, "R28a", true)
	retryPredicateRules(r, "R28b")
	backoffRule(r)
}

// markerRule (R03c): the latched connection error (which may be the transparent-resend marker
// errConnExpired, on which every client Do loop re-sends unconditionally) must not be delivered as
// the result of a command that has been handed to the writer. Delivery points are sends on result
// channels, stores into result slices and returned results of the pipe's request methods; write
// events are writeCmd/flushCmd/Flush, the synchronous helpers and NextResultCh (entries that come
// from there were dequeued by the writer). Stream methods are exempt: no client retries them.
func markerRule(r *Report) {
	p := r.P
	isWrite := func(in ssa.Instruction) bool {
		_, ok := CallTo(in, "rueidis.writeCmd", "rueidis.flushCmd", "bufio.(*Writer).Flush", "iface:rueidis.queue.NextResultCh", "rueidis.(*pipe).syncDo", "rueidis.(*pipe).syncDoMulti")
		return ok
	}
	isLatched := func(v ssa.Value) bool {
		return DependsOn(v, func(x ssa.Value) bool {
			c, ok := x.(*ssa.Call)
			return ok && CalleeName(c) == "rueidis.(*pipe).Error"
		})
	}
	n := 0
	for _, fn := range p.ModuleFuncs() {
		top := TopFunc(fn)
		tn := FuncName(top)
		if !strings.HasPrefix(tn, "rueidis.(*pipe).") || strings.HasSuffix(tn, "Stream") {
			continue
		}
		var writes []Site
		for _, f := range WithAnons(top) {
			writes = append(writes, Sites(f, isWrite)...)
		}
		type point struct {
			at   Site
			kind string
		}
		var pts []point
		var addVal func(v ssa.Value, at Site, kind string)
		addVal = func(v ssa.Value, at Site, kind string) {
			if ph, ok := v.(*ssa.Phi); ok {
				for k, e := range ph.Edges {
					if e == v {
						continue
					}
					pred := ph.Block().Preds[k]
					if isLatched(e) {
						if _, isphi := e.(*ssa.Phi); isphi {
							addVal(e, Site{at.Fn, pred, len(pred.Instrs) - 1, pred.Instrs[len(pred.Instrs)-1]}, kind)
						} else {
							pts = append(pts, point{Site{at.Fn, pred, len(pred.Instrs) - 1, pred.Instrs[len(pred.Instrs)-1]}, kind})
						}
					}
				}
				return
			}
			if u, ok := v.(*ssa.UnOp); ok && u.Op == token.MUL {
				if al, ok := u.X.(*ssa.Alloc); ok {
					// a local variable (e.g. a named result captured by a deferred closure): the
					// delivery points are the assignments of a latched value to it
					for _, ref := range *al.Referrers() {
						if st, ok := ref.(*ssa.Store); ok && st.Addr == al && isLatched(st.Val) {
							if ld, isld := st.Val.(*ssa.UnOp); isld && ld.X == ssa.Value(al) {
								continue // `return resp` re-stores the named result into itself
							}
							dup := false
							for _, q := range pts {
								if q.at.Instr == ssa.Instruction(st) {
									dup = true
								}
							}
							if !dup {
								pts = append(pts, point{SiteOf(st), kind})
							}
						}
					}
					return
				}
			}
			if isLatched(v) {
				pts = append(pts, point{at, kind})
			}
		}
		for _, b := range fn.Blocks {
			for i, in := range b.Instrs {
				s := Site{fn, b, i, in}
				switch x := in.(type) {
				case *ssa.Send:
					if strings.Contains(shortType(x.Chan.Type()), "RedisResult") {
						addVal(x.X, s, "send")
					}
				case *ssa.Store:
					if ia, ok := x.Addr.(*ssa.IndexAddr); ok && strings.Contains(shortType(ia.X.Type()), "RedisResult") {
						addVal(x.Val, s, "store")
					}
				case *ssa.Return:
					for _, res := range x.Results {
						if strings.Contains(shortType(res.Type()), "RedisResult") || strings.Contains(shortType(res.Type()), "redisresults") {
							addVal(res, s, "return")
						}
					}
				}
			}
		}
		for _, pt := range pts {
			n++
			written := false
			var wpos string
			for _, w := range writes {
				if w.Fn != pt.at.Fn {
					written, wpos = true, p.Pos(InstrPos(w.Instr))
					break
				}
				if w.Block == pt.at.Block && w.Idx < pt.at.Idx {
					written, wpos = true, p.Pos(InstrPos(w.Instr))
					break
				}
				if ok, _ := Reaches(w, func(x Site) bool { return x.Block == pt.at.Block && x.Idx == pt.at.Idx }, nil); ok {
					written, wpos = true, p.Pos(InstrPos(w.Instr))
					break
				}
			}
			excluded := false
			for _, g := range DomGuards(pt.at.Block) {
				if _, eq, ok := IsErrCmp(g, "rueidis.errConnExpired"); ok && !eq {
					excluded = true
				}
			}
			r.ObSite("R03c", pt.at, "deliver-latched-error:"+pt.kind, !written || excluded,
				"the connection's latched error (possibly errConnExpired, which every client Do loop re-sends unconditionally) is delivered as the result of a command that was already handed to the writer (write event at "+wpos+")")
		}
	}
	r.Anchor("R03c", "deliveries of the latched pipe error", n >= 3)
}

// backoffRule (R28d): decision table of (*retryer).WaitOrSkipRetry by guards.
func backoffRule(r *Report) {
	fn := r.FnAnchor("R28d", "rueidis.(*retryer).WaitOrSkipRetry")
	if fn == nil {
		return
	}
	isDelay := func(v ssa.Value) bool {
		return DependsOn(v, func(x ssa.Value) bool {
			c, ok := x.(*ssa.Call)
			return ok && (CalleeName(c) == "rueidis.(*retryer).RetryDelay" || strings.Contains(Desc(c), "RetryDelayFn"))
		})
	}
	delayCmp := func(g Guard) (string, bool) { // "zero", "pos", "neg", "nonneg"
		x, op, y, ok := CmpGuard(g)
		if !ok {
			return "", false
		}
		if k, isc := ConstInt(y); isc && k == 0 && isDelay(x) {
			switch op {
			case token.EQL:
				return "zero", true
			case token.GTR:
				return "pos", true
			case token.GEQ:
				return "nonneg", true
			case token.LSS:
				return "neg", true
			case token.NEQ:
				return "nonzero", true
			}
		}
		return "", false
	}
	okPaths := func(dnf [][]Guard) (bool, string) {
		for _, conj := range dnf {
			zero, pos, noDl, room := false, false, false, false
			nonneg, nonzero := false, false
			for _, g := range conj {
				if k, ok := delayCmp(g); ok {
					zero = zero || k == "zero"
					pos = pos || k == "pos"
					nonneg = nonneg || k == "nonneg"
					nonzero = nonzero || k == "nonzero"
				}
				if ex, ok := g.Cond.(*ssa.Extract); ok && !g.Pol && ex.Index == 1 {
					if c, isc := ex.Tuple.(*ssa.Call); isc && CalleeName(c) == "iface:context.Context.Deadline" {
						noDl = true
					}
				}
				if x, op, y, ok := CmpGuard(g); ok && op == token.GTR && isDelay(y) {
					if c, isc := x.(*ssa.Call); isc && CalleeName(c) == "time.Until" {
						room = true
					}
				}
			}
			pos = pos || (nonneg && nonzero) // `delay < 0` and `delay == 0` were both excluded by earlier returns
			if !(zero || (pos && (noDl || room))) {
				return false, GuardStrings([][]Guard{conj})
			}
		}
		return true, ""
	}
	n := 0
	for _, b := range fn.Blocks {
		ret, ok := b.Instrs[len(b.Instrs)-1].(*ssa.Return)
		if !ok || len(ret.Results) != 1 {
			continue
		}
		s := Site{fn, b, len(b.Instrs) - 1, ret}
		if c, isc := ret.Results[0].(*ssa.Const); isc && c.Value != nil {
			if constant.BoolVal(c.Value) {
				n++
				good, bad := okPaths(GuardDNF(b, 4))
				r.ObSite("R28d", s, "retry-yes", good, "a retry is granted only for delay == 0, or delay > 0 with no deadline or remaining time > delay; offending way in: "+bad)
			}
			continue
		}
		r.ObSite("R28d", s, "retry-answer-not-constant", false, "cannot decide a non-constant answer")
	}
	for _, s := range CallSites(fn, "rueidis.(*retryer).WaitForRetry") {
		n++
		good, bad := okPaths(GuardDNF(s.Block, 4))
		r.ObSite("R28d", s, "wait", good, "waiting happens only for a positive delay that fits the deadline; offending way in: "+bad)
	}
	r.Anchor("R28d", "positive answers in WaitOrSkipRetry", n >= 2)
}

// retryPredicateRules: shape of the retryable-error predicates (R03b).
func retryPredicateRules(r *Report, rule string) {
	for _, name := range errPredicates {
		fn := r.FnAnchor(rule, name)
		if fn == nil {
			continue
		}
		for _, b := range fn.Blocks {
			ret, ok := b.Instrs[len(b.Instrs)-1].(*ssa.Return)
			if !ok || len(ret.Results) != 1 {
				continue
			}
			if c, isc := ret.Results[0].(*ssa.Const); isc && c.Value != nil && !constant.BoolVal(c.Value) {
				continue // negative answer
			}
			// the reply/transport classification may be delegated to an unexported bool helper that is
			// handed the error: its positive answers are judged under the caller's guards plus its own
			if hc, isc := ret.Results[0].(*ssa.Call); isc {
				h := hc.Call.StaticCallee()
				takesErr := false
				for _, a := range hc.Call.Args {
					if prm, isp := a.(*ssa.Parameter); isp && shortType(prm.Type()) == "error" {
						takesErr = true
					}
				}
				if h != nil && h.Blocks != nil && h.Pkg == fn.Pkg && !isExportedName(h.Name()) && takesErr && h.Signature.Recv() == nil {
					for _, hb := range h.Blocks {
						hret, isr := hb.Instrs[len(hb.Instrs)-1].(*ssa.Return)
						if !isr || len(hret.Results) != 1 {
							continue
						}
						if c, isk := hret.Results[0].(*ssa.Const); isk && c.Value != nil && !constant.BoolVal(c.Value) {
							continue
						}
						gs := append(append([]Guard{}, DomGuards(b)...), DomGuards(hb)...)
						checkPositive(r, rule, fn, Site{h, hb, len(hb.Instrs) - 1, hret}, gs, hret.Results[0], false)
					}
					continue
				}
			}
			checkPositive(r, rule, fn, Site{fn, b, len(b.Instrs) - 1, ret}, DomGuards(b), ret.Results[0], false)
		}
	}
	// cluster: the phi edges that set RedirectRetry
	fn := r.FnAnchor(rule, "rueidis.(*clusterClient).shouldRefreshRetry")
	if fn == nil {
		return
	}
	j, _ := redirectConsts(r.P)
	n := 0
	for _, b := range fn.Blocks {
		for _, in := range b.Instrs {
			ph, ok := in.(*ssa.Phi)
			if !ok {
				continue
			}
			for k, e := range ph.Edges {
				if v, isc := ConstInt(e); !isc || v != j.redirectRetry || shortType(ph.Type()) != "rueidis.RedirectMode" {
					continue
				}
				n++
				pred := b.Preds[k]
				for _, conj := range GuardDNF(pred, 4) {
					gs := append([]Guard{}, conj...)
					if iff, isif := pred.Instrs[len(pred.Instrs)-1].(*ssa.If); isif && pred.Succs[0] != pred.Succs[1] {
						gs = append(gs, normGuard(Guard{iff.Cond, pred.Succs[0] == b, pred}))
					}
					checkPositive(r, rule, fn, Site{fn, pred, len(pred.Instrs) - 1, pred.Instrs[len(pred.Instrs)-1]}, gs, nil, true)
				}
			}
		}
	}
	r.Anchor(rule, "shouldRefreshRetry assigns RedirectRetry", n > 0)
}

func checkPositive(r *Report, rule string, fn *ssa.Function, at Site, gs []Guard, result ssa.Value, cluster bool) {
	has := func(pred func(Guard) bool) bool {
		for _, g := range gs {
			if pred(g) {
				return true
			}
		}
		return false
	}
	var errParam *ssa.Parameter
	for _, prm := range fn.Params {
		if shortType(prm.Type()) == "error" {
			errParam = prm
		}
	}
	if errParam == nil {
		r.ObSite(rule, at, "positive-answer", false, "predicate has no error parameter")
		return
	}
	nonNil := has(func(g Guard) bool {
		x, op, y, ok := CmpGuard(g)
		return ok && op == token.NEQ && ((x == ssa.Value(errParam) && IsNilConst(y)) || (y == ssa.Value(errParam) && IsNilConst(x)))
	})
	notNilReply := has(func(g Guard) bool {
		other, eq, ok := IsErrCmp(g, "rueidis.Nil")
		return ok && !eq && Strip(other) == ssa.Value(errParam)
	})
	open := has(func(g Guard) bool {
		x, op, y, ok := CmpGuard(g)
		if !ok {
			return false
		}
		d := Desc(x)
		if k, isc := ConstInt(y); isc && k == 0 && op == token.EQL && strings.HasPrefix(d, "sync/atomic.LoadUint32(&p0.stop") {
			return true
		}
		return op == token.EQL && IsNilConst(y) && strings.HasPrefix(d, "iface:rueidis.wire.Error(")
	})
	isRedisErr := func(g Guard) (bool, bool) { // (matches, polarity)
		ex, ok := g.Cond.(*ssa.Extract)
		if !ok || ex.Index != 1 {
			return false, false
		}
		ta, ok := ex.Tuple.(*ssa.TypeAssert)
		if !ok || shortType(ta.AssertedType) != "*rueidis.RedisError" {
			return false, false
		}
		return true, g.Pol
	}
	onReply := has(func(g Guard) bool { m, pol := isRedisErr(g); return m && pol })
	onTransport := has(func(g Guard) bool { m, pol := isRedisErr(g); return m && !pol })
	ctxLive := has(func(g Guard) bool {
		x, op, y, ok := CmpGuard(g)
		return ok && op == token.EQL && IsNilConst(y) && strings.HasPrefix(Desc(x), "iface:context.Context.Err(")
	})
	allowedReply := []string{"rueidis.(*RedisError).IsLoading"}
	if cluster {
		allowedReply = append(allowedReply, "rueidis.(*RedisError).IsClusterDown", "rueidis.(*RedisError).IsTryAgain")
	}
	var miss []string
	if !nonNil {
		miss = append(miss, "err != nil")
	}
	if !notNilReply {
		miss = append(miss, "err != Nil (a nil reply is returned as it is)")
	}
	if !open {
		miss = append(miss, "client/wire not closed")
	}
	switch {
	case onReply:
		ok := false
		if result != nil {
			if c, isc := result.(*ssa.Call); isc {
				for _, a := range allowedReply {
					if CalleeName(c) == a {
						ok = true
					}
				}
			}
		} else {
			ok = has(func(g Guard) bool { _, _, m := GuardCall(g, allowedReply...); return m && g.Pol })
		}
		if !ok {
			miss = append(miss, "on an error reply only "+strings.Join(allowedReply, "/")+" may answer yes")
		}
	case onTransport:
		if !ctxLive {
			miss = append(miss, "ctx.Err() == nil on the transport-error arm")
		}
	default:
		miss = append(miss, "positive answer outside the *RedisError type switch")
	}
	arm := "transport"
	if onReply {
		arm = "reply"
	}
	r.ObSite(rule, at, "positive-answer:"+arm, len(miss) == 0, "retryable answer requires: "+strings.Join(miss, "; "))
}
