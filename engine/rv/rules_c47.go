package rv

import (
	"strconv"
	"regexp"
	"fmt"
	"os"
	"go/token"
	"sort"
	"strings"

	"golang.org/x/tools/go/ssa"
)

func init() {
	Registry["C47"] = RuleDef{Module: ".", Run: runC47,
		Technique:   "extraction of the option-guard -> setup-command table from both protocol arms of _newPipe (go/ssa guards and emitted token literals) and comparison of the arms with each other and with the property's table; must-reach rule on the failure arms of the setup reply loops",
		Explanation: "Decides (R47a) that in _newPipe every session setting the property lists (credentials -> AUTH, ClientName -> SETNAME / CLIENT SETNAME, SelectDB -> SELECT, ReplicaOnly without sentinel -> READONLY, ClientNoTouch, ClientNoEvict, library info -> CLIENT SETINFO x2, replica-AZ info -> INFO SERVER, redirect capability) is emitted in the RESP3 arm and in the RESP2 arm under the same option guards, with tracking enabled only in RESP3 (RESP2 with caching is refused), and that all emitted commands are sent by the setup DoMulti before the pipe is returned; (R47d) that the constant pattern for a rejected HELLO, which is applied to every setup step's error, matches only errors naming HELLO; (R47b) that in both reply loops an error reply leads to p.Close() and a non-nil error unless it is one of the tolerated cases (READONLY, the unknown-HELLO fallback, errors after falling back to RESP2 for non-CLIENT commands, and the trailing SETINFO pair which is excluded from the loop), and that `return p, nil` is only reached through the setup exchange.",
		NotDecided:  "what the server does with the commands; dynamic credential refresh; newSentinelOpt's overrides."}
}

type setupEmit struct {
	site   Site
	tokens []string
	guards string
	arm    string
}

func runC47(r *Report) {
	fn := r.FnAnchor("R47a", "rueidis._newPipe")
	if fn == nil {
		return
	}
	// the RESP2 arm starts where `init` is truncated
	var cut *ssa.BasicBlock
	for _, b := range fn.Blocks {
		for _, in := range b.Instrs {
			if sl, ok := in.(*ssa.Slice); ok && strings.Contains(shortType(sl.Type()), "[][]string") {
				if k, isc := ConstInt(sl.High); isc && k == 0 {
					cut = b
				}
			}
		}
	}
	if !r.Anchor("R47a", "RESP2 arm (init = init[:0])", cut != nil) {
		return
	}
	optionGuards := func(b *ssa.BasicBlock) string {
		var gs []string
		var all []Guard
		for _, g := range DomGuards(b) {
			all = append(all, impliedGuards(normGuard(g), 3)...) // `x := opt.A && opt.B; if x` implies both
		}
		for _, g := range all {
			g = normGuard(g)
			if _, isphi := g.Cond.(*ssa.Phi); isphi {
				continue
			}
			d := DescDeep(g.Cond)
			if !strings.Contains(d, "rueidis.ClientOption.") && !strings.Contains(d, "AuthCredentials.") {
				continue
			}
			d = strings.ReplaceAll(d, "*alloc:**rueidis.ClientOption.", "opt.")
			d = strings.ReplaceAll(d, "alloc:*rueidis.AuthCredentials.", "cred.")
			if d == "opt.DisableCache" && g.Pol && cut.Dominates(b) {
				continue // the RESP2 arm's own precondition
			}
			if g.Pol {
				gs = append(gs, d)
			} else {
				gs = append(gs, "!"+d)
			}
		}
		sort.Strings(gs)
		return strings.Join(dedup(gs), " && ")
	}
	var emits []setupEmit
	for _, s := range CallSites(fn, "builtin.append") {
		c := s.Instr.(*ssa.Call)
		if len(c.Call.Args) != 2 {
			continue
		}
		arm := "RESP3"
		if cut.Dominates(s.Block) {
			arm = "RESP2"
		}
		t := shortType(c.Type())
		var cmdsTok [][]string
		switch t {
		case "[][]string":
			for _, e := range variadicElemsOrdered(c.Call.Args[1]) {
				var toks []string
				for _, te := range variadicElemsOrdered(e) {
					if sv, ok := ConstString(te); ok {
						toks = append(toks, sv)
					}
				}
				if len(toks) == 0 {
					// append([]string{"CLIENT","TRACKING","ON"}, opts...) or the helloCmd variable
					if ac, isc := e.(*ssa.Call); isc && CalleeName(ac) == "builtin.append" {
						for _, te := range variadicElemsOrdered(ac.Call.Args[0]) {
							if sv, ok := ConstString(te); ok {
								toks = append(toks, sv)
							}
						}
					}
				}
				if len(toks) > 0 {
					cmdsTok = append(cmdsTok, toks)
				}
			}
		case "[]string": // helloCmd = append(helloCmd, "AUTH", ...)
			var toks []string
			for _, te := range variadicElemsOrdered(c.Call.Args[1]) {
				if sv, ok := ConstString(te); ok {
					toks = append(toks, sv)
				}
			}
			if len(toks) > 0 {
				cmdsTok = append(cmdsTok, toks)
			}
		}
		for _, toks := range cmdsTok {
			emits = append(emits, setupEmit{s, toks, optionGuards(s.Block), arm})
		}
	}
	key := func(toks []string) string {
		k := toks[0]
		if k == "CLIENT" && len(toks) > 1 {
			k += " " + toks[1]
		}
		switch k {
		case "CLIENT SETNAME":
			k = "SETNAME"
		}
		if k == "AUTH" {
			return "AUTH"
		}
		return k
	}
	byArm := map[string]map[string][]string{"RESP3": {}, "RESP2": {}}
	if os.Getenv("RV_DEBUG") != "" {
		for _, e := range emits {
			fmt.Println("EMIT", e.arm, e.tokens, "|", e.guards)
			for _, g := range DomGuards(e.site.Block) {
				fmt.Println("    G", g.Pol, DescDeep(g.Cond))
			}
		}
	}
	for _, e := range emits {
		k := key(e.tokens)
		byArm[e.arm][k] = append(byArm[e.arm][k], e.guards)
	}
	r.Extra["setup_emissions_resp3"] = len(byArm["RESP3"])
	r.Extra["setup_emissions_resp2"] = len(byArm["RESP2"])
	// property table: setting -> command key, required guard fields
	table := []struct{ key, field string }{
		{"AUTH", "cred."}, {"SETNAME", "ClientName"}, {"SELECT", "SelectDB"}, {"READONLY", "ReplicaOnly"},
		{"CLIENT NO-TOUCH", "ClientNoTouch"}, {"CLIENT NO-EVICT", "ClientNoEvict"}, {"CLIENT SETINFO", "ClientSetInfo"},
		{"INFO", "EnableReplicaAZInfo"}, {"CLIENT CAPA", "Standalone.EnableRedirect"},
	}
	for _, row := range table {
		for _, arm := range []string{"RESP3", "RESP2"} {
			gs := byArm[arm][row.key]
			ok := len(gs) > 0
			for _, g := range gs {
				if !strings.Contains(g, row.field) || strings.Contains(g, "!opt."+row.field) && !strings.Contains(g, "== ") {
					ok = false
				}
			}
			r.Ob("R47a", fn, "setting:"+row.key+"@"+arm, fn.Pos(), ok, fmt.Sprintf("the %s arm must emit %s under the %s option; found guards %v", arm, row.key, row.field, gs))
		}
		g3, g2 := append([]string{}, byArm["RESP3"][row.key]...), append([]string{}, byArm["RESP2"][row.key]...)
		sort.Strings(g3)
		sort.Strings(g2)
		same := strings.Join(dedup(g3), " | ") == strings.Join(dedup(g2), " | ")
		if row.key == "SETNAME" {
			same = true // spelled inside HELLO in RESP3: same option, different nesting
		}
		r.Ob("R47a", fn, "arms-agree:"+row.key, fn.Pos(), same, fmt.Sprintf("both protocol arms must apply %s under the same option guards; RESP3 %v, RESP2 %v", row.key, dedup(g3), dedup(g2)))
	}
	// tracking only in RESP3, under !DisableCache
	tr3, tr2 := byArm["RESP3"]["CLIENT TRACKING"], byArm["RESP2"]["CLIENT TRACKING"]
	okTr := len(tr3) >= 1 && len(tr2) == 0
	for _, g := range tr3 {
		if !strings.Contains(g, "!opt.DisableCache") {
			okTr = false
		}
	}
	r.Ob("R47a", fn, "tracking-only-resp3", fn.Pos(), okTr, fmt.Sprintf("CLIENT TRACKING ON is emitted in the RESP3 arm exactly when caching is enabled; RESP3 %v RESP2 %v", tr3, tr2))
	// RESP2 with cache enabled is refused
	refused := false
	for _, b := range fn.Blocks {
		if !cut.Dominates(b) && b != cut {
			// the refusal sits just before the truncation
		}
		if ret, ok := b.Instrs[len(b.Instrs)-1].(*ssa.Return); ok && len(ret.Results) == 2 && strings.HasSuffix(Desc(RetVals(ret)[1]), "ErrNoCache") {
			refused = Guarded(b, func(g Guard) bool { return !g.Pol && strings.HasSuffix(DescDeep(g.Cond), ".DisableCache") })
		}
	}
	r.Ob("R47a", fn, "resp2-with-cache-refused", fn.Pos(), refused, "a RESP2 session with client-side caching enabled is refused with ErrNoCache")
	// emitted commands are sent: after every emission, every path to a successful return passes the
	// setup DoMulti, or the RESP2 arm's truncation (which re-emits the settings), or fails the
	// connection. The `len(init) != 0` skip edge is infeasible after an append and is accepted.
	isSent := func(in ssa.Instruction) bool {
		if _, ok := CallTo(in, "rueidis.(*pipe).DoMulti"); ok {
			return true
		}
		if sl, ok := in.(*ssa.Slice); ok && in.Block() == cut && strings.Contains(shortType(sl.Type()), "[][]string") {
			if k, isc := ConstInt(sl.High); isc && k == 0 {
				return true
			}
		}
		if ret, ok := in.(*ssa.Return); ok {
			rv := RetVals(ret)
			return len(rv) == 2 && IsNilConst(rv[0])
		}
		return false
	}
	emptySkip := func(from *ssa.BasicBlock, succ int) bool {
		iff, ok := from.Instrs[len(from.Instrs)-1].(*ssa.If)
		if !ok {
			return false
		}
		x, op, y, cok := CmpGuard(normGuard(Guard{iff.Cond, succ == 0, from}))
		if !cok || op != token.EQL {
			return false
		}
		k, isc := ConstInt(y)
		c, isl := x.(*ssa.Call)
		return isc && k == 0 && isl && CalleeName(c) == "builtin.len" && shortType(c.Call.Args[0].Type()) == "[][]string"
	}
	for _, e := range emits {
		if shortType(e.site.Instr.(*ssa.Call).Type()) != "[][]string" {
			continue
		}
		r.ObSite("R47a", e.site, "emission-sent:"+key(e.tokens)+"@"+e.arm, feasibleMustPass(e.site, isSent, emptySkip, 400000),
			"every emitted setup command is sent by the setup DoMulti (or superseded by the RESP2 arm) before a usable pipe is returned")
	}
	sentinelOptRule(r)
	// R47d: the pattern that recognises "this server does not know HELLO" is applied to the error of
	// every setup step; it must therefore match only errors that name HELLO, otherwise a rejected
	// SELECT/AUTH/CLIENT step is taken for a missing HELLO and tolerated after the RESP2 fallback.
	if src := pkgVarCallStringArg(r.P, "rueidis", "noHello"); r.Anchor("R47d", "noHello pattern", src != "") {
		re, err := regexp.Compile(src)
		ok := err == nil
		why := ""
		if ok {
			for _, probe := range []string{"ERR unknown command", "ERR unknown command 'SELECT'", "ERR unknown command `AUTH`, with args beginning with:", "unknown command 'CLIENT'", "ERR unknown command 'SELECT', with args beginning with: '1'"} {
				if re.MatchString(probe) {
					ok, why = false, "the pattern also matches "+strconv.Quote(probe)
				}
			}
			for _, probe := range []string{"ERR unknown command 'HELLO'", "ERR unknown command `HELLO`, with args beginning with: `3`", "unknown command 'hello'"} {
				if !re.MatchString(probe) {
					ok, why = false, "the pattern does not match "+strconv.Quote(probe)
				}
			}
		}
		r.Ob("R47d", nil, "hello-rejection-pattern-names-hello", token.NoPos, ok, "the constant pattern for a rejected HELLO (evaluated on probe error texts) matches only errors naming HELLO; "+why)
	}

	// R47b failure arms
	accepted := func(g Guard) bool {
		if !g.Pol && !strings.Contains(DescDeep(g.Cond), "MatchString") {
			// false polarity only matters for none of the accepted conditions
		}
		d := DescDeep(g.Cond)
		if g.Pol && strings.Contains(d, "\"READONLY\"") {
			return true
		}
		if g.Pol && strings.Contains(d, "MatchString") {
			return true
		}
		if g.Pol {
			if _, isphi := g.Cond.(*ssa.Phi); isphi { // the r2 fallback flag
				return true
			}
			if strings.HasSuffix(d, ".AlwaysRESP2") {
				return true
			}
		}
		return false
	}
	nLoop := 0
	for _, b := range fn.Blocks {
		iff, ok := b.Instrs[len(b.Instrs)-1].(*ssa.If)
		if !ok {
			continue
		}
		x, op, y, cok := CmpGuard(normGuard(Guard{iff.Cond, true, b}))
		if !cok || (op != token.NEQ && op != token.EQL) || !IsNilConst(y) || shortType(x.Type()) != "error" {
			continue
		}
		errArm := b.Succs[0] // the successor on which the error is not nil
		if op == token.EQL {
			errArm = b.Succs[1] // `if err == nil { continue }` form
		}
		var hdr *ssa.BasicBlock
		for _, h := range fn.Blocks {
			if IsLoopHeader(h) && h.Dominates(b) {
				for _, pr := range h.Preds {
					if h.Dominates(pr) && (pr == b || reachesBlock(b, pr)) {
						hdr = h
					}
				}
			}
		}
		if hdr == nil {
			continue
		}
		isReplyErr := DependsOn(x, func(v ssa.Value) bool {
			c, isc := v.(*ssa.Call)
			return isc && (CalleeName(c) == "rueidis.(RedisResult).Error" || CalleeName(c) == "rueidis.(RedisResult).AsMap" || CalleeName(c) == "rueidis.(RedisResult).ToString")
		})
		if !isReplyErr {
			continue
		}
		if op == token.EQL {
			// only the guard-clause form: the nil arm is a bare `continue`
			t, bare := b.Succs[0], true
			for k := 0; t != hdr && k < 4; k++ {
				if len(t.Instrs) != 1 || len(t.Succs) != 1 {
					bare = false
					break
				}
				t = t.Succs[0]
			}
			if !bare || t != hdr {
				continue
			}
		}
		nLoop++
		okArm := true
		why := ""
		PathEnum(Site{fn, errArm, -1, nil}, func(s Site) bool {
			return s.Block == hdr && s.Idx == 0 || isReturn(s.Instr)
		}, nil, 5000, func(conds []Guard, at Site) {
			if ret, isret := at.Instr.(*ssa.Return); isret {
				rv := RetVals(ret)
				if len(rv) == 2 && IsNilConst(rv[1]) {
					if c, isc := rv[0].(*ssa.Call); isc && CalleeName(c) == "rueidis._newPipe" {
						return
					}
					okArm, why = false, "an error arm returns a nil error"
				}
				return
			}
			tolerated := false
			for _, g := range conds {
				if accepted(g) {
					tolerated = true
				}
			}
			if !tolerated {
				okArm, why = false, "an error reply is skipped (continue) without being one of the tolerated cases (READONLY, unknown HELLO, RESP2 fallback)"
			}
		})
		// the returning paths close the pipe
		closes := false
		for _, s := range CallSites(fn, "rueidis.(*pipe).Close") {
			if errArm.Dominates(s.Block) || reachesBlock(errArm, s.Block) {
				closes = true
			}
		}
		r.ObSite("R47b", Site{fn, b, len(b.Instrs) - 1, iff}, "setup-error-fails-connection", okArm && closes, "a failed setup step closes the pipe and returns the error unless it is a tolerated case; "+why)
	}
	r.Anchor("R47b", "error arms in the setup reply loops", nLoop >= 2)
}

// RetVals resolves the results of a return through the named-result slots: when a result is a
// load of a local slot that was stored earlier in the same block, the stored value is returned.
func RetVals(ret *ssa.Return) []ssa.Value {
	out := make([]ssa.Value, len(ret.Results))
	for i, v := range ret.Results {
		out[i] = v
		u, ok := v.(*ssa.UnOp)
		if !ok || u.Op != token.MUL {
			continue
		}
		al, ok := u.X.(*ssa.Alloc)
		if !ok {
			continue
		}
		for _, in := range ret.Block().Instrs {
			if st, iss := in.(*ssa.Store); iss && st.Addr == al {
				out[i] = st.Val
			}
		}
	}
	return out
}

// sentinelOptRule (R47c): connections to sentinels use the sentinel's own credentials, name,
// dialer and TLS configuration and no database selection - unconditionally.
func sentinelOptRule(r *Report) {
	fn := r.FnAnchor("R47c", "rueidis.newSentinelOpt")
	if fn == nil {
		return
	}
	for _, f := range []string{"Username", "Password", "ClientName", "Dialer", "TLSConfig", "SelectDB"} {
		f := f
		ok, _ := MustPassFromEntry(fn, func(in ssa.Instruction) bool {
			st, isst := in.(*ssa.Store)
			if !isst {
				return false
			}
			t, fld, _, isf := FieldRef(st.Addr)
			if !isf || fld != f || !strings.HasSuffix(t, "ClientOption") {
				return false
			}
			if f == "SelectDB" {
				k, isc := ConstInt(st.Val)
				return isc && k == 0
			}
			return strings.HasSuffix(DescDeep(st.Val), ".Sentinel."+f)
		})
		r.Ob("R47c", fn, "sentinel-session-setting:"+f, fn.Pos(), ok, "on every path the option used for sentinel connections takes "+f+" from the Sentinel sub-option (SelectDB: 0), whatever its value")
	}
}

func dedup(s []string) []string {
	var out []string
	for _, x := range s {
		if len(out) == 0 || out[len(out)-1] != x {
			out = append(out, x)
		}
	}
	return out
}

// feasibleMustPass is MustPassOrEdge with per-path branch correlation: it walks the simple paths
// from just after s, remembers the truth value each branch condition took (phis are resolved along
// the path, negations stripped, constants folded) and never follows an edge that contradicts a
// value already decided on the same path. It returns false when a return is reached on a feasible
// path without passing hit, or when the step budget is exhausted (undecided fails closed).
func feasibleMustPass(s Site, hit func(ssa.Instruction) bool, goodEdge func(*ssa.BasicBlock, int) bool, budget int) bool {
	steps := 0
	on := map[*ssa.BasicBlock]bool{}
	var path []*ssa.BasicBlock
	facts := map[ssa.Value]bool{}
	resolve := func(v ssa.Value) (ssa.Value, bool) {
		pol := true
		for k := 0; k < 32; k++ {
			if u, ok := v.(*ssa.UnOp); ok && u.Op == token.NOT {
				v, pol = u.X, !pol
				continue
			}
			if _, ok := v.(*ssa.Phi); ok {
				nv := ResolveOnPath(v, path)
				if nv == v {
					break
				}
				v = nv
				continue
			}
			break
		}
		return v, pol
	}
	var dfs func(b *ssa.BasicBlock, from int) bool // true = bad return reachable
	dfs = func(b *ssa.BasicBlock, from int) bool {
		steps++
		if steps > budget {
			return true
		}
		for i := from; i < len(b.Instrs); i++ {
			if hit(b.Instrs[i]) {
				return false
			}
			if _, ok := b.Instrs[i].(*ssa.Return); ok {
				return true
			}
		}
		var cv ssa.Value
		cpol, known, kval := true, false, false
		if iff, ok := b.Instrs[len(b.Instrs)-1].(*ssa.If); ok && len(b.Succs) == 2 {
			cv, cpol = resolve(iff.Cond)
			if c, isc := cv.(*ssa.Const); isc && c.Value != nil {
				known, kval = true, c.Value.String() == "true"
			} else if f, has := facts[cv]; has {
				known, kval = true, f
			}
		}
		for k, succ := range b.Succs {
			if goodEdge != nil && goodEdge(b, k) {
				continue
			}
			if on[succ] {
				continue
			}
			if cv != nil {
				want := (k == 0) == cpol // truth of cv on this edge
				if known && kval != want {
					continue
				}
				_, had := facts[cv]
				if !had {
					facts[cv] = want
				}
				on[succ] = true
				path = append(path, succ)
				bad := dfs(succ, 0)
				path = path[:len(path)-1]
				on[succ] = false
				if !had {
					delete(facts, cv)
				}
				if bad {
					return true
				}
				continue
			}
			on[succ] = true
			path = append(path, succ)
			bad := dfs(succ, 0)
			path = path[:len(path)-1]
			on[succ] = false
			if bad {
				return true
			}
		}
		return false
	}
	on[s.Block] = true
	path = append(path, s.Block)
	return !dfs(s.Block, s.Idx+1)
}
