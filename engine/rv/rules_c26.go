package rv

import (
	"fmt"
	"go/token"
	"sort"
	"strings"

	"golang.org/x/tools/go/ssa"
)

func init() {
	Registry["C26"] = RuleDef{Module: ".", Run: runC26,
		Technique:   "sibling-table agreement for the push-kind dispatch (switch arms -> registry field, key operand), lock-set rule for channel sends/closes of the subscription registry, ownership rule for the hook channel (closed only after an atomic Swap detached it), monotone-id rule, ordering rule (drainer before lock) in the cancel function, guard rules on Receive's results",
		Explanation: "Decides structural necessary conditions: (R26b) handlePush routes message/subscribe/unsubscribe to the channel registry, the p-kinds to the pattern registry and the s-kinds to the shard registry, keyed by values[1], Receive picks the registry by the same table; (R26d) every send into a subscription channel happens under the registry's read lock and every close either under its write lock inside remove (after the subscription was deleted from every channel it is registered under) or on the map detached by Close under the lock; (R26e) subscription ids come from a counter that is only ever incremented by 1 (ids of live subscriptions are distinct), Subscribe registers the subscription under its id and under every requested channel; (R26f) the cancel function starts the drainer of the subscription channel before it waits for the registry's write lock (the reader may be blocked in Publish holding the read lock); (R26a) the hook channel has capacity 1, is closed only by the party whose atomic Swap removed it from the pipe and an error is sent only on a channel so detached, immediately followed by its close; (R26c) Receive calls fn for every value received from its channel while the channel is open, returns ctx.Err() on the context arm and replaces a nil error by p.Error(), and always cancels its subscription.",
		NotDecided:  "exactly-once and ordering of delivery (channel FIFO and reader order are runtime facts), unsubscribe races, replies to regular commands during pub/sub (C01)."}
}

func runC26(r *Report) {
	p := r.P
	// R26b dispatch table
	regOf := map[string]string{"message": "nsubs", "subscribe": "nsubs", "unsubscribe": "nsubs", "pmessage": "psubs", "psubscribe": "psubs", "punsubscribe": "psubs",
		"smessage": "ssubs", "ssubscribe": "ssubs", "sunsubscribe": "ssubs"}
	methOf := func(kind string) string {
		switch {
		case strings.HasSuffix(kind, "unsubscribe"):
			return "Unsubscribe"
		case strings.HasSuffix(kind, "subscribe"):
			return "Confirm"
		}
		return "Publish"
	}
	if fn := r.FnAnchor("R26b", "rueidis.(*pipe).handlePush"); fn != nil {
		seen := map[string]bool{}
		for _, s := range Sites(fn, func(in ssa.Instruction) bool {
			c, ok := in.(ssa.CallInstruction)
			return ok && strings.HasPrefix(CalleeName(c), "rueidis.(*subs).")
		}) {
			meth := strings.TrimPrefix(CalleeName(s.Call()), "rueidis.(*subs).")
			args := CallArgs(s.Call())
			reg := DescDeep(args[0])
			reg = reg[strings.LastIndex(reg, ".")+1:]
			// the kind(s) this arm serves: string-equality guards on values[0].string()
			var kinds []string
			for _, g := range DomGuards(s.Block) {
				if x, op, y, ok := CmpGuard(g); ok && op == token.EQL {
					if sv, iss := ConstString(y); iss && strings.Contains(DescDeep(x), "string(") {
						kinds = append(kinds, sv)
					}
				}
			}
			sort.Strings(kinds)
			ok := len(kinds) == 1 && regOf[kinds[0]] == reg && methOf(kinds[0]) == meth
			why := fmt.Sprintf("kinds %v -> %s.%s", kinds, reg, meth)
			if ok {
				seen[kinds[0]] = true
				// key: values[1].string() for Publish; the subscription built from values for the others
				if meth == "Publish" {
					kd := DescDeep(args[1])
					if !strings.Contains(kd, "p1[1]") {
						ok, why = false, "Publish key is not values[1]: "+kd
					}
				}
			}
			r.ObSite("R26b", s, "kind-to-registry:"+strings.Join(kinds, ","), ok, "push kinds are routed to the registry of their family with the matching operation; "+why)
		}
		var missing []string
		for k := range regOf {
			if !seen[k] {
				missing = append(missing, k)
			}
		}
		sort.Strings(missing)
		r.Ob("R26b", fn, "all-nine-kinds-routed", fn.Pos(), len(missing) == 0, fmt.Sprintf("every pub/sub push kind is routed; missing %v", missing))
	}
	if fn := r.FnAnchor("R26b", "rueidis.(*pipe).Receive"); fn != nil {
		want := map[string]string{"SUBSCRIBE": "nsubs", "PSUBSCRIBE": "psubs", "SSUBSCRIBE": "ssubs"}
		n := 0
		for _, s := range CallSites(fn, "rueidis.(*subs).Subscribe") {
			n++
			recv := CallArgs(s.Call())[0]
			ph, isphi := recv.(*ssa.Phi)
			ok := isphi
			why := ""
			got := map[string]string{}
			if isphi {
				for i, e := range ph.Edges {
					d := DescDeep(e)
					reg := d[strings.LastIndex(d, ".")+1:]
					for _, g := range append(DomGuards(ph.Block().Preds[i]), edgeGuards(ph.Block().Preds[i], ph.Block())...) {
						if _, op, y, cok := CmpGuard(g); cok && op == token.EQL {
							if sv, iss := ConstString(y); iss {
								if _, known := want[sv]; known {
									got[sv] = reg
								}
							}
						}
					}
				}
				for k, v := range want {
					if got[k] != v {
						ok = false
					}
				}
				why = fmt.Sprint(got)
			}
			r.ObSite("R26b", s, "command-to-registry", ok, "Receive subscribes in the registry of the command's family; "+why)
			// args = Commands()[1:]
			ad := DescDeep(CallArgs(s.Call())[1])
			r.ObSite("R26b", s, "subscribed-channels-are-command-args", strings.Contains(ad, "Commands(") && strings.Contains(ad, "[1:"), "the subscription covers exactly the command's channel arguments: "+ad)
		}
		r.Anchor("R26b", "Receive: Subscribe call", n == 1)
	}

	// R26d sends and closes in the registry
	subsFns := p.Funcs("rueidis.(*subs).")
	nSend, nClose := 0, 0
	for _, fn := range subsFns {
		ls := ComputeLockSets(fn, nil)
		for _, s := range Sites(fn, func(in ssa.Instruction) bool { _, ok := in.(*ssa.Send); return ok }) {
			nSend++
			held := ls.At(s)
			ok := false
			for l := range held {
				if strings.HasSuffix(strings.TrimSuffix(l, ":r"), ".mu") {
					ok = true
				}
			}
			r.ObSite("R26d", s, "send-under-registry-lock", ok, "a message is sent into a subscription channel only while the registry lock is held (so the channel cannot be closed concurrently); held: "+setString(held))
		}
		for _, s := range CallSites(fn, "builtin.close") {
			nClose++
			held := ls.At(s)
			w := false
			for l := range held {
				if strings.HasSuffix(l, ".mu") {
					w = true
				}
			}
			name := FuncName(fn)
			switch {
			case name == "rueidis.(*subs).remove":
				// callers hold the write lock
				all := true
				callers := p.Callers("rueidis.(*subs).remove")
				for _, cs := range callers {
					h := ComputeLockSets(cs.Fn, nil).At(cs)
					cw := false
					for l := range h {
						if strings.HasSuffix(l, ".mu") {
							cw = true
						}
					}
					r.ObSite("R26d", cs, "remove-called-under-write-lock", cw, "remove (which closes the subscription channel) runs under the registry's write lock; held: "+setString(h))
					all = all && cw
				}
				// unregistered from every channel: a loop over sb.cs deleting id, and delete(s.sub, id)
				delSub, delCh := false, false
				for _, ds := range CallSites(fn, "builtin.delete") {
					d := DescDeep(ds.Call().Common().Args[0])
					if strings.HasSuffix(d, ".sub") && !strings.Contains(d, "chs") {
						delSub = Desc(ds.Call().Common().Args[1]) == "p1"
					}
					if strings.Contains(d, "chs") {
						delCh = Desc(ds.Call().Common().Args[1]) == "p1"
					}
				}
				r.ObSite("R26d", s, "close-in-remove", all && len(callers) > 0 && delSub && delCh, fmt.Sprintf("the closed subscription is deleted from the id table (%v) and from its channels (%v)", delSub, delCh))
			case w:
				// a live subscription's channel is closed only by remove (which unregisters it from every
				// channel it listens on); a close elsewhere under the lock leaves it registered somewhere
				r.ObSite("R26d", s, "close-only-in-remove", false, "a subscription channel is closed under the lock outside remove: the subscription stays registered under its other channels and the next message for them is sent on a closed channel")
			default:
				// detached map: the closed channels come from a map value read under the lock, and the
				// registry's maps were set to nil under the same lock
				arg := s.Call().Common().Args[0]
				detached := DependsOn(arg, func(v ssa.Value) bool {
					u, ok := v.(*ssa.UnOp)
					if !ok || u.Op != token.MUL || !strings.HasSuffix(Desc(u), ".sub") {
						return false
					}
					h := ls.At(SiteOf(u))
					for l := range h {
						if strings.HasSuffix(l, ".mu") {
							return true
						}
					}
					return false
				})
				nilled := 0
				for _, st := range Sites(fn, func(in ssa.Instruction) bool { x, ok := in.(*ssa.Store); return ok && IsNilConst(x.Val) }) {
					h := ls.At(st)
					for l := range h {
						if strings.HasSuffix(l, ".mu") {
							nilled++
						}
					}
				}
				r.ObSite("R26d", s, "close-on-detached-registry", detached && nilled >= 2, "channels closed outside the lock belong to the table that was detached (read and replaced by nil) under the write lock")
			}
		}
	}
	r.Anchor("R26d", "subscription channel sends (>=1) and closes (>=2)", nSend >= 1 && nClose >= 2)
	// senders/closers outside the registry
	for _, fn := range p.ModuleFuncs() {
		if !strings.HasPrefix(FuncName(fn), "rueidis.") || strings.HasPrefix(FuncName(fn), "rueidis.(*subs).") {
			continue
		}
		for _, s := range Sites(fn, func(in ssa.Instruction) bool {
			if sd, ok := in.(*ssa.Send); ok {
				return strings.Contains(shortType(sd.Chan.Type()), "PubSubMessage")
			}
			if c, ok := CallTo(in, "builtin.close"); ok {
				return strings.Contains(shortType(c.Common().Args[0].Type()), "PubSubMessage")
			}
			return false
		}) {
			r.ObSite("R26d", s, "subscription-channel-touched-outside-registry", false, "only the registry sends into or closes subscription channels")
		}
	}

	// R26e ids
	nAdd := 0
	for _, a := range p.FieldAccesses("rueidis.subs", "cnt") {
		c, isc := a.Instr.(ssa.CallInstruction)
		if !isc {
			if a.Write {
				r.ObSite("R26e", a.Site, "counter-store", false, "the id counter is written directly")
			}
			continue
		}
		switch CalleeName(c) {
		case "sync/atomic.LoadUint64":
		case "sync/atomic.AddUint64":
			nAdd++
			k, isk := ConstInt(c.Common().Args[1])
			r.ObSite("R26e", a.Site, "counter-only-incremented", isk && k == 1, "subscription ids are drawn from a counter that only grows, so a live subscription's id is never issued again")
		default:
			r.ObSite("R26e", a.Site, "counter-op:"+CalleeName(c), false, "the id counter is modified by something other than AddUint64(+1)")
		}
	}
	r.Anchor("R26e", "id counter increment", nAdd == 1)
	if fn := r.FnAnchor("R26e", "rueidis.(*subs).Subscribe"); fn != nil {
		var id ssa.Value
		for _, s := range CallSites(fn, "sync/atomic.AddUint64") {
			id = s.Instr.(*ssa.Call)
		}
		idOK := func(v ssa.Value) bool {
			return id != nil && (v == id || DependsOn(v, func(x ssa.Value) bool { return x == id }))
		}
		regID, regCh := false, false
		for _, s := range Sites(fn, func(in ssa.Instruction) bool { _, ok := in.(*ssa.MapUpdate); return ok }) {
			mu := s.Instr.(*ssa.MapUpdate)
			if shortType(mu.Map.Type()) == "map[uint64]*rueidis.sub" && idOK(mu.Key) {
				if strings.HasSuffix(DescDeep(mu.Map), ".sub") && !strings.Contains(DescDeep(mu.Map), "chs") {
					regID = true
				} else if lh := rangeLoopOver(fn, "p1"); lh != nil && loopBodyAlways(fn, lh, func(in ssa.Instruction) bool { return in == s.Instr }) {
					regCh = true
				}
			}
		}
		r.Ob("R26e", fn, "registered-under-id-and-every-channel", fn.Pos(), regID && regCh, fmt.Sprintf("Subscribe stores the subscription under its fresh id (%v) and, for every requested channel, in that channel's table (%v)", regID, regCh))
		// buffered channel
		for _, b := range fn.Blocks {
			for _, in := range b.Instrs {
				if mc, ok := in.(*ssa.MakeChan); ok {
					k, isk := ConstInt(mc.Size)
					r.ObSite("R26e", SiteOf(in), "subscription-channel-buffered", isk && k >= 1, "subscription channels are buffered")
				}
			}
		}
	}
	// R26f cancel: drainer before lock
	n := 0
	var cancelScope []*ssa.Function
	if sub := p.Fn("rueidis.(*subs).Subscribe"); sub != nil {
		cancelScope = WithHelpers(p, sub)[1:] // its closures, and a cancel method only they call
	}
	for _, fn := range cancelScope {
		if len(CallSites(fn, "rueidis.(*subs).remove")) == 0 {
			continue
		}
		n++
		for _, ls := range CallSites(fn, "sync.(*RWMutex).Lock") {
			drained := false
			for _, gs := range Sites(fn, func(in ssa.Instruction) bool { _, ok := in.(*ssa.Go); return ok }) {
				g := gs.Instr.(*ssa.Go)
				if mc, ok := g.Call.Value.(*ssa.MakeClosure); ok && Dominates(gs, ls) && gs != ls {
					if cf, ok := mc.Fn.(*ssa.Function); ok && drainsChannel(cf) {
						drained = true
					}
				}
			}
			r.ObSite("R26f", ls, "drainer-started-before-waiting-for-lock", drained, "cancel starts a goroutine that drains the subscription channel before it waits for the write lock: the reader may be blocked sending into the full channel while holding the read lock")
		}
	}
	r.Anchor("R26f", "cancel closure of Subscribe", n == 1)

	// R26a hook channel
	nHC := 0
	for _, fn := range p.ModuleFuncs() {
		if !strings.HasPrefix(FuncName(fn), "rueidis.") {
			continue
		}
		isHookCh := func(v ssa.Value) bool {
			if !strings.Contains(shortType(v.Type()), "chan error") {
				return false
			}
			if strings.HasSuffix(Desc(v), ".close") {
				return true
			}
			// the freshly made channel that is installed as a holder's close channel
			if mc, ok := v.(*ssa.MakeChan); ok {
				for _, u := range Uses(mc) {
					if st, isst := u.(*ssa.Store); isst {
						if _, f, _, isf := FieldRef(st.Addr); isf && f == "close" {
							return true
						}
					}
				}
			}
			return false
		}
		owned := func(v ssa.Value, at Site) (bool, string) {
			// v = X.close where X is the result of pshks.Swap (exclusive) ...
			if DependsOn(v, func(x ssa.Value) bool {
				c, ok := x.(*ssa.Call)
				return ok && strings.HasSuffix(CalleeName(c), ".Swap") && strings.Contains(CalleeName(c), "atomic")
			}) {
				return true, "detached by atomic Swap"
			}
			// ... or the holder object was detached (its pshks field set to nil) under the owner's
			// mutex before this point; for a goroutine closure the detachment is checked at the
			// place the goroutine is started
			detachedAt := func(at Site) bool {
				held := p.LockSetsWithCallers(at.Fn, 2).At(at)
				locked := false
				for l := range held {
					if strings.HasSuffix(l, ".mu") {
						locked = true
					}
				}
				if !locked {
					return false
				}
				for _, st := range Sites(at.Fn, func(in ssa.Instruction) bool {
					x, ok := in.(*ssa.Store)
					if !ok || !IsNilConst(x.Val) {
						return false
					}
					_, f, _, isf := FieldRef(x.Addr)
					return isf && f == "pshks"
				}) {
					if Dominates(st, at) {
						return true
					}
				}
				return false
			}
			if detachedAt(at) {
				return true, "detached under the owner's mutex"
			}
			if at.Fn.Parent() != nil {
				for _, gs := range Sites(at.Fn.Parent(), func(in ssa.Instruction) bool {
					g, ok := in.(*ssa.Go)
					if !ok {
						return false
					}
					mc, ok := g.Call.Value.(*ssa.MakeClosure)
					return ok && mc.Fn == ssa.Value(at.Fn)
				}) {
					if detachedAt(gs) {
						return true, "goroutine started after the holder was detached under the owner's mutex"
					}
				}
			}
			return false, "neither swapped out nor under the owner's mutex"
		}
		for _, s := range Sites(fn, func(in ssa.Instruction) bool {
			if c, ok := CallTo(in, "builtin.close"); ok {
				return isHookCh(c.Common().Args[0])
			}
			if sd, ok := in.(*ssa.Send); ok {
				return isHookCh(sd.Chan)
			}
			return false
		}) {
			nHC++
			if sd, ok := s.Instr.(*ssa.Send); ok {
				o, why := owned(sd.Chan, s)
				closed, _ := MustPass(s, func(in ssa.Instruction) bool {
					c, ok := CallTo(in, "builtin.close")
					return ok && Same(c.Common().Args[0], sd.Chan)
				})
				r.ObSite("R26a", s, "hook-error-sent-by-owner-then-closed", o && closed, "an error is sent on the hook channel only by the party that detached it, and the close follows on every path; "+why)
				continue
			}
			o, why := owned(s.Call().Common().Args[0], s)
			r.ObSite("R26a", s, "hook-channel-closed-by-owner", o, "the hook channel is closed only by the party that detached it from the pipe (so it is closed once); "+why)
		}
	}
	r.Anchor("R26a", "hook channel closes/sends (>= 4)", nHC >= 4)
	if fn := r.FnAnchor("R26a", "rueidis.(*pipe).SetPubSubHooks"); fn != nil {
		for _, b := range fn.Blocks {
			for _, in := range b.Instrs {
				if mc, ok := in.(*ssa.MakeChan); ok {
					k, isk := ConstInt(mc.Size)
					r.ObSite("R26a", SiteOf(in), "hook-channel-capacity-1", isk && k == 1, "the hook channel can hold the single error without a receiver")
				}
			}
		}
	}

	// R26c Receive
	if fn := r.FnAnchor("R26c", "rueidis.(*pipe).Receive"); fn != nil {
		// every receive from the subscription channel feeds fn
		nRecv := 0
		scope := WithHelpers(p, fn) // the delivery loop may be a helper that is handed the channel and the callback
		for _, f := range scope {
			// the callback: Receive's own parameter, or the helper's parameter of the same type
			var cb ssa.Value
			for _, prm := range f.Params {
				if strings.Contains(shortType(prm.Type()), "func(") && strings.Contains(shortType(prm.Type()), "PubSubMessage") {
					cb = prm
				}
			}
			for _, b := range f.Blocks {
				for _, in := range b.Instrs {
					var msg ssa.Value
					var at Site
					switch x := in.(type) {
					case *ssa.UnOp:
						if x.Op == token.ARROW && strings.Contains(shortType(x.X.Type()), "PubSubMessage") {
							msg, at = x, SiteOf(in)
						}
					case *ssa.Select:
						for i, st := range x.States {
							if st.Dir == 2 /* RecvOnly */ && strings.Contains(shortType(st.Chan.Type()), "PubSubMessage") {
								_ = i
								msg, at = x, SiteOf(in)
							}
						}
					}
					if msg == nil {
						continue
					}
					nRecv++
					delivered := false
					for _, cs := range Sites(f, func(in ssa.Instruction) bool {
						c, ok := in.(*ssa.Call)
						return ok && cb != nil && c.Call.Value == cb
					}) {
						arg := cs.Call().Common().Args[0]
						if DependsOn(arg, func(v ssa.Value) bool { return v == msg }) && at.Block.Dominates(cs.Block) {
							delivered = true
						}
					}
					r.ObSite("R26c", at, "received-message-delivered", delivered, "a message received from the subscription channel is handed to the callback")
				}
			}
		}
		r.Anchor("R26c", "Receive: channel receives (2 arms)", nRecv >= 2)
		// ctx arm
		ctxErr := false
		for _, f := range scope {
			for _, s := range Sites(f, func(in ssa.Instruction) bool {
				c, ok := in.(ssa.CallInstruction)
				return ok && CalleeName(c) == "iface:context.Context.Err"
			}) {
				_ = s
				ctxErr = true
			}
		}
		r.Ob("R26c", fn, "context-arm-returns-ctx-error", fn.Pos(), ctxErr, "the context arm of Receive's select reports ctx.Err()")
		nilRepl := false
		for _, s := range CallSites(fn, "rueidis.(*pipe).Error") {
			if Guarded(s.Block, func(g Guard) bool {
				x, op, y, ok := CmpGuard(g)
				return ok && op == token.EQL && IsNilConst(y) && shortType(x.Type()) == "error"
			}) {
				nilRepl = true
			}
		}
		r.Ob("R26c", fn, "nil-error-replaced-by-pipe-error", fn.Pos(), nilRepl, "when the loop ends without an error, the pipe's own error (ErrClosing after Close, nil after an unsubscribe) is returned")
		// cancel always deferred when subscribed
		def := false
		for _, s := range Sites(fn, func(in ssa.Instruction) bool { _, ok := in.(*ssa.Defer); return ok }) {
			d := s.Instr.(*ssa.Defer)
			if ex, ok := d.Call.Value.(*ssa.Extract); ok && ex.Index == 1 {
				if c, ok := ex.Tuple.(*ssa.Call); ok && CalleeName(c) == "rueidis.(*subs).Subscribe" {
					def = true
				}
			}
		}
		r.Ob("R26c", fn, "subscription-cancelled-on-return", fn.Pos(), def, "Receive defers the subscription's cancel function")
	}
}

func edgeGuards(from, to *ssa.BasicBlock) []Guard {
	if iff, ok := from.Instrs[len(from.Instrs)-1].(*ssa.If); ok && len(from.Succs) == 2 && from.Succs[0] != from.Succs[1] {
		return []Guard{normGuard(Guard{iff.Cond, from.Succs[0] == to, from})}
	}
	return nil
}

// drainsChannel: fn only receives from a captured channel until it is closed.
func drainsChannel(fn *ssa.Function) bool {
	recv := false
	for _, b := range fn.Blocks {
		for _, in := range b.Instrs {
			switch x := in.(type) {
			case *ssa.UnOp:
				if x.Op == token.ARROW {
					recv = true
				}
			case *ssa.Next, *ssa.Range:
				recv = true
			case ssa.CallInstruction:
				_ = x
				return false
			case *ssa.Send, *ssa.Store, *ssa.MapUpdate:
				return false
			}
		}
	}
	return recv
}
