package rv

import (
	"fmt"
	"regexp"
	"sort"
	"strings"
)

// luaReturn is one `return` statement of an embedded Lua script: its byte offset and the
// conditions of the if/elseif/else blocks that enclose it (outermost first).
type luaReturn struct {
	Off   int
	Conds []string
	Kind  string   // "return", or "call:<lower-case redis command>" for redis.call / redis.pcall
	Sig   []string // enclosing if-blocks as "<block id>.<arm index>", outermost first
	Loop  bool     // inside for / while / repeat
	Loops []int    // ids of the enclosing loops, outermost first
	Name  string   // for "local" and "assign": the variable
	RHS   string   // for "assign" (and "local" with an initialiser): rest of the line after `=`
}

var luaRedisCall = regexp.MustCompile(`^redis\.p?call\(\s*["']([A-Za-z.]+)["']`)

// luaCoExecutable reports whether the earlier site a and the later site b can both execute in one
// run as far as block structure tells: not when they sit in different arms of one if-block, and
// not when a return between them closes an arm that encloses a.
func luaCoExecutable(a, b luaReturn, sites []luaReturn) bool {
	for i := 0; i < len(a.Sig) && i < len(b.Sig); i++ {
		ba, bb := a.Sig[i][:strings.IndexByte(a.Sig[i], '.')], b.Sig[i][:strings.IndexByte(b.Sig[i], '.')]
		if ba != bb {
			break
		}
		if a.Sig[i] != b.Sig[i] {
			return false
		}
	}
	for _, r := range sites {
		if r.Kind != "return" || r.Off <= a.Off || r.Off >= b.Off || len(r.Sig) > len(a.Sig) {
			continue
		}
		pre := true
		for i := range r.Sig {
			if r.Sig[i] != a.Sig[i] {
				pre = false
			}
		}
		if pre {
			return false
		}
	}
	return true
}

// luaReturnsOnly filters the scan down to the return statements.
func luaReturnsOnly(sites []luaReturn) []luaReturn {
	var out []luaReturn
	for _, s := range sites {
		if s.Kind == "return" {
			out = append(out, s)
		}
	}
	return out
}

// luaReturns is a block-structure scan of Lua source (comments and string literals skipped):
// it tracks if/for/while/function/do/repeat nesting and reports every `return` with the
// conditions of its enclosing `if` blocks. It does not interpret the script.
func luaReturns(src string) []luaReturn {
	type blk struct {
		kind string
		cond string
		id   int
		arm  int
	}
	var stack []blk
	var out []luaReturn
	nextID := 0
	mk := func(kind string, off int) luaReturn {
		lr := luaReturn{Off: off, Kind: kind}
		for _, b := range stack {
			if b.kind == "if" {
				lr.Conds = append(lr.Conds, b.cond)
				lr.Sig = append(lr.Sig, fmt.Sprintf("%d.%d", b.id, b.arm))
			}
			if b.kind == "for" || b.kind == "while" || b.kind == "repeat" {
				lr.Loop = true
				lr.Loops = append(lr.Loops, b.id)
			}
		}
		return lr
	}
	isW := func(c byte) bool {
		return c == '_' || c >= 'a' && c <= 'z' || c >= 'A' && c <= 'Z' || c >= '0' && c <= '9'
	}
	pendingDo := false
	prevWord := ""
	condStart := -1 // inside `if ... then`
	for i := 0; i < len(src); {
		c := src[i]
		switch {
		case c == '-' && strings.HasPrefix(src[i:], "--"):
			if strings.HasPrefix(src[i:], "--[[") {
				if e := strings.Index(src[i:], "]]"); e >= 0 {
					i += e + 2
				} else {
					i = len(src)
				}
			} else if e := strings.IndexByte(src[i:], '\n'); e >= 0 {
				i += e
			} else {
				i = len(src)
			}
		case c == '"' || c == '\'':
			j := i + 1
			for j < len(src) && src[j] != c {
				if src[j] == '\\' {
					j++
				}
				j++
			}
			i = j + 1
		case c == '[' && strings.HasPrefix(src[i:], "[["):
			if e := strings.Index(src[i:], "]]"); e >= 0 {
				i += e + 2
			} else {
				i = len(src)
			}
		case isW(c) && !(c >= '0' && c <= '9'):
			j := i
			for j < len(src) && isW(src[j]) {
				j++
			}
			w := src[i:j]
			switch w {
			case "if":
				nextID++
				stack = append(stack, blk{kind: "if", id: nextID})
				condStart = j
			case "elseif":
				if len(stack) > 0 {
					stack[len(stack)-1].arm++
				}
				condStart = j
			case "else":
				if len(stack) > 0 {
					stack[len(stack)-1].arm++
				}
			case "table":
				if strings.HasPrefix(src[j:], ".insert(") {
					ev := mk("insert", i)
					e := strings.IndexByte(src[j:], '\n')
					if e < 0 {
						e = len(src) - j
					}
					ev.RHS = src[j : j+e]
					out = append(out, ev)
				}
			case "redis":
				if m := luaRedisCall.FindStringSubmatch(src[i:]); m != nil {
					out = append(out, mk("call:"+strings.ToLower(m[1]), i))
				}
			case "then":
				if condStart >= 0 && len(stack) > 0 {
					top := &stack[len(stack)-1]
					if top.cond != "" {
						top.cond += " | "
					}
					top.cond += strings.TrimSpace(src[condStart:i])
					condStart = -1
				}
			case "for", "while":
				nextID++
				stack = append(stack, blk{kind: w, id: nextID})
				pendingDo = true
			case "do":
				if pendingDo {
					pendingDo = false
				} else {
					stack = append(stack, blk{kind: "do"})
				}
			case "function", "repeat":
				nextID++
				stack = append(stack, blk{kind: w, id: nextID})
			case "end", "until":
				if len(stack) > 0 {
					stack = stack[:len(stack)-1]
				}
			case "return":
				out = append(out, mk("return", i))
			default:
				k := j
				for k < len(src) && (src[k] == ' ' || src[k] == '\t') {
					k++
				}
				isAssign := k < len(src) && src[k] == '=' && (k+1 >= len(src) || src[k+1] != '=')
				pc := byte(0)
				for q := i - 1; q >= 0; q-- {
					if src[q] != ' ' && src[q] != '\t' {
						pc = src[q]
						break
					}
				}
				rhs := ""
				if isAssign {
					e := strings.IndexByte(src[k:], '\n')
					if e < 0 {
						e = len(src) - k
					}
					rhs = strings.TrimSpace(src[k+1 : k+e])
				}
				if prevWord == "local" {
					ev := mk("local", i)
					ev.Name, ev.RHS = w, rhs
					out = append(out, ev)
				} else if isAssign && prevWord != "for" && pc != '.' && pc != ':' && pc != '[' && pc != '~' && pc != '<' && pc != '>' {
					ev := mk("assign", i)
					ev.Name, ev.RHS = w, rhs
					out = append(out, ev)
				}
			}
			prevWord = w
			if w == "local" && false {
				prevWord = ""
			}
			i = j
		default:
			if c != ' ' && c != '\t' {
				prevWord = ""
			}
			i++
		}
	}
	return out
}

var luaGetAssign = regexp.MustCompile(`([A-Za-z_][A-Za-z0-9_]*)\s*=\s*(?:tonumber\(\s*)?redis\.call\(\s*["']get["']\s*,`)

// luaMentions reports whether cond uses one of the names as a whole word.
func luaMentions(cond string, names []string) bool {
	for _, n := range names {
		if regexp.MustCompile(`(^|[^A-Za-z0-9_])` + regexp.QuoteMeta(n) + `($|[^A-Za-z0-9_])`).MatchString(cond) {
			return true
		}
	}
	return false
}


// luaUnrearmedLoopState lists the variables that feed a per-item answer (they appear in a
// table.insert inside the loop; whole-batch accumulators do not) and carry state across the iterations of a loop of the
// script (declared before the loop, assigned inside it from their own value or under a condition
// on their own value) and are never re-armed inside that loop: no assignment from a value that does
// not depend on them, outside any condition on them. Answers computed per item from such a variable
// depend on the items that precede it in the batch.
func luaUnrearmedLoopState(src string) (carried, unrearmed []string) {
	evs := luaReturns(src)
	in := func(ids []int, id int) bool {
		for _, x := range ids {
			if x == id {
				return true
			}
		}
		return false
	}
	loops := map[int]bool{}
	for _, e := range evs {
		for _, l := range e.Loops {
			loops[l] = true
		}
	}
	for l := range loops {
		first := -1
		for _, e := range evs {
			if in(e.Loops, l) && (first < 0 || e.Off < first) {
				first = e.Off
			}
		}
		seen := map[string]bool{}
		for _, d := range evs {
			if d.Kind != "local" || in(d.Loops, l) || d.Off > first || seen[d.Name] {
				continue
			}
			seen[d.Name] = true
			v := []string{d.Name}
			feedsAnswer := false
			for _, a := range evs {
				if a.Kind == "insert" && in(a.Loops, l) && luaMentions(a.RHS, v) {
					feedsAnswer = true
				}
			}
			if !feedsAnswer {
				continue
			}
			isCarried, rearmed := false, false
			for _, a := range evs {
				if a.Kind != "assign" || a.Name != d.Name || !in(a.Loops, l) {
					continue
				}
				condOnSelf := false
				for _, c := range a.Conds {
					if luaMentions(c, v) {
						condOnSelf = true
					}
				}
				if luaMentions(a.RHS, v) || condOnSelf {
					isCarried = true
				} else {
					rearmed = true
				}
			}
			if isCarried {
				carried = append(carried, d.Name)
				if !rearmed {
					unrearmed = append(unrearmed, d.Name)
				}
			}
		}
	}
	sort.Strings(carried)
	sort.Strings(unrearmed)
	return
}
