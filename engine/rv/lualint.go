package rv

import (
	"fmt"
	"regexp"
	"strings"
)

// luaReturn is one `return` statement of an embedded Lua script: its byte offset and the
// conditions of the if/elseif/else blocks that enclose it (outermost first).
type luaReturn struct {
	Off   int
	Conds []string
	Kind  string   // "return", or "call:<lower-case redis command>" for redis.call / redis.pcall
	Sig   []string // enclosing if-blocks as "<block id>.<arm index>", outermost first
	Loop  bool     // inside for / while / repeat
}

var luaRedisCall = regexp.MustCompile(`^redis\.p?call\(\s*["']([A-Za-z.]+)["']`)

// luaCoExecutable reports whether the earlier site a and the later site b can both execute in one
// run as far as block structure tells: not when they sit in different arms of one if-block, and
// not when a return between them closes an arm that encloses a.
func luaCoExecutable(a, b luaReturn, sites []luaReturn) bool {
	for i := 0; i < len(a.Sig) && i < len(b.Sig); i++ {
		ba, bb := a.Sig[i][:strings.IndexByte(a.Sig[i], '.')], b.Sig[i][:strings.IndexByte(b.Sig[i], '.')]
		if ba != bb {
			break
		}
		if a.Sig[i] != b.Sig[i] {
			return false
		}
	}
	for _, r := range sites {
		if r.Kind != "return" || r.Off <= a.Off || r.Off >= b.Off || len(r.Sig) > len(a.Sig) {
			continue
		}
		pre := true
		for i := range r.Sig {
			if r.Sig[i] != a.Sig[i] {
				pre = false
			}
		}
		if pre {
			return false
		}
	}
	return true
}

// luaReturnsOnly filters the scan down to the return statements.
func luaReturnsOnly(sites []luaReturn) []luaReturn {
	var out []luaReturn
	for _, s := range sites {
		if s.Kind == "return" {
			out = append(out, s)
		}
	}
	return out
}

// luaReturns is a block-structure scan of Lua source (comments and string literals skipped):
// it tracks if/for/while/function/do/repeat nesting and reports every `return` with the
// conditions of its enclosing `if` blocks. It does not interpret the script.
func luaReturns(src string) []luaReturn {
	type blk struct {
		kind string
		cond string
		id   int
		arm  int
	}
	var stack []blk
	var out []luaReturn
	nextID := 0
	mk := func(kind string, off int) luaReturn {
		lr := luaReturn{Off: off, Kind: kind}
		for _, b := range stack {
			if b.kind == "if" {
				lr.Conds = append(lr.Conds, b.cond)
				lr.Sig = append(lr.Sig, fmt.Sprintf("%d.%d", b.id, b.arm))
			}
			if b.kind == "for" || b.kind == "while" || b.kind == "repeat" {
				lr.Loop = true
			}
		}
		return lr
	}
	isW := func(c byte) bool {
		return c == '_' || c >= 'a' && c <= 'z' || c >= 'A' && c <= 'Z' || c >= '0' && c <= '9'
	}
	pendingDo := false
	condStart := -1 // inside `if ... then`
	for i := 0; i < len(src); {
		c := src[i]
		switch {
		case c == '-' && strings.HasPrefix(src[i:], "--"):
			if strings.HasPrefix(src[i:], "--[[") {
				if e := strings.Index(src[i:], "]]"); e >= 0 {
					i += e + 2
				} else {
					i = len(src)
				}
			} else if e := strings.IndexByte(src[i:], '\n'); e >= 0 {
				i += e
			} else {
				i = len(src)
			}
		case c == '"' || c == '\'':
			j := i + 1
			for j < len(src) && src[j] != c {
				if src[j] == '\\' {
					j++
				}
				j++
			}
			i = j + 1
		case c == '[' && strings.HasPrefix(src[i:], "[["):
			if e := strings.Index(src[i:], "]]"); e >= 0 {
				i += e + 2
			} else {
				i = len(src)
			}
		case isW(c) && !(c >= '0' && c <= '9'):
			j := i
			for j < len(src) && isW(src[j]) {
				j++
			}
			w := src[i:j]
			switch w {
			case "if":
				nextID++
				stack = append(stack, blk{kind: "if", id: nextID})
				condStart = j
			case "elseif":
				if len(stack) > 0 {
					stack[len(stack)-1].arm++
				}
				condStart = j
			case "else":
				if len(stack) > 0 {
					stack[len(stack)-1].arm++
				}
			case "redis":
				if m := luaRedisCall.FindStringSubmatch(src[i:]); m != nil {
					out = append(out, mk("call:"+strings.ToLower(m[1]), i))
				}
			case "then":
				if condStart >= 0 && len(stack) > 0 {
					top := &stack[len(stack)-1]
					if top.cond != "" {
						top.cond += " | "
					}
					top.cond += strings.TrimSpace(src[condStart:i])
					condStart = -1
				}
			case "for", "while":
				stack = append(stack, blk{kind: w})
				pendingDo = true
			case "do":
				if pendingDo {
					pendingDo = false
				} else {
					stack = append(stack, blk{kind: "do"})
				}
			case "function", "repeat":
				stack = append(stack, blk{kind: w})
			case "end", "until":
				if len(stack) > 0 {
					stack = stack[:len(stack)-1]
				}
			case "return":
				out = append(out, mk("return", i))
			}
			i = j
		default:
			i++
		}
	}
	return out
}

var luaGetAssign = regexp.MustCompile(`([A-Za-z_][A-Za-z0-9_]*)\s*=\s*(?:tonumber\(\s*)?redis\.call\(\s*["']get["']\s*,`)

// luaMentions reports whether cond uses one of the names as a whole word.
func luaMentions(cond string, names []string) bool {
	for _, n := range names {
		if regexp.MustCompile(`(^|[^A-Za-z0-9_])` + regexp.QuoteMeta(n) + `($|[^A-Za-z0-9_])`).MatchString(cond) {
			return true
		}
	}
	return false
}
