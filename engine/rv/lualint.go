package rv

import (
	"regexp"
	"strings"
)

// luaReturn is one `return` statement of an embedded Lua script: its byte offset and the
// conditions of the if/elseif/else blocks that enclose it (outermost first).
type luaReturn struct {
	Off   int
	Conds []string
}

// luaReturns is a block-structure scan of Lua source (comments and string literals skipped):
// it tracks if/for/while/function/do/repeat nesting and reports every `return` with the
// conditions of its enclosing `if` blocks. It does not interpret the script.
func luaReturns(src string) []luaReturn {
	type blk struct {
		kind string
		cond string
	}
	var stack []blk
	var out []luaReturn
	isW := func(c byte) bool {
		return c == '_' || c >= 'a' && c <= 'z' || c >= 'A' && c <= 'Z' || c >= '0' && c <= '9'
	}
	pendingDo := false
	condStart := -1 // inside `if ... then`
	for i := 0; i < len(src); {
		c := src[i]
		switch {
		case c == '-' && strings.HasPrefix(src[i:], "--"):
			if strings.HasPrefix(src[i:], "--[[") {
				if e := strings.Index(src[i:], "]]"); e >= 0 {
					i += e + 2
				} else {
					i = len(src)
				}
			} else if e := strings.IndexByte(src[i:], '\n'); e >= 0 {
				i += e
			} else {
				i = len(src)
			}
		case c == '"' || c == '\'':
			j := i + 1
			for j < len(src) && src[j] != c {
				if src[j] == '\\' {
					j++
				}
				j++
			}
			i = j + 1
		case c == '[' && strings.HasPrefix(src[i:], "[["):
			if e := strings.Index(src[i:], "]]"); e >= 0 {
				i += e + 2
			} else {
				i = len(src)
			}
		case isW(c) && !(c >= '0' && c <= '9'):
			j := i
			for j < len(src) && isW(src[j]) {
				j++
			}
			w := src[i:j]
			switch w {
			case "if":
				stack = append(stack, blk{kind: "if"})
				condStart = j
			case "elseif":
				condStart = j
			case "then":
				if condStart >= 0 && len(stack) > 0 {
					top := &stack[len(stack)-1]
					if top.cond != "" {
						top.cond += " | "
					}
					top.cond += strings.TrimSpace(src[condStart:i])
					condStart = -1
				}
			case "for", "while":
				stack = append(stack, blk{kind: w})
				pendingDo = true
			case "do":
				if pendingDo {
					pendingDo = false
				} else {
					stack = append(stack, blk{kind: "do"})
				}
			case "function", "repeat":
				stack = append(stack, blk{kind: w})
			case "end", "until":
				if len(stack) > 0 {
					stack = stack[:len(stack)-1]
				}
			case "return":
				lr := luaReturn{Off: i}
				for _, b := range stack {
					if b.kind == "if" {
						lr.Conds = append(lr.Conds, b.cond)
					}
				}
				out = append(out, lr)
			}
			i = j
		default:
			i++
		}
	}
	return out
}

var luaGetAssign = regexp.MustCompile(`([A-Za-z_][A-Za-z0-9_]*)\s*=\s*(?:tonumber\(\s*)?redis\.call\(\s*["']get["']\s*,`)

// luaMentions reports whether cond uses one of the names as a whole word.
func luaMentions(cond string, names []string) bool {
	for _, n := range names {
		if regexp.MustCompile(`(^|[^A-Za-z0-9_])` + regexp.QuoteMeta(n) + `($|[^A-Za-z0-9_])`).MatchString(cond) {
			return true
		}
	}
	return false
}
