package rv

import (
	"go/token"
	"strings"

	"golang.org/x/tools/go/ssa"
)

func init() {
	Registry["C02"] = RuleDef{Module: ".", Run: runC02,
		Technique:   "lock-set analysis, guarded-field rule, condition-variable discipline (wait-in-loop, monitor rule, state-change=>wake-up), slot state-machine guards, index-mask rule and token-cycle rule on go/ssa over ring.go and flowbuffer.go",
		Explanation: "Decides structural necessary conditions of the queue hand-off: (R02a) every lock taken in ring.go is released on all paths, except the acquiring wrapper NextResultCh, which returns holding the slot lock on the path on which it took a slot and is paired with the releasing wrapper FinishResult; (R02b) every access of a slot's mark/one/multi/resps/slept happens under that slot's mutex; (R02c) every Cond.Wait sits in a loop that re-reads the slot state, every wake-up obeys the monitor rule (c1 and c2 share one mutex by construction), and a store of mark=1 is followed on all paths by a wake-up of the writer's condition unless the slept flag read in the same critical section is false; (R02f) the slot state machine: mark=1 only after mark==0 was established, mark=2 only under mark==1, mark=0 only under mark==2 together with clearing the slot, and the speculative cursor increment is undone on the arm where the state test failed; (R02d) the slot array and mask are written only by the constructor, the array length is a power of two (2<<k), mask=len-1, and every slot index is masked; (R02e) the flow buffer's three channels have the same capacity, the free list is pre-filled with exactly that many tokens, and every queue method moves a token along the cycle f->w->r->f (receive before send, exactly one send per received token). (R02h) every result the reader delivers - in its failure handler too - is followed by the release of the request's slot.",
		NotDecided:  "FIFO order and exactly-once hand-off across interleavings, absence of deadlock with more callers than slots (model-checking questions outside this technique)."}
}

const nodeT = "rueidis.node"

func ringAlias(l string) string { return strings.Replace(l, ".c2.L", ".c1.L", 1) }

func runC02(r *Report) {
	p := r.P
	ringFns := ringScope(p)
	inRing := map[string]bool{}
	for _, f := range ringFns {
		inRing[FuncName(TopFunc(f))] = true
	}
	r.Anchor("R02", "methods of rueidis.ring", len(ringFns) >= 6)
	nrc := r.FnAnchor("R02a", "rueidis.(*ring).NextResultCh")
	fin := r.FnAnchor("R02a", "rueidis.(*ring).FinishResult")
	newRing := r.FnAnchor("R02d", "rueidis.newRing")

	// R02a lock pairing
	for _, fn := range ringFns {
		ls := ComputeLockSets(fn, map[string]bool{})
		rets := ls.AtReturn()
		switch fn {
		case nrc:
			// holds the slot lock at return (acquiring wrapper) on every path
			ok := len(rets) > 0
			for _, s := range rets {
				if len(s) != 1 {
					ok = false
				}
			}
			r.Ob("R02a", fn, "acquiring-wrapper", fn.Pos(), ok, "NextResultCh returns holding exactly the slot lock on every path (released by FinishResult)")
			// and records the cond to release in r.resc before returning
			rec := false
			for _, a := range FieldAccessesIn(fn, "rueidis.ring", "resc") {
				if st, isst := a.Instr.(*ssa.Store); isst && IsFieldLoad(st.Val, nodeT, "c1") {
					if okp, _ := MustPassFromEntry(fn, func(in ssa.Instruction) bool { return in == a.Instr }); okp {
						rec = true
					}
				}
			}
			r.Ob("R02a", fn, "acquiring-wrapper-records-cond", fn.Pos(), rec, "NextResultCh stores the slot's condition into r.resc on every path so that FinishResult can unlock and signal it")
		case fin:
			n := 0
			for _, b := range fn.Blocks {
				for i, in := range b.Instrs {
					if op, l, ok := LockOp(in); ok && op == "unlock" {
						n++
						g := Guarded(b, func(g Guard) bool {
							x, op2, y, cok := CmpGuard(g)
							return cok && op2 == token.NEQ && IsNilConst(y) && IsFieldLoad(x, "rueidis.ring", "resc")
						})
						r.ObSite("R02a", Site{fn, b, i, in}, "releasing-wrapper", g && strings.HasSuffix(l, ".resc.L"), "FinishResult unlocks the recorded slot lock only when one was recorded")
					}
				}
			}
			r.Anchor("R02a", "unlock in FinishResult", n == 1)
			// freeing a slot (mark=0 in NextResultCh) obliges the releasing wrapper to wake the putters
			for _, us := range Sites(fn, func(in ssa.Instruction) bool { op, _, ok := LockOp(in); return ok && op == "unlock" }) {
				okw, _ := MustPass(us, func(in ssa.Instruction) bool {
					c, is := CallTo(in, "sync.(*Cond).Signal", "sync.(*Cond).Broadcast")
					return is && IsFieldLoad(c.Common().Args[0], "rueidis.ring", "resc")
				})
				r.ObSite("R02c", us, "freed-slot-wakes-putters", okw, "after releasing a freed slot FinishResult must signal the slot's condition c1, otherwise callers parked in PutOne/PutMulti on that slot sleep forever (lost wake-up)")
			}
		default:
			ok := true
			for _, s := range rets {
				if len(s) != 0 {
					ok = false
				}
			}
			nLock := len(Sites(fn, func(in ssa.Instruction) bool { op, _, isl := LockOp(in); return isl && op == "lock" }))
			if nLock > 0 {
				r.Ob("R02a", fn, "lock-released-on-all-paths", fn.Pos(), ok, "every path to return has released the slot lock")
			}
		}
	}
	r.Min("R02a", 6)
	// in the teardown loop of _background every NextResultCh is followed by FinishResult
	if bg := r.FnAnchor("R02a", "rueidis.(*pipe)._background"); bg != nil {
		for _, s := range CallSites(bg, "iface:rueidis.queue.NextResultCh") {
			ok, _ := MustPass(s, func(in ssa.Instruction) bool { _, is := CallTo(in, "iface:rueidis.queue.FinishResult"); return is })
			again, _ := Reaches(s, func(x Site) bool { _, is := CallTo(x.Instr, "iface:rueidis.queue.NextResultCh"); return is },
				func(x Site) bool { _, is := CallTo(x.Instr, "iface:rueidis.queue.FinishResult"); return is })
			r.ObSite("R02a", s, "wrapper-pairing", ok && !again, "every NextResultCh (which may return holding a slot lock) is followed by FinishResult before the next NextResultCh and before return")
		}
	}

	// R02h: the reader releases the slot of every request it completed: each send on a result channel
	// in the reader (its failure handler included) is followed by FinishResult on every path. The
	// slot lock is held since NextResultCh; the teardown loop's own NextResultCh overwrites the
	// recorded condition, so a missed release there is never made up for.
	if rd := r.FnAnchor("R02h", "rueidis.(*pipe)._backgroundRead"); rd != nil {
		nSend := 0
		for _, f := range WithHelpers(r.P, rd) {
			for _, s := range Sites(f, func(in ssa.Instruction) bool {
				sd, ok := in.(*ssa.Send)
				return ok && strings.Contains(shortType(sd.Chan.Type()), "RedisResult")
			}) {
				nSend++
				ok, _ := MustPass(s, func(in ssa.Instruction) bool { _, is := CallTo(in, "iface:rueidis.queue.FinishResult"); return is })
				r.ObSite("R02h", s, "delivered-request-releases-its-slot", ok, "after the reader delivered a request's result it releases the request's queue slot (FinishResult) on every path")
			}
		}
		r.Anchor("R02h", "reader result deliveries (>= 2)", nSend >= 2)
	}

	// R02g: a slot is released only after its reply was delivered: no send on a result channel is
	// in the straight-line code following FinishResult (whether a later loop iteration delivers again is data-dependent and not decided) (the slot and its channel may
	// already belong to the next caller).
	nFin := 0
	for _, fn := range p.Funcs("rueidis.(*pipe).") {
		for _, s := range CallSites(fn, "iface:rueidis.queue.FinishResult") {
			nFin++
			// straight-line region after the release: the rest of the block and unconditional successors
			late := false
			var at Site
			blk, from := s.Block, s.Idx+1
			for hops := 0; hops < 8 && !late; hops++ {
				for i := from; i < len(blk.Instrs); i++ {
					if sd, ok := blk.Instrs[i].(*ssa.Send); ok && strings.Contains(shortType(sd.Chan.Type()), "RedisResult") {
						late, at = true, Site{fn, blk, i, blk.Instrs[i]}
						break
					}
					if _, is := CallTo(blk.Instrs[i], "iface:rueidis.queue.NextResultCh"); is {
						hops = 99
						break
					}
				}
				if len(blk.Succs) != 1 || IsLoopHeader(blk.Succs[0]) {
					break
				}
				blk, from = blk.Succs[0], 0
			}
			why := "the reply is delivered before the slot is released"
			if late {
				why = "after FinishResult released the slot, a reply is still sent on a result channel at " + p.Pos(InstrPos(at.Instr)) + " without a new NextResultCh: the slot (and its channel) may already belong to another caller, who would receive this reply"
			}
			r.ObSite("R02g", s, "deliver-before-release", !late, why)
		}
	}
	r.Anchor("R02g", "FinishResult call sites in pipe", nFin >= 3)

	// R02b guarded fields
	for _, f := range []string{"mark", "one", "multi", "resps", "slept"} {
		r.FieldLockCheck("R02b", nodeT, f, "c1.L", ringFns)
	}
	r.Min("R02b", 25)
	// nobody else touches slot fields
	for _, f := range []string{"mark", "one", "multi", "resps", "slept"} {
		for _, a := range p.FieldAccesses(nodeT, f) {
			if !inRing[FuncName(TopFunc(a.Fn))] {
				r.ObSite("R02b", a.Site, "slot-field-outside-ring:"+f, false, "slot state may only be accessed by the ring's own methods")
			}
		}
	}

	// R02c-i waits in loops re-reading state
	for _, fn := range ringFns {
		for _, s := range CallSites(fn, "sync.(*Cond).Wait") {
			var hdr *ssa.BasicBlock
			for _, b := range fn.Blocks {
				if IsLoopHeader(b) && b.Dominates(s.Block) {
					for _, pr := range b.Preds {
						if b.Dominates(pr) && (pr == s.Block || reachesBlock(s.Block, pr)) {
							hdr = b
						}
					}
				}
			}
			reread := false
			if hdr != nil {
				if iff, ok := hdr.Instrs[len(hdr.Instrs)-1].(*ssa.If); ok {
					reread = DependsOn(iff.Cond, func(v ssa.Value) bool {
						u, ok := v.(*ssa.UnOp)
						return ok && u.Op == token.MUL && IsFieldAddr(u.X, nodeT, "mark") && u.Block() == hdr
					})
				}
			}
			r.ObSite("R02c", s, "wait-in-loop-rereading-mark", hdr != nil && reread, "Cond.Wait must sit in a loop whose condition re-reads the slot's mark after every wake-up (spurious and stolen wake-ups)")
		}
	}
	// R02c-ii monitor rule, c1 and c2 share one mutex
	monitorRuleAlias(r, "R02c", func(fn *ssa.Function) bool { return strings.HasPrefix(FuncName(fn), "rueidis.(*ring).") }, ringAlias)
	if newRing != nil {
		// both conditions of a slot are created on the same mutex
		var ms []ssa.Value
		for _, s := range CallSites(newRing, "sync.NewCond") {
			ms = append(ms, Strip(s.Call().Common().Args[0]))
		}
		r.Ob("R02c", newRing, "c1-c2-share-mutex", newRing.Pos(), len(ms) == 2 && ms[0] == ms[1], "the two conditions of a slot must be built on the same mutex (the guarded-field and monitor rules rely on it)")
	}
	// a transition guard may be established by the caller of a slot helper: (*node).helper() stores
	// through its receiver, the ring method that calls it tested that node's mark
	transGuard := func(fn *ssa.Function, blk *ssa.BasicBlock, nodeBase ssa.Value, want int64) bool {
		if Guarded(blk, func(g Guard) bool { return markGuard(g, nodeBase, want) }) {
			return true
		}
		prm, isp := nodeBase.(*ssa.Parameter)
		if !isp || len(fn.Params) == 0 || fn.Params[0] != prm {
			return false
		}
		cs := p.Callers(FuncName(fn))
		if len(cs) == 0 {
			return false
		}
		for _, c := range cs {
			args := CallArgs(c.Call())
			if len(args) == 0 || !Guarded(c.Block, func(g Guard) bool { return markGuard(g, args[0], want) }) {
				return false
			}
		}
		return true
	}
	// R02c-iii queued => wake the writer
	for _, fn := range ringFns {
		for _, a := range FieldAccessesIn(fn, nodeT, "mark") {
			st, ok := a.Instr.(*ssa.Store)
			if !ok {
				continue
			}
			k, isc := ConstInt(st.Val)
			if !isc {
				r.ObSite("R02f", a.Site, "mark-store-not-constant", false, "slot state must be one of the constants 0,1,2")
				continue
			}
			_, _, nodeBase, _ := FieldRef(st.Addr)
			switch k {
			case 1:
				// wake-up
				woken := true
				var walk func(b *ssa.BasicBlock, from int, seen map[*ssa.BasicBlock]bool)
				walk = func(b *ssa.BasicBlock, from int, seen map[*ssa.BasicBlock]bool) {
					for i := from; i < len(b.Instrs); i++ {
						if c, is := CallTo(b.Instrs[i], "sync.(*Cond).Broadcast", "sync.(*Cond).Signal"); is && IsFieldLoad(c.Common().Args[0], nodeT, "c2") {
							return
						}
						if _, isret := b.Instrs[i].(*ssa.Return); isret {
							woken = false
							return
						}
					}
					if iff, isif := b.Instrs[len(b.Instrs)-1].(*ssa.If); isif {
						if u, isu := iff.Cond.(*ssa.UnOp); isu && IsFieldAddr(u.X, nodeT, "slept") && u.Block() == a.Block {
							// the writer is not asleep: no wake-up needed on the false edge
							if !seen[b.Succs[0]] {
								seen[b.Succs[0]] = true
								walk(b.Succs[0], 0, seen)
							}
							return
						}
					}
					for _, sc := range b.Succs {
						if !seen[sc] {
							seen[sc] = true
							walk(sc, 0, seen)
						}
					}
				}
				walk(a.Block, a.Idx+1, map[*ssa.BasicBlock]bool{})
				r.ObSite("R02c", a.Site, "queued-wakes-writer", woken, "after a slot becomes queued (mark=1) the writer's condition c2 must be woken on every path, unless the slept flag read in the same critical section says the writer is not waiting")
				g := transGuard(fn, a.Block, nodeBase, 0)
				r.ObSite("R02f", a.Site, "transition:0->1", g, "a slot may be filled (mark=1) only after mark==0 was established under the lock")
			case 2:
				g := transGuard(fn, a.Block, nodeBase, 1)
				r.ObSite("R02f", a.Site, "transition:1->2", g, "a slot may be handed to the writer (mark=2) only under mark==1")
			case 0:
				g := transGuard(fn, a.Block, nodeBase, 2)
				r.ObSite("R02f", a.Site, "transition:2->0", g, "a slot may be freed (mark=0) only under mark==2")
				cleared := 0
				for _, in := range a.Block.Instrs {
					if s2, ok := in.(*ssa.Store); ok {
						for _, f := range []string{"one", "multi", "resps"} {
							if IsFieldAddr(s2.Addr, nodeT, f) {
								cleared++
							}
						}
					}
				}
				r.ObSite("R02f", a.Site, "free-clears-slot", cleared == 3, "freeing a slot clears one/multi/resps so that the next put cannot hand out stale commands")
			default:
				r.ObSite("R02f", a.Site, "mark-store-unknown-state", false, "slot state must be 0, 1 or 2")
			}
		}
	}
	r.Min("R02f", 5)
	// cursor undo
	for _, pair := range [][2]string{{"rueidis.(*ring).NextWriteCmd", "read1"}, {"rueidis.(*ring).NextResultCh", "read2"}} {
		fn := r.FnAnchor("R02f", pair[0])
		if fn == nil {
			continue
		}
		inc, dec := 0, 0
		var decSite Site
		for _, a := range FieldAccessesIn(fn, "rueidis.ring", pair[1]) {
			if st, ok := a.Instr.(*ssa.Store); ok {
				if b, isb := st.Val.(*ssa.BinOp); isb {
					if k, isc := ConstInt(b.Y); isc && k == 1 {
						if b.Op == token.ADD {
							inc++
						} else if b.Op == token.SUB {
							dec++
							decSite = a.Site
						}
					}
				}
			}
		}
		okDec := false
		if dec == 1 {
			// the undo sits on the arm on which no mark store happens
			okDec = true
			for _, in := range decSite.Block.Instrs {
				if st, ok := in.(*ssa.Store); ok && IsFieldAddr(st.Addr, nodeT, "mark") {
					okDec = false
				}
			}
			markArm := false
			for _, g := range DomGuards(decSite.Block) {
				if x, _, _, ok := CmpGuard(g); ok && IsFieldLoad(x, nodeT, "mark") {
					markArm = true
				}
			}
			okDec = okDec && markArm
		}
		r.Ob("R02f", fn, "cursor-advance-undone:"+pair[1], fn.Pos(), inc == 1 && okDec, "the single-consumer cursor is advanced speculatively once and the advance is undone exactly on the arm where the slot was not in the expected state")
	}

	// R02d slot arithmetic
	for _, f := range []string{"store", "mask"} {
		for _, a := range p.FieldAccesses("rueidis.ring", f) {
			if a.Write {
				r.ObSite("R02d", a.Site, "writer-of:"+f, TopFunc(a.Fn) == newRing, "ring."+f+" is written only by the constructor")
			}
		}
	}
	if newRing != nil {
		pow2, maskOK := false, false
		for _, b := range newRing.Blocks {
			for _, in := range b.Instrs {
				if mk, ok := in.(*ssa.MakeSlice); ok && strings.Contains(shortType(mk.Type()), "rueidis.node") {
					if sh, ok := Strip(mk.Len).(*ssa.BinOp); ok && sh.Op == token.SHL {
						if k, isc := ConstInt(sh.X); isc && k > 0 && k&(k-1) == 0 {
							pow2 = true
						}
					}
				}
				if st, ok := in.(*ssa.Store); ok && IsFieldAddr(st.Addr, "rueidis.ring", "mask") {
					d := Desc(st.Val)
					maskOK = strings.Contains(d, "(builtin.len(") && strings.Contains(d, " - 1)")
				}
			}
		}
		r.Ob("R02d", newRing, "length-power-of-two", newRing.Pos(), pow2, "the slot array length is 2<<k (a power of two), so masking is a modulo")
		r.Ob("R02d", newRing, "mask-is-len-minus-one", newRing.Pos(), maskOK, "mask = len(store)-1")
	}
	for _, fn := range ringFns {
		for _, s := range Sites(fn, func(in ssa.Instruction) bool {
			ia, ok := in.(*ssa.IndexAddr)
			return ok && IsFieldLoad(ia.X, "rueidis.ring", "store")
		}) {
			ia := s.Instr.(*ssa.IndexAddr)
			ok := false
			if b, isb := Strip(ia.Index).(*ssa.BinOp); isb && b.Op == token.AND && (IsFieldLoad(b.Y, "rueidis.ring", "mask") || IsFieldLoad(b.X, "rueidis.ring", "mask")) {
				ok = true
			}
			if cv, isc := ia.Index.(*ssa.Convert); isc && !ok {
				if b, isb := Strip(cv.X).(*ssa.BinOp); isb && b.Op == token.AND && (IsFieldLoad(b.Y, "rueidis.ring", "mask") || IsFieldLoad(b.X, "rueidis.ring", "mask")) {
					ok = true
				}
			}
			if _, isphi := ia.Index.(*ssa.Phi); isphi && TopFunc(fn) == newRing {
				ok = true
			}
			r.ObSite("R02d", s, "slot-index-masked", ok, "every slot index is `counter & r.mask`, so counter wrap-around can neither index out of range nor skip a slot")
		}
	}
	r.Min("R02d", 6)

	// R02e flow buffer token cycle
	flowRules(r)
}

// markGuard: guard states mark == want for the slot nodeBase.
func markGuard(g Guard, nodeBase ssa.Value, want int64) bool {
	x, op, y, ok := CmpGuard(g)
	if !ok {
		return false
	}
	k, isc := ConstInt(y)
	if !isc || !IsFieldLoad(x, nodeT, "mark") {
		return false
	}
	_, _, b, _ := FieldRef(Strip(x).(*ssa.UnOp).X)
	if !(b == nodeBase || Same(b, nodeBase)) {
		return false
	}
	return op == token.EQL && k == want
}

func flowRules(r *Report) { flowRulesAs(r, "R02e") }

func flowRulesAs(r *Report, rule string) {
	const fbT = "rueidis.flowBuffer"
	nf := r.FnAnchor(rule, "rueidis.newFlowBuffer")
	if nf != nil {
		var sizes []ssa.Value
		for _, b := range nf.Blocks {
			for _, in := range b.Instrs {
				if mc, ok := in.(*ssa.MakeChan); ok && strings.Contains(shortType(mc.Type()), "queuedCmd") {
					sizes = append(sizes, mc.Size)
				}
			}
		}
		same := len(sizes) == 3 && sizes[0] == sizes[1] && sizes[1] == sizes[2]
		r.Ob(rule, nf, "equal-capacities", nf.Pos(), same, "the free, write and read channels must have the same capacity so that a token can always be forwarded without blocking")
		// prefill loop bound is that same size
		pre := false
		for _, b := range nf.Blocks {
			for _, in := range b.Instrs {
				if sd, ok := in.(*ssa.Send); ok && IsFieldLoad(sd.Chan, fbT, "f") {
					for _, g := range GuardDNF(b, 2) {
						for _, gg := range g {
							if x, op, y, cok := CmpGuard(gg); cok && op == token.LSS && len(sizes) > 0 {
								_ = x
								if y == sizes[0] || Same(y, sizes[0]) {
									pre = true
								}
							}
						}
					}
				}
			}
		}
		r.Ob(rule, nf, "prefill-exactly-capacity", nf.Pos(), pre, "the free list is pre-filled by a loop bounded by exactly the channel capacity")
	}
	// token moves
	want := map[string][2]string{
		"PutOne": {"f", "w"}, "PutMulti": {"f", "w"}, "NextWriteCmd": {"w", "r"}, "WaitForWrite": {"w", "r"},
		"NextResultCh": {"r", ""}, "FinishResult": {"", "f"},
	}
	for m, mv := range want {
		fn := r.FnAnchor(rule, "rueidis.(*flowBuffer)."+m)
		if fn == nil {
			continue
		}
		var recvs, sends []string
		var recvSite, sendTop *Site
		// the operations of unexported flowBuffer helpers the method calls count as its own, in
		// call order (a helper such as "hand the command over to the read queue" is part of the move)
		var scan func(fn *ssa.Function, depth int)
		scan = func(fn *ssa.Function, depth int) {
			for _, b := range fn.Blocks {
				for i, in := range b.Instrs {
					if c, isc := in.(*ssa.Call); isc && depth < 2 {
						if callee := c.Call.StaticCallee(); callee != nil && callee.Blocks != nil && strings.HasPrefix(FuncName(callee), "rueidis.(*flowBuffer).") && !isExportedName(callee.Name()) {
							if _, isIface := want[callee.Name()]; !isIface {
								ns, nr := len(sends), len(recvs)
								scan(callee, depth+1)
								if depth == 0 {
									cs := Site{fn, b, i, in}
									if len(sends) > ns {
										sendTop = &cs
									}
									if len(recvs) > nr {
										recvSite = &cs
									}
								}
								continue
							}
						}
					}
					switch x := in.(type) {
					case *ssa.UnOp:
						if x.Op == token.ARROW {
							if _, f, _, ok := FieldRef(chanFieldAddr(x.X)); ok {
								recvs = append(recvs, f)
								if depth == 0 {
									s := Site{fn, b, i, in}
									recvSite = &s
								}
							}
						}
					case *ssa.Select:
						for _, st := range x.States {
							if _, f, _, ok := FieldRef(chanFieldAddr(st.Chan)); ok {
								recvs = append(recvs, f)
								if depth == 0 {
									s := Site{fn, b, i, in}
									recvSite = &s
								}
							}
						}
					case *ssa.Send:
						if _, f, _, ok := FieldRef(chanFieldAddr(x.Chan)); ok {
							sends = append(sends, f)
							if depth == 0 {
								cs := Site{fn, b, i, in}
								sendTop = &cs
							}
						}
					}
				}
			}
		}
		scan(fn, 0)
		for _, b := range fn.Blocks[:0] {
			for i, in := range b.Instrs {
				switch x := in.(type) {
				case *ssa.UnOp:
					if x.Op == token.ARROW {
						if _, f, _, ok := FieldRef(chanFieldAddr(x.X)); ok {
							recvs = append(recvs, f)
							s := Site{fn, b, i, in}
							recvSite = &s
						}
					}
				case *ssa.Select:
					for _, st := range x.States {
						if _, f, _, ok := FieldRef(chanFieldAddr(st.Chan)); ok {
							recvs = append(recvs, f)
							s := Site{fn, b, i, in}
							recvSite = &s
						}
					}
				case *ssa.Send:
					if _, f, _, ok := FieldRef(chanFieldAddr(x.Chan)); ok {
						sends = append(sends, f)
					}
				}
			}
		}
		okMove := strings.Join(recvs, ",") == mv[0] && strings.Join(sends, ",") == mv[1]
		r.Ob(rule, fn, "token-move", fn.Pos(), okMove, "expected receive from ["+mv[0]+"] and send to ["+mv[1]+"], found receive from ["+strings.Join(recvs, ",")+"] send to ["+strings.Join(sends, ",")+"]: every token stays on the cycle f->w->r->f")
		if okMove && mv[0] != "" && mv[1] != "" && recvSite != nil {
			// the send happens on every path on which the token was received
			if sendTop == nil {
				r.Ob(rule, fn, "forward-received-token", fn.Pos(), false, "the forwarding send could not be located")
				continue
			}
			ss := *sendTop
			tokenPath := true
			if sel, ok := recvSite.Instr.(*ssa.Select); ok {
				// the send must be under the case that received the token: guard on select index == k
				_ = sel
				tokenPath = Guarded(ss.Block, func(g Guard) bool {
					x, op, y, cok := CmpGuard(g)
					if !cok || op != token.EQL {
						return false
					}
					_, isc := ConstInt(y)
					ex, isx := x.(*ssa.Extract)
					return isc && isx && ex.Tuple == ssa.Value(sel) && ex.Index == 0
				})
			} else {
				tokenPath = Dominates(*recvSite, ss)
			}
			r.ObSite(rule, ss, "forward-received-token", tokenPath, "the token is forwarded exactly on the path on which it was received")
		}
	}
}

func chanFieldAddr(v ssa.Value) ssa.Value {
	if u, ok := v.(*ssa.UnOp); ok && u.Op == token.MUL {
		return u.X
	}
	return v
}
