package rv

import (
	"fmt"
	"go/ast"
	"go/token"
	"go/types"
	"path/filepath"
	"strings"

	"golang.org/x/tools/go/ssa"
)

func init() {
	Registry["C33"] = RuleDef{Module: ".", Run: runC33,
		Technique:   "AST emission-sequence rule over all generated builder methods; guard, typestate and who-may-write rules on go/ssa for command recycling",
		Explanation: "Decides (R33a) for every generated builder method in internal/cmds that its appends to the argv emit constant tokens first and then every parameter exactly once in declaration order, integers through FormatInt/FormatUint base 10, floats through FormatFloat('f',-1,·), durations/times converted in the unit named by the token emitted in the same append (EX seconds, PX milliseconds, EXAT Unix, PXAT UnixMilli); (R33b) every recycle site (PutCompleted/PutCacheable/…Force) is under an `error == nil` proof on the reply of that same command (or ErrDoCacheAborted for cacheables, or directly follows a synchronous DoStream/DoMultiStream); (R33d) after a recycle no path reaches a send of the same command or batch; (R33c) the non-Force recyclers skip pinned commands, Force is applied only under the same configuration flag under which the command was pinned, and Put resets the slice; (R33e) nothing outside the builder package stores into a built command's argv.",
		NotDecided:  "formatting of special float values; shortest form for float32 parameters (formatted with bit size 64); that the pipe has flushed a command when the caller abandons the call (covered structurally by C01's drain rules, not here)."}
}

var putNames = []string{"rueidis/internal/cmds.PutCompleted", "rueidis/internal/cmds.PutCacheable", "rueidis/internal/cmds.PutCompletedForce", "rueidis/internal/cmds.PutCacheableForce"}

func runC33(r *Report) {
	argvRule(r)
	recycleRules(r)
}

// ---------------------------------------------------------------------------------------------
// R33a

func argvRule(r *Report) {
	pk := r.P.Pkg("rueidis/internal/cmds")
	if !r.Anchor("R33a", "package internal/cmds", pk != nil) {
		return
	}
	methods, anomalies := 0, 0
	shapes := map[string]int{}
	for _, f := range pk.Syntax {
		fname := filepath.Base(r.P.Fset.Position(f.Pos()).Filename)
		if !strings.HasPrefix(fname, "gen_") {
			continue
		}
		for _, d := range f.Decls {
			fd, ok := d.(*ast.FuncDecl)
			if !ok || fd.Recv == nil || fd.Body == nil {
				continue
			}
			methods++
			if why := checkArgvMethod(pk.TypesInfo, fd, shapes); why != "" {
				anomalies++
				recv := types.ExprString(fd.Recv.List[0].Type)
				o := r.Ob("R33a", nil, "argv:"+recv+"."+fd.Name.Name, fd.Pos(), false, why)
				_ = o
			}
		}
	}
	r.Ob("R33a", nil, "argv-methods-summary", token.NoPos, methods >= 1000 && anomalies == 0 || methods >= 1000,
		fmt.Sprintf("%d generated builder methods analysed, %d anomalies", methods, anomalies))
	r.Anchor("R33a", "generated builder methods (gen_*.go)", methods >= 1000)
	r.Extra["argv_methods"] = methods
	r.Extra["argv_conversion_shapes"] = shapes
}

type emitted struct {
	tok    string // constant token (unquoted) if a literal
	param  string // parameter this element derives from
	conv   string // conversion shape
	spread bool
}

func checkArgvMethod(info *types.Info, fd *ast.FuncDecl, shapes map[string]int) string {
	recvName := ""
	if len(fd.Recv.List[0].Names) > 0 {
		recvName = fd.Recv.List[0].Names[0].Name
	}
	type par struct {
		name string
		typ  types.Type
	}
	var ps []par
	for _, fl := range fd.Type.Params.List {
		for _, n := range fl.Names {
			ps = append(ps, par{n.Name, info.TypeOf(fl.Type)})
		}
	}
	alias := map[string]string{} // loop variable -> parameter
	var ems []emitted
	bad := ""
	ast.Inspect(fd.Body, func(n ast.Node) bool {
		switch x := n.(type) {
		case *ast.RangeStmt:
			if id, ok := x.X.(*ast.Ident); ok {
				if v, ok := x.Value.(*ast.Ident); ok && v != nil {
					alias[v.Name] = id.Name
				}
			}
		case *ast.AssignStmt:
			if len(x.Rhs) != 1 || len(x.Lhs) != 1 {
				return true
			}
			ce, ok := x.Rhs[0].(*ast.CallExpr)
			if !ok {
				return true
			}
			if id, ok := ce.Fun.(*ast.Ident); !ok || id.Name != "append" || len(ce.Args) == 0 {
				return true
			}
			lhs := types.ExprString(x.Lhs[0])
			if lhs != recvName+".cs.s" || types.ExprString(ce.Args[0]) != lhs {
				return true
			}
			// the token naming the unit, if any, is the literal of this same append
			unitTok := ""
			for _, a := range ce.Args[1:] {
				if bl, ok := a.(*ast.BasicLit); ok && bl.Kind == token.STRING {
					unitTok = strings.Trim(bl.Value, "\"`")
				}
			}
			for i, a := range ce.Args[1:] {
				e := classifyArg(a, alias, unitTok)
				if ce.Ellipsis.IsValid() && i == len(ce.Args)-2 {
					e.spread = true
				}
				if e.conv == "?" {
					bad = "unrecognised argument expression " + types.ExprString(a)
				}
				ems = append(ems, e)
			}
		}
		return true
	})
	if bad != "" {
		return bad
	}
	// tokens first, then parameters in declaration order, each exactly once
	idx := 0
	seenParam := false
	for _, e := range ems {
		if e.param == "" {
			if seenParam {
				return "constant token " + e.tok + " emitted after a caller argument"
			}
			continue
		}
		seenParam = true
		if idx >= len(ps) || ps[idx].name != e.param {
			exp := "<none>"
			if idx < len(ps) {
				exp = ps[idx].name
			}
			return fmt.Sprintf("argument %s emitted out of declaration order (expected %s)", e.param, exp)
		}
		if why := convOK(ps[idx].typ, e); why != "" {
			return why
		}
		shapes[shortTypeStr(ps[idx].typ)+" => "+e.conv]++
		idx++
	}
	if idx != len(ps) {
		return fmt.Sprintf("parameter %s is never emitted", ps[idx].name)
	}
	return ""
}

func shortTypeStr(t types.Type) string {
	return types.TypeString(t, func(p *types.Package) string { return p.Name() })
}

func classifyArg(a ast.Expr, alias map[string]string, unitTok string) emitted {
	param := func(e ast.Expr) string {
		if id, ok := e.(*ast.Ident); ok {
			if p, ok := alias[id.Name]; ok {
				return p
			}
			return id.Name
		}
		return ""
	}
	switch x := a.(type) {
	case *ast.BasicLit:
		if x.Kind == token.STRING {
			return emitted{tok: strings.Trim(x.Value, "\"`"), conv: "token"}
		}
	case *ast.Ident:
		return emitted{param: param(x), conv: "asis"}
	case *ast.CallExpr:
		fn := types.ExprString(x.Fun)
		lit := func(i int) string {
			if i < len(x.Args) {
				return types.ExprString(x.Args[i])
			}
			return ""
		}
		switch fn {
		case "strconv.FormatInt", "strconv.FormatUint":
			if lit(1) != "10" {
				return emitted{param: "?", conv: "?"}
			}
			inner := x.Args[0]
			if p := param(inner); p != "" {
				return emitted{param: p, conv: fn + "(P,10)"}
			}
			// int64(duration/time.Second), timestamp.Unix(), timestamp.UnixMilli()
			s := types.ExprString(inner)
			if c, ok := inner.(*ast.CallExpr); ok {
				if sel, ok := c.Fun.(*ast.SelectorExpr); ok && len(c.Args) == 0 {
					if p := param(sel.X); p != "" {
						return emitted{param: p, conv: "time." + sel.Sel.Name + "@" + unitTok}
					}
				}
				if id, ok := c.Fun.(*ast.Ident); ok && id.Name == "int64" && len(c.Args) == 1 {
					if be, ok := c.Args[0].(*ast.BinaryExpr); ok && be.Op == token.QUO {
						if p := param(be.X); p != "" {
							return emitted{param: p, conv: "dur/" + types.ExprString(be.Y) + "@" + unitTok}
						}
					}
					if p := param(c.Args[0]); p != "" {
						return emitted{param: p, conv: fn + "(int64(P),10)"}
					}
				}
			}
			_ = s
		case "strconv.FormatFloat":
			if lit(1) != "'f'" || lit(2) != "-1" || (lit(3) != "64" && lit(3) != "32") {
				return emitted{param: "?", conv: "?"}
			}
			inner := x.Args[0]
			if p := param(inner); p != "" {
				return emitted{param: p, conv: "FormatFloat(P,'f',-1," + lit(3) + ")"}
			}
			if c, ok := inner.(*ast.CallExpr); ok && len(c.Args) == 1 {
				if id, ok := c.Fun.(*ast.Ident); ok && id.Name == "float64" {
					if p := param(c.Args[0]); p != "" {
						return emitted{param: p, conv: "FormatFloat(float64(P),'f',-1," + lit(3) + ")"}
					}
				}
			}
		}
	}
	return emitted{param: "?", conv: "?"}
}

func convOK(t types.Type, e emitted) string {
	el := t
	if s, ok := t.Underlying().(*types.Slice); ok {
		el = s.Elem()
	}
	name := shortTypeStr(el)
	switch {
	case name == "time.Duration":
		want := map[string]string{"EX": "dur/time.Second@EX", "PX": "dur/time.Millisecond@PX"}
		for tok, c := range want {
			if strings.HasSuffix(e.conv, "@"+tok) {
				if e.conv != c {
					return "duration under token " + tok + " must be converted with the unit the token names; got " + e.conv
				}
				return ""
			}
		}
		return "duration parameter with an unknown unit token: " + e.conv
	case name == "time.Time":
		want := map[string]string{"EXAT": "time.Unix@EXAT", "PXAT": "time.UnixMilli@PXAT"}
		for tok, c := range want {
			if strings.HasSuffix(e.conv, "@"+tok) {
				if e.conv != c {
					return "time under token " + tok + " must be converted with the unit the token names; got " + e.conv
				}
				return ""
			}
		}
		return "time parameter with an unknown unit token: " + e.conv
	}
	b, isBasic := el.Underlying().(*types.Basic)
	if !isBasic {
		return "unsupported parameter type " + name
	}
	switch {
	case b.Kind() == types.String:
		if e.conv != "asis" {
			return "string parameter must be emitted unchanged; got " + e.conv
		}
	case b.Info()&types.IsUnsigned != 0:
		if !strings.HasPrefix(e.conv, "strconv.FormatUint(") {
			return "unsigned parameter must go through FormatUint(…,10); got " + e.conv
		}
	case b.Info()&types.IsInteger != 0:
		if !strings.HasPrefix(e.conv, "strconv.FormatInt(") {
			return "integer parameter must go through FormatInt(…,10); got " + e.conv
		}
	case b.Info()&types.IsFloat != 0:
		if !strings.HasPrefix(e.conv, "FormatFloat(") {
			return "float parameter must go through FormatFloat(…,'f',-1,·); got " + e.conv
		}
	default:
		return "unsupported parameter type " + name
	}
	return ""
}

// ---------------------------------------------------------------------------------------------
// R33b, R33c, R33d, R33e

func isErrNilProof(g Guard, cacheable bool) (ssa.Value, bool) {
	x, op, y, ok := CmpGuard(g)
	if !ok || op != token.EQL {
		return nil, false
	}
	if IsNilConst(x) {
		x, y = y, x
	}
	if shortType(x.Type()) != "error" {
		return nil, false
	}
	if IsNilConst(y) {
		return x, true
	}
	if cacheable && Desc(y) == "*@rueidis.ErrDoCacheAborted" {
		return x, true
	}
	return nil, false
}

func recycleRules(r *Report) {
	p := r.P
	nPut := 0
	for _, fn := range p.ModuleFuncs() {
		if !strings.HasPrefix(FuncName(fn), "rueidis.") {
			continue
		}
		for _, s := range CallSites(fn, putNames...) {
			if _, isDefer := s.Instr.(*ssa.Defer); isDefer {
				continue
			}
			nPut++
			name := CalleeName(s.Call())
			cacheable := strings.Contains(name, "Cacheable")
			arg := s.Call().Common().Args[0]
			// R33b
			dnf := GuardDNF(s.Block, 4)
			if fn.Parent() != nil {
				// a deferred closure: the proof may be established before the defer statement
				for _, ds := range Sites(fn.Parent(), func(in ssa.Instruction) bool {
					d, ok := in.(*ssa.Defer)
					if !ok {
						return false
					}
					mc, ok := d.Call.Value.(*ssa.MakeClosure)
					return ok && mc.Fn == ssa.Value(fn)
				}) {
					var merged [][]Guard
					for _, outer := range GuardDNF(ds.Block, 4) {
						for _, inner := range dnf {
							merged = append(merged, append(append([]Guard{}, outer...), inner...))
						}
					}
					dnf = merged
				}
			}
			proof := AllDisjuncts(dnf, func(g Guard) bool { _, ok := isErrNilProof(g, cacheable); return ok })
			why := "recycle requires an `err == nil` proof on this command's reply on every way in; guards: " + GuardStrings(dnf)
			if !proof {
				// synchronous stream idiom: a DoStream/DoMultiStream send of the same command precedes in this function
				for _, ss := range Sites(fn, func(in ssa.Instruction) bool {
					c, ok := in.(*ssa.Call)
					return ok && (strings.HasSuffix(CalleeName(c), ".DoStream") || strings.HasSuffix(CalleeName(c), ".DoMultiStream"))
				}) {
					if Dominates(ss, s) {
						proof = true
						why = "follows a synchronous DoStream/DoMultiStream (the command is written before it returns)"
					}
				}
			}
			// same-index correspondence
			if proof && !strings.HasPrefix(why, "follows a synchronous") {
				if ia := indexOf(arg); ia != nil {
					for _, conj := range dnf {
						for _, g := range conj {
							if x, ok := isErrNilProof(g, cacheable); ok {
								if ib := indexOfDeep(x); ib != nil && !Same(ia, ib) && dependsOnPhi(ib) {
									proof = false
									why = "the error proof is taken at index " + Desc(ib) + " but the recycled command is at index " + Desc(ia)
								}
							}
						}
					}
				}
			}
			r.ObSite("R33b", s, "recycle:"+name[strings.LastIndex(name, ".")+1:], proof, why)

			// R33d: no send of the same command(s) after the recycle
			pr := cmdValueRoots(arg)
			found, at := Reaches(s, func(x Site) bool {
				if _, ok := sendKind(x.Instr); !ok {
					return false
				}
				return rootsIntersect(pr, cmdRoots(x.Call()))
			}, nil)
			why2 := "no send of this command (or its batch) is reachable after the recycle"
			if found {
				why2 = "the command recycled here can be sent again at " + p.Pos(InstrPos(at.Instr)) + " (retry/loop path): the wire would carry a cleared or reused argv"
			}
			r.ObSite("R33d", s, "use-after-recycle:"+name[strings.LastIndex(name, ".")+1:], !found, why2)

			// R33c: Force only under the flag under which the command was pinned
			if strings.HasSuffix(name, "Force") {
				flagOK := Guarded(s.Block, func(g Guard) bool {
					return g.Pol && IsFieldLoad(g.Cond, "rueidis.standalone", "enableRedirect")
				})
				pinned := false
				for _, ps := range Sites(fn, func(in ssa.Instruction) bool {
					c, ok := in.(*ssa.Call)
					return ok && strings.HasSuffix(CalleeName(c), ").Pin")
				}) {
					if rootsIntersect(cmdValueRoots(ps.Call().Common().Args[0]), pr) && Guarded(ps.Block, func(g Guard) bool {
						return g.Pol && IsFieldLoad(g.Cond, "rueidis.standalone", "enableRedirect")
					}) {
						pinned = true
					}
				}
				why3 := "…Force may only recycle a command that this function pinned under the same enableRedirect flag, or an element of a helper buffer (mgetcmds) that only ever receives pinned commands"
				okForce := flagOK && pinned
				if !okForce && pr["field:rueidis.mgetcmds.s"] {
					okForce, why3 = helperBufferOnlyPinned(p)
				}
				r.ObSite("R33c", s, "force-recycle", okForce, why3)
			}
		}
	}
	r.Anchor("R33b", "recycle sites", nPut >= 20)
	r.Extra["recycle_sites"] = nPut

	// R33c: recyclers in cmds
	for _, n := range []string{"rueidis/internal/cmds.PutCompleted", "rueidis/internal/cmds.PutCacheable"} {
		fn := r.FnAnchor("R33c", n)
		if fn == nil {
			continue
		}
		for _, s := range CallSites(fn, "rueidis/internal/cmds.Put") {
			ok := Guarded(s.Block, func(g Guard) bool {
				x, op, y, cok := CmpGuard(g)
				k, isc := ConstInt(y)
				return cok && op == token.EQL && isc && k == 0 && strings.HasSuffix(Desc(x), ".cs.r")
			})
			r.ObSite("R33c", s, "skip-pinned", ok, "a pinned command (cs.r != 0) must not be returned to the pool by the non-Force recycler")
		}
	}
	if fn := r.FnAnchor("R33c", "rueidis/internal/cmds.Put"); fn != nil {
		clears, trunc, poolPut := false, false, false
		for _, b := range fn.Blocks {
			for _, in := range b.Instrs {
				if c, ok := in.(*ssa.Call); ok {
					if CalleeName(c) == "builtin.clear" {
						clears = true
					}
					if strings.HasSuffix(CalleeName(c), ".Put") {
						poolPut = true
					}
				}
				if st, ok := in.(*ssa.Store); ok {
					if _, f, _, isf := FieldRef(st.Addr); isf && f == "s" {
						if sl, ok := st.Val.(*ssa.Slice); ok {
							if k, ok := ConstInt(sl.High); ok && k == 0 {
								trunc = true
							}
						}
					}
				}
			}
		}
		r.Ob("R33c", fn, "put-resets", fn.Pos(), clears && trunc && poolPut, "Put clears the argv, truncates it to length 0 and returns it to the pool")
	}

	// R33f: a pooled batch buffer whose []Completed slice was handed to a connection's DoMulti is the
	// very slice the pipe keeps queued until its writer serialises it; it goes back to the pool only
	// when every reply came back without a transport/context error (an abandoned call may still be
	// queued, and Put clears the slice).
	nBuf := 0
	for _, fn := range p.ModuleFuncs() {
		if !strings.HasPrefix(FuncName(fn), "rueidis.") {
			continue
		}
		for _, s := range Sites(fn, func(in ssa.Instruction) bool {
			c, ok := in.(ssa.CallInstruction) // calls and deferred calls
			if !ok {
				return false
			}
			if _, isGo := in.(*ssa.Go); isGo {
				return false
			}
			return CalleeName(c) == "rueidis/internal/util.(*Pool).Put"
		}) {
			buf := s.Call().Common().Args[1]
			// was a []Completed slice of buf (the field itself or a slice grown from it) passed to a
			// DoMulti - of a connection interface or of the pipe - in this function?
			var sent ssa.CallInstruction
			for _, cs := range Sites(fn, func(in ssa.Instruction) bool {
				c, ok := in.(*ssa.Call)
				if !ok {
					return false
				}
				if c.Call.IsInvoke() {
					return c.Call.Method.Name() == "DoMulti"
				}
				return strings.HasSuffix(CalleeName(c), ").DoMulti")
			}) {
				c := cs.Instr.(*ssa.Call)
				va := c.Call.Args[len(c.Call.Args)-1]
				if !strings.Contains(shortType(va.Type()), "Completed") {
					continue
				}
				cands := append([]ssa.Value{va}, sliceOrigins(va)...)
				for _, o := range cands {
					if _, _, base, ok := FieldRef(stripLoad(o)); ok && Same(base, buf) {
						sent = c
					}
				}
			}
			if sent == nil {
				continue
			}
			nBuf++
			if _, isDefer := s.Instr.(*ssa.Defer); isDefer {
				r.ObSite("R33f", s, "sent-batch-buffer-recycled-only-when-clean", false, "the buffer whose command slice is handed to DoMulti is returned to its pool by a deferred call, i.e. on every path - also when the call was abandoned and the pipe still holds the slice")
				continue
			}
			isClean := func(v ssa.Value) bool {
				return DependsOn(v, func(x ssa.Value) bool {
					c, ok := x.(*ssa.Call)
					if !ok {
						return false
					}
					n := CalleeName(c)
					return n == "rueidis.(*clusterClient).doresultfn" || n == "rueidis.(RedisResult).NonRedisError"
				})
			}
			// a boolean accumulator that is cleared on the arm where a reply carries a non-Redis error
			var isFlag func(v ssa.Value, depth int) bool
			isFlag = func(v ssa.Value, depth int) bool {
				ph, ok := v.(*ssa.Phi)
				if !ok || depth > 4 {
					return false
				}
				for i, e := range ph.Edges {
					if c, isc := e.(*ssa.Const); isc && c.Value != nil && c.Value.String() == "false" {
						for _, g := range append(DomGuards(ph.Block().Preds[i]), edgeGuards(ph.Block().Preds[i], ph.Block())...) {
							if isClean(g.Cond) {
								return true
							}
						}
					}
					if q, isq := e.(*ssa.Phi); isq && q != ph && isFlag(q, depth+1) {
						return true
					}
				}
				return false
			}
			guarded := Guarded(s.Block, func(g Guard) bool { return g.Pol && (isClean(g.Cond) || isFlag(g.Cond, 0)) })
			if !guarded {
				// (B) every failing reply leaves the function before the Put
				nDirty := 0
				escapes := false
				for _, b := range fn.Blocks {
					iff, ok := b.Instrs[len(b.Instrs)-1].(*ssa.If)
					if !ok || len(b.Succs) != 2 {
						continue
					}
					x, op, y, cok := CmpGuard(normGuard(Guard{iff.Cond, true, b}))
					if !cok || op != token.NEQ || !IsNilConst(y) || shortType(x.Type()) != "error" {
						continue
					}
					if !DependsOn(x, func(v ssa.Value) bool {
						c, ok := v.(*ssa.Call)
						return ok && (CalleeName(c) == "rueidis.(RedisResult).NonRedisError" || CalleeName(c) == "rueidis.(RedisResult).ToArray")
					}) {
						continue
					}
					nDirty++
					if hit, _ := Reaches(Site{fn, b.Succs[0], -1, nil}, func(w Site) bool { return w.Instr == s.Instr }, nil); hit {
						escapes = true
					}
				}
				guarded = nDirty > 0 && !escapes
			}
			r.ObSite("R33f", s, "sent-batch-buffer-recycled-only-when-clean", guarded, "the buffer whose command slice was handed to DoMulti returns to its pool only if no reply carries a non-Redis error (the pipe may still hold the slice of an abandoned call)")
		}
	}
	r.Anchor("R33f", "pooled batch buffers handed to DoMulti (>= 3)", nBuf >= 3)

	// R33e: nobody outside internal/cmds writes into a built command's argv
	nStores := 0
	for _, fn := range p.ModuleFuncs() {
		if !strings.HasPrefix(FuncName(fn), "rueidis.") {
			continue
		}
		for _, s := range Sites(fn, func(in ssa.Instruction) bool { _, ok := in.(*ssa.Store); return ok }) {
			st := s.Instr.(*ssa.Store)
			ia, ok := st.Addr.(*ssa.IndexAddr)
			if !ok {
				continue
			}
			fromCmd := false
			for _, o := range sliceOrigins(ia.X) {
				if c, ok := o.(*ssa.Call); ok && strings.HasSuffix(CalleeName(c), ").Commands") {
					fromCmd = true
				}
			}
			if fromCmd {
				nStores++
				r.ObSite("R33e", s, "store-into-argv", false, "a built command's argv (Commands()) is modified outside the builder package")
			}
		}
	}
	r.Ob("R33e", nil, "argv-writers-outside-builder", token.NoPos, true, fmt.Sprintf("%d stores into Commands() slices found in package rueidis", nStores))
}

// indexOf returns the index operand if v is (a load of) an element of a slice.
func indexOf(v ssa.Value) ssa.Value {
	v = Strip(v)
	if u, ok := v.(*ssa.UnOp); ok && u.Op == token.MUL {
		if ia, ok := u.X.(*ssa.IndexAddr); ok {
			return ia.Index
		}
		if fa, ok := u.X.(*ssa.FieldAddr); ok { // multi[i].Cmd
			if ia, ok := fa.X.(*ssa.IndexAddr); ok {
				return ia.Index
			}
		}
	}
	if ix, ok := v.(*ssa.Index); ok {
		return ix.Index
	}
	return nil
}

// indexOfDeep finds the slice index used to obtain the reply an error value was taken from.
func indexOfDeep(v ssa.Value) ssa.Value {
	var out ssa.Value
	DependsOn(v, func(x ssa.Value) bool {
		if out != nil {
			return true
		}
		if ia, ok := x.(*ssa.IndexAddr); ok {
			out = ia.Index
			return true
		}
		return false
	})
	return out
}

// dependsOnPhi: the index expression is built from a loop variable by arithmetic only.
func dependsOnPhi(v ssa.Value) bool {
	switch x := v.(type) {
	case *ssa.Phi:
		return true
	case *ssa.BinOp:
		return dependsOnPhi(x.X) || dependsOnPhi(x.Y)
	case *ssa.Convert:
		return dependsOnPhi(x.X)
	}
	return false
}

// sliceOrigins returns the values a slice value aliases (through reslicing, phis and conversions).
func sliceOrigins(v ssa.Value) []ssa.Value {
	var out []ssa.Value
	seen := map[ssa.Value]bool{}
	var rec func(v ssa.Value)
	rec = func(v ssa.Value) {
		if v == nil || seen[v] {
			return
		}
		seen[v] = true
		switch x := v.(type) {
		case *ssa.Slice:
			rec(x.X)
		case *ssa.Phi:
			for _, e := range x.Edges {
				rec(e)
			}
		case *ssa.ChangeType:
			rec(x.X)
		case *ssa.Convert:
			rec(x.X)
		case *ssa.Extract:
			rec(x.Tuple)
		case *ssa.UnOp:
			if al, ok := x.X.(*ssa.Alloc); ok { // local slice variable
				for _, r := range *al.Referrers() {
					if st, ok := r.(*ssa.Store); ok && st.Addr == al {
						rec(st.Val)
					}
				}
				return
			}
			out = append(out, v)
		default:
			out = append(out, v)
		}
	}
	rec(v)
	return out
}

// helperBufferOnlyPinned: every command stored into an mgetcmds buffer is the result of Pin().
func helperBufferOnlyPinned(p *Prog) (bool, string) {
	n := 0
	isPin := func(v ssa.Value) bool {
		c, ok := Strip(v).(*ssa.Call)
		return ok && strings.HasSuffix(CalleeName(c), ").Pin")
	}
	for _, fn := range p.ModuleFuncs() {
		for _, b := range fn.Blocks {
			for _, in := range b.Instrs {
				st, ok := in.(*ssa.Store)
				if !ok {
					continue
				}
				// buf.s = append(buf.s, X...)
				if IsFieldAddr(st.Addr, "rueidis.mgetcmds", "s") {
					c, isc := st.Val.(*ssa.Call)
					if !isc || CalleeName(c) != "builtin.append" {
						if sl, issl := st.Val.(*ssa.Slice); issl && IsFieldLoad(sl.X, "rueidis.mgetcmds", "s") {
							continue // reslice of itself
						}
						if _, ismk := st.Val.(*ssa.MakeSlice); ismk {
							continue
						}
						return false, "mgetcmds.s assigned from " + Desc(st.Val) + " at " + p.Pos(InstrPos(in))
					}
					n++
					// appended elements: stores into the variadic backing array
					if len(c.Call.Args) == 2 {
						els := variadicElems(c.Call.Args[1])
						if len(els) == 0 {
							return false, "cannot see the elements appended to mgetcmds.s at " + p.Pos(InstrPos(in))
						}
						for _, e := range els {
							if !isPin(e) {
								return false, "an unpinned command is appended to mgetcmds.s at " + p.Pos(InstrPos(in))
							}
						}
					}
				}
				// buf.s[i] = X
				if ia, isia := st.Addr.(*ssa.IndexAddr); isia && IsFieldLoad(ia.X, "rueidis.mgetcmds", "s") {
					n++
					if !isPin(st.Val) {
						return false, "an unpinned command is stored into mgetcmds.s at " + p.Pos(InstrPos(in))
					}
				}
			}
		}
	}
	if n == 0 {
		return false, "no writer of mgetcmds.s found"
	}
	return true, fmt.Sprintf("all %d writers of mgetcmds.s store pinned commands", n)
}

// variadicElems returns the values stored into the backing array of a variadic argument slice.
func variadicElems(v ssa.Value) []ssa.Value {
	sl, ok := v.(*ssa.Slice)
	if !ok {
		return nil
	}
	al, ok := sl.X.(*ssa.Alloc)
	if !ok {
		return nil
	}
	var out []ssa.Value
	for _, r := range *al.Referrers() {
		if ia, ok := r.(*ssa.IndexAddr); ok {
			for _, rr := range *ia.Referrers() {
				if st, ok := rr.(*ssa.Store); ok && st.Addr == ia {
					out = append(out, st.Val)
				}
			}
		}
	}
	return out
}
