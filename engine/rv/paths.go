package rv

import (
	"go/token"
	"strings"

	"golang.org/x/tools/go/ssa"
)

// PathEnum enumerates the simple CFG paths (no block visited twice, except that the start block
// may be re-entered as the target) from just after `from` to the first instruction satisfying
// target on each path. For every path found, visit receives the branch conditions taken along it.
// stop, if non-nil, ends a path without reporting it. It returns false if more than limit paths
// were produced (the caller must then treat the result as undecided).
func PathEnum(from Site, target func(Site) bool, stop func(Site) bool, limit int, visit func(conds []Guard, at Site)) bool {
	n := 0
	over := false
	onpath := map[*ssa.BasicBlock]bool{}
	var conds []Guard
	var walk func(b *ssa.BasicBlock, start int, first bool)
	walk = func(b *ssa.BasicBlock, start int, first bool) {
		if over {
			return
		}
		for i := start; i < len(b.Instrs); i++ {
			s := Site{from.Fn, b, i, b.Instrs[i]}
			if target(s) {
				n++
				if n > limit {
					over = true
					return
				}
				visit(append([]Guard(nil), conds...), s)
				return
			}
			if stop != nil && stop(s) {
				return
			}
		}
		if !first {
			if onpath[b] {
				return
			}
		}
		if !first {
			onpath[b] = true
			defer delete(onpath, b)
		}
		if len(b.Succs) == 2 && b.Succs[0] != b.Succs[1] {
			iff, ok := b.Instrs[len(b.Instrs)-1].(*ssa.If)
			if ok {
				conds = append(conds, normGuard(Guard{iff.Cond, true, b}))
				walkNext(b.Succs[0], onpath, walk)
				conds[len(conds)-1] = normGuard(Guard{iff.Cond, false, b})
				walkNext(b.Succs[1], onpath, walk)
				conds = conds[:len(conds)-1]
				return
			}
		}
		for _, sc := range b.Succs {
			walkNext(sc, onpath, walk)
		}
	}
	walk(from.Block, from.Idx+1, true)
	return !over
}

func walkNext(b *ssa.BasicBlock, onpath map[*ssa.BasicBlock]bool, walk func(*ssa.BasicBlock, int, bool)) {
	if onpath[b] {
		// still allow reaching a target at the head part of an on-path block? No: simple paths only.
		return
	}
	walk(b, 0, false)
}

// ExpandGuards adds, for every true guard on a boolean phi, the facts implied by the only arm
// that can be true: if an arm's value is the condition of the If whose false edge leads into the
// phi (the `x := a; if x { x = b }` idiom), that arm is false and T:phi implies T:a and T:b.
func ExpandGuards(gs []Guard) []Guard {
	out := append([]Guard(nil), gs...)
	for i := 0; i < len(out) && i < 64; i++ {
		g := out[i]
		ph, ok := g.Cond.(*ssa.Phi)
		if !ok || !g.Pol {
			continue
		}
		var live []int
		for k, e := range ph.Edges {
			if e == ssa.Value(ph) {
				continue // loop back edge carrying the same value
			}
			if c, isc := e.(*ssa.Const); isc && c.Value != nil && c.Value.String() == "false" {
				continue
			}
			pred := ph.Block().Preds[k]
			if len(pred.Instrs) > 0 {
				if iff, isif := pred.Instrs[len(pred.Instrs)-1].(*ssa.If); isif && iff.Cond == e && len(pred.Succs) == 2 && pred.Succs[1] == ph.Block() && pred.Succs[0] != ph.Block() {
					// arrived over the false edge of `if e`, so this arm carries false
					continue
				}
			}
			live = append(live, k)
		}
		if len(live) == 1 {
			k := live[0]
			out = append(out, normGuard(Guard{ph.Edges[k], true, ph.Block().Preds[k]}))
			out = append(out, DomGuards(ph.Block().Preds[k])...)
			// the edge into the phi block
			pred := ph.Block().Preds[k]
			if len(pred.Instrs) > 0 {
				if iff, isif := pred.Instrs[len(pred.Instrs)-1].(*ssa.If); isif && pred.Succs[0] != pred.Succs[1] {
					out = append(out, normGuard(Guard{iff.Cond, pred.Succs[0] == ph.Block(), pred}))
				}
			}
		}
	}
	return out
}

// IsErrCmp reports whether g states `x == @global` (or != with negative polarity) for the named
// package-level variable, returning the other operand.
func IsErrCmp(g Guard, global string) (other ssa.Value, eq bool, ok bool) {
	x, op, y, cok := CmpGuard(g)
	if !cok || (op != token.EQL && op != token.NEQ) {
		return nil, false, false
	}
	if Desc(y) == "*@"+global {
		return x, op == token.EQL, true
	}
	if Desc(x) == "*@"+global {
		return y, op == token.EQL, true
	}
	return nil, false, false
}

// TrueCall reports whether g is a true guard on (a value extracted from) a call of one of the
// named callees; for tuple results idx selects the component (-1 = scalar result).
func GuardCall(g Guard, names ...string) (*ssa.Call, int, bool) {
	v := g.Cond
	idx := -1
	if ex, ok := v.(*ssa.Extract); ok {
		v = ex.Tuple
		idx = ex.Index
	}
	c, ok := v.(*ssa.Call)
	if !ok {
		return nil, 0, false
	}
	n := CalleeName(c)
	for _, w := range names {
		if n == w {
			return c, idx, true
		}
	}
	return nil, 0, false
}

// EnumBlockPaths enumerates the acyclic block paths from the entry of fn to every block ending
// in a Return. It returns false if more than limit paths exist.
func EnumBlockPaths(fn *ssa.Function, limit int, visit func(path []*ssa.BasicBlock)) bool {
	if len(fn.Blocks) == 0 {
		return true
	}
	n := 0
	on := map[*ssa.BasicBlock]bool{}
	var path []*ssa.BasicBlock
	var rec func(b *ssa.BasicBlock) bool
	rec = func(b *ssa.BasicBlock) bool {
		if on[b] {
			return true
		}
		on[b] = true
		path = append(path, b)
		defer func() { on[b] = false; path = path[:len(path)-1] }()
		if len(b.Instrs) > 0 {
			if _, ok := b.Instrs[len(b.Instrs)-1].(*ssa.Return); ok {
				n++
				if n > limit {
					return false
				}
				visit(append([]*ssa.BasicBlock(nil), path...))
				return true
			}
		}
		for _, s := range b.Succs {
			if !rec(s) {
				return false
			}
		}
		return true
	}
	return rec(fn.Blocks[0])
}

// ResolveOnPath resolves phis of v along a block path: for a phi in block path[i] the edge of
// the predecessor path[i-1] is taken (repeatedly).
func ResolveOnPath(v ssa.Value, path []*ssa.BasicBlock) ssa.Value {
	for k := 0; k < 16; k++ {
		ph, ok := v.(*ssa.Phi)
		if !ok {
			return v
		}
		idx := -1
		for i, b := range path {
			if b == ph.Block() {
				idx = i
			}
		}
		if idx <= 0 {
			return v
		}
		found := false
		for j, p := range ph.Block().Preds {
			if p == path[idx-1] {
				v = ph.Edges[j]
				found = true
				break
			}
		}
		if !found {
			return v
		}
	}
	return v
}

// ReturnsAvoiding lists the return instructions of fn reachable from its entry without passing
// an instruction that satisfies avoid.
func ReturnsAvoiding(fn *ssa.Function, avoid func(ssa.Instruction) bool) []*ssa.Return {
	var out []*ssa.Return
	if len(fn.Blocks) == 0 {
		return nil
	}
	WalkFrom(Site{fn, fn.Blocks[0], -1, nil}, func(x Site) bool {
		if avoid(x.Instr) {
			return false
		}
		if r, ok := x.Instr.(*ssa.Return); ok {
			out = append(out, r)
			return false
		}
		return true
	})
	return out
}

// PathConds returns the branch conditions taken along a block path.
func PathConds(path []*ssa.BasicBlock) []Guard {
	var out []Guard
	for i := 0; i+1 < len(path); i++ {
		b := path[i]
		if len(b.Instrs) == 0 {
			continue
		}
		if iff, ok := b.Instrs[len(b.Instrs)-1].(*ssa.If); ok && len(b.Succs) == 2 && b.Succs[0] != b.Succs[1] {
			out = append(out, normGuard(Guard{iff.Cond, b.Succs[0] == path[i+1], b}))
		}
	}
	return out
}

// MustPassOrEdge reports whether every path from just after s to a return either passes an
// instruction satisfying hit or crosses an edge accepted by goodEdge.
func MustPassOrEdge(s Site, hit func(ssa.Instruction) bool, goodEdge func(from *ssa.BasicBlock, succ int) bool) bool {
	seen := map[*ssa.BasicBlock]bool{}
	var dfs func(b *ssa.BasicBlock, from int) bool // true = a bad return is reachable
	dfs = func(b *ssa.BasicBlock, from int) bool {
		for i := from; i < len(b.Instrs); i++ {
			if i >= 0 && hit(b.Instrs[i]) {
				return false
			}
			if _, ok := b.Instrs[i].(*ssa.Return); ok {
				return true
			}
		}
		for k, succ := range b.Succs {
			if goodEdge != nil && goodEdge(b, k) {
				continue
			}
			if seen[succ] {
				continue
			}
			seen[succ] = true
			if dfs(succ, 0) {
				return true
			}
		}
		return false
	}
	start := s.Idx + 1
	return !dfs(s.Block, start)
}

// NilTestEdge returns an edge predicate accepting the edge on which `fieldSuffix` (the Desc of the
// tested value ends with it) is nil.
func NilTestEdge(fieldSuffix string) func(*ssa.BasicBlock, int) bool {
	return func(from *ssa.BasicBlock, succ int) bool {
		iff, ok := from.Instrs[len(from.Instrs)-1].(*ssa.If)
		if !ok {
			return false
		}
		g := normGuard(Guard{iff.Cond, succ == 0, from})
		x, op, y, cok := CmpGuard(g)
		return cok && op == token.EQL && IsNilConst(y) && strings.HasSuffix(ValueDescThroughParam(x), fieldSuffix)
	}
}

// CurrentProg is the program under analysis (set by the driver before a property's rules run); it
// lets descriptor helpers resolve a helper's parameter to what its call sites pass.
var CurrentProg *Prog

// ValueDescThroughParam is DescDeep(v), except that a parameter of an unexported, directly called
// function is described by the argument its (single, or all agreeing) call sites pass for it:
// `p.abortCache(old.hooks.onInvalidations)` makes the helper's `hook` parameter
// "….hooks.onInvalidations".
func ValueDescThroughParam(v ssa.Value) string {
	if _, isp := v.(*ssa.Parameter); isp && CurrentProg != nil {
		if vals, _, ok := paramArgs(CurrentProg, v); ok && len(vals) > 0 {
			d := DescDeep(vals[0])
			for _, x := range vals[1:] {
				if DescDeep(x) != d {
					return DescDeep(v)
				}
			}
			return d
		}
	}
	return DescDeep(v)
}
