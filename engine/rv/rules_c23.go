package rv

import (
	"go/token"
	"strings"

	"golang.org/x/tools/go/ssa"
)

func init() {
	Registry["C23"] = RuleDef{Module: ".", Run: runC23,
		Technique:   "guard rule (role reply dominates the swap) with value provenance, who-may-write rule on the routing slots, must-call rule on the switch event",
		Explanation: "Decides (R23a) that the sentinel client installs a connection as master (mConn/mAddr) only under `role == \"master\"` and as replica (rConn/rAddr) only under `role == \"slave\"`, where role is element 0 of the reply to ROLE sent on that very connection, and that the wrong-role and error arms close the target and return an error; (R23b) that the four routing slots are written only by _switchTarget; (R23c) that the +switch-master event for the configured master set calls switchTargetRetry with the announced address as master, and that a failed switch starts a refresh.",
		NotDecided:  "histories of sentinel answers; that the address sentinels report is the current master; malformed sentinel event payloads."}
}

func runC23(r *Report) {
	p := r.P
	const sc = "rueidis.sentinelClient"
	st := r.FnAnchor("R23a", "rueidis.(*sentinelClient)._switchTarget")
	slots := map[string]string{"mConn": "master", "mAddr": "master", "rConn": "slave", "rAddr": "slave"}
	// R23b single writer
	nW := 0
	for f := range slots {
		for _, a := range p.FieldAccesses(sc, f) {
			if !a.Write {
				continue
			}
			nW++
			r.ObSite("R23b", a.Site, "writer-of:"+f, TopFunc(a.Fn) == st, "the routing slot "+f+" is written only by _switchTarget (after the ROLE check)")
		}
	}
	r.Anchor("R23b", "writers of the routing slots", nW >= 4)
	if st != nil {
		roleCalls := Sites(st, func(in ssa.Instruction) bool {
			c, ok := in.(*ssa.Call)
			if !ok || CalleeName(c) != "iface:rueidis.conn.Do" {
				return false
			}
			for _, a := range c.Call.Args {
				if strings.HasSuffix(Desc(a), "cmds.RoleCmd") {
					return true
				}
			}
			return false
		})
		r.Anchor("R23a", "ROLE probe in _switchTarget", len(roleCalls) == 1)
		for f, role := range slots {
			for _, a := range FieldAccessesIn(st, sc, f) {
				if !a.Write {
					continue
				}
				ok := false
				why := "no dominating role comparison"
				for _, g := range DomGuards(a.Block) {
					x, op, y, cok := CmpGuard(g)
					if !cok || op != token.EQL {
						continue
					}
					s, isS := ConstString(y)
					if !isS {
						continue
					}
					fromRole := len(roleCalls) == 1 && DependsOn(x, func(v ssa.Value) bool { return v == roleCalls[0].Instr.(ssa.Value) })
					elem0 := DependsOn(x, func(v ssa.Value) bool {
						ia, isia := v.(*ssa.IndexAddr)
						if !isia {
							return false
						}
						k, isc := ConstInt(ia.Index)
						return isc && k == 0
					})
					if s == role && fromRole && elem0 {
						ok = true
					} else if fromRole {
						why = "role comparison is with " + s + ", element-0=" + boolStr(elem0)
					}
				}
				// the installed value is the probed target (for the conn slots)
				if ok && strings.HasSuffix(f, "Conn") && len(roleCalls) == 1 {
					c := a.Instr.(ssa.CallInstruction)
					args := c.Common().Args
					installed := Strip(args[len(args)-1])
					probed := Strip(roleCalls[0].Call().Common().Value)
					if installed != probed {
						ok = false
						why = "the connection installed is not the one that answered ROLE"
					}
				}
				r.ObSite("R23a", a.Site, "install:"+f, ok, "slot "+f+" may be set only under ROLE reply[0] == \""+role+"\" of the very connection being installed; "+why)
			}
		}
		// wrong-role / error arms close the target and return an error
		for _, b := range st.Blocks {
			iff, ok := b.Instrs[len(b.Instrs)-1].(*ssa.If)
			if !ok {
				continue
			}
			g := normGuard(Guard{iff.Cond, true, b})
			x, op, y, cok := CmpGuard(g)
			if !cok {
				continue
			}
			s, isS := ConstString(y)
			if !isS || (s != "master" && s != "slave") || len(roleCalls) != 1 || !DependsOn(x, func(v ssa.Value) bool { return v == roleCalls[0].Instr.(ssa.Value) }) {
				continue
			}
			wrong := b.Succs[0]
			if op == token.EQL {
				wrong = b.Succs[1]
			}
			closes, errRet := false, false
			for _, in := range wrong.Instrs {
				if _, is := CallTo(in, "iface:rueidis.conn.Close"); is {
					closes = true
				}
				if ret, is := in.(*ssa.Return); is && len(ret.Results) == 1 && !IsNilConst(ret.Results[0]) {
					errRet = true
				}
			}
			r.ObSite("R23a", Site{st, b, len(b.Instrs) - 1, iff}, "wrong-role-arm:"+s, closes && errRet, "a node answering with the wrong role is closed and reported as an error, never routed to")
		}
	}
	roleVerifiedOnSuccess(r, "R23a")
	r.Min("R23a", 6)

	// R23c switch event
	nEv := 0
	for _, fn := range p.Funcs("rueidis.(*sentinelClient).") {
		for _, s := range CallSites(fn, "rueidis.(*sentinelClient).switchTargetRetry") {
			args := s.Call().Common().Args
			k, isc := args[2].(*ssa.Const)
			if !isc || k.Value == nil || k.Value.String() != "true" {
				continue
			}
			nEv++
			ok := Guarded(s.Block, func(g Guard) bool {
				_, op, y, cok := CmpGuard(g)
				return cok && op == token.EQL && strings.HasSuffix(DescDeep(y), ".Sentinel.MasterSet")
			})
			r.ObSite("R23c", s, "switch-master-for-configured-set", ok, "a master switch is followed only for the configured master set")
		}
	}
	r.Anchor("R23c", "switchTargetRetry(addr, true) call sites", nEv >= 1)
	if fn := r.FnAnchor("R23c", "rueidis.(*sentinelClient).switchTargetRetry"); fn != nil {
		okCall, _ := MustPassFromEntry(fn, func(in ssa.Instruction) bool {
			_, is := CallTo(in, "rueidis.(*sentinelClient)._switchTarget")
			return is
		})
		r.Ob("R23c", fn, "switch-attempted", fn.Pos(), okCall, "switchTargetRetry always attempts the switch")
		retry := false
		for _, s := range Sites(fn, func(in ssa.Instruction) bool {
			g, ok := in.(*ssa.Go)
			return ok && CalleeName(g) == "rueidis.(*sentinelClient).refreshRetry"
		}) {
			retry = Guarded(s.Block, func(g Guard) bool {
				_, op, y, cok := CmpGuard(g)
				return cok && op == token.NEQ && IsNilConst(y)
			})
		}
		for _, s := range CallSites(fn, "rueidis.(*sentinelClient).refreshRetry") {
			if _, isgo := s.Instr.(*ssa.Go); !isgo {
				retry = true
			}
		}
		r.Ob("R23c", fn, "failed-switch-refreshes", fn.Pos(), retry, "a failed switch starts a topology refresh")
	}
}

func boolStr(b bool) string {
	if b {
		return "true"
	}
	return "false"
}
