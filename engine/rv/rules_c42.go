package rv

import (
	"fmt"
	"go/token"
	"strings"

	"golang.org/x/tools/go/ssa"
)

// flowsToCommand: forward flow (over-approximated: any call that takes a tainted value yields a
// tainted result, stores into locals taint the local) from v to an argument of a command-builder
// method (internal/cmds), a client request, or a branch condition.
func flowsToCommand(v ssa.Value) (bool, string) {
	seen := map[ssa.Value]bool{}
	var work []ssa.Value
	push := func(x ssa.Value) {
		if x != nil && !seen[x] {
			seen[x] = true
			work = append(work, x)
		}
	}
	push(v)
	for len(work) > 0 {
		x := work[len(work)-1]
		work = work[:len(work)-1]
		refs := x.Referrers()
		if refs == nil {
			continue
		}
		for _, ref := range *refs {
			switch in := ref.(type) {
			case *ssa.If:
				return true, "branch condition"
			case ssa.CallInstruction:
				if in.Common().Value == x && !in.Common().IsInvoke() {
					return true, "invoked"
				}
				n := CalleeName(in)
				if strings.Contains(n, "rueidis/internal/cmds.") || strings.HasPrefix(n, "iface:rueidis.Client.") || strings.HasPrefix(n, "iface:rueidis.CoreClient.") || strings.HasPrefix(n, "iface:rueidis.DedicatedClient.") {
					return true, n
				}
				if val, ok := in.(ssa.Value); ok {
					push(val)
				}
				// a closure or helper of the package: follow into the parameter
				if callee := in.Common().StaticCallee(); callee != nil && callee.Blocks != nil && strings.HasPrefix(FuncName(callee), compatPkg+".") {
					args := CallArgs(in)
					for k, a := range args {
						if a == x && k < len(callee.Params) {
							push(callee.Params[k])
						}
					}
				}
			case *ssa.Store:
				if in.Val == x {
					push(in.Addr)
					// the stored-to local/field: its loads
					if al, ok := in.Addr.(*ssa.Alloc); ok {
						push(al)
					}
					if fa, ok := in.Addr.(*ssa.FieldAddr); ok {
						push(fa.X)
					}
					if ia, ok := in.Addr.(*ssa.IndexAddr); ok {
						push(ia.X)
					}
				}
			case *ssa.MakeClosure:
				for k, b := range in.Bindings {
					if b == x {
						if f, ok := in.Fn.(*ssa.Function); ok && k < len(f.FreeVars) {
							push(f.FreeVars[k])
						}
					}
				}
				push(in)
			case *ssa.Return:
				// handed back by a helper: the caller's use decides; treat the callers' call values
			case *ssa.MapUpdate, *ssa.Send, *ssa.Panic:
			default:
				if val, ok := ref.(ssa.Value); ok {
					push(val)
				}
			}
		}
	}
	return false, ""
}

func init() {
	Registry["C42"] = RuleDef{Module: "rueidiscompat", Run: runC42,
		Technique:   "forward def-use flow from every parameter of every adapter command method to the command that is built (who-influences rule), with one named exception; unit agreement between duration conversions and a specification table of command positions",
		Explanation: "The oracle of this property (go-redis v9) is not in the sandbox, so the comparison itself cannot be made. Decided is one necessary condition that needs no oracle: (R42a) every parameter (other than the context) of every exported method of the adapter types Compat and CacheCompat influences the command that is sent - it flows into an argument of a command-builder method or of the client request, is invoked (callbacks), or decides a branch. A parameter that influences nothing makes two calls that differ in that argument send the same command, which a go-redis method never does with a parameter it declares. (R42b) every time.Duration converted with formatSec/formatMs enters a command position whose unit - by a specification table taken from the Redis command reference - is the unit converted to; (R42c) formatSec and formatMs divide by their own unit and clamp below that same unit.",
		NotDecided:  "command names, argument order and spelling, which builder option an argument selects - i.e. parity itself; only that no declared argument is ignored.",
	}
}

var c42Exceptions = map[string]string{
	"rueidis/rueidiscompat.(*Compat).Cache|ttl": "not a command: returns the caching view (CacheCompat), which stores the ttl for its own methods",
}

func runC42(r *Report) {
	n := 0
	for _, prefix := range []string{compatPkg + ".(*Compat).", compatPkg + ".(CacheCompat).", compatPkg + ".(*CacheCompat)."} {
		for _, fn := range r.P.Funcs(prefix) {
			if fn.Parent() != nil || !isExportedName(fn.Name()) {
				continue
			}
			for k, prm := range fn.Params {
				if k == 0 || strings.Contains(shortType(prm.Type()), "context.Context") {
					continue
				}
				n++
				ok, via := flowsToCommand(prm)
				why := "parameter " + prm.Name() + " reaches " + via
				if !ok {
					if reason, exc := c42Exceptions[FuncName(fn)+"|"+prm.Name()]; exc {
						ok, why = true, "exception: "+reason
					} else {
						why = "parameter " + prm.Name() + " influences neither a builder argument, nor the request, nor a branch: the command sent does not depend on it"
					}
				}
				r.Ob("R42a", fn, "argument-influences-command:"+prm.Name(), prm.Pos(), ok, why)
			}
		}
	}
	r.Anchor("R42a", "parameters of adapter methods (>= 900)", n >= 900)
	durationUnitRule(r)
	formatterRule(r)
}


// durationUnitRule (R42b): the adapter turns time.Duration arguments into integers with formatSec
// or formatMs; the unit must be the one the Redis command defines for that position. The unit
// table below is a specification table taken from the Redis command reference (trusted base).
func durationUnitRule(r *Report) {
	methodUnit := func(recv, method string) string {
		switch {
		case strings.Contains(method, "Milliseconds"):
			return "ms"
		case strings.Contains(method, "Seconds"):
			return "s"
		}
		tbl := map[string]string{
			"Restore.Ttl": "ms", "Xclaim.MinIdleTime": "ms", "Xautoclaim.MinIdleTime": "ms",
			"Blpop.Timeout": "s", "Brpop.Timeout": "s", "Brpoplpush.Timeout": "s", "Bzpopmax.Timeout": "s", "Bzpopmin.Timeout": "s", "Blmove.Timeout": "s",
			"Migrate.Timeout": "ms",     // MIGRATE host port key db timeout: milliseconds
			"ClientPause.Timeout": "ms", // CLIENT PAUSE timeout: milliseconds
			"Wait.Timeout": "ms", "Waitaof.Timeout": "ms",
		}
		for k, u := range tbl {
			parts := strings.SplitN(k, ".", 2)
			if method == parts[1] && strings.HasPrefix(recv, parts[0]) {
				return u
			}
		}
		return ""
	}
	tokenUnit := map[string]string{"PX": "ms", "EX": "s", "BLOCK": "ms", "IDLE": "ms", "MINIDLE": "ms", "BLMPOP": "s", "BZMPOP": "s", "BLMOVE": "s", "PEXPIRE": "ms", "EXPIRE": "s"}
	n := 0
	for _, fn := range r.P.ModuleFuncs() {
		if !strings.HasPrefix(FuncName(fn), compatPkg+".") {
			continue
		}
		for _, s := range CallSites(fn, compatPkg+".formatSec", compatPkg+".formatMs") {
			used := "s"
			if strings.HasSuffix(CalleeName(s.Call()), "formatMs") {
				used = "ms"
			}
			n++
			// follow the number to where it enters the command
			want, where := "", ""
			var follow func(v ssa.Value, depth int)
			follow = func(v ssa.Value, depth int) {
				if depth > 5 || want != "" || v.Referrers() == nil {
					return
				}
				for _, ref := range *v.Referrers() {
					switch x := ref.(type) {
					case *ssa.Convert:
						follow(x, depth+1)
					case *ssa.Call:
						nme := CalleeName(x)
						switch {
						case nme == "strconv.FormatInt" || nme == "strconv.FormatFloat" || nme == "strconv.Itoa":
							follow(x, depth+1)
						case strings.Contains(nme, "rueidis/internal/cmds.("):
							// "rueidis/internal/cmds.(ClientPause).Timeout"
							rest := nme[strings.Index(nme, "cmds.(")+6:]
							recv := rest[:strings.Index(rest, ")")]
							method := rest[strings.LastIndex(rest, ".")+1:]
							if u := methodUnit(strings.TrimPrefix(recv, "*"), method); u != "" {
								want, where = u, recv+"."+method
							} else {
								where = recv + "." + method
							}
						}
					case *ssa.Store:
						// an element of a variadic argument list: the token before it, or the command name
						ia, ok := x.Addr.(*ssa.IndexAddr)
						if !ok {
							continue
						}
						idx, isc := ConstInt(ia.Index)
						al, isal := ia.X.(*ssa.Alloc)
						if !isc || !isal {
							continue
						}
						var elems []ssa.Value
						for _, ar := range *al.Referrers() {
							if sl, issl := ar.(*ssa.Slice); issl {
								elems = variadicElemsOrdered(sl)
								// the call that receives the list
								for _, sr := range *sl.Referrers() {
									if c, isc := sr.(*ssa.Call); isc {
										if idx > 0 && int(idx-1) < len(elems) {
											if tok, ist := ConstString(elems[idx-1]); ist {
												if u, known := tokenUnit[strings.ToUpper(tok)]; known {
													want, where = u, "after token "+tok
												}
											}
										}
										if want == "" {
											// the command name of the Arbitrary chain this list belongs to
											// walk the receiver chain back to the Arbitrary(...) root
											cur := ssa.Value(c)
											for k := 0; k < 8 && want == ""; k++ {
												cc, isCall := cur.(*ssa.Call)
												if !isCall {
													break
												}
												if strings.HasSuffix(CalleeName(cc), ".Arbitrary") && len(cc.Call.Args) >= 2 {
													for _, tv := range variadicElemsOrdered(cc.Call.Args[len(cc.Call.Args)-1]) {
														if tok, ist := ConstString(tv); ist {
															if u, known := tokenUnit[strings.ToUpper(tok)]; known {
																want, where = u, "argument of "+tok
															}
														}
													}
													break
												}
												if len(cc.Call.Args) == 0 {
													break
												}
												cur = cc.Call.Args[0]
											}
										}
									}
								}
							}
						}
					}
				}
			}
			follow(s.Instr.(*ssa.Call), 0)
			switch {
			case want == "":
				r.ObSite("R42b", s, "duration-unit:"+used, false, "cannot tell which command position this duration enters ("+where+"): unit undecided")
			default:
				r.ObSite("R42b", s, "duration-unit:"+used+"@"+where, want == used, fmt.Sprintf("%s takes its time in %s; the adapter converts the Duration with format%s", where, map[string]string{"s": "seconds", "ms": "milliseconds"}[want], map[string]string{"s": "Sec", "ms": "Ms"}[used]))
			}
		}
	}
	r.Anchor("R42b", "duration conversions in the adapter (>= 40)", n >= 40)
}

// formatterRule (R42c): formatSec / formatMs divide by their unit (1e9 / 1e6 ns) and clamp a positive
// duration below one unit to 1 - the comparison and the division use the same unit. The body may
// live in a shared unexported helper that is handed the unit.
func formatterRule(r *Report) {
	for name, unit := range map[string]int64{"formatSec": 1_000_000_000, "formatMs": 1_000_000} {
		fn := r.FnAnchor("R42c", compatPkg+"."+name)
		if fn == nil {
			continue
		}
		body, bind := fn, map[ssa.Value]int64{}
		// delegation: return helper(dur, <const unit>)
		if len(fn.Blocks) == 1 {
			for _, in := range fn.Blocks[0].Instrs {
				if c, ok := in.(*ssa.Call); ok {
					if h := c.Call.StaticCallee(); h != nil && h.Blocks != nil && h.Pkg == fn.Pkg && !isExportedName(h.Name()) {
						body = h
						for k, a := range c.Call.Args {
							if v, isc := ConstInt(a); isc && k < len(h.Params) {
								bind[h.Params[k]] = v
							}
						}
					}
				}
			}
		}
		val := func(v ssa.Value) (int64, bool) {
			if k, isc := ConstInt(v); isc {
				return k, true
			}
			k, ok := bind[v]
			return k, ok
		}
		nDiv, nCmp := 0, 0
		okDiv, okCmp := true, true
		for _, b := range body.Blocks {
			for _, in := range b.Instrs {
				bo, ok := in.(*ssa.BinOp)
				if !ok {
					continue
				}
				switch bo.Op {
				case token.QUO:
					nDiv++
					if k, known := val(bo.Y); !known || k != unit {
						okDiv = false
					}
				case token.LSS:
					if k, known := val(bo.Y); known && k != 0 {
						nCmp++
						if k != unit {
							okCmp = false
						}
					} else if !known {
						if _, isz := ConstInt(bo.Y); !isz {
							nCmp++
							okCmp = false
						}
					}
				}
			}
		}
		r.Ob("R42c", fn, "divides-by-own-unit", fn.Pos(), nDiv == 1 && okDiv, fmt.Sprintf("%s divides the duration by %d ns", name, unit))
		r.Ob("R42c", fn, "clamps-below-own-unit", fn.Pos(), nCmp == 1 && okCmp, fmt.Sprintf("%s rounds a positive duration below one unit (%d ns) up to 1, comparing with the same unit it divides by", name, unit))
	}
}
