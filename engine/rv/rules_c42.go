package rv

import (
	"strings"

	"golang.org/x/tools/go/ssa"
)

// flowsToCommand: forward flow (over-approximated: any call that takes a tainted value yields a
// tainted result, stores into locals taint the local) from v to an argument of a command-builder
// method (internal/cmds), a client request, or a branch condition.
func flowsToCommand(v ssa.Value) (bool, string) {
	seen := map[ssa.Value]bool{}
	var work []ssa.Value
	push := func(x ssa.Value) {
		if x != nil && !seen[x] {
			seen[x] = true
			work = append(work, x)
		}
	}
	push(v)
	for len(work) > 0 {
		x := work[len(work)-1]
		work = work[:len(work)-1]
		refs := x.Referrers()
		if refs == nil {
			continue
		}
		for _, ref := range *refs {
			switch in := ref.(type) {
			case *ssa.If:
				return true, "branch condition"
			case ssa.CallInstruction:
				if in.Common().Value == x && !in.Common().IsInvoke() {
					return true, "invoked"
				}
				n := CalleeName(in)
				if strings.Contains(n, "rueidis/internal/cmds.") || strings.HasPrefix(n, "iface:rueidis.Client.") || strings.HasPrefix(n, "iface:rueidis.CoreClient.") || strings.HasPrefix(n, "iface:rueidis.DedicatedClient.") {
					return true, n
				}
				if val, ok := in.(ssa.Value); ok {
					push(val)
				}
				// a closure or helper of the package: follow into the parameter
				if callee := in.Common().StaticCallee(); callee != nil && callee.Blocks != nil && strings.HasPrefix(FuncName(callee), compatPkg+".") {
					args := CallArgs(in)
					for k, a := range args {
						if a == x && k < len(callee.Params) {
							push(callee.Params[k])
						}
					}
				}
			case *ssa.Store:
				if in.Val == x {
					push(in.Addr)
					// the stored-to local/field: its loads
					if al, ok := in.Addr.(*ssa.Alloc); ok {
						push(al)
					}
					if fa, ok := in.Addr.(*ssa.FieldAddr); ok {
						push(fa.X)
					}
					if ia, ok := in.Addr.(*ssa.IndexAddr); ok {
						push(ia.X)
					}
				}
			case *ssa.MakeClosure:
				for k, b := range in.Bindings {
					if b == x {
						if f, ok := in.Fn.(*ssa.Function); ok && k < len(f.FreeVars) {
							push(f.FreeVars[k])
						}
					}
				}
				push(in)
			case *ssa.Return:
				// handed back by a helper: the caller's use decides; treat the callers' call values
			case *ssa.MapUpdate, *ssa.Send, *ssa.Panic:
			default:
				if val, ok := ref.(ssa.Value); ok {
					push(val)
				}
			}
		}
	}
	return false, ""
}

func init() {
	Registry["C42"] = RuleDef{Module: "rueidiscompat", Run: runC42,
		Technique:   "forward def-use flow from every parameter of every adapter command method to the command that is built (who-influences rule), with one named exception",
		Explanation: "The oracle of this property (go-redis v9) is not in the sandbox, so the comparison itself cannot be made. Decided is one necessary condition that needs no oracle: (R42a) every parameter (other than the context) of every exported method of the adapter types Compat and CacheCompat influences the command that is sent - it flows into an argument of a command-builder method or of the client request, is invoked (callbacks), or decides a branch. A parameter that influences nothing makes two calls that differ in that argument send the same command, which a go-redis method never does with a parameter it declares.",
		NotDecided:  "command names, argument order and spelling, which builder option an argument selects - i.e. parity itself; only that no declared argument is ignored.",
	}
}

var c42Exceptions = map[string]string{
	"rueidis/rueidiscompat.(*Compat).Cache|ttl": "not a command: returns the caching view (CacheCompat), which stores the ttl for its own methods",
}

func runC42(r *Report) {
	n := 0
	for _, prefix := range []string{compatPkg + ".(*Compat).", compatPkg + ".(CacheCompat).", compatPkg + ".(*CacheCompat)."} {
		for _, fn := range r.P.Funcs(prefix) {
			if fn.Parent() != nil || !isExportedName(fn.Name()) {
				continue
			}
			for k, prm := range fn.Params {
				if k == 0 || strings.Contains(shortType(prm.Type()), "context.Context") {
					continue
				}
				n++
				ok, via := flowsToCommand(prm)
				why := "parameter " + prm.Name() + " reaches " + via
				if !ok {
					if reason, exc := c42Exceptions[FuncName(fn)+"|"+prm.Name()]; exc {
						ok, why = true, "exception: "+reason
					} else {
						why = "parameter " + prm.Name() + " influences neither a builder argument, nor the request, nor a branch: the command sent does not depend on it"
					}
				}
				r.Ob("R42a", fn, "argument-influences-command:"+prm.Name(), prm.Pos(), ok, why)
			}
		}
	}
	r.Anchor("R42a", "parameters of adapter methods (>= 900)", n >= 900)
}

