// Package rv is the repository-specific static analyser for redis/rueidis.
package rv

import (
	"fmt"
	"go/ast"
	"go/token"
	"go/types"
	"os"
	"path/filepath"
	"sort"
	"strings"

	"golang.org/x/tools/go/packages"
	"golang.org/x/tools/go/ssa"
	"golang.org/x/tools/go/ssa/ssautil"
)

// ModPath is the import path of the module under analysis.
const ModPath = "github.com/redis/rueidis"

// Prog is one loaded module (type-checked syntax + SSA form).
type Prog struct {
	Dir    string // module directory
	Config string // GOOS/GOARCH description
	Fset   *token.FileSet
	Pkgs   []*packages.Package          // packages of the module (not dependencies)
	ByPath map[string]*packages.Package // import path -> package (module packages and loaded deps)
	SSA    *ssa.Program
	funcs  map[string]*ssa.Function // short name -> function, see FuncName
	all    map[*ssa.Function]bool
	modFns []*ssa.Function
	lsMemo map[*ssa.Function]*LockSets
}

// Load type-checks the module rooted at dir (pattern ./...) and builds SSA for it and its
// dependencies. goos/goarch may be empty (host configuration).
func Load(dir, goos, goarch string) (*Prog, error) {
	env := os.Environ()
	cfgName := "linux/amd64"
	if goos != "" {
		env = append(env, "GOOS="+goos, "GOARCH="+goarch, "CGO_ENABLED=0")
		cfgName = goos + "/" + goarch
	}
	cfg := &packages.Config{Mode: packages.LoadAllSyntax, Dir: dir, Env: env, Tests: false}
	pkgs, err := packages.Load(cfg, "./...")
	if err != nil {
		return nil, fmt.Errorf("load %s: %w", dir, err)
	}
	if len(pkgs) == 0 {
		return nil, fmt.Errorf("load %s: no packages", dir)
	}
	nerr := 0
	var first string
	packages.Visit(pkgs, nil, func(p *packages.Package) {
		for _, e := range p.Errors {
			if nerr == 0 {
				first = e.Error()
			}
			nerr++
		}
	})
	if nerr > 0 {
		return nil, fmt.Errorf("load %s: %d type/load errors, first: %s", dir, nerr, first)
	}
	p := &Prog{Dir: dir, Config: cfgName, Fset: pkgs[0].Fset, ByPath: map[string]*packages.Package{}, funcs: map[string]*ssa.Function{}}
	packages.Visit(pkgs, nil, func(q *packages.Package) { p.ByPath[q.PkgPath] = q })
	for _, q := range pkgs {
		if strings.Contains(q.PkgPath, "/hack/") {
			continue
		}
		p.Pkgs = append(p.Pkgs, q)
	}
	sort.Slice(p.Pkgs, func(i, j int) bool { return p.Pkgs[i].PkgPath < p.Pkgs[j].PkgPath })
	prog, _ := ssautil.AllPackages(pkgs, ssa.InstantiateGenerics)
	prog.Build()
	p.SSA = prog
	p.all = ssautil.AllFunctions(prog)
	for fn := range p.all {
		if n := FuncName(fn); n != "" {
			// prefer the non-instantiated / first seen; names of module functions are unique
			if _, dup := p.funcs[n]; !dup {
				p.funcs[n] = fn
			}
		}
	}
	return p, nil
}

// shortPkg abbreviates an import path: the module prefix is replaced by "rueidis".
func shortPkg(path string) string {
	if path == ModPath {
		return "rueidis"
	}
	if strings.HasPrefix(path, ModPath+"/") {
		return "rueidis/" + path[len(ModPath)+1:]
	}
	return path
}

// shortType renders a type with abbreviated package paths.
func shortType(t types.Type) string {
	return types.TypeString(t, func(p *types.Package) string { return shortPkg(p.Path()) })
}

// FuncName is the canonical name of a function: "rueidis.newRing", "rueidis.(*lru).Update",
// "rueidis.(*lru).Update$1" for closures, "sync.(*Mutex).Lock" for dependencies.
func FuncName(fn *ssa.Function) string {
	if fn == nil {
		return ""
	}
	if fn.Parent() != nil {
		return FuncName(fn.Parent()) + "$" + strings.TrimPrefix(fn.Name(), fn.Parent().Name()+"$")
	}
	if fn.Synthetic != "" && fn.Origin() == nil && !strings.HasPrefix(fn.Synthetic, "instance") {
		// wrappers, bound methods, thunks: give them a distinct prefix so that they never
		// shadow the declared function
		return "synthetic:" + fn.String()
	}
	if o := fn.Origin(); o != nil {
		fn = o
	}
	if recv := fn.Signature.Recv(); recv != nil {
		return recvName(recv.Type()) + "." + fn.Name()
	}
	if fn.Pkg != nil {
		return shortPkg(fn.Pkg.Pkg.Path()) + "." + fn.Name()
	}
	if obj := fn.Object(); obj != nil && obj.Pkg() != nil {
		return shortPkg(obj.Pkg().Path()) + "." + fn.Name()
	}
	return fn.String()
}

func recvName(t types.Type) string {
	ptr := false
	if p, ok := t.(*types.Pointer); ok {
		ptr = true
		t = p.Elem()
	}
	name := shortType(t)
	if n, ok := t.(*types.Named); ok {
		pk := ""
		if n.Obj().Pkg() != nil {
			pk = shortPkg(n.Obj().Pkg().Path()) + "."
		}
		name = n.Obj().Name()
		if ptr {
			return pk + "(*" + name + ")"
		}
		return pk + "(" + name + ")"
	}
	if ptr {
		return "(*" + name + ")"
	}
	return "(" + name + ")"
}

// Fn returns the function with the given canonical name, or nil.
func (p *Prog) Fn(name string) *ssa.Function { return p.funcs[name] }

// Funcs returns all functions (including closures) whose canonical name has the given prefix and
// which belong to the module, sorted by name.
func (p *Prog) Funcs(prefix string) []*ssa.Function {
	var out []*ssa.Function
	for n, fn := range p.funcs {
		if strings.HasPrefix(n, prefix) && fn.Blocks != nil {
			out = append(out, fn)
		}
	}
	sort.Slice(out, func(i, j int) bool { return FuncName(out[i]) < FuncName(out[j]) })
	return out
}

// ModuleFuncs returns every function with a body that is declared in a package of the module
// under analysis (closures included), sorted by name.
func (p *Prog) ModuleFuncs() []*ssa.Function {
	if p.modFns != nil {
		return p.modFns
	}
	var out []*ssa.Function
	seen := map[string]bool{}
	for fn := range p.all {
		if fn.Blocks == nil || !p.InModule(fn) {
			continue
		}
		n := FuncName(fn)
		if strings.HasPrefix(n, "synthetic:") || seen[n] {
			continue
		}
		seen[n] = true
		out = append(out, fn)
	}
	sort.Slice(out, func(i, j int) bool { return FuncName(out[i]) < FuncName(out[j]) })
	p.modFns = out
	return out
}

// InModule reports whether fn is declared in the redis/rueidis module (or an add-on module).
func (p *Prog) InModule(fn *ssa.Function) bool {
	for fn.Parent() != nil {
		fn = fn.Parent()
	}
	if o := fn.Origin(); o != nil {
		fn = o
	}
	var path string
	if fn.Pkg != nil {
		path = fn.Pkg.Pkg.Path()
	} else if obj := fn.Object(); obj != nil && obj.Pkg() != nil {
		path = obj.Pkg().Path()
	}
	return path == ModPath || strings.HasPrefix(path, ModPath+"/")
}

// WithAnons returns fn followed by all closures nested in it (transitively).
func WithAnons(fn *ssa.Function) []*ssa.Function {
	out := []*ssa.Function{fn}
	for _, a := range fn.AnonFuncs {
		out = append(out, WithAnons(a)...)
	}
	return out
}

// Pos renders a position as "file.go:line:col" relative to the module directory.
func (p *Prog) Pos(pos token.Pos) string {
	if !pos.IsValid() {
		return "-"
	}
	ps := p.Fset.Position(pos)
	rel, err := filepath.Rel(p.Dir, ps.Filename)
	if err != nil || strings.HasPrefix(rel, "..") {
		rel = filepath.Base(ps.Filename)
	}
	return fmt.Sprintf("%s:%d:%d", rel, ps.Line, ps.Column)
}

// InstrPos returns the best position for an instruction (falls back to the function).
func InstrPos(in ssa.Instruction) token.Pos {
	if in.Pos().IsValid() {
		return in.Pos()
	}
	if v, ok := in.(ssa.Value); ok {
		for _, op := range in.Operands(nil) {
			if *op != nil && (*op).Pos().IsValid() {
				_ = v
				return (*op).Pos()
			}
		}
	}
	if in.Parent() != nil {
		return in.Parent().Pos()
	}
	return token.NoPos
}

// Pkg returns the module package with the given short name ("rueidis", "rueidis/internal/cmds").
func (p *Prog) Pkg(short string) *packages.Package {
	for _, q := range p.Pkgs {
		if shortPkg(q.PkgPath) == short {
			return q
		}
	}
	return nil
}

// FuncDecl returns the syntax of a declared function of the module by canonical name.
func (p *Prog) FuncDecl(name string) (*ast.FuncDecl, *packages.Package) {
	fn := p.Fn(name)
	if fn == nil {
		return nil, nil
	}
	fd, _ := fn.Syntax().(*ast.FuncDecl)
	if fd == nil {
		return nil, nil
	}
	var path string
	if fn.Pkg != nil {
		path = fn.Pkg.Pkg.Path()
	}
	return fd, p.ByPath[path]
}
