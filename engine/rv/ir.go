package rv

import (
	"fmt"
	"go/constant"
	"go/token"
	"go/types"
	"sort"
	"strings"

	"golang.org/x/tools/go/ssa"
)

// ---------------------------------------------------------------------------------------------
// Calls

// CalleeName gives the canonical name of the function or method invoked by a call instruction:
// a static callee -> FuncName; an interface invoke -> "iface:<pkg>.<Iface>.<Method>"; a call of a
// closure value defined in the same function -> its FuncName; otherwise "".
func CalleeName(c ssa.CallInstruction) string {
	cc := c.Common()
	if cc.IsInvoke() {
		return "iface:" + recvIface(cc.Value.Type()) + "." + cc.Method.Name()
	}
	if f := cc.StaticCallee(); f != nil {
		return FuncName(f)
	}
	if b, ok := cc.Value.(*ssa.Builtin); ok {
		return "builtin." + b.Name()
	}
	return ""
}

func recvIface(t types.Type) string {
	if n, ok := t.(*types.Named); ok {
		if n.Obj().Pkg() != nil {
			return shortPkg(n.Obj().Pkg().Path()) + "." + n.Obj().Name()
		}
		return n.Obj().Name()
	}
	if a, ok := t.(*types.Alias); ok {
		return recvIface(types.Unalias(a))
	}
	return shortType(t)
}

// CallTo reports whether in is a call (not go/defer unless allowed) of one of the named callees.
func CallTo(in ssa.Instruction, names ...string) (ssa.CallInstruction, bool) {
	c, ok := in.(ssa.CallInstruction)
	if !ok {
		return nil, false
	}
	n := CalleeName(c)
	for _, w := range names {
		if n == w {
			return c, true
		}
	}
	return nil, false
}

// CallArgs returns the arguments of a call with the receiver first for method calls and invokes.
func CallArgs(c ssa.CallInstruction) []ssa.Value {
	cc := c.Common()
	if cc.IsInvoke() {
		return append([]ssa.Value{cc.Value}, cc.Args...)
	}
	return cc.Args
}

// Site is an instruction with its location inside its function.
type Site struct {
	Fn    *ssa.Function
	Block *ssa.BasicBlock
	Idx   int
	Instr ssa.Instruction
}

func (s Site) Call() ssa.CallInstruction { c, _ := s.Instr.(ssa.CallInstruction); return c }

// Sites lists the instructions of fn (not of its closures) satisfying pred, in block order.
func Sites(fn *ssa.Function, pred func(ssa.Instruction) bool) []Site {
	var out []Site
	for _, b := range fn.Blocks {
		for i, in := range b.Instrs {
			if pred(in) {
				out = append(out, Site{fn, b, i, in})
			}
		}
	}
	return out
}

// SitesDeep is Sites over fn and all closures nested in it.
func SitesDeep(fn *ssa.Function, pred func(ssa.Instruction) bool) []Site {
	var out []Site
	for _, f := range WithAnons(fn) {
		out = append(out, Sites(f, pred)...)
	}
	return out
}

// CallSites lists call instructions (call, go, defer) of fn to any of the named callees.
func CallSites(fn *ssa.Function, names ...string) []Site {
	return Sites(fn, func(in ssa.Instruction) bool { _, ok := CallTo(in, names...); return ok })
}

func CallSitesDeep(fn *ssa.Function, names ...string) []Site {
	return SitesDeep(fn, func(in ssa.Instruction) bool { _, ok := CallTo(in, names...); return ok })
}

// SiteOf locates an instruction.
func SiteOf(in ssa.Instruction) Site {
	b := in.Block()
	for i, x := range b.Instrs {
		if x == in {
			return Site{in.Parent(), b, i, in}
		}
	}
	return Site{in.Parent(), b, 0, in}
}

// Callers lists every call site in the module of any of the named callees.
func (p *Prog) Callers(names ...string) []Site {
	var out []Site
	for _, fn := range p.ModuleFuncs() {
		out = append(out, CallSites(fn, names...)...)
	}
	return out
}

// TopFunc returns the outermost enclosing declared function.
func TopFunc(fn *ssa.Function) *ssa.Function {
	for fn.Parent() != nil {
		fn = fn.Parent()
	}
	return fn
}

// ---------------------------------------------------------------------------------------------
// Fields

// FieldRef describes v if it is the address or value of a struct field: the struct's named type
// (short form, e.g. "rueidis.pool"), the field name and the base value.
func FieldRef(v ssa.Value) (typ, field string, base ssa.Value, ok bool) {
	switch x := v.(type) {
	case *ssa.FieldAddr:
		st, name := structOf(x.X.Type())
		if st == nil {
			return "", "", nil, false
		}
		return name, st.Field(x.Field).Name(), x.X, true
	case *ssa.Field:
		st, name := structOf(x.X.Type())
		if st == nil {
			return "", "", nil, false
		}
		return name, st.Field(x.Field).Name(), x.X, true
	}
	return "", "", nil, false
}

func structOf(t types.Type) (*types.Struct, string) {
	if p, ok := t.Underlying().(*types.Pointer); ok {
		t = p.Elem()
	}
	name := shortType(t)
	if n, ok := t.(*types.Named); ok && n.Obj().Pkg() != nil {
		name = shortPkg(n.Obj().Pkg().Path()) + "." + n.Obj().Name()
	}
	st, _ := t.Underlying().(*types.Struct)
	return st, name
}

// IsFieldAddr reports whether v is &base.field of the given struct type and field.
func IsFieldAddr(v ssa.Value, typ, field string) bool {
	fa, ok := v.(*ssa.FieldAddr)
	if !ok {
		return false
	}
	t, f, _, ok := FieldRef(fa)
	return ok && t == typ && f == field
}

// IsFieldLoad reports whether v is a load (*(&x.f)) or Field extraction of typ.field, looking
// through conversions.
func IsFieldLoad(v ssa.Value, typ, field string) bool {
	v = Strip(v)
	if u, ok := v.(*ssa.UnOp); ok && u.Op == token.MUL {
		return IsFieldAddr(u.X, typ, field)
	}
	if f, ok := v.(*ssa.Field); ok {
		t, n, _, ok := FieldRef(f)
		return ok && t == typ && n == field
	}
	return false
}

// FieldWrites lists all instructions in the module that write typ.field: plain stores through
// a FieldAddr, and calls that receive the field's address (atomic.Store*, CompareAndSwap, method
// calls on the addressable field such as (*atomic.Int32).Store).
type FieldAccess struct {
	Site
	Write bool
	Via   string // "store", "load", or the callee name that got the address
}

func (p *Prog) FieldAccesses(typ, field string) []FieldAccess {
	var out []FieldAccess
	for _, fn := range p.ModuleFuncs() {
		out = append(out, FieldAccessesIn(fn, typ, field)...)
	}
	return out
}

func FieldAccessesIn(fn *ssa.Function, typ, field string) []FieldAccess {
	var out []FieldAccess
	for _, b := range fn.Blocks {
		for i, in := range b.Instrs {
			s := Site{fn, b, i, in}
			switch x := in.(type) {
			case *ssa.Store:
				if IsFieldAddr(x.Addr, typ, field) {
					out = append(out, FieldAccess{s, true, "store"})
				}
			case *ssa.UnOp:
				if x.Op == token.MUL && IsFieldAddr(x.X, typ, field) {
					out = append(out, FieldAccess{s, false, "load"})
				}
			case *ssa.Field:
				if t, f, _, ok := FieldRef(x); ok && t == typ && f == field {
					out = append(out, FieldAccess{s, false, "load"})
				}
			case ssa.CallInstruction:
				for k, a := range CallArgs(x) {
					if IsFieldAddr(a, typ, field) {
						n := CalleeName(x)
						w := !(strings.Contains(n, ".Load") || strings.HasSuffix(n, "RLock") || strings.HasSuffix(n, "RUnlock"))
						if w && paramOnlyRead(x.Common().StaticCallee(), k) {
							w = false // a helper of the module that only loads through the pointer it is given
						}
						out = append(out, FieldAccess{s, w, n})
					}
				}
			}
		}
	}
	return out
}

// ---------------------------------------------------------------------------------------------
// Values

// Strip removes value-preserving wrappers (conversions between named types, interface boxing).
func Strip(v ssa.Value) ssa.Value {
	for {
		switch x := v.(type) {
		case *ssa.ChangeType:
			v = x.X
		case *ssa.MakeInterface:
			v = x.X
		case *ssa.ChangeInterface:
			v = x.X
		case *ssa.Convert:
			// only conversions that keep the representation (named <-> underlying, same basic kind)
			if types.Identical(x.X.Type().Underlying(), x.Type().Underlying()) {
				v = x.X
			} else {
				return v
			}
		default:
			return v
		}
	}
}

// ConstInt returns the integer value of a constant SSA value.
func ConstInt(v ssa.Value) (int64, bool) {
	c, ok := Strip(v).(*ssa.Const)
	if !ok || c.Value == nil {
		if cv, ok2 := v.(*ssa.Convert); ok2 {
			return ConstInt(cv.X)
		}
		return 0, false
	}
	if c.Value.Kind() != constant.Int {
		return 0, false
	}
	return c.Int64(), true
}

// ConstString returns the value of a constant string.
func ConstString(v ssa.Value) (string, bool) {
	c, ok := Strip(v).(*ssa.Const)
	if !ok || c.Value == nil || c.Value.Kind() != constant.String {
		return "", false
	}
	return constant.StringVal(c.Value), true
}

// IsNilConst reports whether v is the nil constant.
func IsNilConst(v ssa.Value) bool {
	c, ok := Strip(v).(*ssa.Const)
	return ok && c.Value == nil
}

// Desc renders a value structurally with resolved names; local variable names never appear.
//
//	call  -> "<callee>(args)"        field load -> "<base>.field"      param -> "p<i>"
//	global-> "@pkg.name"            const -> literal                   phi -> "phi[a|b]"
func Desc(v ssa.Value) string { return descN(v, 6) }

// DescDeep is Desc without practical depth truncation; used where two descriptors are compared
// for identity (lock names, base objects).
func DescDeep(v ssa.Value) string { return descN(v, 24) }

func descN(v ssa.Value, depth int) string {
	if v == nil {
		return "<nil>"
	}
	if depth <= 0 {
		return "…"
	}
	d := depth - 1
	switch x := v.(type) {
	case *ssa.Const:
		if x.Value == nil {
			return "nil"
		}
		return x.Value.ExactString()
	case *ssa.Parameter:
		for i, p := range x.Parent().Params {
			if p == x {
				return fmt.Sprintf("p%d", i)
			}
		}
		return "p?"
	case *ssa.FreeVar:
		return "free:" + x.Name()
	case *ssa.Global:
		pk := ""
		if x.Pkg != nil {
			pk = shortPkg(x.Pkg.Pkg.Path()) + "."
		}
		return "@" + pk + x.Name()
	case *ssa.Function:
		return "func:" + FuncName(x)
	case *ssa.Builtin:
		return "builtin." + x.Name()
	case *ssa.BinOp:
		return "(" + descN(x.X, d) + " " + x.Op.String() + " " + descN(x.Y, d) + ")"
	case *ssa.UnOp:
		if x.Op == token.MUL {
			if _, f, base, ok := FieldRef(x.X); ok {
				return descN(base, d) + "." + f
			}
			return "*" + descN(x.X, d)
		}
		if x.Op == token.ARROW {
			return "<-" + descN(x.X, d)
		}
		return x.Op.String() + descN(x.X, d)
	case *ssa.FieldAddr:
		_, f, base, _ := FieldRef(x)
		return "&" + descN(base, d) + "." + f
	case *ssa.Field:
		_, f, base, _ := FieldRef(x)
		return descN(base, d) + "." + f
	case *ssa.IndexAddr:
		return "&" + descN(x.X, d) + "[" + descN(x.Index, d) + "]"
	case *ssa.Index:
		return descN(x.X, d) + "[" + descN(x.Index, d) + "]"
	case *ssa.Lookup:
		return descN(x.X, d) + "[" + descN(x.Index, d) + "]"
	case *ssa.Slice:
		lo, hi := "", ""
		if x.Low != nil {
			lo = descN(x.Low, d)
		}
		if x.High != nil {
			hi = descN(x.High, d)
		}
		return descN(x.X, d) + "[" + lo + ":" + hi + "]"
	case *ssa.Call:
		var as []string
		for _, a := range CallArgs(x) {
			as = append(as, descN(a, d))
		}
		n := CalleeName(x)
		if n == "" {
			n = "dyn:" + descN(x.Call.Value, d)
		}
		return n + "(" + strings.Join(as, ",") + ")"
	case *ssa.Extract:
		return descN(x.Tuple, d) + "#" + fmt.Sprint(x.Index)
	case *ssa.Phi:
		var es []string
		for _, e := range x.Edges {
			if e == v {
				es = append(es, "self")
			} else {
				es = append(es, descN(e, d-1))
			}
		}
		sort.Strings(es)
		return "phi[" + strings.Join(es, "|") + "]"
	case *ssa.ChangeType:
		return descN(x.X, depth)
	case *ssa.MakeInterface:
		return descN(x.X, depth)
	case *ssa.ChangeInterface:
		return descN(x.X, depth)
	case *ssa.Convert:
		if types.Identical(x.X.Type().Underlying(), x.Type().Underlying()) {
			return descN(x.X, depth)
		}
		return shortType(x.Type()) + "(" + descN(x.X, d) + ")"
	case *ssa.TypeAssert:
		return descN(x.X, d) + ".(" + shortType(x.AssertedType) + ")"
	case *ssa.Alloc:
		return "alloc:" + shortType(x.Type())
	case *ssa.MakeSlice:
		return "make(" + shortType(x.Type()) + "," + descN(x.Len, d) + "," + descN(x.Cap, d) + ")"
	case *ssa.MakeMap:
		return "makemap(" + shortType(x.Type()) + ")"
	case *ssa.MakeChan:
		return "makechan(" + shortType(x.Type()) + "," + descN(x.Size, d) + ")"
	case *ssa.MakeClosure:
		return "closure:" + FuncName(x.Fn.(*ssa.Function))
	case *ssa.Select:
		return "select"
	case *ssa.Next:
		return "next(" + descN(x.Iter, d) + ")"
	case *ssa.Range:
		return "range(" + descN(x.X, d) + ")"
	case *ssa.SliceToArrayPointer:
		return descN(x.X, depth)
	}
	return "?" + v.Name()
}

// DescInstr renders an instruction (for reports).
func DescInstr(in ssa.Instruction) string {
	switch x := in.(type) {
	case ssa.Value:
		return Desc(x)
	case *ssa.Store:
		return Desc(x.Addr) + " = " + Desc(x.Val)
	case *ssa.Go:
		return "go " + CalleeName(x)
	case *ssa.Defer:
		return "defer " + CalleeName(x)
	case *ssa.Send:
		return Desc(x.Chan) + " <- " + Desc(x.X)
	case *ssa.Return:
		var rs []string
		for _, r := range x.Results {
			rs = append(rs, Desc(r))
		}
		return "return " + strings.Join(rs, ",")
	case *ssa.If:
		return "if " + Desc(x.Cond)
	case *ssa.MapUpdate:
		return Desc(x.Map) + "[" + Desc(x.Key) + "] = " + Desc(x.Value)
	case *ssa.Panic:
		return "panic " + Desc(x.X)
	}
	return in.String()
}

// Same reports whether a and b denote the same value at any point of the function under the
// assumption that the memory they are loaded from is not written in between: identical SSA
// values, or structurally identical pure expressions (loads of the same field chain of the same
// base, same constants, same pure accessor calls).
func Same(a, b ssa.Value) bool {
	a, b = Strip(a), Strip(b)
	if a == b {
		return true
	}
	switch x := a.(type) {
	case *ssa.Const:
		y, ok := b.(*ssa.Const)
		return ok && ((x.Value == nil && y.Value == nil) || (x.Value != nil && y.Value != nil && constant.Compare(x.Value, token.EQL, y.Value)))
	case *ssa.UnOp:
		y, ok := b.(*ssa.UnOp)
		return ok && x.Op == y.Op && x.Op == token.MUL && Same(x.X, y.X)
	case *ssa.FieldAddr:
		y, ok := b.(*ssa.FieldAddr)
		return ok && x.Field == y.Field && Same(x.X, y.X)
	case *ssa.Field:
		y, ok := b.(*ssa.Field)
		return ok && x.Field == y.Field && Same(x.X, y.X)
	case *ssa.IndexAddr:
		y, ok := b.(*ssa.IndexAddr)
		return ok && Same(x.X, y.X) && Same(x.Index, y.Index)
	case *ssa.Global:
		return a == b
	case *ssa.BinOp:
		y, ok := b.(*ssa.BinOp)
		return ok && x.Op == y.Op && Same(x.X, y.X) && Same(x.Y, y.Y)
	case *ssa.Call:
		y, ok := b.(*ssa.Call)
		if ok && CalleeName(x) == "builtin.len" && CalleeName(y) == "builtin.len" && len(x.Call.Args) == 1 && len(y.Call.Args) == 1 {
			// the length of one slice or string value never changes (maps and channels do)
			switch x.Call.Args[0].Type().Underlying().(type) {
			case *types.Slice, *types.Basic, *types.Array:
				return Same(x.Call.Args[0], y.Call.Args[0])
			}
			return false
		}
		if !ok || CalleeName(x) == "" || CalleeName(x) != CalleeName(y) || !PureAccessors[CalleeName(x)] {
			return false
		}
		ax, ay := CallArgs(x), CallArgs(y)
		if len(ax) != len(ay) {
			return false
		}
		for i := range ax {
			if !Same(ax[i], ay[i]) {
				return false
			}
		}
		return true
	}
	return false
}

// PureAccessors are module functions verified (by rule R15p, see rules_c15.go) to have no side
// effects and to return a value determined by their receiver's fields.
var PureAccessors = map[string]bool{
	"rueidis.(*RedisMessage).values": true,
	"rueidis.(*RedisMessage).string": true,
	"rueidis.(*RedisError).string":   true,
	"rueidis.(*prettyRedisMessage).values": true,
}

// ---------------------------------------------------------------------------------------------
// Guards

// Guard is a branch condition known to hold (Pol=true) or not hold (Pol=false).
type Guard struct {
	Cond  ssa.Value
	Pol   bool
	Block *ssa.BasicBlock // the block whose terminating If produced the guard
}

func (g Guard) String() string {
	if g.Pol {
		return "T:" + Desc(g.Cond)
	}
	return "F:" + Desc(g.Cond)
}

// normGuard pushes negations inside: !x with pol -> x with !pol.
func normGuard(g Guard) Guard {
	for {
		u, ok := g.Cond.(*ssa.UnOp)
		if !ok || u.Op != token.NOT {
			return g
		}
		g = Guard{u.X, !g.Pol, g.Block}
	}
}

// DomGuards returns the conditions that hold on every path to block b, derived from the
// dominator tree: for each dominator ending in an If, the edge that dominates b.
func DomGuards(b *ssa.BasicBlock) []Guard {
	var out []Guard
	for d := b.Idom(); d != nil; d = d.Idom() {
		if g, ok := edgeGuardDom(d, b); ok {
			out = append(out, g)
		}
	}
	return out
}

func edgeGuardDom(d, b *ssa.BasicBlock) (Guard, bool) {
	if len(d.Instrs) == 0 {
		return Guard{}, false
	}
	iff, ok := d.Instrs[len(d.Instrs)-1].(*ssa.If)
	if !ok {
		return Guard{}, false
	}
	t, f := d.Succs[0], d.Succs[1]
	if t == f {
		return Guard{}, false
	}
	td := len(t.Preds) == 1 && t.Dominates(b)
	fd := len(f.Preds) == 1 && f.Dominates(b)
	if td && !fd {
		return normGuard(Guard{iff.Cond, true, d}), true
	}
	if fd && !td {
		return normGuard(Guard{iff.Cond, false, d}), true
	}
	return Guard{}, false
}

// GuardDNF computes the guards of block b edge-wise: a disjunction (over the ways control can
// reach b through join points) of conjunctions. Joins are expanded up to the given depth; beyond
// that, only the dominator-derived guards of the join are used. Back edges (pred dominated by b)
// are ignored: a loop header's guards are those of its entry edges.
func GuardDNF(b *ssa.BasicBlock, depth int) [][]Guard {
	return guardDNF(b, depth, map[*ssa.BasicBlock]bool{})
}

func guardDNF(b *ssa.BasicBlock, depth int, onpath map[*ssa.BasicBlock]bool) [][]Guard {
	if len(b.Preds) == 0 {
		return [][]Guard{nil}
	}
	var preds []*ssa.BasicBlock
	for _, p := range b.Preds {
		if b.Dominates(p) || onpath[p] { // back edge
			continue
		}
		preds = append(preds, p)
	}
	if len(preds) == 0 {
		return [][]Guard{DomGuards(b)}
	}
	if len(preds) > 1 && depth == 0 {
		return [][]Guard{DomGuards(b)}
	}
	onpath[b] = true
	defer delete(onpath, b)
	var out [][]Guard
	for _, p := range preds {
		var eg []Guard
		if len(p.Instrs) > 0 {
			if iff, ok := p.Instrs[len(p.Instrs)-1].(*ssa.If); ok && p.Succs[0] != p.Succs[1] {
				eg = append(eg, normGuard(Guard{iff.Cond, p.Succs[0] == b, p}))
			}
		}
		nd := depth
		if len(preds) > 1 {
			nd = depth - 1
		}
		for _, conj := range guardDNF(p, nd, onpath) {
			c := append(append([]Guard{}, eg...), conj...)
			if !contradictory(c) {
				out = append(out, c)
			}
		}
	}
	if len(out) > 64 {
		return [][]Guard{DomGuards(b)}
	}
	if len(out) == 0 {
		return [][]Guard{DomGuards(b)}
	}
	return out
}

func contradictory(c []Guard) bool {
	for i := range c {
		for j := i + 1; j < len(c); j++ {
			if c[i].Pol != c[j].Pol && Same(c[i].Cond, c[j].Cond) {
				return true
			}
		}
	}
	return false
}

// AllDisjuncts reports whether every disjunct of the DNF contains a guard satisfying pred.
func AllDisjuncts(dnf [][]Guard, pred func(Guard) bool) bool {
	return allDisjuncts(dnf, pred, 2)
}

func allDisjuncts(dnf [][]Guard, pred func(Guard) bool, depth int) bool {
	for _, conj := range dnf {
		ok := false
		for _, g := range conj {
			if pred(g) {
				ok = true
				break
			}
			// a guard that is the result of an unexported boolean helper of the same package
			// ("if p.mustWait(ctx)") implies what the helper's body implies for that result
			if depth > 0 {
				if exp := predicateHelperDNF(g); exp != nil && allDisjuncts(exp, pred, depth-1) {
					ok = true
					break
				}
				// a guard on a hoisted boolean (`full := a && b; if full`) implies what made it so
				if exp := boolPhiDNF(g); exp != nil && allDisjuncts(exp, pred, depth-1) {
					ok = true
					break
				}
			}
		}
		if !ok {
			return false
		}
	}
	return true
}

// Guarded reports whether the block of site s is guarded (edge-wise) by pred on every way in.
func Guarded(b *ssa.BasicBlock, pred func(Guard) bool) bool {
	return AllDisjuncts(GuardDNF(b, 4), pred)
}

func GuardStrings(dnf [][]Guard) string {
	var ds []string
	for _, c := range dnf {
		var gs []string
		for _, g := range c {
			gs = append(gs, g.String())
		}
		ds = append(ds, "{"+strings.Join(gs, " ∧ ")+"}")
		if len(ds) == 2 && len(dnf) > 2 {
			ds = append(ds, fmt.Sprintf("… %d more disjuncts", len(dnf)-2))
			break
		}
	}
	out := strings.Join(ds, " ∨ ")
	if len(out) > 600 {
		out = out[:600] + "…"
	}
	return out
}

// CmpGuard decomposes a guard whose condition is a comparison into (lhs, op, rhs) with the
// polarity folded into the operator.
func CmpGuard(g Guard) (x ssa.Value, op token.Token, y ssa.Value, ok bool) {
	b, isb := g.Cond.(*ssa.BinOp)
	if !isb {
		return nil, 0, nil, false
	}
	op = b.Op
	if !g.Pol {
		switch op {
		case token.EQL:
			op = token.NEQ
		case token.NEQ:
			op = token.EQL
		case token.LSS:
			op = token.GEQ
		case token.GEQ:
			op = token.LSS
		case token.GTR:
			op = token.LEQ
		case token.LEQ:
			op = token.GTR
		default:
			return nil, 0, nil, false
		}
	}
	switch op {
	case token.EQL, token.NEQ, token.LSS, token.GEQ, token.GTR, token.LEQ:
		return b.X, op, b.Y, true
	}
	return nil, 0, nil, false
}

// ---------------------------------------------------------------------------------------------
// Paths

// pp is a program point: before instruction idx of block b.
type pp struct {
	b *ssa.BasicBlock
	i int
}

// WalkFrom explores all program points reachable from just after site s (within s.Fn). visit is
// called for each instruction reached; returning false stops the exploration along that path.
func WalkFrom(s Site, visit func(Site) bool) {
	seen := map[pp]bool{}
	var work []pp
	work = append(work, pp{s.Block, s.Idx + 1})
	for len(work) > 0 {
		cur := work[len(work)-1]
		work = work[:len(work)-1]
		if seen[cur] {
			continue
		}
		seen[cur] = true
		b := cur.b
		stop := false
		for i := cur.i; i < len(b.Instrs); i++ {
			if i > cur.i {
				if seen[pp{b, i}] {
					stop = true
					break
				}
				seen[pp{b, i}] = true
			}
			if !visit(Site{s.Fn, b, i, b.Instrs[i]}) {
				stop = true
				break
			}
		}
		if stop {
			continue
		}
		for _, succ := range b.Succs {
			work = append(work, pp{succ, 0})
		}
	}
}

// MustPass reports whether every path from just after site s to a normal return of the function
// passes an instruction satisfying hit. Panics are not normal returns. A `defer` of a call that
// satisfies hit counts as hitting at the defer instruction (it runs at every exit after it).
// It returns the first return (or dead end) reached without a hit.
func MustPass(s Site, hit func(ssa.Instruction) bool) (bool, ssa.Instruction) {
	var bad ssa.Instruction
	WalkFrom(s, func(x Site) bool {
		if bad != nil {
			return false
		}
		if hit(x.Instr) {
			return false
		}
		if r, ok := x.Instr.(*ssa.Return); ok {
			bad = r
			return false
		}
		return true
	})
	return bad == nil, bad
}

// MustPassFromEntry is MustPass from the function's entry.
func MustPassFromEntry(fn *ssa.Function, hit func(ssa.Instruction) bool) (bool, ssa.Instruction) {
	if len(fn.Blocks) == 0 {
		return false, nil
	}
	return MustPass(Site{fn, fn.Blocks[0], -1, nil}, hit)
}

// Reaches reports whether some path from just after s reaches an instruction satisfying target
// without first passing one satisfying stop (stop may be nil).
func Reaches(s Site, target func(Site) bool, stop func(Site) bool) (bool, Site) {
	var found *Site
	WalkFrom(s, func(x Site) bool {
		if found != nil {
			return false
		}
		if target(x) {
			y := x
			found = &y
			return false
		}
		if stop != nil && stop(x) {
			return false
		}
		return true
	})
	if found != nil {
		return true, *found
	}
	return false, Site{}
}

// Dominates reports whether site a is executed before site b on every path to b (same function).
func Dominates(a, b Site) bool {
	if a.Block == b.Block {
		return a.Idx < b.Idx
	}
	return a.Block.Dominates(b.Block)
}

// ReachableBlocks returns the set of blocks reachable from the function entry.
func ReachableBlocks(fn *ssa.Function) map[*ssa.BasicBlock]bool {
	seen := map[*ssa.BasicBlock]bool{}
	var dfs func(b *ssa.BasicBlock)
	dfs = func(b *ssa.BasicBlock) {
		if seen[b] {
			return
		}
		seen[b] = true
		for _, s := range b.Succs {
			dfs(s)
		}
	}
	if len(fn.Blocks) > 0 {
		dfs(fn.Blocks[0])
	}
	return seen
}

// ---------------------------------------------------------------------------------------------
// Def-use

// Roots follows v backwards through value-preserving and container operations (conversions,
// slicing, indexing, field selection, phis, extracts, loads from allocs with their stores) and
// returns the set of origin descriptors: "param:<i>", "field:<type>.<name>", "global:<name>",
// "call:<callee>", "const", "alloc", "make".
func Roots(v ssa.Value) map[string]bool {
	out := map[string]bool{}
	rootsRec(v, map[ssa.Value]bool{}, out)
	return out
}

func rootsRec(v ssa.Value, seen map[ssa.Value]bool, out map[string]bool) {
	if v == nil || seen[v] {
		return
	}
	seen[v] = true
	switch x := v.(type) {
	case *ssa.Parameter:
		for i, p := range x.Parent().Params {
			if p == x {
				out[fmt.Sprintf("param:%d", i)] = true
			}
		}
	case *ssa.FreeVar:
		out["free:"+x.Name()] = true
	case *ssa.Const:
		out["const"] = true
	case *ssa.Global:
		out["global:"+x.Name()] = true
	case *ssa.Slice:
		rootsRec(x.X, seen, out)
	case *ssa.IndexAddr:
		rootsRec(x.X, seen, out)
	case *ssa.Index:
		rootsRec(x.X, seen, out)
	case *ssa.Lookup:
		rootsRec(x.X, seen, out)
	case *ssa.FieldAddr:
		t, f, _, _ := FieldRef(x)
		out["field:"+t+"."+f] = true
		rootsRec(x.X, seen, out)
	case *ssa.Field:
		t, f, _, _ := FieldRef(x)
		out["field:"+t+"."+f] = true
		rootsRec(x.X, seen, out)
	case *ssa.UnOp:
		rootsRec(x.X, seen, out)
	case *ssa.Phi:
		for _, e := range x.Edges {
			rootsRec(e, seen, out)
		}
	case *ssa.Extract:
		rootsRec(x.Tuple, seen, out)
	case *ssa.ChangeType:
		rootsRec(x.X, seen, out)
	case *ssa.Convert:
		rootsRec(x.X, seen, out)
	case *ssa.MakeInterface:
		rootsRec(x.X, seen, out)
	case *ssa.ChangeInterface:
		rootsRec(x.X, seen, out)
	case *ssa.TypeAssert:
		rootsRec(x.X, seen, out)
	case *ssa.Call:
		n := CalleeName(x)
		out["call:"+n] = true
		if n == "builtin.append" {
			for _, a := range x.Call.Args {
				rootsRec(a, seen, out)
			}
		}
	case *ssa.Alloc:
		out["alloc"] = true
		// values stored into the alloc (local variable or variadic backing array)
		for _, r := range *x.Referrers() {
			switch s := r.(type) {
			case *ssa.Store:
				if s.Addr == x {
					rootsRec(s.Val, seen, out)
				}
			case *ssa.IndexAddr:
				for _, rr := range *s.Referrers() {
					if st, ok := rr.(*ssa.Store); ok && st.Addr == s {
						rootsRec(st.Val, seen, out)
					}
				}
			}
		}
	case *ssa.MakeSlice:
		out["make"] = true
	case *ssa.Next:
		rootsRec(x.Iter, seen, out)
	case *ssa.Range:
		rootsRec(x.X, seen, out)
	case *ssa.BinOp:
		rootsRec(x.X, seen, out)
		rootsRec(x.Y, seen, out)
	}
}

// DependsOn reports whether v is computed (through any data operations) from a value
// satisfying pred. Calls are followed through their arguments.
func DependsOn(v ssa.Value, pred func(ssa.Value) bool) bool {
	return dependsOn(v, pred, map[ssa.Value]bool{})
}

func dependsOn(v ssa.Value, pred func(ssa.Value) bool, seen map[ssa.Value]bool) bool {
	if v == nil || seen[v] {
		return false
	}
	seen[v] = true
	if pred(v) {
		return true
	}
	if fa, ok := v.(*ssa.FieldAddr); ok {
		if _, root := fieldPath(fa); root != nil {
			if _, isAlloc := root.(*ssa.Alloc); isAlloc {
				// a field of a local struct variable: only the stores to that same field path
				for _, sv := range AllocFieldStores(fa) {
					if dependsOn(sv, pred, seen) {
						return true
					}
				}
				// whole-struct assignments to the variable (node := g.nodes[0])
				for _, r := range *root.(*ssa.Alloc).Referrers() {
					if st, ok := r.(*ssa.Store); ok && st.Addr == root && dependsOn(st.Val, pred, seen) {
						return true
					}
				}
				return false
			}
		}
	}
	if a, ok := v.(*ssa.Alloc); ok {
		for _, r := range *a.Referrers() {
			switch s := r.(type) {
			case *ssa.Store:
				if s.Addr == a && dependsOn(s.Val, pred, seen) {
					return true
				}
			case *ssa.IndexAddr:
				for _, rr := range *s.Referrers() {
					if st, ok := rr.(*ssa.Store); ok && st.Addr == s && dependsOn(st.Val, pred, seen) {
						return true
					}
				}
			}
		}
		return false
	}
	in, ok := v.(ssa.Instruction)
	if !ok {
		return false
	}
	for _, op := range in.Operands(nil) {
		if *op != nil && dependsOn(*op, pred, seen) {
			return true
		}
	}
	return false
}

// Uses returns the instructions that use v, following value-preserving wrappers.
func Uses(v ssa.Value) []ssa.Instruction {
	var out []ssa.Instruction
	seen := map[ssa.Value]bool{}
	var rec func(v ssa.Value)
	rec = func(v ssa.Value) {
		if seen[v] {
			return
		}
		seen[v] = true
		refs := v.Referrers()
		if refs == nil {
			return
		}
		for _, r := range *refs {
			out = append(out, r)
			switch x := r.(type) {
			case *ssa.ChangeType, *ssa.MakeInterface, *ssa.ChangeInterface, *ssa.Convert, *ssa.Phi:
				rec(x.(ssa.Value))
			}
		}
	}
	rec(v)
	return out
}

// IsLoopHeader reports whether b has a back edge (a predecessor it dominates).
func IsLoopHeader(b *ssa.BasicBlock) bool {
	for _, p := range b.Preds {
		if b.Dominates(p) {
			return true
		}
	}
	return false
}

// AllocFieldStores returns the values stored into the same field path of a local struct
// variable as the given address (addr must be a FieldAddr chain rooted at an Alloc).
func AllocFieldStores(addr ssa.Value) []ssa.Value {
	path, root := fieldPath(addr)
	al, ok := root.(*ssa.Alloc)
	if !ok || path == "" {
		return nil
	}
	var out []ssa.Value
	var walk func(v ssa.Value)
	walk = func(v ssa.Value) {
		refs := v.Referrers()
		if refs == nil {
			return
		}
		for _, r := range *refs {
			switch x := r.(type) {
			case *ssa.FieldAddr:
				walk(x)
			case *ssa.Store:
				if x.Addr == v {
					if pp, _ := fieldPath(x.Addr); pp == path {
						out = append(out, x.Val)
					}
				}
			}
		}
	}
	walk(al)
	return out
}

func fieldPath(addr ssa.Value) (string, ssa.Value) {
	var parts []string
	v := addr
	for {
		fa, ok := v.(*ssa.FieldAddr)
		if !ok {
			return strings.Join(parts, "."), v
		}
		_, f, base, _ := FieldRef(fa)
		parts = append([]string{f}, parts...)
		v = base
	}
}
