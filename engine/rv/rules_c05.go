package rv

import (
	"go/token"
	"go/types"
	"strings"

	"golang.org/x/tools/go/ssa"
)

func init() {
	Registry["C05"] = RuleDef{Module: ".", Run: runC05,
		Technique:   "dominance (context test before any write), guard rule on every blocking wait in context-carrying functions, monitor rule for the pool's cancellation wake-up, guard table of the back-off",
		Explanation: "Decides (R05a) that in pipe.Do/DoMulti/DoStream/DoMultiStream a ctx.Err() test whose non-nil arm returns dominates every enqueue, synchronous send and write, so a call whose context is already done sends nothing; (R05b) that in every function of the client that carries a context, each blocking channel receive is either a select with a ctx.Done() case or sits under the `ctx.Done() == nil` arm, and each condition-variable wait has a loop predicate containing ctx.Err() together with a cancellation broadcaster that obeys the monitor rule; (R05c) that the synchronous paths set a connection deadline derived from the context's deadline before writing, and map a deadline error back to context.DeadlineExceeded only when the context's own deadline was used; (R05d) the back-off decision table of WaitOrSkipRetry/WaitForRetry (no wait beyond the deadline, wait is cancellable). (R05e) a failed wait on another caller's cache flight is never retried without re-examining the waiter's own context (it would spin until the flight resolves).",
		NotDecided:  "timing (\"shortly after\"), deadline honouring inside the OS read, the ring queue's Put (a known finding: it has no cancellation path)."}
}

func isCtxType(t types.Type) bool { return shortType(t) == "context.Context" }

func ctxDoneOrigin(v ssa.Value) bool {
	return DependsOn(v, func(x ssa.Value) bool {
		c, ok := x.(*ssa.Call)
		return ok && CalleeName(c) == "iface:context.Context.Done"
	})
}

func runC05(r *Report) {
	waitNotRetriedRule(r)
	p := r.P
	// R05a
	sendish := []string{"iface:rueidis.queue.PutOne", "iface:rueidis.queue.PutMulti", "rueidis.(*pipe).syncDo", "rueidis.(*pipe).syncDoMulti", "rueidis.writeCmd", "rueidis.flushCmd", "bufio.(*Writer).Flush"}
	for _, name := range []string{"rueidis.(*pipe).Do", "rueidis.(*pipe).DoMulti", "rueidis.(*pipe).DoStream", "rueidis.(*pipe).DoMultiStream"} {
		fn := r.FnAnchor("R05a", name)
		if fn == nil {
			continue
		}
		sites := CallSites(fn, sendish...)
		// a send may sit in an unexported pipe method the request function calls (its queued tail split
		// off): then the call of that method must be behind the context test
		isSendish := map[string]bool{}
		for _, n := range sendish {
			isSendish[n] = true
		}
		for _, cs := range Sites(fn, func(in ssa.Instruction) bool { _, ok := in.(*ssa.Call); return ok }) {
			h := cs.Call().Common().StaticCallee()
			if h == nil || h.Blocks == nil || isSendish[FuncName(h)] || isExportedName(h.Name()) || !strings.HasPrefix(FuncName(h), "rueidis.(*pipe).") {
				continue
			}
			if len(CallSites(h, sendish...)) > 0 && helperOnlyCalledFrom(p, h, map[string]bool{name: true}, 1) {
				sites = append(sites, cs)
			}
		}
		r.Anchor("R05a", name+": enqueue/send sites", len(sites) > 0)
		for _, s := range sites {
			ok := false
			for _, g := range DomGuards(s.Block) {
				x, op, y, cok := CmpGuard(g)
				if cok && op == token.EQL && IsNilConst(y) {
					if c, isc := x.(*ssa.Call); isc && CalleeName(c) == "iface:context.Context.Err" {
						ok = true
					}
				}
			}
			// also accept when the call block itself is not guarded but is dominated by a block
			// whose Err()!=nil arm returns: DomGuards covers that (the false edge dominates).
			r.ObSite("R05a", s, "ctx-checked-before:"+CalleeName(s.Call()), ok, "a `ctx.Err() == nil` test must dominate every enqueue / synchronous send / write, so that a call whose context is already done sends nothing")
		}
	}
	r.Min("R05a", 8)

	// R05b: blocking waits in context-carrying functions
	nWait := 0
	for _, fn := range p.ModuleFuncs() {
		name := FuncName(fn)
		if !strings.HasPrefix(name, "rueidis.") || fn.Parent() != nil {
			continue
		}
		hasCtx := false
		for _, prm := range fn.Params {
			if isCtxType(prm.Type()) {
				hasCtx = true
			}
		}
		if !hasCtx {
			continue
		}
		for _, b := range fn.Blocks {
			for i, in := range b.Instrs {
				s := Site{fn, b, i, in}
				switch x := in.(type) {
				case *ssa.UnOp:
					if x.Op != token.ARROW {
						continue
					}
					if ctxDoneOrigin(x.X) {
						continue // waiting for the context itself
					}
					nWait++
					ok := Guarded(b, func(g Guard) bool {
						y, op, z, cok := CmpGuard(g)
						return cok && op == token.EQL && IsNilConst(z) && ctxDoneOrigin(y)
					})
					r.ObSite("R05b", s, "recv:"+shortType(x.X.Type()), ok, "a plain blocking receive in a context-carrying function is only allowed when ctx.Done() == nil (the context can never end); otherwise it must be a select with a ctx.Done() case")
				case *ssa.Select:
					if !x.Blocking {
						continue
					}
					nWait++
					ok := false
					for _, st := range x.States {
						if st.Dir == types.RecvOnly && ctxDoneOrigin(st.Chan) {
							ok = true
						}
					}
					if !ok {
						// a select without a ctx case is fine under ctx.Done() == nil
						ok = Guarded(b, func(g Guard) bool {
							y, op, z, cok := CmpGuard(g)
							return cok && op == token.EQL && IsNilConst(z) && ctxDoneOrigin(y)
						})
					}
					r.ObSite("R05b", s, "select", ok, "a blocking select in a context-carrying function must have a ctx.Done() case")
				case *ssa.Call:
					if CalleeName(x) == "sync.(*Cond).Wait" {
						nWait++
						ctxInLoop := Guarded(b, func(g Guard) bool {
							y, op, z, cok := CmpGuard(g)
							if !cok || op != token.EQL || !IsNilConst(z) {
								return false
							}
							c, isc := y.(*ssa.Call)
							return isc && CalleeName(c) == "iface:context.Context.Err"
						})
						// a broadcaster goroutine woken by the context
						bc := false
						// goroutines started by this function: closures and named functions alike
						started := append([]*ssa.Function{}, fn.AnonFuncs...)
						for _, gs := range Sites(fn, func(in ssa.Instruction) bool { _, ok := in.(*ssa.Go); return ok }) {
							if callee := gs.Instr.(*ssa.Go).Call.StaticCallee(); callee != nil && callee.Blocks != nil && r.P.InModule(callee) {
								started = append(started, callee)
							}
						}
						for _, a := range started {
							recvCtx, brd := false, false
							for _, ab := range a.Blocks {
								for _, ain := range ab.Instrs {
									if u, ok := ain.(*ssa.UnOp); ok && u.Op == token.ARROW && ctxDoneOrigin(u.X) {
										recvCtx = true
									}
									if _, ok := CallTo(ain, "sync.(*Cond).Broadcast"); ok {
										brd = true
									}
								}
							}
							if recvCtx && brd {
								bc = true
							}
						}
						r.ObSite("R05b", s, "cond-wait", ctxInLoop && bc, "a condition-variable wait reachable with a context must re-test ctx.Err() in its loop and be woken by a goroutine that broadcasts when the context ends")
					}
					if CalleeName(x) == "time.Sleep" {
						nWait++
						ok := Guarded(b, func(g Guard) bool {
							y, op, z, cok := CmpGuard(g)
							return cok && op == token.EQL && IsNilConst(z) && ctxDoneOrigin(y)
						})
						r.ObSite("R05b", s, "sleep", ok, "an uninterruptible sleep in a context-carrying function is only allowed when ctx.Done() == nil")
					}
				}
			}
		}
	}
	r.Anchor("R05b", "blocking waits in context-carrying functions", nWait >= 10)
	// the cancellation broadcaster obeys the monitor rule
	acquireFamily := map[string]bool{"rueidis.(*pool).Acquire": true}
	if af := r.P.Fn("rueidis.(*pool).Acquire"); af != nil {
		for _, gs := range Sites(af, func(in ssa.Instruction) bool { _, ok := in.(*ssa.Go); return ok }) {
			if callee := gs.Instr.(*ssa.Go).Call.StaticCallee(); callee != nil {
				acquireFamily[FuncName(callee)] = true
			}
		}
	}
	monitorRule(r, "R05b-monitor", func(fn *ssa.Function) bool { return acquireFamily[FuncName(TopFunc(fn))] })

	// R05c: deadline plumbing
	writes := []string{"rueidis.writeCmd", "rueidis.flushCmd", "bufio.(*Writer).Flush"}
	for _, name := range []string{"rueidis.(*pipe).syncDo", "rueidis.(*pipe).syncDoMulti", "rueidis.(*pipe).DoStream", "rueidis.(*pipe).DoMultiStream"} {
		fn := r.FnAnchor("R05c", name)
		if fn == nil {
			continue
		}
		isSetDl := func(in ssa.Instruction) bool { _, ok := CallTo(in, "iface:net.Conn.SetDeadline"); return ok }
		for _, s := range CallSites(fn, writes...) {
			// reachable from entry without SetDeadline?
			reach := false
			WalkFrom(Site{fn, fn.Blocks[0], -1, nil}, func(x Site) bool {
				if isSetDl(x.Instr) {
					return false
				}
				if x.Instr == s.Instr {
					reach = true
					return false
				}
				return true
			})
			r.ObSite("R05c", s, "deadline-before-write", !reach, "the connection deadline must be (re)set on every path before a synchronous write")
		}
		// the context's deadline is used when there is one
		used := false
		for _, s := range CallSites(fn, "iface:net.Conn.SetDeadline") {
			arg := s.Call().Common().Args[0]
			fromCtx := DependsOn(arg, func(x ssa.Value) bool {
				if prm, ok := x.(*ssa.Parameter); ok && shortType(prm.Type()) == "time.Time" {
					return true
				}
				if c, ok := x.(*ssa.Call); ok && CalleeName(c) == "iface:context.Context.Deadline" {
					return true
				}
				return false
			})
			if fromCtx {
				used = true
			}
		}
		r.Ob("R05c", fn, "ctx-deadline-applied", fn.Pos(), used, "some SetDeadline call must take its argument from the context's deadline")
		// DeadlineExceeded mapping only under the dlOk flag
		for _, b := range fn.Blocks {
			for i, in := range b.Instrs {
				u, ok := in.(*ssa.UnOp)
				if !ok || u.Op != token.MUL || Desc(u) != "*@context.DeadlineExceeded" {
					continue
				}
				okg := Guarded(b, func(g Guard) bool {
					if !g.Pol {
						return false
					}
					return DependsOn(g.Cond, func(x ssa.Value) bool {
						if prm, ok := x.(*ssa.Parameter); ok && shortType(prm.Type()) == "bool" {
							return true
						}
						if ex, ok := x.(*ssa.Extract); ok && ex.Index == 1 {
							if c, ok := ex.Tuple.(*ssa.Call); ok && CalleeName(c) == "iface:context.Context.Deadline" {
								return true
							}
						}
						return false
					})
				})
				r.ObSite("R05c", Site{fn, b, i, in}, "deadline-error-mapped-under-flag", okg, "an I/O deadline error is reported as context.DeadlineExceeded only when the context's own deadline was the one applied")
			}
		}
	}
	r.Min("R05c", 8)

	// R05d
	backoffRule(r)
	if fn := r.FnAnchor("R05d", "rueidis.(*retryer).WaitForRetry"); fn != nil {
		n := 0
		for _, b := range fn.Blocks {
			for i, in := range b.Instrs {
				if sel, ok := in.(*ssa.Select); ok && sel.Blocking {
					n++
					okc := false
					for _, st := range sel.States {
						if ctxDoneOrigin(st.Chan) {
							okc = true
						}
					}
					r.ObSite("R05d", Site{fn, b, i, in}, "backoff-wait-cancellable", okc, "the back-off wait must end when the context ends")
				}
			}
		}
		r.Anchor("R05d", "select in WaitForRetry", n >= 1)
	}
}

// waitNotRetriedRule (R05e): a wait on another caller's cache flight returns the waiter's own
// context error when its context ends; an arm on which that error is known to be non-nil must not
// lead back to the same wait (the context is still done: the call would spin instead of returning)
// unless it re-examines its own context first.
func waitNotRetriedRule(r *Report) {
	n := 0
	for _, fn := range r.P.ModuleFuncs() {
		if !strings.HasPrefix(FuncName(fn), "rueidis.") {
			continue
		}
		for _, s := range Sites(fn, func(in ssa.Instruction) bool {
			c, ok := in.(*ssa.Call)
			return ok && CalleeName(c) == "iface:rueidis.CacheEntry.Wait"
		}) {
			n++
			errv := extractOf(s.Instr.(*ssa.Call), 1)
			ok := true
			if errv != nil {
				for _, b := range fn.Blocks {
					iff, isif := b.Instrs[len(b.Instrs)-1].(*ssa.If)
					if !isif || len(b.Succs) != 2 {
						continue
					}
					for succ := 0; succ < 2; succ++ {
						x, op, y, cok := CmpGuard(normGuard(Guard{iff.Cond, succ == 0, b}))
						if !cok || (x != errv && y != errv) {
							continue
						}
						other := y
						if y == errv {
							other = x
						}
						nonNil := op == token.NEQ && IsNilConst(other) || op == token.EQL && !IsNilConst(other)
						if !nonNil {
							continue
						}
						hit, _ := Reaches(Site{fn, b.Succs[succ], -1, nil}, func(w Site) bool { return w.Instr == s.Instr }, func(w Site) bool {
							c, isc := w.Instr.(ssa.CallInstruction)
							return isc && CalleeName(c) == "iface:context.Context.Err"
						})
						if hit {
							ok = false
						}
					}
				}
			}
			r.ObSite("R05e", s, "failed-wait-is-not-retried", ok, "after a flight wait reported an error (possibly the waiter's own context error) the call does not go back to the same wait without re-examining its context")
		}
	}
	r.Anchor("R05e", "cache flight waits (>= 3)", n >= 3)
}
