package rv

import (
	"encoding/json"
	"fmt"
	"go/token"
	"os"
	"path/filepath"
	"sort"
	"strings"
	"time"

	"golang.org/x/tools/go/ssa"
)

// Obligation is one decided instance of a rule.
type Obligation struct {
	Rule   string `json:"rule"`
	Key    string `json:"key"`
	Pos    string `json:"pos"`
	Status string `json:"status"` // discharged | violated | known-finding | assumed-reviewed
	Reason string `json:"reason,omitempty"`
	base   string
}

// Report collects the obligations of one property check.
type Report struct {
	Prop        string
	Tier        string
	P           *Prog
	Obs         []*Obligation
	Explanation string
	NotDecided  string
	Assumptions []string
	Trusted     []string
	Funcs       map[string]bool // functions analysed
	Configs     []string
	Packages    int
	Extra       map[string]any
	minInst     map[string]int
}

func NewReport(prop, tier string) *Report {
	return &Report{Prop: prop, Tier: tier, Funcs: map[string]bool{}, Extra: map[string]any{}, minInst: map[string]int{}}
}

// Touch records that fn was analysed.
func (r *Report) Touch(fns ...*ssa.Function) {
	for _, fn := range fns {
		if fn != nil {
			r.Funcs[FuncName(fn)] = true
		}
	}
}

// Ob records an obligation. desc identifies the construct inside fn (callee, field, operand
// descriptor); ordinals among equal (rule, fn, desc) triples are assigned in source order when
// the report is finalised, so keys do not depend on line numbers.
func (r *Report) Ob(rule string, fn *ssa.Function, desc string, pos token.Pos, ok bool, reason string) *Obligation {
	fname := "-"
	if fn != nil {
		fname = FuncName(fn)
		r.Funcs[fname] = true
	}
	st := "discharged"
	if !ok {
		st = "violated"
	}
	o := &Obligation{Rule: rule, base: rule + "|" + fname + "|" + desc, Pos: r.P.Pos(pos), Status: st, Reason: reason}
	r.Obs = append(r.Obs, o)
	return o
}

// ObSite is Ob for an instruction site.
func (r *Report) ObSite(rule string, s Site, desc string, ok bool, reason string) *Obligation {
	return r.Ob(rule, s.Fn, desc, InstrPos(s.Instr), ok, reason)
}

// Anchor records that a named construct the rule depends on must exist; a missing anchor is a
// violation (fail closed), so a rule can never pass vacuously because its subject was renamed.
func (r *Report) Anchor(rule, name string, found bool) bool {
	st := "discharged"
	reason := "anchor resolved"
	if !found {
		st = "violated"
		reason = "anchor-missing: " + name + " does not resolve in the current tree; the rule cannot be evaluated"
	}
	r.Obs = append(r.Obs, &Obligation{Rule: rule, base: rule + "|anchor|" + name, Pos: "-", Status: st, Reason: reason})
	return found
}

// FnAnchor resolves a function by canonical name and records the anchor obligation.
func (r *Report) FnAnchor(rule, name string) *ssa.Function {
	fn := r.P.Fn(name)
	if fn != nil && fn.Blocks == nil {
		fn = nil
	}
	r.Anchor(rule, name, fn != nil)
	if fn != nil {
		r.Funcs[name] = true
	}
	return fn
}

// Min demands at least n instances of rule (vacuity guard).
func (r *Report) Min(rule string, n int) { r.minInst[rule] = n }

type knownFinding struct {
	Property string `json:"property"`
	Rule     string `json:"rule"`
	Key      string `json:"key"`
	Witness  string `json:"witness"`
	Status   string `json:"status"` // known | fixed
	Commit   string `json:"commit,omitempty"`
	Note     string `json:"note,omitempty"`
}

func loadKnown(path string) ([]knownFinding, error) {
	b, err := os.ReadFile(path)
	if err != nil {
		if os.IsNotExist(err) {
			return nil, nil
		}
		return nil, err
	}
	var k []knownFinding
	if err := json.Unmarshal(b, &k); err != nil {
		return nil, err
	}
	return k, nil
}

// Finish assigns keys, applies known findings, prints the result lines, writes evidence and
// returns the process exit code.
func (r *Report) Finish(verifDir string, start time.Time, seed int64) int {
	// ordinals in source order
	sort.SliceStable(r.Obs, func(i, j int) bool {
		if r.Obs[i].base != r.Obs[j].base {
			return r.Obs[i].base < r.Obs[j].base
		}
		return posLess(r.Obs[i].Pos, r.Obs[j].Pos)
	})
	cnt := map[string]int{}
	for _, o := range r.Obs {
		o.Key = fmt.Sprintf("%s|#%d", o.base, cnt[o.base])
		cnt[o.base]++
	}
	// vacuity
	per := map[string]int{}
	for _, o := range r.Obs {
		if !strings.Contains(o.base, "|anchor|") {
			per[o.Rule]++
		}
	}
	var rulesMin []string
	for rule := range r.minInst {
		rulesMin = append(rulesMin, rule)
	}
	sort.Strings(rulesMin)
	for _, rule := range rulesMin {
		n := r.minInst[rule]
		ok := per[rule] >= n
		st := "discharged"
		if !ok {
			st = "violated"
		}
		r.Obs = append(r.Obs, &Obligation{Rule: rule, base: rule + "|vacuity", Key: rule + "|vacuity|#0", Pos: "-", Status: st,
			Reason: fmt.Sprintf("rule matched %d instance(s), at least %d expected (a rule that matches nothing passes vacuously)", per[rule], n)})
	}
	known, kerr := loadKnown(filepath.Join(verifDir, "known_findings.json"))
	if kerr != nil {
		r.Obs = append(r.Obs, &Obligation{Rule: "engine", Key: "engine|known_findings.json", Pos: "-", Status: "violated", Reason: "cannot read known_findings.json: " + kerr.Error()})
	}
	kf := map[string]knownFinding{}
	for _, k := range known {
		if k.Property == r.Prop && k.Status == "known" {
			kf[k.Rule+"\x00"+k.Key] = k
		}
	}
	var viol, knownHits []*Obligation
	discharged := 0
	type rs struct {
		Instances, Discharged, Violated, Known, Assumed int
	}
	perRule := map[string]*rs{}
	for _, o := range r.Obs {
		if perRule[o.Rule] == nil {
			perRule[o.Rule] = &rs{}
		}
		pr := perRule[o.Rule]
		pr.Instances++
		switch o.Status {
		case "violated":
			// an obligation of an additional build configuration ("R08a@linux/386|...") is the same
			// construct as the host configuration's: known findings are keyed without the suffix
			mr, mk := o.Rule, o.Key
			if at := strings.Index(mr, "@"); at >= 0 {
				mk = strings.Replace(mk, mr, mr[:at], 1)
				mr = mr[:at]
			}
			if k, ok := kf[mr+"\x00"+mk]; ok {
				o.Status = "known-finding"
				o.Reason += " [known finding: " + k.Witness + "]"
				knownHits = append(knownHits, o)
				pr.Known++
			} else {
				viol = append(viol, o)
				pr.Violated++
			}
		case "assumed-reviewed":
			pr.Assumed++
			discharged++
		default:
			pr.Discharged++
			discharged++
		}
	}
	// output
	for _, o := range knownHits {
		fmt.Printf("KNOWN-FINDING: property=%s rule=%s %s at %s: %s\n", r.Prop, o.Rule, o.Key, o.Pos, o.Reason)
	}
	replay := ""
	if len(viol) > 0 {
		dir := filepath.Join(verifDir, "evidence", "replay")
		os.MkdirAll(dir, 0o755)
		replay = filepath.Join(dir, r.Prop+".json")
		b, _ := json.MarshalIndent(viol, "", " ")
		os.WriteFile(replay, b, 0o644)
		for _, o := range viol {
			fmt.Printf("  violated %s at %s\n    key: %s\n    %s\n", o.Rule, o.Pos, o.Key, o.Reason)
		}
		fmt.Printf("VIOLATION property=%s replay=%s\n", r.Prop, replay)
	}
	// evidence
	var samples []any
	step := 1
	if len(r.Obs) > 8 {
		step = len(r.Obs) / 8
	}
	for i := 0; i < len(r.Obs) && len(samples) < 8; i += step {
		samples = append(samples, r.Obs[i])
	}
	for _, o := range append(append([]*Obligation{}, viol...), knownHits...) {
		if len(samples) < 16 {
			samples = append(samples, o)
		}
	}
	funcs := []string{}
	for f := range r.Funcs {
		funcs = append(funcs, f)
	}
	sort.Strings(funcs)
	cov := map[string]any{
		"explanation":        r.Explanation + " NOT DECIDED: " + r.NotDecided,
		"obligations":        len(r.Obs),
		"discharged":         discharged,
		"known_findings":     len(knownHits),
		"violated":           len(viol),
		"per_rule":           perRule,
		"functions_analysed": funcs,
		"build_configs":      r.Configs,
		"packages":           r.Packages,
		"samples":            samples,
		"checker_cmd":        fmt.Sprintf("./check %s %s", r.Prop, r.Tier),
		"trusted_base":       append([]string{"go/types and go/ssa (golang.org/x/tools v0.50.0) faithfully represent the source", "go1.26.8 toolchain loader (go list)"}, r.Trusted...),
		"exhaustive":         false,
	}
	for k, v := range r.Extra {
		cov[k] = v
	}
	ev := map[string]any{
		"property_id": r.Prop,
		"tier":        r.Tier,
		"seed":        seed,
		"level":       "other",
		"coverage":    cov,
		"assumptions": append([]string{"structural clause only: the behavioural property itself is not proved (see explanation)"}, r.Assumptions...),
		"wall_s":      time.Since(start).Seconds(),
		"violations":  len(viol),
	}
	os.MkdirAll(filepath.Join(verifDir, "evidence"), 0o755)
	b, _ := json.MarshalIndent(ev, "", " ")
	if err := os.WriteFile(filepath.Join(verifDir, "evidence", r.Prop+".json"), b, 0o644); err != nil {
		fmt.Println("cannot write evidence:", err)
		return 1
	}
	fmt.Printf("%s %s: %d obligations, %d discharged, %d known findings, %d violated (%d functions, %.1fs)\n",
		r.Prop, r.Tier, len(r.Obs), discharged, len(knownHits), len(viol), len(funcs), time.Since(start).Seconds())
	if len(viol) > 0 {
		return 1
	}
	return 0
}

func posLess(a, b string) bool {
	pa, pb := strings.Split(a, ":"), strings.Split(b, ":")
	if pa[0] != pb[0] {
		return pa[0] < pb[0]
	}
	for i := 1; i < 3; i++ {
		var x, y int
		if i < len(pa) {
			fmt.Sscan(pa[i], &x)
		}
		if i < len(pb) {
			fmt.Sscan(pb[i], &y)
		}
		if x != y {
			return x < y
		}
	}
	return false
}

// Retag marks an obligation as belonging to an additional build configuration.
func (o *Obligation) Retag(cfg string) {
	o.base = strings.Replace(o.base, o.Rule+"|", o.Rule+"@"+cfg+"|", 1)
	o.Rule = o.Rule + "@" + cfg
}
