#!/usr/bin/env python3
"""prints the properties whose rules read the files touched by a patch"""
import sys,re
m={'pipe.go':'C01 C02 C03 C04 C05 C06 C07 C08 C09 C11 C12 C14 C24 C25 C26 C27 C28 C29 C33 C47',
 'ring.go':'C01 C02 C05','flowbuffer.go':'C01 C02 C05','pool.go':'C05 C24 C25 C29','lru.go':'C06 C07 C08 C09 C10 C11',
 'cache.go':'C06 C07 C08 C09','cluster.go':'C03 C11 C19 C20 C21 C25 C26 C28 C33','client.go':'C03 C25 C28 C33',
 'retry.go':'C05 C28','mux.go':'C04 C11 C24 C25 C29','sentinel.go':'C03 C21 C23 C28 C47','standalone.go':'C03 C21 C28 C33',
 'resp.go':'C12 C13 C14 C29','message.go':'C15 C16 C17','helper.go':'C11 C22 C31 C46 C16','pubsub.go':'C26','url.go':'C44','rueidis.go':'C44 C47 C03','singleflight.go':'C19 C03','syncp.go':'C01 C33',
 'binary.go':'C45','lua.go':'C30','internal/cmds/cmds.go':'C08 C14 C18 C32 C33','internal/cmds/builder.go':'C18 C32 C33','internal/cmds/slot.go':'C18'}
props=set(); unknown=False
for l in open(sys.argv[1]):
    g=re.match(r'\+\+\+ b/(.*)',l)
    if g:
        f=g.group(1).strip()
        if f.endswith('_test.go'): continue
        pref={'rueidiscompat/':'C41 C42','rueidisprob/':'C35 C36 C37','rueidislimiter/':'C38','rueidisaside/':'C39','om/':'C40','rueidishook/':'C43','rueidislock/':'C34','internal/cmds/gen_':'C18 C32 C33','internal/util/':'C01 C14 C33'}
        hit=[v for k,v in pref.items() if f.startswith(k)]
        if f in m: props|=set(m[f].split())
        elif hit: props|=set(hit[0].split())
        else: unknown=True
# a file the table does not know: print nothing, the caller then runs every property
print('' if unknown else ' '.join(sorted(props)))
